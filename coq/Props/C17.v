(** C17 — A panic in user code never leads to double drops or invalid memory.
    Property theorems only; proofs are in Proofs/PhysFacts.v.
    Cell-level model of the column store (Model/Phys.v): [fault = Some k] makes the
    k-th Drop callback of an operation panic; the operation stops where the code is
    unwound, leaving the raw parts and the shared length as they are at that moment;
    the world is dropped afterwards.  Proved safe: dropping a world, overwriting a
    component (Entry::add on a present component, writes through &mut views, resource
    writes), clear (finding F8b, repaired), remove (finding F8a, repaired).
    PARTIAL: clone_from (findings F8c and F11, repaired), clone, serialization, equality, Debug, the shape
    changes of Entry::add/remove and system bodies have no fault model here; they are
    judged by fault injection on the real code (every callback kind, every position). *)
From Brood Require Import Base World Multi Phys BaseFacts PhysFacts.

(** A panic in any Drop while the world is being dropped: the rest of that column is
    still dropped, later columns are leaked, nothing is dropped twice. *)
Theorem C17_world_drop : forall a f, Clean a -> double_drops (fst (p_drop_arch a f)) = [].
Proof. intros a f H. exact (drop_clean_no_double a f H). Qed.
Check (C17_world_drop : forall a f, Clean a -> double_drops (fst (p_drop_arch a f)) = []).
Print Assumptions C17_world_drop.

(** A panic in the Drop of an overwritten value: the new value is in place, the store is
    clean, and dropping the world later (with or without a further panic) drops nothing twice. *)
Theorem C17_overwrite : forall a r c v f a' evs p f', Clean a -> p_set a r c v f = Some (a', evs, p) ->
  double_drops evs = [] /\ double_drops (fst (p_drop_arch a' f')) = [].
Proof.
  intros a r c v f a' evs p f' HC H. destruct (set_keeps_clean a r c v f a' evs p HC H) as [HC' D].
  split; [exact D|]. exact (drop_clean_no_double a' f' HC').
Qed.
Check (C17_overwrite : forall a r c v f a' evs p f', Clean a -> p_set a r c v f = Some (a', evs, p) ->
  double_drops evs = [] /\ double_drops (fst (p_drop_arch a' f')) = []).
Print Assumptions C17_overwrite.

(** A panic in any Drop during [remove] (World::remove): the row has left every column, the identifier
    column and the shared length before the first Drop runs, so the archetype is clean and one row shorter
    whatever callback panics, and nothing is dropped twice then or when the world is dropped.  This is
    finding F8a REPAIRED; both orderings are read off the source ([fact_remove_defers_drops],
    [fact_remove_decrements_length_first]). *)
Theorem C17_remove : forall a i f f' a' evs p, Clean a -> p_remove_row a i f = Some (a', evs, p) ->
  Clean a' /\ pa_len a' = pa_len a - 1 /\ double_drops evs = [] /\ double_drops (fst (p_drop_arch a' f')) = [].
Proof. exact remove_fault_safe_src. Qed.
Check (C17_remove : forall a i f f' a' evs p, Clean a -> p_remove_row a i f = Some (a', evs, p) ->
  Clean a' /\ pa_len a' = pa_len a - 1 /\ double_drops evs = [] /\ double_drops (fst (p_drop_arch a' f')) = []).
Print Assumptions C17_remove.

(** the hypothesis is met: a removal with a panicking Drop does return a state *)
Example C17_remove_nonvacuous :
  exists a' evs, p_remove_row w_arch 0 (Some 0) = Some (a', evs, true) /\ pa_len a' = 2.
Proof. vm_compute. eauto. Qed.

(** ... as it was before the repair (finding F8a, class K17a): values dropped column by column, the length
    written last: the moved last cell is dropped a second time when the world is dropped. *)
Theorem C17_remove_F8a_before_the_repair :
  exists a i k, Clean a /\
    match p_remove_row_gen false false a i (Some k) with
    | Some (a', _, unwound) => unwound = true /\ double_drops (fst (p_drop_arch a' None)) <> []
    | None => False
    end.
Proof.
  exists w_arch, 0, 0. split.
  - split; [reflexivity|]. intros col [<-|[<-|[]]] r Hr; cbn in Hr;
      destruct r as [|[|[|r]]]; try lia; cbn; eauto.
  - pose proof remove_fault_double_drop as H. destruct (p_remove_row_gen false false w_arch 0 (Some 0)) as [[[a' e] u]|]; [|exact H].
    destruct H as [H1 H2]. split; [exact H1|]. rewrite H2. discriminate.
Qed.
Print Assumptions C17_remove_F8a_before_the_repair.

(** A panic in any Drop during [clear] (World::clear, and the clearing of a destination-only archetype by
    clone_from): the archetype is left empty, the values not dropped yet are leaked, nothing is dropped
    twice then or when the world is dropped.  This is finding F8b REPAIRED: the shared length is set
    before the components are dropped, which is read off the source ([fact_clear_sets_length_first]). *)
Theorem C17_clear : forall a f f', Clean a ->
  let '(a', evs, _) := p_clear a f in
  pa_len a' = 0 /\ double_drops evs = [] /\ double_drops (fst (p_drop_arch a' f')) = [].
Proof. exact clear_fault_safe_src. Qed.
Check (C17_clear : forall a f f', Clean a ->
  let '(a', evs, _) := p_clear a f in
  pa_len a' = 0 /\ double_drops evs = [] /\ double_drops (fst (p_drop_arch a' f')) = []).
Print Assumptions C17_clear.

(** ... as it was before the repair (length written last): the emptied column is dropped again. *)
Theorem C17_clear_F8b_before_the_repair :
  exists a k, Clean a /\
    let '(a', _, unwound) := p_clear_gen false a (Some k) in
    unwound = true /\ double_drops (fst (p_drop_arch a' None)) <> [].
Proof.
  exists w_arch, 1. split.
  - split; [reflexivity|]. intros col [<-|[<-|[]]] r Hr; cbn in Hr;
      destruct r as [|[|[|r]]]; try lia; cbn; eauto.
  - pose proof clear_fault_double_drop as H. destruct (p_clear_gen false w_arch (Some 1)) as [[a' e] u].
    destruct H as [H1 H2]. split; [exact H1|]. rewrite H2. discriminate.
Qed.
Print Assumptions C17_clear_F8b_before_the_repair.
