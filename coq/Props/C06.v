(** C06 — Serialize then deserialize reproduces the world exactly.
    Property theorems only; proofs are in Proofs/SerdeL.v, Proofs/CloneEq.v.
    This file states the round trip over the serialized *content*
    ([sworld]: archetypes with identifiers and values, allocator length and
    free list with generations, resources), which is what both encodings carry. *)
From Coq Require Import Permutation.
From Brood Require Import Base World Multi Spec BaseFacts Inv CloneEq SerdeL SerdeC BytesRoundtrip ClearOrderFacts.

(** Every reachable world serializes, and deserializing gives back the same
    archetypes, allocator, length and resources (only the type-id cache is
    empty), which is a valid world that compares equal to the original. *)
Theorem C06_roundtrip : forall w, Inv w ->
  exists s w', ser_world w = Some s /\ de_world (w_n w) s = inr w' /\
    w' = mkWorld (w_n w) (w_archs w) [] (w_slots w) (w_free w) (w_len w) (w_res w) /\
    Inv w' /\ world_eqb w w' = true /\ feq (absf w) (absf w').
Proof.
  intros w HI. destruct (ser_world w) as [s|] eqn:E.
  2:{ exfalso. exact (ser_world_safe HI E). }
  pose proof (de_ser_roundtrip HI E) as R.
  exists s. eexists. split; [reflexivity|]. split; [exact R|]. split; [reflexivity|].
  pose proof (de_world_inv _ _ R) as HI'.
  split; [exact HI'|].
  pose proof (world_eqb_tid w [] HI) as Heq.
  split; [exact Heq|].
  exact (proj1 (world_eqb_sound _ _ HI HI' Heq)).
Qed.
Check (C06_roundtrip : forall w, Inv w ->
  exists s w', ser_world w = Some s /\ de_world (w_n w) s = inr w' /\
    w' = mkWorld (w_n w) (w_archs w) [] (w_slots w) (w_free w) (w_len w) (w_res w) /\
    Inv w' /\ world_eqb w w' = true /\ feq (absf w) (absf w')).
Print Assumptions C06_roundtrip.

(** A world that was itself deserialized (from any accepted content) still serializes. *)
Theorem C06_again : forall n s w, de_world n s = inr w -> ser_world w <> None.
Proof. intros n s w E. apply ser_world_safe. exact (de_world_inv _ _ E). Qed.
Check (C06_again : forall n s w, de_world n s = inr w -> ser_world w <> None).
Print Assumptions C06_again.

(** Non-vacuity: a world with a freed and a reused slot round-trips. *)
Example C06_example :
  match run (empty_world 2 [7%N])
            [Insert [(0, 5%N)]; Insert [(1, 6%N); (0, 9%N)]; Remove (0, 0%N); Insert [(1, 8%N)];
             Remove (1, 0%N)] with
  | Some w => match ser_world w with
              | Some s => match de_world 2 s with
                          | inr w' => world_eqb w w' = true /\ w_free w' = [1] /\ w_len w' = 1
                          | inl _ => False
                          end
              | None => False
              end
  | None => False
  end.
Proof. vm_compute. auto. Qed.

(** "From then on behaves identically … same identifiers issued": the one operation whose outcome used to
    depend on the order of the (address-keyed) archetype table is [clear], which frees the identifiers in the
    order it visits the archetypes.  With the archetypes visited in the order of their identifiers' bytes —
    read off the source, [fact_clear_visits_in_identifier_order]; finding F6 repaired — the outcome is the same
    for every order of the table, for every registry size. *)
Theorem C06_clear_independent_of_table_order : forall w v1 v2, Permutation v1 v2 ->
  (forall sh, In sh v1 -> length sh = w_n w) -> step w (Clear v1) = step w (Clear v2).
Proof. exact clear_independent_of_table_order. Qed.
Check (C06_clear_independent_of_table_order : forall w v1 v2, Permutation v1 v2 ->
  (forall sh, In sh v1 -> length sh = w_n w) -> step w (Clear v1) = step w (Clear v2)).
Print Assumptions C06_clear_independent_of_table_order.

(** ... as it was before the repair: the same two archetypes in the two possible table orders *)
Theorem C06_F6_before_the_repair :
  let w := {| w_n := 2; w_archs := [mkArch [true; false] [((0, 0%N), [7%N])]; mkArch [false; true] [((1, 0%N), [8%N])]];
              w_tid := []; w_slots := [mkSlot 0 (Some ([true; false], 0)); mkSlot 0 (Some ([false; true], 0))];
              w_free := []; w_len := 2; w_res := [] |} in
  match do_clear w [[true; false]; [false; true]], do_clear w [[false; true]; [true; false]] with
  | Some (w1, _, _), Some (w2, _, _) => w_free w1 = [0; 1] /\ w_free w2 = [1; 0]
  | _, _ => False
  end.
Proof. exact table_order_mattered. Qed.
Print Assumptions C06_F6_before_the_repair.

(** The identifier bytes the serializer writes decode to the shape they were written for, for EVERY registry
    size (the per-byte step is the finite table of the 256 patterns of eight bits, lifted to every shape). *)
Theorem C06_identifier_bytes_roundtrip : forall sh, shape_of_bytes (length sh) (bytes_of_shape sh) = sh.
Proof. exact shape_of_bytes_of_shape. Qed.
Check (C06_identifier_bytes_roundtrip : forall sh, shape_of_bytes (length sh) (bytes_of_shape sh) = sh).
Print Assumptions C06_identifier_bytes_roundtrip.
