(** Preservation of the structural invariant [Inv] (and UB-freedom) by the
    operations that allocate or only touch the archetype table:
    insert, extend, reserve, shrink_to_fit and resource assignment. *)
From Brood Require Import Base World BaseFacts Inv.

(** * Small list facts *)

Lemma nth_error_seq_lt s n k : k < n -> nth_error (seq s n) k = Some (s + k).
Proof.
  revert s k. induction n as [|n IH]; intros s k Hk; [lia|].
  destruct k as [|k]; cbn [seq nth_error].
  - f_equal; lia.
  - rewrite IH by lia. f_equal; lia.
Qed.

Lemma map_add_seq a s n : map (fun k => a + k) (seq s n) = seq (a + s) n.
Proof.
  revert s. induction n as [|n IH]; intros s; cbn [seq map]; auto.
  rewrite IH. f_equal. f_equal. lia.
Qed.

Lemma nth_error_map_some A B (f : A -> B) l k y :
  nth_error (map f l) k = Some y -> exists x, nth_error l k = Some x /\ f x = y.
Proof.
  rewrite nth_error_map. destruct (nth_error l k) as [x|]; cbn; intros H; [|discriminate].
  inversion H; eauto.
Qed.

Lemma map_fst_combine A B (l1 : list A) (l2 : list B) :
  length l1 = length l2 -> map fst (combine l1 l2) = l1.
Proof.
  revert l2. induction l1 as [|x t IH]; intros [|y u] H; cbn in *; auto; try discriminate.
  f_equal. apply IH. lia.
Qed.

Lemma NoDup_map_filter A B (f : A -> B) p (l : list A) :
  NoDup (map f l) -> NoDup (map f (filter p l)).
Proof.
  induction l as [|x t IH]; cbn [map filter]; intros ND; auto.
  inversion ND as [|? ? Hnin ND']; subst.
  destruct (p x); cbn [map]; auto.
  constructor; auto.
  intros HI. apply Hnin. apply in_map_iff in HI as [y [Hy1 Hy2]].
  apply filter_In in Hy2 as [Hy2 _]. apply in_map_iff; eauto.
Qed.

(** * Shapes and canonical values *)

Lemma shape_of_length n cs : length (shape_of n cs) = n.
Proof. unfold shape_of. rewrite map_length, seq_length. reflexivity. Qed.

Lemma count_true_cons b s :
  count_true (b :: s) = if b then S (count_true s) else count_true s.
Proof. unfold count_true. cbn [filter]. destruct b; reflexivity. Qed.

Lemma bits_on_length_gen s off :
  length (filter (fun k => nth (k - off) s false) (seq off (length s))) = count_true s.
Proof.
  revert off. induction s as [|b t IH]; intros off.
  - reflexivity.
  - cbn [length seq filter]. rewrite Nat.sub_diag.
    change (nth 0 (b :: t) false) with b.
    rewrite count_true_cons.
    assert (E : filter (fun k => nth (k - off) (b :: t) false) (seq (S off) (length t))
                = filter (fun k => nth (k - S off) t false) (seq (S off) (length t))).
    { apply filter_ext_in. intros k Hk. apply in_seq in Hk.
      replace (k - off) with (S (k - S off)) by lia. reflexivity. }
    rewrite E. destruct b; cbn [length]; rewrite IH; reflexivity.
Qed.

Lemma bits_on_length s : length (bits_on s) = count_true s.
Proof.
  unfold bits_on, get_bit. rewrite <- (bits_on_length_gen s 0).
  f_equal. apply filter_ext. intros k. rewrite Nat.sub_0_r. reflexivity.
Qed.

Lemma canon_vals_length sh ent : length (canon_vals sh ent) = count_true sh.
Proof. unfold canon_vals. rewrite map_length. apply bits_on_length. Qed.

(** * Archetype table: more finite-map facts *)

Lemma find_arch_cons sh b t :
  find_arch sh (b :: t) = if shape_eqb (a_shape b) sh then Some b else find_arch sh t.
Proof. reflexivity. Qed.

Lemma find_arch_filter p archs sh :
  NoDup (map a_shape archs) ->
  find_arch sh (filter p archs) =
  match find_arch sh archs with
  | Some a => if p a then Some a else None
  | None => None
  end.
Proof.
  induction archs as [|b t IH]; intros ND; [reflexivity|].
  cbn [map] in ND. inversion ND as [|? ? Hnin ND']; subst.
  cbn [filter]. rewrite (find_arch_cons sh b t).
  destruct (p b) eqn:Ep.
  - rewrite find_arch_cons.
    destruct (shape_eqb (a_shape b) sh) eqn:Es.
    + rewrite Ep. reflexivity.
    + apply IH; auto.
  - rewrite IH by auto.
    destruct (shape_eqb (a_shape b) sh) eqn:Es.
    + apply shape_eqb_eq in Es. subst sh.
      apply find_arch_None in Hnin. rewrite Hnin, Ep. reflexivity.
    + reflexivity.
Qed.

Lemma total_rows_filter_nonempty archs :
  total_rows (filter (fun a => negb (is_nil (a_rows a))) archs) = total_rows archs.
Proof.
  induction archs as [|b t IH]; [reflexivity|].
  cbn [filter]. rewrite total_rows_cons.
  destruct (a_rows b) as [|rw rows] eqn:Er; cbn [is_nil negb].
  - rewrite IH. reflexivity.
  - rewrite total_rows_cons, IH, Er. reflexivity.
Qed.

(** * Worlds *)

Lemma with_store_id w :
  with_store w (w_archs w) (w_tid w) (w_slots w) (w_free w) (w_len w) = w.
Proof. destruct w; reflexivity. Qed.

(** * [ensure_for_entity] *)

Lemma ensure_for_entity_inv w sh :
  Inv w -> length sh = w_n w ->
  exists archs1 tid1 a,
    ensure_for_entity sh (w_archs w) (w_tid w) = Some (archs1, tid1) /\
    find_arch sh archs1 = Some a /\
    Inv (with_store w archs1 tid1 (w_slots w) (w_free w) (w_len w)).
Proof.
  intros HI Hlen. unfold ensure_for_entity.
  destruct (mem_shape sh (w_tid w)) eqn:Em.
  - apply mem_shape_In in Em. destruct (inv_tid HI sh Em) as [a Ha].
    rewrite Ha. exists (w_archs w), (w_tid w), a. split; [reflexivity|]. split; auto.
    rewrite with_store_id. exact HI.
  - assert (Hex : exists a, find_arch sh (ensure_arch sh (w_archs w)) = Some a).
    { rewrite find_ensure_arch. destruct (find_arch sh (w_archs w)); eauto.
      rewrite shape_eqb_refl. eauto. }
    destruct Hex as [a Ha].
    exists (ensure_arch sh (w_archs w)), (sh :: w_tid w), a.
    split; [reflexivity|]. split; auto.
    constructor; cbn [with_store w_n w_archs w_tid w_slots w_free w_len].
    + intros b Hb. apply In_ensure_arch in Hb as [Hb| ->].
      * apply (inv_shapes HI); auto.
      * cbn. split; auto. intros rw [].
    + apply ensure_arch_nodup. apply (inv_nodup HI).
    + intros i g sh' r Hs.
      destruct (@inv_fwd _ HI _ _ _ _ Hs) as (b & vals & Hb1 & Hb2).
      exists b, vals. split; auto. rewrite find_ensure_arch, Hb1. reflexivity.
    + intros sh' b r i g vals Hf Hr. rewrite find_ensure_arch in Hf.
      destruct (find_arch sh' (w_archs w)) as [b'|] eqn:Eb.
      * inversion Hf; subst b'. eapply (inv_bwd HI); eauto.
      * destruct (shape_eqb sh sh'); [|discriminate].
        inversion Hf; subst b. cbn in Hr. destruct r; discriminate.
    + apply (inv_free_nodup HI).
    + apply (inv_free HI).
    + rewrite total_rows_ensure_arch. apply (inv_len HI).
    + intros sh' [<-|Hin]; eauto.
      destruct (inv_tid HI sh' Hin) as [b Hb]. exists b.
      rewrite find_ensure_arch, Hb. reflexivity.
Qed.
