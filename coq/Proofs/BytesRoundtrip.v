(** Identifier bytes determine the shape, for every registry size: [shape_of_bytes (length sh) (bytes_of_shape sh) = sh].
    The per-byte step is a finite table (the 256 patterns of eight bits), lifted to every shape. *)
From Brood Require Import Base World BaseFacts SerdeC SerdeCFacts.
From Coq Require Import ZArith Lia ZifyBool ZifyNat ZifyN.
Ltac Zify.zify_post_hook ::= Z.div_mod_to_equations.

Definition byte_of (l : list bool) : N :=
  fold_right (fun i acc => (if nth i l false then N.shiftl 1 (N.of_nat i) else 0) + acc)%N 0%N (seq 0 8).

Definition byte_ok (l : list bool) : bool :=
  forallb (fun i => Bool.eqb (N.testbit (byte_of l) (N.of_nat i)) (nth i l false)) (seq 0 8).

Lemma byte_table : forallb byte_ok (all_shapes 8) = true.
Proof. vm_compute. reflexivity. Qed.

Lemma byte_of_bit l i : length l = 8 -> i < 8 -> N.testbit (byte_of l) (N.of_nat i) = nth i l false.
Proof.
  intros HL Hi. pose proof byte_table as T. rewrite forallb_forall in T.
  pose proof (in_all_shapes l) as Hin. rewrite HL in Hin. specialize (T l Hin).
  unfold byte_ok in T. rewrite forallb_forall in T. specialize (T i ltac:(apply in_seq; lia)).
  apply Bool.eqb_prop in T. exact T.
Qed.

Lemma fold_add_ext (f g : nat -> N) l : (forall i, In i l -> f i = g i) ->
  fold_right (fun i acc => (f i + acc)%N) 0%N l = fold_right (fun i acc => (g i + acc)%N) 0%N l.
Proof.
  induction l as [|x t IH]; intros H; cbn; [reflexivity|].
  rewrite (H x (or_introl eq_refl)), IH; [reflexivity|]. intros i Hi. apply H. right. exact Hi.
Qed.

Definition window (sh : shape) (j : nat) : list bool := map (fun i => nth (8 * j + i) sh false) (seq 0 8).

Lemma nth_map_seq_lt {A} (F : nat -> A) (d : A) : forall m s j, j < m -> nth j (map F (seq s m)) d = F (s + j).
Proof.
  induction m as [|m IH]; intros s j Hj; [lia|]. cbn [seq map]. destruct j as [|j]; cbn [nth].
  - f_equal. lia.
  - rewrite IH by lia. f_equal. lia.
Qed.

Lemma window_nth sh j i : i < 8 -> nth i (window sh j) false = nth (8 * j + i) sh false.
Proof. intros Hi. unfold window. rewrite nth_map_seq_lt by exact Hi. reflexivity. Qed.

Lemma byte_is_byte_of sh j :
  fold_right (fun i acc => (if nth (8 * j + i) sh false then N.shiftl 1 (N.of_nat i) else 0) + acc)%N 0%N (seq 0 8)
  = byte_of (window sh j).
Proof.
  unfold byte_of.
  apply (fold_add_ext (fun i => if nth (8 * j + i) sh false then N.shiftl 1 (N.of_nat i) else 0%N)
                      (fun i => if nth i (window sh j) false then N.shiftl 1 (N.of_nat i) else 0%N)).
  intros i Hi. apply in_seq in Hi. rewrite window_nth by lia. reflexivity.
Qed.

Lemma bit_of_bytes sh k : k < length sh ->
  byte_bit (nth (k / 8) (bytes_of_shape sh) 0%N) (k mod 8) = nth k sh false.
Proof.
  intros Hk. unfold bytes_of_shape.
  set (F := fun j => fold_right (fun i acc => (if nth (8 * j + i) sh false then N.shiftl 1 (N.of_nat i) else 0) + acc)%N 0%N (seq 0 8)).
  assert (Hj : k / 8 < (length sh + 7) / 8) by lia.
  rewrite nth_map_seq_lt by exact Hj. cbn [Nat.add]. unfold F. rewrite byte_is_byte_of.
  unfold byte_bit. rewrite byte_of_bit; [|unfold window; rewrite map_length, seq_length; reflexivity|lia].
  rewrite window_nth by lia. f_equal. lia.
Qed.

Lemma map_nth_seq {A} (d : A) (l : list A) : map (fun k => nth k l d) (seq 0 (length l)) = l.
Proof.
  induction l as [|x t IH]; [reflexivity|]. cbn [length seq map nth]. f_equal.
  rewrite <- seq_shift, map_map. exact IH.
Qed.

(** * for every registry size *)
Theorem shape_of_bytes_of_shape sh : shape_of_bytes (length sh) (bytes_of_shape sh) = sh.
Proof.
  unfold shape_of_bytes.
  transitivity (map (fun k => nth k sh false) (seq 0 (length sh))); [|apply map_nth_seq].
  apply map_ext_in. intros k Hk. apply in_seq in Hk. apply bit_of_bytes. lia.
Qed.
