"""Schedule engine (C07, C08, C12): runs the generated schedule family on
generated worlds through the fork/join shim (hook H2) in deterministic orders
and on real rayon pools, rebuilds the fork/join term of every run, compares it
with the Gallina model (evaluated inside Coq by vm_compute on the regenerated
decision tables), and applies the spec-side oracles to the implementation's
observations alone."""
import json
import os
import pickle
import re
import subprocess
import sys
import time
from collections import Counter, defaultdict

import common
from common import BUILD, COQ, VERIF, Infra, SplitMix, Lock, repo_hash, verif_hash, run

NSCHED = 67
TARGET_SCHED = os.path.join(BUILD, "target_sched")
FAMILY_JSON = os.path.join(BUILD, "sched_family.json")
HS = os.path.join(VERIF, "harness_sched")
NC, NR = 4, 2


# ------------------------------------------------------------------ build

def gen_family():
    run([sys.executable, os.path.join(VERIF, "tools", "gen_sched.py"), str(NSCHED), HS, FAMILY_JSON, "1"])
    return json.load(open(FAMILY_JSON))["schedules"]


def build():
    with Lock("cargo-sched"):
        fam = gen_family()
        lock_src = os.path.join(common.REPO, "Cargo.lock")
        lock_dst = os.path.join(HS, "Cargo.lock")
        if os.path.exists(lock_src) and not os.path.exists(lock_dst):
            open(lock_dst, "w").write(open(lock_src).read())
        e = common.env()
        e["CARGO_TARGET_DIR"] = TARGET_SCHED
        p = run(["cargo", "build", "--offline", "--quiet", "--bins", "--keep-going", "-j", "14"], cwd=HS, timeout=2400,
                check=False, env_=e)
        missing = [k for k in range(len(fam)) if not os.path.exists(os.path.join(TARGET_SCHED, "debug", "sched_%d" % k))]
        return fam, (p.stdout if p.returncode != 0 else None), missing


# ------------------------------------------------------------------ cases

def gen_worlds(rng, n):
    out = []
    for _ in range(n):
        na = rng.choice([1, 2, 2, 3, 4])
        masks = []
        while len(masks) < na:
            m = 1 + rng.below(15)
            if m not in masks:
                masks.append(m)
        out.append(" ".join("%d:%d" % (m, rng.choice([0, 1, 1, 2, 3])) for m in masks))
    return out


ALL_ARCHETYPES = " ".join("%d:1" % m for m in range(1, 16))      # every non-empty shape over the four components
# every shape created and emptied again (insert, remove): the tables exist and hold no rows
ALL_EMPTIED = " ".join("%d:0" % m for m in range(1, 16))
FIXED_WORLDS = ["3:1", "3:2 1:1 2:1", "15:2", "1:1 2:1 4:1 8:1", "5:1 10:1 15:1", "3:0 5:0", "3:0 5:1 6:0"]


def gen_cases(seed, tier, fam):
    rng = SplitMix(seed * 7919 + 17)
    nworlds = 3 if tier == "quick" else 12
    cases = []
    for k in range(len(fam)):
        worlds = ["", ALL_ARCHETYPES, ALL_EMPTIED] + [rng.choice(FIXED_WORLDS)] + gen_worlds(rng, nworlds)
        for spec in worlds:
            runs = [(1, 0, 4), (2, 0, 4), (3, rng.next() & 0xFFFFFFFF, 4), (0, 0, 1), (0, 0, 4)]
            if tier != "quick":
                runs += [(3, rng.next() & 0xFFFFFFFF, 4), (3, rng.next() & 0xFFFFFFFF, 4), (0, 0, 2), (0, 0, 16)]
            for mode, order, pool in runs:
                cases.append({"k": k, "mode": mode, "order": order, "pool": pool, "spec": spec})
    return cases


# ------------------------------------------------------------------ implementation side

def run_impl(cases, timeout=120):
    """Runs every case; returns a list of observation dicts aligned with cases."""
    groups = defaultdict(list)
    for i, c in enumerate(cases):
        groups[(c["k"], c["pool"])].append(i)
    obs = [None] * len(cases)
    procs = []
    for (k, pool), idxs in groups.items():
        exe = os.path.join(TARGET_SCHED, "debug", "sched_%d" % k)
        inp = "".join("run %d %d %d | %s\n" % (k, cases[i]["mode"], cases[i]["order"], cases[i]["spec"]) for i in idxs)
        procs.append((k, pool, idxs, exe, inp))
    # run with bounded parallelism
    running = []
    results = []

    def reap(block):
        for item in list(running):
            p, meta, t0 = item
            if p.poll() is None:
                if time.time() - t0 > max(timeout, 3 * len(meta[2])):
                    p.kill()
                    try:
                        out = p.stdout.read()
                    except Exception:  # noqa: BLE001
                        out = ""
                    p.wait()
                    results.append((meta, out, "timeout"))
                    running.remove(item)
                continue
            out = p.stdout.read()
            results.append((meta, out, "rc=%d" % p.returncode if p.returncode else ""))
            running.remove(item)
        if block and running:
            time.sleep(0.02)

    for meta in procs:
        while len(running) >= 8:
            reap(True)
        k, pool, idxs, exe, inp = meta
        if not os.path.exists(exe):
            results.append((meta, "", "missing-binary"))
            continue
        e = dict(os.environ)
        e["VERIF_POOL"] = str(pool)
        e["RUST_BACKTRACE"] = "0"
        p = subprocess.Popen([exe], stdin=subprocess.PIPE, stdout=subprocess.PIPE, stderr=subprocess.DEVNULL, text=True, env=e)
        try:
            p.stdin.write(inp)
            p.stdin.close()
        except BrokenPipeError:
            pass
        running.append((p, meta, time.time()))
    while running:
        reap(True)
    for (k, pool, idxs, exe, inp), out, err in results:
        blocks = [b for b in re.split(r"(?m)^(?=run )", out) if b.strip()]
        if err == "timeout":
            # the whole group ran out of time (a loaded machine, or one run that really hangs): the last block may be
            # cut short; every run without a complete block is repeated ON ITS OWN with a generous cap, and only a run
            # that does not return then is reported as not terminating
            complete = [b for b in blocks if re.search(r"(?m)^end\s*$", b)]
            blocks = complete
            for j, i in enumerate(idxs):
                if j < len(blocks):
                    continue
                c = cases[i]
                e = dict(os.environ)
                e["VERIF_POOL"] = str(pool)
                e["RUST_BACKTRACE"] = "0"
                try:
                    q = subprocess.run([exe], input="run %d %d %d | %s\n" % (k, c["mode"], c["order"], c["spec"]), stdout=subprocess.PIPE,
                                       stderr=subprocess.DEVNULL, text=True, env=e, timeout=300)
                    bs = [b for b in re.split(r"(?m)^(?=run )", q.stdout) if b.strip()]
                    obs[i] = parse_block(bs[0]) if bs else {"error": "rc=%d" % q.returncode if q.returncode else "no-output"}
                except subprocess.TimeoutExpired:
                    obs[i] = {"error": "timeout"}
        if err != "timeout":
            # a process that died on its own may also have left its last block cut short
            blocks = [b for b in blocks if re.search(r"(?m)^end\s*$", b)]
        for j, i in enumerate(idxs):
            if obs[i] is not None:
                continue
            if j < len(blocks):
                obs[i] = parse_block(blocks[j])
            else:
                obs[i] = {"error": err or "no-output"}
            if err and j >= len(blocks):
                obs[i]["error"] = err
    return obs


def parse_block(b):
    o = {"events": [], "access": [], "shapes": [], "panic": False}
    for line in b.split("\n"):
        if line.startswith("shapes"):
            o["shapes"] = line.split()[1:]
        elif line.startswith("events"):
            for t in line.split()[1:]:
                p = t.split(":")
                o["events"].append((p[0],) + tuple(int(x) for x in p[1:]))
        elif line.startswith("access"):
            for t in line.split()[1:]:
                a, b_, c = t.split(":")
                o["access"].append((int(a), b_, c == "w"))
        elif line.startswith("accs"):
            l, r = line[5:].split("|")
            o["accs"] = l.strip()
            o["refaccs"] = r.strip()
        elif line.startswith("final"):
            o["final"] = line[6:]
        elif line.startswith("ref "):
            o["ref"] = line[4:]
        elif line.startswith("panic"):
            o["panic"] = True
    return o


def tree_of_events(events):
    """-> (seq, begun Counter).  seq = list of ('L', t) | ('P', seq0, seq1)."""
    children = defaultdict(list)
    begun = Counter()
    for e in events:
        if e[0] == "F":
            children[(e[2], e[3])].append(("J", e[1]))
        elif e[0] == "M" and e[1] % 2 == 0:
            children[(e[2], e[3])].append(("L", e[1] // 2))
            begun[e[1] // 2] += 1

    def seq(parent, side):
        out = []
        for kind, x in children.get((parent, side), []):
            if kind == "L":
                out.append(("L", x))
            else:
                out.append(("P", seq(x, 0), seq(x, 1)))
        return out
    return seq(0, 0), begun


def leaves(seq):
    out = []
    for it in seq:
        if it[0] == "L":
            out.append(it[1])
        else:
            out += leaves(it[1]) + leaves(it[2])
    return out


def par_pairs(seq):
    out = []
    for it in seq:
        if it[0] == "P":
            for x in leaves(it[1]):
                for y in leaves(it[2]):
                    out.append((x, y))
            out += par_pairs(it[1]) + par_pairs(it[2])
    return out


def show(seq):
    return "[" + " ".join(str(it[1]) if it[0] == "L" else "P(%s|%s)" % (show(it[1]), show(it[2])) for it in seq) + "]"


# ------------------------------------------------------------------ spec side (independent of the model)

def task_footprint(t):
    comp = {}
    for k, c in t["views"] + t["entry"]:
        if k == "id":
            continue
        mut = k in ("m", "om")
        comp[c] = comp.get(c, False) or mut
    res = {i: m for m, i in t["res"]}
    return comp, res


def static_conflict(a, b):
    ca, ra = task_footprint(a)
    cb, rb = task_footprint(b)
    for c in ca:
        if c in cb and (ca[c] or cb[c]):
            return True
    for i in ra:
        if i in rb and (ra[i] or rb[i]):
            return True
    return False


def greedy_groups(sched):
    groups, cur = [], []
    for i, t in enumerate(sched):
        if any(static_conflict(t, sched[j]) for j in cur):
            groups.append(cur)
            cur = [i]
        else:
            cur.append(i)
    if cur:
        groups.append(cur)
    return groups


def oracle(case, ob, sched):
    """-> list of (prop, msg) established from the implementation's observations alone."""
    fails = []
    if ob is None or "error" in ob:
        err = (ob or {}).get("error", "no-output")
        if err == "timeout":
            fails.append(("C12", "run_schedule did not return within the cap (pool %d, mode %d)" % (case["pool"], case["mode"])))
        else:
            fails.append(("*", "harness run failed: %s" % err))
        return fails
    if ob["panic"]:
        fails.append(("C07", "run_schedule panicked"))
        return fails
    seq, begun = tree_of_events(ob["events"])
    n = len(sched)
    for t in range(n):
        if begun[t] != 1:
            fails.append(("C07", "task %d ran %d times" % (t, begun[t])))
    if ob.get("accs") != ob.get("refaccs") or ob.get("final") != ob.get("ref"):
        if any(t_.get("par") for t_ in sched):
            fails.append(("C09", "a schedule with a parallel system ends in a state different from the one its tasks produce one by one "
                                 "(the outcome of a parallel system must equal that of its sequential counterpart): final %s vs %s"
                          % (ob.get("final"), ob.get("ref"))))
        fails.append(("C07", "result differs from the sequential run: accs %s vs %s; final %s vs %s"
                      % (ob.get("accs"), ob.get("refaccs"), ob.get("final"), ob.get("ref"))))
    # C15: what the systems' resource views left behind is what the sequential run leaves

    def _res(x):
        return x.rsplit(" res=", 1)[1] if isinstance(x, str) and " res=" in x else None
    if _res(ob.get("final")) != _res(ob.get("ref")):
        fails.append(("C15", "resources after run_schedule differ from those after the sequential run (a write through a system's "
                             "resource view was lost or misplaced): %s vs %s" % (_res(ob.get("final")), _res(ob.get("ref")))))
    # ... and what each system SAW through its resource views is what it sees in the sequential run (a write through
    # one view is visible through all others afterwards): the accumulators of the tasks that view resources
    try:
        a1 = [int(x) for x in re.findall(r"\d+", ob.get("accs") or "")]
        a2 = [int(x) for x in re.findall(r"\d+", ob.get("refaccs") or "")]
    except Exception:  # noqa: BLE001
        a1 = a2 = []
    if len(a1) == len(a2) == n:
        for t in range(n):
            if sched[t]["res"] and a1[t] != a2[t]:
                fails.append(("C15", "task %d views resources %s and observed something else than in the sequential run "
                                     "(accumulator %d vs %d)" % (t, sched[t]["res"], a1[t], a2[t])))
                break
    # C08: tasks under the two sides of one join must not share a written address
    touched = defaultdict(lambda: defaultdict(bool))
    for t, addr, w in ob["access"]:
        touched[t][addr] = touched[t][addr] or w
    for x, y in par_pairs(seq):
        for addr, wx in touched[x].items():
            if addr in touched[y] and (wx or touched[y][addr]):
                fails.append(("C08", "tasks %d and %d were allowed to overlap and both reach address %s (%s/%s)"
                              % (x, y, addr, "w" if wx else "r", "w" if touched[y][addr] else "r")))
                break
    # C12 on a world without archetypes: the structure is the static staging alone
    if case["spec"].strip() == "":
        groups = greedy_groups(sched)
        pp = set(par_pairs(seq))
        for g in groups:
            for a in g:
                for b in g:
                    if a < b and (a, b) not in pp and (b, a) not in pp:
                        fails.append(("C12", "tasks %d and %d have no conflicting access and are adjacent in one greedy group "
                                             "%s but are not under a common join: %s" % (a, b, groups, show(seq))))
                        break
    return fails


# ------------------------------------------------------------------ model side (evaluated inside Coq)

KIND = {"r": "KRef", "m": "KMut", "or": "KOptRef", "om": "KOptMut"}


def coq_views(vs):
    return "[" + "; ".join("VIdent" if k == "id" else "VComp %s %d" % (KIND[k], c) for k, c in vs) + "]"


def coq_filter(f):
    if f[0] == "none":
        return "FNone"
    if f[0] == "has":
        return "(FHas %d)" % f[1]
    if f[0] == "not":
        return "(FNot %s)" % coq_filter(f[1])
    return "(%s %s %s)" % ("FAnd" if f[0] == "and" else "FOr", coq_filter(f[1]), coq_filter(f[2]))


def coq_task(t):
    res = "[" + "; ".join("(%s, %d)" % ("true" if m else "false", i) for m, i in t["res"]) + "]"
    return "(mkTask %s %s %s %s)" % (coq_views(t["views"]), coq_filter(t["filter"]), coq_views(t["entry"]), res)


def coq_shape(bits):
    return "[" + "; ".join("true" if b == "1" else "false" for b in bits) + "]"


MODEL_PRELUDE = """From Brood Require Import Base Kinds Tables Sched SchedSpec.
Fixpoint enc (t : sp) : list nat :=
  match t with
  | SNil => [0]
  | SLeaf x => [1; x]
  | SSeq a b => 2 :: enc a ++ enc b
  | SPar a b => 3 :: enc a ++ enc b
  end.
Definition encs (st : list (list nat)) : list nat := flat_map (fun s => length s :: s) st.
Definition out (r : option (list (list nat) * sp)) : list nat :=
  match r with Some (st, t) => 7 :: length st :: encs st ++ enc t | None => [9] end.
"""


def reference_coq_dir(workdir):
    """The scheduling model compiled against the COMMITTED tables (Gen/Tables.snapshot: the ones the theorems were last
    proved about) in a scratch directory.  Used only when the regenerated tables differ from them."""
    d = os.path.join(workdir, "coqsnap")
    os.makedirs(os.path.join(d, "Model"), exist_ok=True)
    os.makedirs(os.path.join(d, "Gen"), exist_ok=True)
    import shutil
    for rel in ("Model/Base.v", "Model/Kinds.v", "Model/Sched.v", "Model/SchedSpec.v"):
        shutil.copy(os.path.join(COQ, rel), os.path.join(d, rel))
    shutil.copy(os.path.join(COQ, "Gen", "Tables.snapshot"), os.path.join(d, "Gen", "Tables.v"))
    shutil.copy(os.path.join(COQ, "Gen", "Facts.snapshot"), os.path.join(d, "Gen", "Facts.v"))
    for rel in ("Model/Base.v", "Model/Kinds.v", "Gen/Tables.v", "Model/Sched.v", "Model/SchedSpec.v"):
        p = run(["timeout", "600", "coqc", "-noglob", "-Q", d, "Brood", os.path.join(d, rel)], cwd=d, check=False, timeout=660)
        if p.returncode != 0:
            return None, p.stdout[-2000:]
    return d, None


def model_eval(queries, fam, workdir, coqdir=None):
    """queries: list of (k, shapes tuple).  Returns {query: (stages, seq) | None}."""
    COQ_ = coqdir or COQ
    os.makedirs(workdir, exist_ok=True)
    path = os.path.join(workdir, "cases.v")
    with open(path, "w") as f:
        f.write(MODEL_PRELUDE)
        for k in sorted({q[0] for q in queries}):
            f.write("Definition sch%d : list task := [%s].\n" % (k, "; ".join(coq_task(t) for t in fam[k])))
        for (k, shapes) in queries:
            f.write("Eval vm_compute in out (run_schedule %d %d sch%d [%s]).\n"
                    % (NC, NR, k, "; ".join(coq_shape(s) for s in shapes)))
    with Lock("coq"):
        p = run(["timeout", "900", "coqc", "-noglob", "-Q", COQ_, "Brood", path], cwd=workdir, check=False, timeout=960)
    if p.returncode != 0:
        return None, p.stdout[-3000:]
    outs = re.findall(r"=\s*(\[[^\]]*\])\s*:\s*list nat", p.stdout)
    if len(outs) != len(queries):
        return None, "model output count %d != %d\n%s" % (len(outs), len(queries), p.stdout[-1000:])
    res = {}
    for q, o in zip(queries, outs):
        nums = [int(x) for x in re.findall(r"\d+", o)]
        res[q] = decode(nums)
    return res, None


def decode(nums):
    if not nums or nums[0] == 9:
        return None
    pos = [2]
    stages = []
    for _ in range(nums[1]):
        ln = nums[pos[0]]
        stages.append(nums[pos[0] + 1:pos[0] + 1 + ln])
        pos[0] += 1 + ln

    def dec():
        tag = nums[pos[0]]
        pos[0] += 1
        if tag == 0:
            return []
        if tag == 1:
            x = nums[pos[0]]
            pos[0] += 1
            return [("L", x)]
        a = dec()
        b = dec()
        if tag == 2:
            return a + b
        return [("P", a, b)]
    return stages, dec()


# ------------------------------------------------------------------ engine

def translator():
    """Regenerate coq/Gen/Tables.v from /repo; on a parse failure fall back to the committed snapshot."""
    out = os.path.join(COQ, "Gen", "Tables.v")
    snap = os.path.join(COQ, "Gen", "Tables.snapshot")
    p = run([sys.executable, os.path.join(VERIF, "tools", "translate.py"), out], check=False)
    status = p.stdout.strip().split("\n")[-1] if p.stdout.strip() else "parse-failed"
    if p.returncode != 0:
        if os.path.exists(snap):
            cur = open(out).read() if os.path.exists(out) else None
            s = open(snap).read()
            if cur != s:
                open(out, "w").write(s)
        return "parse-failed: " + status
    if os.path.exists(snap) and open(snap).read() != open(out).read():
        return "regenerated-changed"
    return "regenerated-identical"


def engine(seed, tier):
    # one run at a time per (seed, tier): concurrent checks share the run through the cache
    with Lock("sched-run-%s-%s" % (seed, tier)):
        return _engine(seed, tier)


def _engine(seed, tier):
    os.makedirs(os.path.join(BUILD, "cache"), exist_ok=True)
    key = "sched-%s-%s-%s-%s" % (repo_hash()[:16], verif_hash()[:16], seed, tier)
    cpath = os.path.join(BUILD, "cache", key + ".pickle")
    if os.path.exists(cpath):
        r = pickle.load(open(cpath, "rb"))
        r["cached"] = True
        return r
    t0 = time.time()
    tstatus = translator()
    ok, log = common.build_coq(["Model/SchedSpec.vo"])
    model_err = None if ok else log[-3000:]
    fam, build_err, missing = build()
    cases = gen_cases(seed, tier, fam)
    obs = run_impl(cases)
    queries = []
    for c, ob in zip(cases, obs):
        if ob and "error" not in ob:
            q = (c["k"], tuple(sorted(ob["shapes"])))
            if q not in queries:
                queries.append(q)
    model = None
    if model_err is None:
        model, model_err = model_eval(queries, fam, os.path.join(BUILD, "run", "sched-%s-%s" % (seed, tier)))
    # the tables changed: what would the run look like with the tables the theorems were proved about?
    ref_model = None
    if tstatus == "regenerated-changed":
        wd = os.path.join(BUILD, "run", "sched-%s-%s-ref" % (seed, tier))
        os.makedirs(wd, exist_ok=True)
        d, err = reference_coq_dir(wd)
        if d:
            ref_model, _ = model_eval(queries, fam, wd, coqdir=d)
    r = {"fam": fam, "cases": cases, "obs": obs, "model": model, "model_err": model_err, "build_err": build_err, "ref_model": ref_model,
         "missing": missing, "translator": tstatus, "queries": queries, "wall": time.time() - t0, "cached": False}
    with open(cpath, "wb") as f:
        pickle.dump(r, f)
    olds = sorted((os.path.getmtime(os.path.join(BUILD, "cache", x)), x) for x in os.listdir(os.path.join(BUILD, "cache"))
                  if x.startswith("sched-"))
    for _, x in olds[:-4]:
        os.remove(os.path.join(BUILD, "cache", x))
    return r
