(** Facts about the scheduling layer (proofs for C07, C08, C12). *)
From Coq Require Import Permutation.
From Brood Require Import Base Kinds Tables Sched SchedSpec BaseFacts.

Set Implicit Arguments.

(** * Claims: finite table facts, lifted to claim vectors *)

Lemma cm_le a b m : claim_merge_table a b = Some m -> claim_le a m = true /\ claim_le b m = true.
Proof. destruct a, b; cbn; intros H; inversion H; subst; auto. Qed.

Lemma cm_conflict a b : claim_conflict a b = false <-> claim_merge_table a b <> None.
Proof. destruct a, b; cbn; split; intros H; try congruence; try discriminate; exfalso; apply H; reflexivity. Qed.

Lemma cm_down x c d : claim_le d c = true -> claim_merge_table x c <> None -> claim_merge_table x d <> None.
Proof. destruct x, c, d; cbn; intros; try congruence; discriminate. Qed.

Lemma cm_lub d a b m : claim_merge_table d a <> None -> claim_merge_table d b <> None ->
  claim_merge_table a b = Some m -> claim_merge_table d m <> None.
Proof. destruct d, a, b; cbn; intros H1 H2 H3; inversion H3; subst; cbn; congruence. Qed.

Lemma cm_sym a b : claim_merge_table a b = claim_merge_table b a.
Proof. destruct a, b; reflexivity. Qed.

Lemma cm_none_l b : claim_merge_table CNone b = Some b.
Proof. destruct b; reflexivity. Qed.

Lemma claim_le_refl a : claim_le a a = true.
Proof. destruct a; reflexivity. Qed.

Lemma claim_le_trans a b c : claim_le a b = true -> claim_le b c = true -> claim_le a c = true.
Proof. destruct a, b, c; cbn; congruence. Qed.

Lemma try_merge_length : forall a b m, claims_try_merge a b = Some m -> length a = length b /\ length m = length a.
Proof.
  induction a as [|x a IH]; intros [|y b] m H; cbn in H; try discriminate.
  - inversion H; auto.
  - destruct (claim_merge_table x y) as [z|]; [|discriminate].
    destruct (claims_try_merge a b) as [r|] eqn:E; [|discriminate].
    inversion H; subst. destruct (IH b r E) as [L1 L2]. cbn. split; congruence.
Qed.

Lemma try_merge_le : forall a b m, claims_try_merge a b = Some m -> claims_le a m = true /\ claims_le b m = true.
Proof.
  induction a as [|x a IH]; intros [|y b] m H; cbn in H; try discriminate.
  - inversion H; auto.
  - destruct (claim_merge_table x y) as [z|] eqn:Ez; [|discriminate].
    destruct (claims_try_merge a b) as [r|] eqn:E; [|discriminate].
    inversion H; subst. destruct (IH b r E) as [L1 L2]. destruct (cm_le _ _ Ez) as [Z1 Z2].
    cbn. rewrite Z1, Z2, L1, L2. auto.
Qed.

Lemma claims_le_refl a : claims_le a a = true.
Proof. induction a as [|x a IH]; cbn; [reflexivity|]. rewrite claim_le_refl, IH. reflexivity. Qed.

Lemma claims_le_trans : forall a b c, claims_le a b = true -> claims_le b c = true -> claims_le a c = true.
Proof.
  induction a as [|x a IH]; intros [|y b] [|z c] H1 H2; cbn in *; try discriminate; auto.
  apply andb_true_iff in H1 as [A1 A2]. apply andb_true_iff in H2 as [B1 B2].
  rewrite (claim_le_trans _ _ _ A1 B1), (IH _ _ A2 B2). reflexivity.
Qed.

Lemma claims_le_length : forall a b, claims_le a b = true -> length a = length b.
Proof.
  induction a as [|x a IH]; intros [|y b] H; cbn in *; try discriminate; auto.
  apply andb_true_iff in H as [_ H]. f_equal. auto.
Qed.

Lemma mergeable_spec a b : mergeable a b = true <-> claims_try_merge a b <> None.
Proof. unfold mergeable. destruct (claims_try_merge a b); split; intros; congruence. Qed.

Lemma mergeable_down : forall x c d, claims_le d c = true -> mergeable x c = true -> mergeable x d = true.
Proof.
  unfold mergeable. induction x as [|a x IH]; intros [|c0 c] [|d0 d] L M; cbn in *; try discriminate; auto.
  apply andb_true_iff in L as [L1 L2].
  destruct (claim_merge_table a c0) as [z|] eqn:Ez; [|discriminate].
  destruct (claims_try_merge x c) as [r|] eqn:E; [|discriminate].
  assert (Hd : claim_merge_table a d0 <> None) by (eapply cm_down; eauto; congruence).
  destruct (claim_merge_table a d0); [|congruence].
  specialize (IH c d L2). rewrite E in IH. specialize (IH eq_refl).
  destruct (claims_try_merge x d); [reflexivity|discriminate].
Qed.

Lemma mergeable_lub : forall d a b m, mergeable d a = true -> mergeable d b = true ->
  claims_try_merge a b = Some m -> mergeable d m = true.
Proof.
  unfold mergeable. induction d as [|d0 d IH]; intros [|a0 a] [|b0 b] m H1 H2 H3; cbn in *; try discriminate.
  - inversion H3; reflexivity.
  - destruct (claim_merge_table a0 b0) as [z|] eqn:Ez; [|discriminate].
    destruct (claims_try_merge a b) as [r|] eqn:E; [|discriminate].
    inversion H3; subst m. cbn.
    destruct (claim_merge_table d0 a0) as [z1|] eqn:E1; [|discriminate].
    destruct (claim_merge_table d0 b0) as [z2|] eqn:E2; [|discriminate].
    destruct (claims_try_merge d a) as [r1|] eqn:E3; [|discriminate].
    destruct (claims_try_merge d b) as [r2|] eqn:E4; [|discriminate].
    assert (Hz : claim_merge_table d0 z <> None) by (eapply cm_lub; eauto; congruence).
    destruct (claim_merge_table d0 z); [|congruence].
    specialize (IH a b r). rewrite E3, E4 in IH. specialize (IH eq_refl eq_refl E).
    destruct (claims_try_merge d r); [reflexivity|discriminate].
Qed.

Lemma try_merge_sym : forall a b, claims_try_merge a b = claims_try_merge b a.
Proof.
  induction a as [|x a IH]; intros [|y b]; cbn; try reflexivity.
  rewrite cm_sym, IH. reflexivity.
Qed.

Lemma mergeable_sym a b : mergeable a b = mergeable b a.
Proof. unfold mergeable. rewrite try_merge_sym. reflexivity. Qed.

(** pointwise reading of [mergeable] *)
Lemma mergeable_nth : forall a b, mergeable a b = true -> forall i,
  claim_conflict (nth i a CNone) (nth i b CNone) = false.
Proof.
  unfold mergeable. induction a as [|x a IH]; intros [|y b] H i; cbn in H; try discriminate.
  - destruct i; reflexivity.
  - destruct (claim_merge_table x y) as [z|] eqn:Ez; [|discriminate].
    destruct (claims_try_merge a b) as [r|] eqn:E; [|discriminate].
    destruct i as [|i]; cbn [nth].
    + apply cm_conflict. congruence.
    + apply IH. rewrite E. reflexivity.
Qed.

Lemma mergeable_of_nth : forall a b, length a = length b ->
  (forall i, claim_conflict (nth i a CNone) (nth i b CNone) = false) -> mergeable a b = true.
Proof.
  unfold mergeable. induction a as [|x a IH]; intros [|y b] L H; cbn in *; try discriminate; auto.
  pose proof (H 0) as H0. cbn in H0. apply cm_conflict in H0.
  destruct (claim_merge_table x y); [|congruence].
  specialize (IH b ltac:(congruence) (fun i => H (S i))).
  destruct (claims_try_merge a b); [reflexivity|discriminate].
Qed.

(** * The borrowed-archetypes map *)

Lemma b_find_set_same s c b : b_find s (b_set s c b) = Some c.
Proof.
  induction b as [|[s' c'] b IH]; cbn.
  - rewrite shape_eqb_refl. reflexivity.
  - destruct (shape_eqb s' s) eqn:E; cbn.
    + rewrite shape_eqb_refl. reflexivity.
    + rewrite E. exact IH.
Qed.

Lemma b_find_set_other s s' c b : s' <> s -> b_find s' (b_set s c b) = b_find s' b.
Proof.
  intros Hne. induction b as [|[s0 c0] b IH]; cbn.
  - assert (E : shape_eqb s s' = false) by (apply shape_eqb_neq; congruence). rewrite E. reflexivity.
  - destruct (shape_eqb s0 s) eqn:E; cbn.
    + apply shape_eqb_eq in E. subst s0.
      assert (E2 : shape_eqb s s' = false) by (apply shape_eqb_neq; congruence). rewrite E2. reflexivity.
    + destruct (shape_eqb s0 s'); [reflexivity|exact IH].
Qed.

Lemma b_set_nonempty s c b : b_set s c b <> [].
Proof. destruct b as [|[s' c'] b]; cbn; [discriminate|]. destruct (shape_eqb s' s); discriminate. Qed.

Lemma mac_other : forall cl L b b' s, merge_archs_checked cl L b = Some b' -> ~ In s L -> b_find s b' = b_find s b.
Proof.
  induction L as [|s0 t IH]; intros b b' s H Hn; cbn in H.
  - inversion H; reflexivity.
  - assert (Hne : s <> s0) by (intros ->; apply Hn; left; reflexivity).
    assert (Hn' : ~ In s t) by (intros X; apply Hn; right; exact X).
    destruct (b_find s0 b) as [old|].
    + destruct (claims_try_merge cl old) as [m|]; [|discriminate].
      rewrite (IH _ _ _ H Hn'). apply b_find_set_other. exact Hne.
    + rewrite (IH _ _ _ H Hn'). apply b_find_set_other. exact Hne.
Qed.

Lemma mac_hit : forall cl L b b' s, NoDup L -> merge_archs_checked cl L b = Some b' -> In s L ->
  exists c', b_find s b' = Some c' /\
    match b_find s b with Some old => claims_try_merge cl old = Some c' | None => c' = cl end.
Proof.
  induction L as [|s0 t IH]; intros b b' s ND H Hin; [contradiction|].
  inversion ND as [|? ? Hnin ND']; subst. cbn in H.
  destruct (list_eq_dec Bool.bool_dec s s0) as [->|Hne].
  - destruct (b_find s0 b) as [old|] eqn:Eold.
    + destruct (claims_try_merge cl old) as [m|] eqn:Em; [|discriminate].
      exists m. rewrite (mac_other _ _ _ _ H Hnin), b_find_set_same. auto.
    + exists cl. rewrite (mac_other _ _ _ _ H Hnin), b_find_set_same. auto.
  - destruct Hin as [->|Hin]; [congruence|].
    destruct (b_find s0 b) as [old|] eqn:Eold.
    + destruct (claims_try_merge cl old) as [m|] eqn:Em; [|discriminate].
      destruct (IH _ _ s ND' H Hin) as (c' & F & M). exists c'. split; [exact F|].
      rewrite b_find_set_other in M by exact Hne. exact M.
    + destruct (IH _ _ s ND' H Hin) as (c' & F & M). exists c'. split; [exact F|].
      rewrite b_find_set_other in M by exact Hne. exact M.
Qed.

Lemma mac_succeeds : forall cl L b, NoDup L ->
  (forall s old, In s L -> b_find s b = Some old -> mergeable cl old = true) ->
  merge_archs_checked cl L b <> None.
Proof.
  induction L as [|s0 t IH]; intros b ND Hm; cbn; [discriminate|].
  inversion ND as [|? ? Hnin ND']; subst.
  destruct (b_find s0 b) as [old|] eqn:Eold.
  - pose proof (Hm s0 old (or_introl eq_refl) Eold) as M. unfold mergeable in M.
    destruct (claims_try_merge cl old) as [m|]; [|discriminate].
    apply IH; [exact ND'|]. intros s o Hin F.
    assert (s <> s0) by (intros ->; contradiction).
    rewrite b_find_set_other in F by assumption. eapply Hm; [right; exact Hin|exact F].
  - apply IH; [exact ND'|]. intros s o Hin F.
    assert (s <> s0) by (intros ->; contradiction).
    rewrite b_find_set_other in F by assumption. eapply Hm; [right; exact Hin|exact F].
Qed.

Lemma mac_nonempty : forall cl L b b', merge_archs_checked cl L b = Some b' -> (L <> [] \/ b <> []) -> b' <> [].
Proof.
  induction L as [|s0 t IH]; intros b b' H Hne; cbn in H.
  - inversion H; subst. destruct Hne; congruence.
  - destruct (b_find s0 b) as [old|].
    + destruct (claims_try_merge cl old) as [m|]; [|discriminate].
      eapply IH; [exact H|]. right. apply b_set_nonempty.
    + eapply IH; [exact H|]. right. apply b_set_nonempty.
Qed.

(** * Flags *)
Definition flagged (l : list nat) (hr : list bool) : list nat := map fst (filter (fun p => snd p) (combine l hr)).
Definition unflagged (l : list nat) (hr : list bool) : list nat := map fst (filter (fun p => negb (snd p)) (combine l hr)).

Lemma flagged_perm : forall l hr, length hr = length l -> Permutation (flagged l hr ++ unflagged l hr) l.
Proof.
  induction l as [|x l IH]; intros [|h hr] L; cbn in L; try discriminate; [reflexivity|].
  unfold flagged, unflagged in *. cbn [combine filter snd]. destruct h; cbn [negb map fst app].
  - constructor. apply IH. congruence.
  - eapply Permutation_trans; [apply Permutation_sym, Permutation_middle|]. constructor. apply IH. congruence.
Qed.

Lemma flagged_in l hr x : In x (flagged l hr) -> In x l.
Proof.
  unfold flagged. intros H. apply in_map_iff in H as ([a b] & <- & H). apply filter_In in H as [H _].
  apply in_combine_l in H. exact H.
Qed.

Lemma unflagged_in l hr x : In x (unflagged l hr) -> In x l.
Proof.
  unfold unflagged. intros H. apply in_map_iff in H as ([a b] & <- & H). apply filter_In in H as [H _].
  apply in_combine_l in H. exact H.
Qed.

Lemma unflagged_all_false l : unflagged l (map (fun _ => false) l) = l.
Proof. unfold unflagged. induction l as [|x l IH]; cbn; [reflexivity|]. f_equal. exact IH. Qed.

Lemma flagged_all_false l : flagged l (map (fun _ => false) l) = [].
Proof. unfold flagged. induction l as [|x l IH]; cbn; [reflexivity|]. exact IH. Qed.

Lemma flagged_unflagged_disjoint : forall l hr x, NoDup l -> In x (flagged l hr) -> In x (unflagged l hr) -> False.
Proof.
  induction l as [|a l IH]; intros [|h hr] x ND H1 H2; cbn in *; try contradiction.
  inversion ND as [|? ? Hn ND']; subst.
  unfold flagged, unflagged in *. cbn [combine filter snd] in *. destruct h; cbn [negb map fst] in *.
  - destruct H1 as [->|H1].
    + apply Hn. eapply unflagged_in. exact H2.
    + eapply IH; eauto.
  - destruct H2 as [->|H2].
    + apply Hn. eapply flagged_in. exact H1.
    + eapply IH; eauto.
Qed.

(** * Tasks: lengths and the kinds/claims correspondence *)
Definition claim_of_kind (k : option vkind) : claim :=
  match k with Some k => view_claim_table k | None => absent_claim end.

Lemma claim_of_views_kind n vs : claim_of_views n vs = map (fun c => claim_of_kind (kind_of c vs)) (seq 0 n).
Proof.
  unfold claim_of_views, kind_of, claim_of_kind. apply map_ext. intros c.
  destruct (find _ vs) as [[k c'|]|]; reflexivity.
Qed.

Lemma claim_of_views_length n vs : length (claim_of_views n vs) = n.
Proof. unfold claim_of_views. rewrite map_length, seq_length. reflexivity. Qed.

Lemma task_claims_length n t cl : task_claims n t = Some cl -> length cl = n.
Proof.
  unfold task_claims. intros H. apply try_merge_length in H as [_ L]. rewrite L. apply claim_of_views_length.
Qed.

Lemma res_claims_length nres t : length (res_claims nres t) = nres.
Proof. unfold res_claims. rewrite map_length, seq_length. reflexivity. Qed.

Lemma mergeable_none : forall d, mergeable d (repeat CNone (length d)) = true.
Proof.
  unfold mergeable. induction d as [|x d IH]; cbn; [reflexivity|].
  rewrite cm_sym, cm_none_l. destruct (claims_try_merge d (repeat CNone (length d))); [reflexivity|discriminate].
Qed.

(** * The run-time structure *)
Section RunFacts.
  Variables (n nres : nat) (tasks : list task) (archs : list shape).
  Hypothesis archs_nodup : NoDup archs.

  Notation tat := (task_at tasks).

  Definition compat (x y : nat) : Prop :=
    exists tx ty, tat x = Some tx /\ tat y = Some ty /\ dyn_compat n nres archs tx ty.

  Lemma dyn_compat_sym ta tb : dyn_compat n nres archs ta tb -> dyn_compat n nres archs tb ta.
  Proof.
    intros [R A]. split; [rewrite mergeable_sym; exact R|].
    intros s Hs Hb Ha. destruct (A s Hs Ha Hb) as (ca & cb & E1 & E2 & M).
    exists cb, ca. rewrite mergeable_sym. auto.
  Qed.

  Lemma compat_sym x y : compat x y -> compat y x.
  Proof. intros (tx & ty & Hx & Hy & D). exists ty, tx. auto using dyn_compat_sym. Qed.

  (** well-formed task index: exists and its views/entry views merge *)
  Definition wf_task (x : nat) : Prop := exists t cl, tat x = Some t /\ task_claims n t = Some cl.

  (** upper bounds: the map and the resource claims cover every running task *)
  Definition UB (R : list nat) (b : borrowed) (rc : claims) : Prop :=
    (forall x tx s, In x R -> tat x = Some tx -> In s archs -> task_reaches tx s = true ->
        exists c cx, b_find s b = Some c /\ task_claims n tx = Some cx /\ claims_le cx c = true) /\
    (forall x tx, In x R -> tat x = Some tx -> claims_le (res_claims nres tx) rc = true).

  Lemma in_reached t s : In s (reached t archs) <-> In s archs /\ task_reaches t s = true.
  Proof. unfold reached. apply filter_In. Qed.

  Lemma reached_nodup t : NoDup (reached t archs).
  Proof. unfold reached. apply NoDup_filter. exact archs_nodup. Qed.

  Lemma UB_extend R b rc i t cl b' rc' :
    UB R b rc -> tat i = Some t -> task_claims n t = Some cl ->
    merge_archs_checked cl (reached t archs) b = Some b' ->
    (claims_try_merge (res_claims nres t) rc = Some rc' \/ claims_try_merge rc (res_claims nres t) = Some rc') ->
    UB (i :: R) b' rc'.
  Proof.
    intros [U1 U2] Ht Hcl Hm Hr. split.
    - intros x tx s [<-|Hx] Hx' Hs Hreach.
      + rewrite Ht in Hx'. inversion Hx'; subst tx.
        destruct (mac_hit _ _ s (reached_nodup t) Hm) as (c' & F & M); [apply in_reached; auto|].
        exists c', cl. split; [exact F|]. split; [exact Hcl|].
        destruct (b_find s b) as [old|].
        * apply try_merge_le in M as [M _]. exact M.
        * subst c'. apply claims_le_refl.
      + destruct (U1 x tx s Hx Hx' Hs Hreach) as (c & cx & F & C & L).
        destruct (in_dec (list_eq_dec Bool.bool_dec) s (reached t archs)) as [Hin|Hnin].
        * destruct (mac_hit _ _ s (reached_nodup t) Hm Hin) as (c' & F' & M). rewrite F in M.
          exists c', cx. split; [exact F'|]. split; [exact C|].
          apply try_merge_le in M as [_ M]. eapply claims_le_trans; eauto.
        * exists c, cx. rewrite (mac_other _ _ _ _ Hm Hnin). auto.
    - intros x tx [<-|Hx] Hx'.
      + rewrite Ht in Hx'. inversion Hx'; subst tx.
        destruct Hr as [Hr|Hr]; apply try_merge_le in Hr as [A B]; assumption.
      + specialize (U2 x tx Hx Hx').
        destruct Hr as [Hr|Hr]; apply try_merge_le in Hr as [A B]; eapply claims_le_trans; eauto.
  Qed.

  Lemma UB_weaken_rc R b rc rc' : UB R b rc -> claims_le rc rc' = true -> UB R b rc'.
  Proof.
    intros [U1 U2] L. split; [exact U1|]. intros x tx Hx Hx'. eapply claims_le_trans; eauto.
  Qed.

  (** a task whose claims merged into a covering map is compatible with every running task *)
  Lemma merged_compat R b rc i t cl b' :
    UB R b rc -> tat i = Some t -> task_claims n t = Some cl ->
    merge_archs_checked cl (reached t archs) b = Some b' ->
    mergeable (res_claims nres t) rc = true ->
    forall y, In y R -> wf_task y -> compat i y.
  Proof.
    intros [U1 U2] Ht Hcl Hm Hr y Hy (ty & cy & Hty & Hcy).
    exists t, ty. split; [exact Ht|]. split; [exact Hty|]. split.
    - eapply mergeable_down; [apply (U2 y ty Hy Hty)|exact Hr].
    - intros s Hs Hra Hrb. exists cl, cy. split; [exact Hcl|]. split; [exact Hcy|].
      destruct (U1 y ty s Hy Hty Hs Hrb) as (c & cx & F & C & L). rewrite Hcy in C. inversion C; subst cx.
      destruct (mac_hit _ _ s (reached_nodup t) Hm) as (c' & F' & M); [apply in_reached; auto|].
      rewrite F in M. eapply mergeable_down; [exact L|]. unfold mergeable. rewrite M. reflexivity.
  Qed.

  (** ** [run_add_ons] *)
  Lemma add_ons_facts : forall next b rc R T hr,
    UB R b rc -> (forall y, In y R -> wf_task y) ->
    add_ons n nres tasks archs next b rc = Some (T, hr) ->
    length hr = length next /\
    Permutation (leaves T) (flagged next hr) /\
    (forall x y, In x (leaves T) -> In y R -> compat x y) /\
    (forall x y, par_in T x y -> compat x y) /\
    (forall x y, ~ seq_in T x y).
  Proof.
    induction next as [|i rest IH]; intros b rc R T hr HU HW H; cbn [add_ons] in H.
    - inversion H; subst. cbn. repeat split; try tauto. constructor.
    - destruct (tat i) as [t|] eqn:Et; [|discriminate].
      destruct (task_claims n t) as [cl|] eqn:Ecl; [|discriminate].
      destruct (claims_try_merge (res_claims nres t) rc) as [rc'|] eqn:Erc.
      + destruct (merge_archs_checked cl (reached t archs) b) as [b'|] eqn:Eb.
        * destruct (add_ons n nres tasks archs rest b' rc') as [[items hr']|] eqn:Ea; [|discriminate].
          inversion H; subst T hr. clear H.
          assert (HU' : UB (i :: R) b' rc') by (eapply UB_extend; eauto).
          assert (HW' : forall y, In y (i :: R) -> wf_task y).
          { intros y [<-|Hy]; [exists t, cl; auto|auto]. }
          destruct (IH b' rc' (i :: R) items hr' HU' HW' Ea) as (L & P & C & PA & SE).
          assert (Hi : forall y, In y R -> compat i y).
          { assert (Hmr : mergeable (res_claims nres t) rc = true) by (unfold mergeable; rewrite Erc; reflexivity).
            intros y Hy. exact (@merged_compat R b rc i t cl b' HU Et Ecl Eb Hmr y Hy (HW y Hy)). }
          cbn [leaves par_in seq_in length]. split; [congruence|]. split.
          { unfold flagged. cbn [combine filter snd map fst].
            eapply Permutation_trans; [apply Permutation_app_comm|]. cbn [app]. constructor. exact P. }
          split.
          { intros x y Hx Hy. apply in_app_or in Hx as [Hx|[<-|[]]]; [apply C; [exact Hx|right; exact Hy]|auto]. }
          split.
          { intros x y [[Hx [<-|[]]]|[[[<-|[]] Hy]|[Hp|[]]]].
            - apply C; [exact Hx|left; reflexivity].
            - apply compat_sym. apply C; [exact Hy|left; reflexivity].
            - apply PA. exact Hp. }
          { intros x y [Hs|[]]. exact (SE x y Hs). }
        * destruct (add_ons n nres tasks archs rest b rc') as [[items hr']|] eqn:Ea; [|discriminate].
          inversion H; subst T hr. clear H.
          assert (HU' : UB R b rc').
          { eapply UB_weaken_rc; [exact HU|]. apply try_merge_le in Erc as [_ X]. exact X. }
          destruct (IH b rc' R items hr' HU' HW Ea) as (L & P & C & PA & SE).
          cbn [length]. split; [congruence|]. split; [|auto].
          unfold flagged. cbn [combine filter snd]. exact P.
      + destruct (add_ons n nres tasks archs rest b rc) as [[items hr']|] eqn:Ea; [|discriminate].
        inversion H; subst T hr. clear H.
        destruct (IH b rc R items hr' HU HW Ea) as (L & P & C & PA & SE).
        cbn [length]. split; [congruence|]. split; [|auto].
        unfold flagged. cbn [combine filter snd]. exact P.
  Qed.

  Lemma add_ons_total : forall next b rc, (forall y, In y next -> wf_task y) ->
    add_ons n nres tasks archs next b rc <> None.
  Proof.
    induction next as [|i rest IH]; intros b rc HW; cbn [add_ons]; [discriminate|].
    destruct (HW i (or_introl eq_refl)) as (t & cl & Et & Ecl). rewrite Et, Ecl.
    assert (HW' : forall y, In y rest -> wf_task y) by (intros y Hy; apply HW; right; exact Hy).
    destruct (claims_try_merge (res_claims nres t) rc) as [rc'|].
    - destruct (merge_archs_checked cl (reached t archs) b) as [b'|].
      + specialize (IH b' rc' HW'). destruct (add_ons n nres tasks archs rest b' rc') as [[? ?]|]; congruence.
      + specialize (IH b rc' HW'). destruct (add_ons n nres tasks archs rest b rc') as [[? ?]|]; congruence.
    - specialize (IH b rc HW'). destruct (add_ons n nres tasks archs rest b rc) as [[? ?]|]; congruence.
  Qed.

  (** least upper bounds: what is in the map is no more than what the running tasks force *)
  Definition LUB (R : list nat) (b : borrowed) (rc : claims) : Prop :=
    (forall s c, b_find s b = Some c ->
       forall d, length d = n ->
         (forall x tx cx, In x R -> tat x = Some tx -> task_reaches tx s = true -> task_claims n tx = Some cx ->
                          mergeable d cx = true) -> mergeable d c = true) /\
    (forall d, length d = nres ->
         (forall x tx, In x R -> tat x = Some tx -> mergeable d (res_claims nres tx) = true) ->
         mergeable d rc = true).

  Lemma compat_claims x y tx ty cx cy s :
    compat x y -> tat x = Some tx -> tat y = Some ty -> task_claims n tx = Some cx -> task_claims n ty = Some cy ->
    In s archs -> task_reaches tx s = true -> task_reaches ty s = true -> mergeable cx cy = true.
  Proof.
    intros (tx' & ty' & Hx & Hy & [_ D]) Hx' Hy' Cx Cy Hs Rx Ry.
    rewrite Hx in Hx'. rewrite Hy in Hy'. inversion Hx'; inversion Hy'; subst.
    destruct (D s Hs Rx Ry) as (ca & cb & E1 & E2 & M). congruence.
  Qed.

  Lemma compat_res x y tx ty :
    compat x y -> tat x = Some tx -> tat y = Some ty ->
    mergeable (res_claims nres tx) (res_claims nres ty) = true.
  Proof.
    intros (tx' & ty' & Hx & Hy & [D _]) Hx' Hy'.
    rewrite Hx in Hx'. rewrite Hy in Hy'. inversion Hx'; inversion Hy'; subst. exact D.
  Qed.

  (** ** [Stage::run] *)
  Lemma stage_run_facts : forall stage has_run b rc next R,
    UB R b rc -> LUB R b rc ->
    (forall y, In y (R ++ stage ++ next) -> wf_task y) ->
    (forall x y, In x (R ++ stage) -> In y (R ++ stage) -> x <> y -> compat x y) ->
    NoDup (R ++ stage) ->
    length has_run = length stage ->
    exists T nh, stage_run n nres tasks archs stage has_run b rc next = Some (T, nh) /\
      length nh = length next /\
      Permutation (leaves T) (unflagged stage has_run ++ flagged next nh) /\
      (forall x y, In x (leaves T) -> In y R -> compat x y) /\
      (forall x y, par_in T x y -> compat x y) /\
      (forall x y, ~ seq_in T x y).
  Proof.
    induction stage as [|i rest IH]; intros has_run b rc next R HU HL HW HC ND Lh.
    - destruct has_run; [|discriminate]. cbn [stage_run].
      destruct b as [|p b0] eqn:Eb.
      + exists SNil, (map (fun _ => false) next). split; [reflexivity|].
        rewrite map_length, flagged_all_false. cbn. repeat split; try tauto. constructor.
      + rewrite <- Eb in *.
        destruct (add_ons n nres tasks archs next b rc) as [[T hr]|] eqn:Ea.
        * exists T, hr. split; [reflexivity|].
          assert (HWR : forall y, In y R -> wf_task y) by (intros y Hy; apply HW; apply in_or_app; left; exact Hy).
          destruct (add_ons_facts next HU HWR Ea) as (L & P & C & PA & SE).
          unfold unflagged at 1. cbn [combine filter map app]. auto.
        * exfalso. eapply add_ons_total; [|exact Ea].
          intros y Hy. apply HW. apply in_or_app. right. cbn. exact Hy.
    - destruct has_run as [|h hs]; [discriminate|]. cbn [stage_run].
      assert (Lh' : length hs = length rest) by (cbn in Lh; congruence).
      assert (HCrest : forall x y, In x (R ++ rest) -> In y (R ++ rest) -> x <> y -> compat x y).
      { intros x y Hx Hy. apply HC; apply in_or_app; [apply in_app_or in Hx as [?|?]|apply in_app_or in Hy as [?|?]];
          auto; right; right; assumption. }
      assert (NDrest : NoDup (R ++ rest)) by (eapply NoDup_remove_1; exact ND).
      assert (HWrest : forall y, In y (R ++ rest ++ next) -> wf_task y).
      { intros y Hy. apply HW. apply in_app_or in Hy as [?|Hy]; apply in_or_app; [left; assumption|].
        right. right. exact Hy. }
      destruct h.
      + (* already run as an add-on of the previous stage *)
        destruct (IH hs b rc next R HU HL HWrest HCrest NDrest Lh') as (T & nh & E & L & P & C & PA & SE).
        exists T, nh. split; [exact E|]. split; [exact L|]. split; [|auto].
        unfold unflagged at 1. cbn [combine filter snd negb]. exact P.
      + destruct (HW i) as (t & cl & Et & Ecl); [apply in_or_app; right; left; reflexivity|].
        rewrite Et, Ecl.
        assert (Hi_notin : ~ In i R /\ ~ In i rest).
        { apply NoDup_remove_2 in ND. split; intros X; apply ND; apply in_or_app; auto. }
        assert (HiR : forall y, In y R -> compat i y).
        { intros y Hy. apply HC; [apply in_or_app; right; left; reflexivity|apply in_or_app; left; exact Hy|].
          intros ->. apply (proj1 Hi_notin). exact Hy. }
        destruct HU as [U1 U2]. destruct HL as [L1 L2].
        (* the unchecked merges succeed *)
        destruct (merge_archs_checked cl (reached t archs) b) as [b'|] eqn:Eb.
        2:{ exfalso. eapply mac_succeeds; [apply reached_nodup| |exact Eb].
            intros s old Hs F. apply in_reached in Hs as [Hs Hr].
            apply (L1 s old F cl (task_claims_length _ _ Ecl)).
            intros x tx cx Hx Hx' Hrx Cx. eapply compat_claims with (x := i) (y := x); eauto. }
        destruct (claims_try_merge rc (res_claims nres t)) as [rc'|] eqn:Erc.
        2:{ exfalso. assert (M : mergeable (res_claims nres t) rc = true).
            { apply L2; [apply res_claims_length|]. intros x tx Hx Hx'. eapply compat_res with (x := i) (y := x); eauto. }
            rewrite mergeable_sym in M. unfold mergeable in M. rewrite Erc in M. discriminate. }
        assert (HU' : UB (i :: R) b' rc') by (eapply UB_extend; eauto; split; assumption).
        assert (HL' : LUB (i :: R) b' rc').
        { split.
          - intros s c' F d Ld Hd.
            destruct (in_dec (list_eq_dec Bool.bool_dec) s (reached t archs)) as [Hin|Hnin].
            + destruct (mac_hit _ _ s (reached_nodup t) Eb Hin) as (c2 & F2 & M). rewrite F in F2. inversion F2; subst c2.
              apply in_reached in Hin as [Hs Hr].
              assert (Mcl : mergeable d cl = true) by (apply (Hd i t cl); auto; left; reflexivity).
              destruct (b_find s b) as [old|] eqn:Eold.
              * eapply mergeable_lub; [exact Mcl| |exact M].
                apply (L1 s old Eold d Ld). intros x tx cx Hx. apply Hd. right. exact Hx.
              * subst c'. exact Mcl.
            + rewrite (mac_other _ _ _ _ Eb Hnin) in F.
              apply (L1 s c' F d Ld). intros x tx cx Hx. apply Hd. right. exact Hx.
          - intros d Ld Hd. rewrite mergeable_sym.
            assert (M1 : mergeable d rc = true) by (apply L2; [exact Ld|]; intros x tx Hx; apply Hd; right; exact Hx).
            assert (M2 : mergeable d (res_claims nres t) = true) by (apply (Hd i t); [left; reflexivity|exact Et]).
            rewrite mergeable_sym. eapply mergeable_lub; [exact M1|exact M2|exact Erc]. }
        assert (HW' : forall y, In y ((i :: R) ++ rest ++ next) -> wf_task y).
        { intros y [<-|Hy]; [exists t, cl; auto|apply HWrest; exact Hy]. }
        assert (HC' : forall x y, In x ((i :: R) ++ rest) -> In y ((i :: R) ++ rest) -> x <> y -> compat x y).
        { intros x y Hx Hy. apply HC.
          - destruct Hx as [<-|Hx]; [apply in_or_app; right; left; reflexivity|].
            apply in_app_or in Hx as [?|?]; apply in_or_app; auto. right. right. assumption.
          - destruct Hy as [<-|Hy]; [apply in_or_app; right; left; reflexivity|].
            apply in_app_or in Hy as [?|?]; apply in_or_app; auto. right. right. assumption. }
        assert (ND' : NoDup ((i :: R) ++ rest)).
        { cbn. constructor; [|exact NDrest]. intros X. apply in_app_or in X as [X|X]; [apply (proj1 Hi_notin X)|apply (proj2 Hi_notin X)]. }
        destruct (IH hs b' rc' next (i :: R) HU' HL' HW' HC' ND' Lh') as (T & nh & E & L & P & C & PA & SE).
        rewrite E. exists (SPar T (SLeaf i)), nh. split; [reflexivity|]. split; [exact L|].
        cbn [leaves par_in seq_in]. split.
        { unfold unflagged at 1. cbn [combine filter snd negb map fst app].
          eapply Permutation_trans; [apply Permutation_app_comm|]. cbn [app]. constructor. exact P. }
        split.
        { intros x y Hx Hy. apply in_app_or in Hx as [Hx|[<-|[]]]; [apply C; [exact Hx|right; exact Hy]|auto]. }
        split.
        { intros x y [[Hx [<-|[]]]|[[[<-|[]] Hy]|[Hp|[]]]].
          - apply C; [exact Hx|left; reflexivity].
          - apply compat_sym. apply C; [exact Hy|left; reflexivity].
          - apply PA. exact Hp. }
        { intros x y [Hs|[]]. exact (SE x y Hs). }
  Qed.

  (** ** [Stages::run] *)
  Definition stage_ok (st : list nat) : Prop :=
    NoDup st /\ (forall x y, In x st -> In y st -> x <> y -> compat x y).

  Definition increasing (l : list nat) : Prop :=
    forall a b, l = a ++ b -> forall x y, In x a -> In y b -> x < y.

  Lemma increasing_tail a b : increasing (a ++ b) -> increasing b.
  Proof. intros H c d E x y Hx Hy. apply (H (a ++ c) d); [rewrite E, app_assoc; reflexivity|apply in_or_app; right; exact Hx|exact Hy]. Qed.

  Lemma stages_run_facts : forall stages has_run,
    (forall y, In y (concat stages) -> wf_task y) ->
    Forall stage_ok stages ->
    increasing (concat stages) ->
    length has_run = length (hd [] stages) ->
    exists T, stages_run n nres tasks archs stages has_run = Some T /\
      Permutation (leaves T) (unflagged (hd [] stages) has_run ++ concat (tl stages)) /\
      (forall x y, par_in T x y -> compat x y) /\
      (forall x y, seq_in T x y -> x < y \/ compat x y).
  Proof.
    induction stages as [|st rest IH]; intros has_run HW HS HI Lh.
    - exists SNil. cbn. split; [reflexivity|]. destruct has_run; [|discriminate].
      repeat split; try tauto. constructor.
    - cbn [stages_run hd tl]. cbn [hd] in Lh.
      set (next := match rest with nx :: _ => nx | [] => [] end).
      assert (Hnext : next = hd [] rest) by (destruct rest; reflexivity).
      inversion HS as [|? ? [NDst Cst] HSrest]; subst.
      assert (Hnext_in : forall y, In y next -> In y (concat rest)).
      { intros y Hy. subst next. destruct rest as [|nx r]; [contradiction|]. cbn. apply in_or_app. left. exact Hy. }
      assert (UB0 : UB [] [] (repeat CNone nres)) by (split; intros; contradiction).
      assert (LUB0 : LUB [] [] (repeat CNone nres)).
      { split; [intros s c F; discriminate|]. intros d Ld _. rewrite <- Ld. apply mergeable_none. }
      destruct (@stage_run_facts st has_run [] (repeat CNone nres) next [] UB0 LUB0) as (T0 & nh & E0 & L0 & P0 & _ & PA0 & SE0).
      { intros y Hy. cbn [app] in Hy. apply HW. cbn [concat]. apply in_app_or in Hy as [Hy|Hy]; apply in_or_app; auto. }
      { cbn [app]. exact Cst. }
      { cbn [app]. exact NDst. }
      { exact Lh. }
      rewrite E0.
      destruct (IH nh) as (T1 & E1 & P1 & PA1 & SE1).
      { intros y Hy. apply HW. cbn [concat]. apply in_or_app. right. exact Hy. }
      { exact HSrest. }
      { cbn [concat] in HI. eapply increasing_tail. exact HI. }
      { rewrite L0, Hnext. reflexivity. }
      rewrite E1. exists (SSeq T0 T1). split; [reflexivity|].
      assert (Hrest_shape : Permutation (flagged next nh ++ unflagged next nh ++ concat (tl rest)) (concat rest)).
      { rewrite app_assoc. destruct rest as [|nx r].
        - subst next. cbn. destruct nh; [reflexivity|discriminate].
        - subst next. cbn [tl concat]. apply Permutation_app_tail. apply flagged_perm. exact L0. }
      cbn [leaves par_in seq_in]. split.
      { rewrite <- Hnext in P1.
        eapply Permutation_trans; [apply Permutation_app; [exact P0|exact P1]|].
        rewrite <- app_assoc. apply Permutation_app_head. exact Hrest_shape. }
      split.
      { intros x y [H|H]; auto. }
      intros x y [[Hx Hy]|[H|H]]; [|exfalso; exact (SE0 x y H)|auto].
      apply (Permutation_in _ P0) in Hx. rewrite <- Hnext in P1. apply (Permutation_in _ P1) in Hy.
      apply in_app_or in Hx as [Hx|Hx].
      + (* x belongs to this stage: everything later has a larger index *)
        left. apply (HI st (concat rest) eq_refl); [eapply unflagged_in; exact Hx|].
        apply in_app_or in Hy as [Hy|Hy].
        * apply Hnext_in. eapply unflagged_in. exact Hy.
        * destruct rest as [|nx r]; [contradiction|]. cbn. apply in_or_app. right. exact Hy.
      + (* x was started early from the next stage *)
        apply in_app_or in Hy as [Hy|Hy].
        * right. destruct rest as [|nx r]; [subst next; contradiction|]. subst next.
          inversion HSrest as [|? ? [NDn Cn] _]; subst.
          apply Cn; [eapply flagged_in; exact Hx|eapply unflagged_in; exact Hy|].
          intros ->. eapply flagged_unflagged_disjoint; eauto.
        * left. destruct rest as [|nx r]; [contradiction|]. subst next. cbn [tl] in Hy.
          cbn [concat] in HI. apply increasing_tail in HI.
          apply (HI nx (concat r) eq_refl); [eapply flagged_in; exact Hx|exact Hy].
  Qed.
End RunFacts.

(** * The static stager *)

(** ** Finite table facts (by computation over the regenerated tables) *)
Definition all_vkinds : list vkind := [KRef; KMut; KOptRef; KOptMut].
Definition all_okinds : list (option vkind) := None :: map Some all_vkinds.

Lemma all_okinds_complete k : In k all_okinds.
Proof. destruct k as [[]|]; cbn; tauto. Qed.

Definition verifier_row_sound (k : vkind) (ck : option vkind) : bool :=
  match verifier_table k (ckind_of ck) with
  | Some Append => negb (kinds_conflict (Some k) ck)
                   && match claim_merge_table (view_claim_table k) (claim_of_kind ck) with Some _ => true | None => false end
  | Some Cut => kinds_conflict (Some k) ck
  | None => false
  end.

Lemma verifier_rows_ok :
  forallb (fun k => forallb (verifier_row_sound k) all_okinds) all_vkinds = true.
Proof. vm_compute. reflexivity. Qed.

Lemma verifier_row k ck : verifier_row_sound k ck = true.
Proof.
  pose proof verifier_rows_ok as H. rewrite forallb_forall in H.
  assert (Hk : In k all_vkinds) by (destruct k; cbn; tauto).
  specialize (H k Hk). rewrite forallb_forall in H. apply H. apply all_okinds_complete.
Qed.

Definition merge_row_ok (l r : option vkind) : bool :=
  match merge_table l r with
  | Some k => match claim_merge_table (claim_of_kind l) (claim_of_kind r) with
              | Some c => claim_eqb c (claim_of_kind k)
              | None => false
              end
  | None => true
  end.

Lemma merge_rows_ok : forallb (fun l => forallb (merge_row_ok l) all_okinds) all_okinds = true.
Proof. vm_compute. reflexivity. Qed.

Lemma claim_eqb_eq a b : claim_eqb a b = true -> a = b.
Proof. destruct a, b; cbn; congruence. Qed.

Lemma merge_row l r k : merge_table l r = Some k ->
  claim_merge_table (claim_of_kind l) (claim_of_kind r) = Some (claim_of_kind k).
Proof.
  intros H. pose proof merge_rows_ok as A. rewrite forallb_forall in A.
  specialize (A l (all_okinds_complete l)). rewrite forallb_forall in A.
  specialize (A r (all_okinds_complete r)). unfold merge_row_ok in A. rewrite H in A.
  destruct (claim_merge_table _ _) as [c|]; [|discriminate]. apply claim_eqb_eq in A. congruence.
Qed.

Lemma merger_append a b : merger_table a b = Append <-> a = Append /\ b = Append.
Proof. destruct a, b; cbn; split; intros H; try destruct H; try discriminate; auto. Qed.

(** ** [verify] is exactly the conflict relation on declared views *)
Lemma verify_total : forall v c, length v = length c -> verify v c <> None.
Proof.
  induction v as [|vk v IH]; intros [|ck c] L; cbn in *; try discriminate.
  destruct vk as [k|]; [|apply IH; congruence].
  pose proof (verifier_row k ck) as R. unfold verifier_row_sound in R.
  destruct (verifier_table k (ckind_of ck)) as [[]|]; [apply IH; congruence|discriminate|discriminate].
Qed.

Lemma verify_conflict : forall v c, length v = length c ->
  (verify v c = Some Cut <-> views_conflict v c = true) /\
  (verify v c = Some Append <-> views_conflict v c = false).
Proof.
  induction v as [|vk v IH]; intros [|ck c] L; cbn in *; try discriminate.
  - split; split; intros H; try discriminate; reflexivity.
  - destruct (IH c ltac:(congruence)) as [I1 I2].
    destruct vk as [k|]; cbn [kinds_conflict orb]; [|split; assumption].
    pose proof (verifier_row k ck) as R. unfold verifier_row_sound in R.
    destruct (verifier_table k (ckind_of ck)) as [[]|]; [| |discriminate].
    + apply andb_true_iff in R as [R _]. apply negb_true_iff in R. cbn [kinds_conflict] in R. rewrite R. cbn [orb].
      split; assumption.
    + cbn [kinds_conflict] in R. rewrite R. cbn [orb]. split; split; intros H; try reflexivity; discriminate.
Qed.

Lemma verify_mergeable : forall v c, verify v c = Some Append ->
  mergeable (map claim_of_kind v) (map claim_of_kind c) = true.
Proof.
  unfold mergeable. induction v as [|vk v IH]; intros [|ck c] H; cbn in *; try discriminate; [reflexivity|].
  destruct vk as [k|].
  - pose proof (verifier_row k ck) as R. unfold verifier_row_sound in R.
    destruct (verifier_table k (ckind_of ck)) as [[]|]; try discriminate.
    apply andb_true_iff in R as [_ R]. cbn [claim_of_kind].
    destruct (claim_merge_table (view_claim_table k) (claim_of_kind ck)); [|discriminate].
    specialize (IH c H). destruct (claims_try_merge _ _); [reflexivity|discriminate].
  - cbn [claim_of_kind]. unfold absent_claim. rewrite cm_none_l.
    specialize (IH c H). destruct (claims_try_merge _ _); [reflexivity|discriminate].
Qed.

Lemma verify_all_append : forall v cs, verify_all v cs = Some Append -> forall c, In c cs -> verify v c = Some Append.
Proof.
  induction cs as [|c0 cs IH]; intros H c Hc; [contradiction|]. cbn in H.
  destruct (verify v c0) as [[]|] eqn:E; try discriminate.
  destruct Hc as [<-|Hc]; auto.
Qed.

Lemma verify_all_cut : forall v cs, verify_all v cs = Some Cut -> exists c, In c cs /\ verify v c = Some Cut.
Proof.
  induction cs as [|c0 cs IH]; intros H; cbn in H; [discriminate|].
  destruct (verify v c0) as [[]|] eqn:E; try discriminate.
  - destruct (IH H) as (c & Hc & V). exists c. split; [right; exact Hc|exact V].
  - exists c0. split; [left; reflexivity|exact E].
Qed.

(** ** Kinds, claims and merged views of a task *)
Lemma merged_views_claims n t m : merged_views n t = Some m ->
  task_claims n t = Some (map claim_of_kind m) /\ length m = n.
Proof.
  unfold merged_views, task_claims. rewrite !claim_of_views_kind.
  assert (G : forall cs m, fold_right (fun c acc =>
                match merge_table (kind_of c (t_views t)) (kind_of c (t_entry t)), acc with
                | Some k, Some r => Some (k :: r)
                | _, _ => None
                end) (Some []) cs = Some m ->
              claims_try_merge (map (fun c => claim_of_kind (kind_of c (t_views t))) cs)
                               (map (fun c => claim_of_kind (kind_of c (t_entry t))) cs)
              = Some (map claim_of_kind m) /\ length m = length cs).
  { induction cs as [|c cs IH]; intros m0 H; cbn in H.
    - inversion H; subst. cbn. auto.
    - destruct (merge_table _ _) as [k|] eqn:Ek; [|discriminate].
      destruct (fold_right _ _ cs) as [r|] eqn:Er; [|discriminate].
      inversion H; subst m0. destruct (IH r eq_refl) as [I1 I2].
      cbn. rewrite (merge_row _ _ Ek), I1. split; [reflexivity|congruence]. }
  intros H. destruct (G (seq 0 n) m H) as [G1 G2]. rewrite seq_length in G2. auto.
Qed.

Lemma res_claims_kind nres t : res_claims nres t = map claim_of_kind (res_views nres t).
Proof.
  unfold res_claims, res_views. rewrite map_map. apply map_ext. intros i.
  destruct (find _ (t_res t)) as [[[] ?]|]; reflexivity.
Qed.

Lemma res_views_length nres t : length (res_views nres t) = nres.
Proof. unfold res_views. rewrite map_length, seq_length. reflexivity. Qed.

Section Stager.
  Variables (n nres : nat) (tasks : list task).
  Notation tat := (task_at tasks).

  (** [x] (the later task) was verified against [y] (an earlier task of the stage) *)
  Definition sok (x y : nat) : Prop :=
    exists tx ty mx my, tat x = Some tx /\ tat y = Some ty /\
      merged_views n tx = Some mx /\ merged_views n ty = Some my /\
      verify mx my = Some Append /\ verify (res_views nres tx) (res_views nres ty) = Some Append.

  (** what the declared views say: some component or resource is viewed by both, mutably by one *)
  Definition static_conflict (x y : nat) : Prop :=
    exists tx ty mx my, tat x = Some tx /\ tat y = Some ty /\
      merged_views n tx = Some mx /\ merged_views n ty = Some my /\
      (views_conflict mx my = true \/ views_conflict (res_views nres tx) (res_views nres ty) = true).

  Definition pairwise_sok (st : list nat) : Prop :=
    forall x y, In x st -> In y st -> x <> y -> sok x y \/ sok y x.

  Definition boundaries_ok (r : list (list nat)) : Prop :=
    forall pre A B post, r = pre ++ A :: B :: post ->
      exists f B' y, B = f :: B' /\ In y A /\ static_conflict f y.

  Definition tracks (cur : list nat) (cc rc : list (list (option vkind))) : Prop :=
    Forall2 (fun i c => exists t, tat i = Some t /\ merged_views n t = Some c) cur cc /\
    Forall2 (fun i c => exists t, tat i = Some t /\ c = res_views nres t) cur rc.

  Lemma tracks_in cur cc rc c : tracks cur cc rc -> In c cc ->
    exists y t, In y cur /\ tat y = Some t /\ merged_views n t = Some c.
  Proof.
    intros [T _] Hc. induction T as [|i c0 cur cc0 (t & Ht & Hm) T IH]; [contradiction|].
    destruct Hc as [<-|Hc].
    - exists i, t. split; [left; reflexivity|auto].
    - destruct (IH Hc) as (y & t' & Hy & H1 & H2). exists y, t'. split; [right; exact Hy|auto].
  Qed.

  Lemma tracks_in_res cur cc rc c : tracks cur cc rc -> In c rc ->
    exists y t, In y cur /\ tat y = Some t /\ c = res_views nres t.
  Proof.
    intros [_ T] Hc. induction T as [|i c0 cur rc0 (t & Ht & Hm) T IH]; [contradiction|].
    destruct Hc as [<-|Hc].
    - exists i, t. split; [left; reflexivity|auto].
    - destruct (IH Hc) as (y & t' & Hy & H1 & H2). exists y, t'. split; [right; exact Hy|auto].
  Qed.

  Lemma tracks_find cur cc rc y t : tracks cur cc rc -> In y cur -> tat y = Some t ->
    exists m, In m cc /\ merged_views n t = Some m /\ In (res_views nres t) rc.
  Proof.
    intros [T1 T2] Hy Ht. revert rc T2. induction T1 as [|i c0 cur cc0 (t1 & Ht1 & Hm1) T1 IH]; intros rc T2; [contradiction|].
    inversion T2 as [|? r0 ? rc0 (t2 & Ht2 & Hr2) T2']; subst.
    destruct Hy as [<-|Hy].
    - rewrite Ht in Ht1, Ht2. inversion Ht1; inversion Ht2; subst.
      exists c0. split; [left; reflexivity|]. split; [exact Hm1|left; reflexivity].
    - destruct (IH Hy rc0 T2') as (m & Hm & Hmv & Hr). exists m. split; [right; exact Hm|]. split; [exact Hmv|right; exact Hr].
  Qed.

  Lemma boundaries_cons A r : boundaries_ok r ->
    (forall B post, r = B :: post -> exists f B' y, B = f :: B' /\ In y A /\ static_conflict f y) ->
    boundaries_ok (A :: r).
  Proof.
    intros Hb Hf pre A0 B post E. destruct pre as [|p pre]; cbn in E.
    - inversion E; subst. apply (Hf B post eq_refl).
    - inversion E; subst. apply (Hb pre A0 B post eq_refl).
  Qed.

  Lemma stager_spec : forall ts cur cc rc r,
    Forall (fun p => tat (fst p) = Some (snd p)) ts ->
    tracks cur cc rc -> pairwise_sok cur -> ~ (exists x, In x cur /\ In x (map fst ts)) -> NoDup (map fst ts) ->
    stager n nres ts cur cc rc = Some r ->
    concat r = rev cur ++ map fst ts /\
    Forall pairwise_sok r /\
    (forall y, In y (map fst ts) -> exists t m, tat y = Some t /\ merged_views n t = Some m) /\
    boundaries_ok r /\
    (cur <> [] -> exists tl r', r = (rev cur ++ tl) :: r') /\
    ~ In [] r.
  Proof.
    induction ts as [|[i t] rest IH]; intros cur cc rc r HT TR PS DJ ND H; cbn [stager] in H.
    - inversion H; subst r. clear H. destruct cur as [|c0 cur'].
      + cbn. split; [reflexivity|]. split; [constructor|]. split; [intros y []|]. split.
        { intros pre A B post E. destruct pre; discriminate. }
        split; [intros X; congruence|intros []].
      + cbn [concat map]. rewrite !app_nil_r. split; [reflexivity|]. split.
        { constructor; [|constructor]. intros x y Hx Hy. apply PS; apply in_rev; assumption. }
        split; [intros y []|]. split.
        { intros pre A B post E. destruct pre as [|? [|? ?]]; discriminate. }
        split.
        { intros _. exists [], []. rewrite app_nil_r. reflexivity. }
        { intros [X|[]]. assert (L : length (rev (c0 :: cur')) = 0) by (rewrite X; reflexivity).
          rewrite rev_length in L. discriminate. }
    - inversion HT as [|? ? Hit HT']; subst. cbn [fst snd] in Hit.
      cbn [map fst] in ND. inversion ND as [|? ? Hnin ND']; subst.
      destruct (merged_views n t) as [mv|] eqn:Emv; [|discriminate].
      destruct (verify_all mv cc) as [d1|] eqn:E1; [|discriminate].
      destruct (verify_all (res_views nres t) rc) as [d2|] eqn:E2; [|discriminate].
      assert (Hwf_i : exists t0 m, tat i = Some t0 /\ merged_views n t0 = Some m) by (exists t, mv; auto).
      destruct (merger_table d1 d2) eqn:Em.
      + (* Append *)
        apply merger_append in Em as [-> ->].
        assert (TR' : tracks (i :: cur) (mv :: cc) (res_views nres t :: rc)).
        { destruct TR as [T1 T2]. split; constructor; auto; exists t; auto. }
        assert (PS' : pairwise_sok (i :: cur)).
        { assert (Hiy : forall y, In y cur -> sok i y).
          { intros y Hy.
            assert (Hty : exists ty, tat y = Some ty).
            { destruct TR as [T1 _]. clear - T1 Hy. induction T1 as [|a c l l' (t0 & H0 & _) T1 IH]; [contradiction|].
              destruct Hy as [<-|Hy]; [eauto|auto]. }
            destruct Hty as [ty Hty].
            destruct (tracks_find y TR Hy Hty) as (m & Hm & Hmv & Hr).
            exists t, ty, mv, m. repeat split; auto.
            - eapply verify_all_append; eauto.
            - eapply verify_all_append; eauto. }
          intros x y [<-|Hx] [<-|Hy] Hne; try congruence; auto. }
        assert (DJ' : ~ (exists x, In x (i :: cur) /\ In x (map fst rest))).
        { intros (x & [<-|Hx] & Hx2); [contradiction|]. apply DJ. exists x. split; [exact Hx|right; exact Hx2]. }
        destruct (IH (i :: cur) _ _ r HT' TR' PS' DJ' ND' H) as (C & F & W & B & P & NE).
        split; [rewrite C; cbn [rev map fst]; rewrite <- app_assoc; reflexivity|].
        split; [exact F|]. split.
        { intros y [<-|Hy]; [exact Hwf_i|apply W; exact Hy]. }
        split; [exact B|]. split; [|exact NE].
        intros _. destruct (P ltac:(discriminate)) as (tl & r' & ->). cbn [rev]. rewrite <- app_assoc.
        exists ([i] ++ tl), r'. reflexivity.
      + (* Cut *)
        destruct (stager n nres rest [i] [mv] [res_views nres t]) as [r1|] eqn:Er; [|discriminate].
        inversion H; subst r. clear H.
        assert (TR' : tracks [i] [mv] [res_views nres t]).
        { split; constructor; try constructor; exists t; auto. }
        assert (PS' : pairwise_sok [i]).
        { intros x y [<-|[]] [<-|[]] Hne. congruence. }
        assert (DJ' : ~ (exists x, In x [i] /\ In x (map fst rest))).
        { intros (x & [<-|[]] & Hx2). contradiction. }
        destruct (IH [i] _ _ r1 HT' TR' PS' DJ' ND' Er) as (C & F & W & B & P & NE).
        destruct (P ltac:(discriminate)) as (tl & r' & Hr1). cbn [rev app] in Hr1.
        (* the cut is justified by a conflict with a task of the current stage *)
        assert (Hcut : exists y, In y cur /\ static_conflict i y).
        { assert (Hd : d1 = Cut \/ d2 = Cut) by (destruct d1, d2; cbn in Em; auto; discriminate).
          destruct Hd as [->| ->].
          - destruct (verify_all_cut _ _ E1) as (c & Hc & V).
            destruct (tracks_in c TR Hc) as (y & ty & Hy & Hty & Hmy).
            exists y. split; [exact Hy|]. exists t, ty, mv, c. repeat split; auto. left.
            destruct (merged_views_claims _ _ Emv) as [_ L1]. destruct (merged_views_claims _ _ Hmy) as [_ L2].
            apply verify_conflict; [congruence|exact V].
          - destruct (verify_all_cut _ _ E2) as (c & Hc & V).
            destruct (tracks_in_res c TR Hc) as (y & ty & Hy & Hty & ->).
            destruct (tracks_find y TR Hy Hty) as (my & _ & Hmy & _).
            exists y. split; [exact Hy|]. exists t, ty, mv, my. repeat split; auto. right.
            apply verify_conflict; [rewrite !res_views_length; reflexivity|exact V]. }
        destruct Hcut as (y & Hy & Hconf).
        cbn [concat]. split; [rewrite C; reflexivity|]. split.
        { constructor; [|exact F]. intros a b Ha Hb. apply PS; apply in_rev; assumption. }
        split.
        { intros z [<-|Hz]; [exact Hwf_i|apply W; exact Hz]. }
        split.
        { apply boundaries_cons; [exact B|]. intros B0 post E. rewrite Hr1 in E. inversion E; subst.
          exists i, tl, y. split; [reflexivity|]. split; [|exact Hconf].
          apply -> in_rev. exact Hy. }
        split.
        { intros _. exists [], r1. rewrite app_nil_r. reflexivity. }
        { intros [X|X]; [|exact (NE X)]. destruct cur as [|c0 cur']; [contradiction|].
          assert (L : length (rev (c0 :: cur')) = 0) by (rewrite X; reflexivity). rewrite rev_length in L. discriminate. }
  Qed.
End Stager.

(** * Static compatibility implies run-time compatibility, on any world *)
Lemma sok_dyn_compat n nres tasks archs x y : sok n nres tasks x y -> compat n nres tasks archs x y.
Proof.
  intros (tx & ty & mx & my & Hx & Hy & Mx & My & V & VR).
  exists tx, ty. split; [exact Hx|]. split; [exact Hy|]. split.
  - rewrite !res_claims_kind. apply verify_mergeable. exact VR.
  - intros s _ _ _. destruct (merged_views_claims _ _ Mx) as [Cx _]. destruct (merged_views_claims _ _ My) as [Cy _].
    exists (map claim_of_kind mx), (map claim_of_kind my). split; [exact Cx|]. split; [exact Cy|].
    apply verify_mergeable. exact V.
Qed.

(** run-time compatibility means: nothing written by one is read or written by the other *)
Lemma dyn_compat_no_shared_write n nres archs ta tb :
  dyn_compat n nres archs ta tb -> no_shared_write n nres archs ta tb.
Proof.
  intros [R A]. split.
  - intros s c Hs. unfold access.
    destruct (task_reaches ta s) eqn:Ra; [|reflexivity].
    destruct (task_reaches tb s) eqn:Rb; [|destruct (match task_claims n ta with Some cl => nth c cl CNone | None => CNone end); reflexivity].
    destruct (A s Hs Ra Rb) as (ca & cb & E1 & E2 & M). rewrite E1, E2. apply mergeable_nth. exact M.
  - intros i. unfold res_access. apply mergeable_nth. exact R.
Qed.

(** ... and conversely (so the run-time test is exactly the absence of a shared write) *)
Lemma no_shared_write_dyn_compat n nres archs ta tb ca cb :
  task_claims n ta = Some ca -> task_claims n tb = Some cb ->
  no_shared_write n nres archs ta tb -> dyn_compat n nres archs ta tb.
Proof.
  intros Ca Cb [A R]. split.
  - apply mergeable_of_nth; [rewrite !res_claims_length; reflexivity|]. exact R.
  - intros s Hs Ra Rb. exists ca, cb. split; [exact Ca|]. split; [exact Cb|].
    apply mergeable_of_nth; [rewrite (task_claims_length _ _ Ca), (task_claims_length _ _ Cb); reflexivity|].
    intros i. specialize (A s i Hs). unfold access in A. rewrite Ra, Rb, Ca, Cb in A. exact A.
Qed.

(** * Whole schedules *)
Lemma map_fst_combine_seq {A} (l : list A) s : map fst (combine (seq s (length l)) l) = seq s (length l).
Proof. revert s. induction l as [|x l IH]; intros s; cbn; [reflexivity|]. rewrite IH. reflexivity. Qed.

Lemma combine_seq_nth {A} (l : list A) : forall s p, In p (combine (seq s (length l)) l) ->
  s <= fst p /\ nth_error l (fst p - s) = Some (snd p).
Proof.
  induction l as [|x l IH]; intros s p H; cbn in H; [contradiction|].
  destruct H as [<-|H].
  - cbn. rewrite Nat.sub_diag. auto.
  - destruct (IH (S s) p H) as [L E]. split; [lia|].
    replace (fst p - s) with (S (fst p - S s)) by lia. exact E.
Qed.

Lemma seq_increasing : forall k s a b, seq s k = a ++ b -> forall x y, In x a -> In y b -> x < y.
Proof.
  induction k as [|k IH]; intros s a b E x y Hx Hy; cbn in E.
  - destruct a; [contradiction|discriminate].
  - destruct a as [|x0 a']; [contradiction|]. cbn in E. inversion E; subst x0.
    destruct Hx as [<-|Hx].
    + assert (In y (seq (S s) k)) by (rewrite H1; apply in_or_app; right; exact Hy).
      apply in_seq in H. lia.
    + eapply IH; eauto.
Qed.

Lemma nodup_app_l {A} (a b : list A) : NoDup (a ++ b) -> NoDup a.
Proof.
  induction a as [|x a IH]; cbn; intros H; [constructor|]. inversion H as [|? ? Hn H']; subst.
  constructor; [intros X; apply Hn; apply in_or_app; left; exact X|auto].
Qed.

Lemma nodup_app_r {A} (a b : list A) : NoDup (a ++ b) -> NoDup b.
Proof. induction a as [|x a IH]; cbn; intros H; [exact H|]. inversion H; auto. Qed.

Lemma NoDup_concat_in {A} : forall (r : list (list A)) st, NoDup (concat r) -> In st r -> NoDup st.
Proof.
  induction r as [|a r IH]; intros st ND Hin; [destruct Hin|]. cbn in ND. destruct Hin as [<-|H].
  - apply nodup_app_l in ND. exact ND.
  - apply IH; [|exact H]. apply nodup_app_r in ND. exact ND.
Qed.

Section Whole.
  Variables (n nres : nat) (tasks : list task) (archs : list shape).
  Hypothesis archs_nodup : NoDup archs.

  Theorem run_schedule_facts : forall stages,
    stages_of n nres tasks = Some stages ->
    exists T, run_schedule n nres tasks archs = Some (stages, T) /\
      Permutation (leaves T) (seq 0 (length tasks)) /\
      (forall x y, par_in T x y -> compat n nres tasks archs x y) /\
      (forall x y, seq_in T x y -> x < y \/ compat n nres tasks archs x y).
  Proof.
    intros stages HS. unfold run_schedule. rewrite HS. unfold stages_of in HS.
    destruct (@stager_spec n nres tasks (combine (seq 0 (length tasks)) tasks) [] [] [] stages) as (C & F & W & _ & _ & _).
    { apply Forall_forall. intros p Hp. destruct (combine_seq_nth tasks 0 p Hp) as [_ E].
      rewrite Nat.sub_0_r in E. exact E. }
    { split; constructor. }
    { intros x y Hx. destruct Hx. }
    { intros (x & Hx & _). destruct Hx. }
    { rewrite map_fst_combine_seq. apply seq_NoDup. }
    { exact HS. }
    cbn [rev app] in C. rewrite map_fst_combine_seq in C, W.
    destruct (@stages_run_facts n nres tasks archs archs_nodup stages
                (map (fun _ => false) (match stages with s :: _ => s | [] => [] end))) as (T & E & P & PA & SE).
    { intros y Hy. rewrite C in Hy. destruct (W y Hy) as (t & m & Ht & Hm).
      exists t, (map claim_of_kind m). split; [exact Ht|]. apply merged_views_claims. exact Hm. }
    { apply Forall_forall. intros st Hst. split.
      - eapply NoDup_concat_in; [|exact Hst]. rewrite C. apply seq_NoDup.
      - rewrite Forall_forall in F. intros x y Hx Hy Hne.
        destruct (F st Hst x y Hx Hy Hne) as [S|S]; [|apply compat_sym]; eapply sok_dyn_compat; exact S. }
    { intros a b Eab. rewrite C in Eab. eapply seq_increasing. exact Eab. }
    { rewrite map_length. destruct stages; reflexivity. }
    rewrite E. exists T. split; [reflexivity|]. split; [|split; assumption].
    eapply Permutation_trans; [exact P|].
    replace (match stages with s :: _ => s | [] => [] end) with (hd [] stages) by (destruct stages; reflexivity).
    rewrite unflagged_all_false, <- C. destruct stages; cbn; reflexivity.
  Qed.
End Whole.

(** * Linearisations and the declared order *)
Fixpoint before (l : list nat) (x y : nat) : Prop :=
  match l with
  | [] => False
  | z :: t => (z = x /\ In y t) \/ before t x y
  end.

Lemma before_in l x y : before l x y -> In x l /\ In y l.
Proof.
  induction l as [|z t IH]; cbn; [tauto|]. intros [[-> H]|H]; [auto|]. destruct (IH H); auto.
Qed.

Lemma before_app l1 l2 x y : before (l1 ++ l2) x y -> before l1 x y \/ before l2 x y \/ (In x l1 /\ In y l2).
Proof.
  induction l1 as [|z t IH]; cbn; [auto|].
  intros [[-> H]|H].
  - apply in_app_or in H as [H|H]; auto.
  - destruct (IH H) as [?|[?|[? ?]]]; auto.
Qed.

Lemma before_app_intro_mid a m b x y : before (a ++ b) x y -> before (a ++ m :: b) x y.
Proof.
  induction a as [|z t IH]; cbn; [auto|].
  intros [[-> H]|H]; [left; split; [reflexivity|]|right; auto].
  apply in_app_or in H as [H|H]; apply in_or_app; [left; exact H|right; right; exact H].
Qed.

Lemma before_mid a m b z : In z a -> before (a ++ m :: b) z m.
Proof.
  induction a as [|z0 t IH]; cbn; [tauto|].
  intros [->|H]; [left; split; [reflexivity|apply in_or_app; right; left; reflexivity]|right; auto].
Qed.

Lemma shuffle_in a b m x : shuffle a b m -> (In x m <-> In x a \/ In x b).
Proof.
  induction 1; cbn; [tauto| |]; rewrite IHshuffle; tauto.
Qed.

Lemma before_shuffle a b m x y : shuffle a b m -> before m x y ->
  before a x y \/ before b x y \/ (In x a /\ In y b) \/ (In x b /\ In y a).
Proof.
  induction 1 as [|z a b m S IH|z a b m S IH]; cbn; [tauto| |].
  - intros [[-> H]|H].
    + apply (shuffle_in y S) in H as [H|H]; [left; left; split; [reflexivity|exact H]|].
      right. right. left. split; [left; reflexivity|exact H].
    + destruct (IH H) as [?|[?|[[? ?]|[? ?]]]]; tauto.
  - intros [[-> H]|H].
    + apply (shuffle_in y S) in H as [H|H]; [|right; left; left; split; [reflexivity|exact H]].
      right. right. right. split; [left; reflexivity|exact H].
    + destruct (IH H) as [?|[?|[[? ?]|[? ?]]]]; tauto.
Qed.

Lemma lin_in T l : lin T l -> forall x, In x l <-> In x (leaves T).
Proof.
  induction 1; intros z; cbn; try tauto.
  - rewrite !in_app_iff, IHlin1, IHlin2. tauto.
  - rewrite (shuffle_in z H1), in_app_iff, IHlin1, IHlin2. tauto.
Qed.

Lemma lin_before T l : lin T l -> forall x y, before l x y -> par_in T x y \/ seq_in T x y.
Proof.
  induction 1 as [|x0|a b la lb Ha IHa Hb IHb|a b la lb m Ha IHa Hb IHb S]; intros x y B; cbn in *.
  - contradiction.
  - destruct B as [[_ []]|[]].
  - apply before_app in B as [B|[B|[Hx Hy]]].
    + destruct (IHa x y B); auto.
    + destruct (IHb x y B); auto.
    + right. left. split; [apply (lin_in Ha); exact Hx|apply (lin_in Hb); exact Hy].
  - apply (before_shuffle x y S) in B as [B|[B|[[Hx Hy]|[Hx Hy]]]].
    + destruct (IHa x y B); auto 6.
    + destruct (IHb x y B); auto 6.
    + left. left. split; [apply (lin_in Ha); exact Hx|apply (lin_in Hb); exact Hy].
    + left. right. left. split; [apply (lin_in Hb); exact Hx|apply (lin_in Ha); exact Hy].
Qed.

Lemma lin_perm T l : lin T l -> Permutation l (leaves T).
Proof.
  induction 1; cbn; auto.
  - apply Permutation_app; assumption.
  - assert (G : forall a b m, shuffle a b m -> Permutation m (a ++ b)).
    { clear. induction 1; cbn; auto. eapply Permutation_trans; [constructor; exact IHshuffle|]. apply Permutation_middle. }
    eapply Permutation_trans; [apply G; eassumption|]. apply Permutation_app; assumption.
Qed.

(** * Commutation: every admissible order gives the result of the declared order *)
Section Commute.
  Variable store : Type.
  Variable sem : nat -> store -> store.

  Definition commute (i j : nat) : Prop := forall s, sem i (sem j s) = sem j (sem i s).

  Lemma exec_app a b s : exec sem (a ++ b) s = exec sem b (exec sem a s).
  Proof. unfold exec. apply fold_left_app. Qed.

  Lemma move_front : forall a m b s, (forall z, In z a -> commute m z) ->
    exec sem (a ++ m :: b) s = exec sem (m :: a ++ b) s.
  Proof.
    induction a as [|z a IH]; intros m b s H; [reflexivity|].
    cbn [app]. change (exec sem (z :: a ++ m :: b) s) with (exec sem (a ++ m :: b) (sem z s)).
    rewrite IH by (intros z' Hz'; apply H; right; exact Hz').
    change (exec sem (m :: a ++ b) (sem z s)) with (exec sem (a ++ b) (sem m (sem z s))).
    rewrite (H z (or_introl eq_refl)). reflexivity.
  Qed.

  Theorem sorted_exec : forall L sigma s,
    (forall a b, L = a ++ b -> forall x y, In x a -> In y b -> x < y) ->
    Permutation sigma L ->
    (forall i j, i < j -> before sigma j i -> commute i j) ->
    exec sem sigma s = exec sem L s.
  Proof.
    induction L as [|m L IH]; intros sigma s HI P HC.
    - apply Permutation_sym, Permutation_nil in P. subst. reflexivity.
    - assert (Hm : In m sigma) by (eapply Permutation_in; [apply Permutation_sym; exact P|left; reflexivity]).
      apply in_split in Hm as (a & b & ->).
      assert (P' : Permutation (a ++ b) L) by (apply Permutation_sym; eapply Permutation_cons_app_inv; apply Permutation_sym; exact P).
      assert (Hlt : forall z, In z (a ++ b) -> m < z).
      { intros z Hz. apply (HI [m] L eq_refl); [left; reflexivity|]. eapply Permutation_in; eauto. }
      rewrite move_front.
      + change (exec sem (m :: a ++ b) s) with (exec sem (a ++ b) (sem m s)).
        change (exec sem (m :: L) s) with (exec sem L (sem m s)).
        apply IH; [|exact P'|].
        * intros a0 b0 E x y Hx Hy. apply (HI (m :: a0) b0); [rewrite E; reflexivity|right; exact Hx|exact Hy].
        * intros i j Hij B. apply HC; [exact Hij|]. apply before_app_intro_mid. exact B.
      + intros z Hz. apply HC; [apply Hlt; apply in_or_app; left; exact Hz|]. apply before_mid. exact Hz.
  Qed.
End Commute.

(** * Parallelism actually granted (C12) *)
Section Granted.
  Variables (n nres : nat) (tasks : list task) (archs : list shape).

  Lemma stage_run_leaves : forall stage hr b rc next T nh,
    stage_run n nres tasks archs stage hr b rc next = Some (T, nh) ->
    forall y, In y (unflagged stage hr) -> In y (leaves T).
  Proof.
    induction stage as [|i rest IH]; intros hr b rc next T nh H y Hy.
    - unfold unflagged in Hy. cbn in Hy. contradiction.
    - cbn [stage_run] in H. destruct hr as [|h hs].
      + unfold unflagged in Hy. cbn in Hy. contradiction.
      + destruct h.
        * unfold unflagged in Hy. cbn [combine filter snd negb] in Hy. eapply IH; eauto.
        * destruct (task_at tasks i) as [t|]; [|discriminate].
          destruct (task_claims n t) as [cl|]; [|discriminate].
          destruct (merge_archs_checked cl (reached t archs) b) as [b'|]; [|discriminate].
          destruct (claims_try_merge rc (res_claims nres t)) as [rc'|]; [|discriminate].
          destruct (stage_run n nres tasks archs rest hs b' rc' next) as [[T' nh']|] eqn:E; [|discriminate].
          inversion H; subst. cbn [leaves]. apply in_or_app.
          unfold unflagged in Hy. cbn [combine filter snd negb map fst] in Hy.
          destruct Hy as [<-|Hy]; [right; left; reflexivity|left; eapply IH; eauto].
  Qed.

  (** the tasks of a stage that run in their own stage are pairwise under a common join *)
  Lemma stage_run_par : forall stage hr b rc next T nh,
    stage_run n nres tasks archs stage hr b rc next = Some (T, nh) ->
    forall x y, In x (unflagged stage hr) -> In y (unflagged stage hr) -> x <> y -> par_in T x y.
  Proof.
    induction stage as [|i rest IH]; intros hr b rc next T nh H x y Hx Hy Hne.
    - unfold unflagged in Hx. cbn in Hx. contradiction.
    - cbn [stage_run] in H. destruct hr as [|h hs].
      + unfold unflagged in Hx. cbn in Hx. contradiction.
      + destruct h.
        * unfold unflagged in Hx, Hy. cbn [combine filter snd negb] in Hx, Hy. eapply IH; eauto.
        * destruct (task_at tasks i) as [t|]; [|discriminate].
          destruct (task_claims n t) as [cl|]; [|discriminate].
          destruct (merge_archs_checked cl (reached t archs) b) as [b'|]; [|discriminate].
          destruct (claims_try_merge rc (res_claims nres t)) as [rc'|]; [|discriminate].
          destruct (stage_run n nres tasks archs rest hs b' rc' next) as [[T' nh']|] eqn:E; [|discriminate].
          inversion H; subst. cbn [par_in leaves].
          unfold unflagged in Hx, Hy. cbn [combine filter snd negb map fst] in Hx, Hy.
          destruct Hx as [<-|Hx], Hy as [<-|Hy].
          -- congruence.
          -- right. left. split; [left; reflexivity|]. eapply stage_run_leaves; eauto.
          -- left. split; [eapply stage_run_leaves; eauto|left; reflexivity].
          -- right. right. left. eapply IH; eauto.
  Qed.
End Granted.

(** On a world without archetypes nothing is ever started early, so the run is
    the static staging alone: every two tasks of one stage are under a common join. *)
Section Static.
  Variables (n nres : nat) (tasks : list task).

  Lemma stage_run_static : forall stage hr rc next T nh,
    stage_run n nres tasks [] stage hr [] rc next = Some (T, nh) -> nh = map (fun _ => false) next.
  Proof.
    induction stage as [|i rest IH]; intros hr rc next T nh H; cbn [stage_run] in H.
    - inversion H; reflexivity.
    - destruct hr as [|[] hs]; cbn in H.
      + destruct (task_at tasks i) as [t|]; [|discriminate].
        destruct (task_claims n t) as [cl|]; [|discriminate].
        destruct (claims_try_merge rc (res_claims nres t)) as [rc'|]; [|discriminate].
        destruct (stage_run n nres tasks [] rest [] [] rc' next) as [[T' nh']|] eqn:E; [|discriminate].
        inversion H; subst. eapply IH; eauto.
      + eapply IH; eauto.
      + destruct (task_at tasks i) as [t|]; [|discriminate].
        destruct (task_claims n t) as [cl|]; [|discriminate].
        destruct (claims_try_merge rc (res_claims nres t)) as [rc'|]; [|discriminate].
        destruct (stage_run n nres tasks [] rest hs [] rc' next) as [[T' nh']|] eqn:E; [|discriminate].
        inversion H; subst. eapply IH; eauto.
  Qed.

  Lemma stages_run_static : forall stages T,
    stages_run n nres tasks [] stages (map (fun _ => false) (hd [] stages)) = Some T ->
    forall st x y, In st stages -> In x st -> In y st -> x <> y -> par_in T x y.
  Proof.
    induction stages as [|s0 rest IH]; intros T H st x y Hst Hx Hy Hne; [contradiction|].
    cbn [stages_run hd] in H.
    destruct (stage_run n nres tasks [] s0 (map (fun _ => false) s0) [] (repeat CNone nres)
                        (match rest with nx :: _ => nx | [] => [] end)) as [[T0 nh]|] eqn:E0; [|discriminate].
    pose proof (stage_run_static _ _ _ _ E0) as Hnh. subst nh.
    destruct (stages_run n nres tasks [] rest _) as [T1|] eqn:E1; [|discriminate].
    inversion H; subst T. cbn [par_in]. destruct Hst as [<-|Hst].
    - left. eapply stage_run_par; [exact E0| | |exact Hne]; rewrite unflagged_all_false; assumption.
    - right. apply (IH T1) with (st := st); auto.
  Qed.
End Static.
