(** Layer L, operations involving two worlds: clone, clone_from, equality and
    the serialize/deserialize round trip at the level of the serialized
    *content* (the token encodings are in Serde.v).  Definitions only. *)
From Brood Require Export World.

Set Implicit Arguments.

(** * Clone ([world/impl_clone.rs], [archetypes/mod.rs::clone],
      [allocator/mod.rs::clone]) *)

(** Every [IdentifierRef] held by the allocator or by [type_id_lookup] is
    looked up in the old→new identifier map with [unwrap_unchecked]. *)
Definition refs_resolve (archs : list arch) (tid : list shape) (slots : list slot) : bool :=
  forallb (fun sh => match find_arch sh archs with Some _ => true | None => false end) tid
  && forallb (fun s => match s_loc s with
                       | Some (sh, _) => match find_arch sh archs with Some _ => true | None => false end
                       | None => true
                       end) slots.

Definition res_clones (res : list val) : list event :=
  map (fun p => ResCloned (fst p) (snd p)) (combine (seq 0 (length res)) res).

Definition res_drops (res : list val) : list event :=
  map (fun p => ResDropped (fst p) (snd p)) (combine (seq 0 (length res)) res).

Definition clone_world (w : world) : option (world * list event) :=
  if refs_resolve (w_archs w) (w_tid w) (w_slots w)
  then Some (w, flat_map arch_clones (w_archs w) ++ res_clones (w_res w))
  else None.

(** [Archetypes::clone_from]: source archetypes overwrite or are added; the
    destination's other archetypes are kept but emptied ([clear_detached]);
    TypeId entries of the source are added to those of the destination. *)
Fixpoint merge_archs (src : list arch) (dst : list arch) (evs : list event)
  : list arch * list event :=
  match src with
  | [] => (dst, evs)
  | sa :: t =>
      match find_arch (a_shape sa) dst with
      | Some da =>
          merge_archs t (upd_arch (a_shape sa) (fun _ => a_rows sa) dst)
                      (evs ++ arch_drops da ++ arch_clones sa)
      | None =>
          merge_archs t (dst ++ [sa]) (evs ++ arch_clones sa)
      end
  end.

Definition detach_others (src : list arch) (dst : list arch) : list arch * list event :=
  (map (fun a => match find_arch (a_shape a) src with
                 | Some _ => a
                 | None => mkArch (a_shape a) []
                 end) dst,
   flat_map (fun a => match find_arch (a_shape a) src with
                      | Some _ => []
                      | None => arch_drops a
                      end) dst).

Definition union_tid (src_tid dst_tid : list shape) : list shape :=
  dst_tid ++ filter (fun sh => negb (mem_shape sh dst_tid)) src_tid.

Definition clone_from_world (dst src : world) : option (world * list event) :=
  if negb (refs_resolve (w_archs src) (w_tid src) (w_slots src)) then None else
  let '(archs0, evs0) := merge_archs (w_archs src) (w_archs dst) [] in
  let '(archs1, evs1) := detach_others (w_archs src) archs0 in
  Some (mkWorld (w_n dst) archs1 (union_tid (w_tid src) (w_tid dst))
                (w_slots src) (w_free src) (w_len src) (w_res src),
        evs0 ++ evs1 ++ res_drops (w_res dst) ++ res_clones (w_res src)).

(** * Equality ([world/impl_eq.rs], [archetypes/impl_eq.rs],
      [archetype::component_eq], allocator/slot/location [PartialEq]) *)
Definition list_eqb {A} (eqb : A -> A -> bool) : list A -> list A -> bool :=
  fix go (a b : list A) : bool :=
    match a, b with
    | [], [] => true
    | x :: a', y :: b' => eqb x y && go a' b'
    | _, _ => false
    end.

Definition row_eqb (a b : row) : bool :=
  eid_eqb (fst a) (fst b) && list_eqb N.eqb (snd a) (snd b).

Definition loc_eqb (a b : option (shape * nat)) : bool :=
  match a, b with
  | None, None => true
  | Some (s1, r1), Some (s2, r2) => shape_eqb s1 s2 && Nat.eqb r1 r2
  | _, _ => false
  end.

Definition slot_eqb (a b : slot) : bool :=
  N.eqb (s_gen a) (s_gen b) && loc_eqb (s_loc a) (s_loc b).

Definition archs_eqb (a b : list arch) : bool :=
  Nat.eqb (length a) (length b)
  && forallb (fun x => match find_arch (a_shape x) b with
                       | Some y => list_eqb row_eqb (a_rows x) (a_rows y)
                       | None => false
                       end) a.

Definition world_eqb (a b : world) : bool :=
  Nat.eqb (w_len a) (w_len b)
  && archs_eqb (w_archs a) (w_archs b)
  && list_eqb slot_eqb (w_slots a) (w_slots b)
  && list_eqb Nat.eqb (w_free a) (w_free b)
  && list_eqb N.eqb (w_res a) (w_res b).

(** * Serialized content ([world/impl_serde.rs], [archetypes/impl_serde.rs],
      [allocator/impl_serde.rs]) *)
Record sworld := mkSWorld {
  sw_archs  : list arch;        (* every archetype: identifier, rows (ids + values) *)
  sw_length : nat;              (* Allocator: slots.len() *)
  sw_free   : list eid;         (* Allocator: free indices with their slot's generation *)
  sw_res    : list val
}.

(** The free entry's generation is read with [get_unchecked]. *)
Fixpoint ser_free (slots : list slot) (free : list nat) : option (list eid) :=
  match free with
  | [] => Some []
  | i :: t => s <- nth_error slots i ;; r <- ser_free slots t ;; Some ((i, s_gen s) :: r)
  end.

Definition ser_world (w : world) : option sworld :=
  fr <- ser_free (w_slots w) (w_free w) ;;
  Some (mkSWorld (w_archs w) (length (w_slots w)) fr (w_res w)).

Inductive de_error :=
| DupArchetype | FreeOutOfBounds | DupFree | ArchOutOfBounds | DupArch | MissingIndex | BadShape.

(** [Allocator::from_serialized_parts] *)
Definition place (i : nat) (s : slot) (e_oob e_dup : de_error) (slots : list (option slot))
  : de_error + list (option slot) :=
  match nth_error slots i with
  | None => inl e_oob
  | Some (Some _) => inl e_dup
  | Some None => inr (upd i (fun _ => Some s) slots)
  end.

Fixpoint place_free (free : list eid) (slots : list (option slot))
  : de_error + list (option slot) :=
  match free with
  | [] => inr slots
  | (i, g) :: t =>
      match place i (mkSlot g None) FreeOutOfBounds DupFree slots with
      | inl e => inl e
      | inr s1 => place_free t s1
      end
  end.

Fixpoint place_rows (sh : shape) (r : nat) (ids : list eid) (slots : list (option slot))
  : de_error + list (option slot) :=
  match ids with
  | [] => inr slots
  | (i, g) :: t =>
      match place i (mkSlot g (Some (sh, r))) ArchOutOfBounds DupArch slots with
      | inl e => inl e
      | inr s1 => place_rows sh (S r) t s1
      end
  end.

Fixpoint place_archs (archs : list arch) (slots : list (option slot))
  : de_error + list (option slot) :=
  match archs with
  | [] => inr slots
  | a :: t =>
      match place_rows (a_shape a) 0 (map fst (a_rows a)) slots with
      | inl e => inl e
      | inr s1 => place_archs t s1
      end
  end.

Fixpoint all_some (slots : list (option slot)) : option (list slot) :=
  match slots with
  | [] => Some []
  | None :: _ => None
  | Some s :: t => match all_some t with Some r => Some (s :: r) | None => None end
  end.

(** [DeserializeArchetypes]: insert one by one, error on a repeated identifier. *)
Fixpoint insert_archs (archs : list arch) (acc : list arch) : de_error + list arch :=
  match archs with
  | [] => inr acc
  | a :: t =>
      match find_arch (a_shape a) acc with
      | Some _ => inl DupArchetype
      | None => insert_archs t (acc ++ [a])
      end
  end.

(** Shape of the serialized archetype is well-formed for registry length [n]
    (the identifier has exactly the right number of bytes, no padding bit set)
    and every row has one value per set bit — enforced by the token decoder. *)
Definition wf_sarch (n : nat) (a : arch) : bool :=
  Nat.eqb (length (a_shape a)) n
  && forallb (fun rw => Nat.eqb (length (snd rw)) (count_true (a_shape a))) (a_rows a).

Definition de_world (n : nat) (s : sworld) : de_error + world :=
  if negb (forallb (wf_sarch n) (sw_archs s)) then inl BadShape else
  match insert_archs (sw_archs s) [] with
  | inl e => inl e
  | inr archs =>
      match place_free (sw_free s) (repeat None (sw_length s)) with
      | inl e => inl e
      | inr s1 =>
          match place_archs archs s1 with
          | inl e => inl e
          | inr s2 =>
              match all_some s2 with
              | None => inl MissingIndex
              | Some slots =>
                  inr (mkWorld n archs [] slots (map fst (sw_free s))
                               (total_rows archs) (sw_res s))
              end
          end
      end
  end.

Definition de_events (w : world) : list event := [].

(** * Dropping a world ([archetype/impl_drop.rs] for every archetype of the
      table, then the resources): every stored value is dropped once. *)
Definition drop_world (w : world) : list event :=
  flat_map arch_drops (w_archs w) ++ res_drops (w_res w).
