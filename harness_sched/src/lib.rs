pub mod sched_support;
