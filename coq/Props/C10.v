(** C10 — A cloned world is an exact, fully independent copy.
    Property theorems only; proofs are in Proofs/CloneEq.v.
    Independence of the two worlds is true by construction in a functional
    model; it is carried by the correspondence check (pointer-identity dump,
    lock-step continuation), not by a theorem. *)
From Coq Require Import Permutation.
From Brood Require Import Base World Multi Spec BaseFacts Inv CloneEq ClearOrderFacts.

(** clone() never reaches an unchecked failure and yields the same world. *)
Theorem C10_clone : forall w, Inv w ->
  exists evs, clone_world w = Some (w, evs) /\ world_eqb w w = true /\ Inv w.
Proof.
  intros w HI. destruct (clone_world w) as [[w' evs]|] eqn:E.
  - pose proof (clone_world_same _ _ _ E) as ->. exists evs. split; [reflexivity|].
    split; [apply world_eqb_refl; exact HI | exact HI].
  - exfalso. exact (clone_world_safe w HI E).
Qed.
Check (C10_clone : forall w, Inv w ->
  exists evs, clone_world w = Some (w, evs) /\ world_eqb w w = true /\ Inv w).
Print Assumptions C10_clone.

(** clone_from(): whatever the destination held, the result holds exactly the
    source's entities, identifiers, allocator state and resources, and is a
    valid world again. *)
Theorem C10_clone_from : forall dst src, Inv dst -> Inv src -> w_n dst = w_n src ->
  exists w' evs, clone_from_world dst src = Some (w', evs) /\ Inv w' /\
    w_slots w' = w_slots src /\ w_free w' = w_free src /\ w_len w' = w_len src /\
    w_res w' = w_res src /\ feq (absf w') (absf src).
Proof.
  intros dst src Hd Hs Hn.
  destruct (clone_from_world dst src) as [[w' evs]|] eqn:E.
  - exists w', evs. split; [reflexivity|].
    split; [exact (clone_from_inv _ _ _ _ Hd Hs Hn E)|].
    destruct (clone_from_content _ _ _ _ Hd Hs Hn E) as (A & B & C & D & _ & F). auto.
  - exfalso. exact (clone_from_safe dst src Hs E).
Qed.
Check (C10_clone_from : forall dst src, Inv dst -> Inv src -> w_n dst = w_n src ->
  exists w' evs, clone_from_world dst src = Some (w', evs) /\ Inv w' /\
    w_slots w' = w_slots src /\ w_free w' = w_free src /\ w_len w' = w_len src /\
    w_res w' = w_res src /\ feq (absf w') (absf src)).
Print Assumptions C10_clone_from.

(** "Both keep satisfying every other property", among them C06's identical behaviour: a clone given the same
    operation answers and ends up exactly as the original does — also for [clear], whose only input that is not
    part of the operation, the order of the archetype table, no longer matters (finding F6 repaired). *)
Theorem C10_clone_behaves_identically : forall w w' evs o, clone_world w = Some (w', evs) -> step w' o = step w o.
Proof. intros w w' evs o E. rewrite (clone_world_same _ _ _ E). reflexivity. Qed.

Theorem C10_clone_clears_identically : forall w w' evs v1 v2, clone_world w = Some (w', evs) -> Permutation v1 v2 ->
  (forall sh, In sh v1 -> length sh = w_n w) -> step w' (Clear v2) = step w (Clear v1).
Proof.
  intros w w' evs v1 v2 E P HL. rewrite (clone_world_same _ _ _ E).
  symmetry. exact (clear_independent_of_table_order w v1 v2 P HL).
Qed.
Check (C10_clone_clears_identically : forall w w' evs v1 v2, clone_world w = Some (w', evs) -> Permutation v1 v2 ->
  (forall sh, In sh v1 -> length sh = w_n w) -> step w' (Clear v2) = step w (Clear v1)).
Print Assumptions C10_clone_clears_identically.
