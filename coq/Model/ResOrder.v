(** Which orders of resource views type-check ([resource/contains/views.rs]: the [Expanded]
    impls; [query/view/resource/reshape.rs], [get.rs]).  Resource types are positions in the
    world's resource list [rs]; a request [vs] is a list of such positions in the order the user
    wrote the views.

    [Reshape<Target, Indices>] for a list of views: for each target view, in order, [Get] finds
    it at some index in what is left of the list and removes it; the indices are the type-level
    witness, and the list must be used up.

    [Expanded] walks the resource list.  A resource that is requested contributes its view to
    the canonical list (views in resource-list order) and requires that this level's canonical
    list reshapes into the views still requested.  Whether the witness of that reshape is
    independent of the one used further down the list ([per_level = true]) or must have the
    deeper level's witness as its tail ([per_level = false], the code before the repair of
    finding F15) is read off the source: [fact_resource_reshape_indices_per_level].
    Definitions only. *)
From Brood Require Export Base.
From Brood Require Export Facts.

Fixpoint index_of (x : nat) (l : list nat) : option nat :=
  match l with
  | [] => None
  | y :: t => if Nat.eqb x y then Some 0 else option_map S (index_of x t)
  end.

Fixpoint remove_nth (i : nat) (l : list nat) : list nat :=
  match l, i with
  | [], _ => []
  | _ :: t, 0 => t
  | y :: t, S j => y :: remove_nth j t
  end.

Fixpoint reshape_idx (target l : list nat) : option (list nat) :=
  match target with
  | [] => match l with [] => Some [] | _ => None end
  | x :: t =>
      match index_of x l with
      | Some i => option_map (cons i) (reshape_idx t (remove_nth i l))
      | None => None
      end
  end.

(** the views still requested after [Get<Resource, Index>] took this resource's view *)
Fixpoint remove_first (x : nat) (l : list nat) : list nat :=
  match l with
  | [] => []
  | y :: t => if Nat.eqb x y then t else y :: remove_first x t
  end.

Definition wanted (vs : list nat) (r : nat) : bool := existsb (Nat.eqb r) vs.

(** [CanonicalViews]: the requested resources in resource-list order *)
Definition canonical_order (rs vs : list nat) : list nat := filter (wanted vs) rs.

Fixpoint list_eqb (a b : list nat) : bool :=
  match a, b with
  | [], [] => true
  | x :: a', y :: b' => Nat.eqb x y && list_eqb a' b'
  | _, _ => false
  end.

Fixpoint expanded (per_level : bool) (rs vs : list nat) : bool :=
  match rs with
  | [] => match vs with [] => true | _ => false end
  | r :: rs' =>
      if wanted vs r then
        let vs' := remove_first r vs in
        let c' := canonical_order rs' vs' in
        expanded per_level rs' vs' &&
        match reshape_idx vs (r :: c') with
        | Some idx =>
            per_level ||
            match reshape_idx vs' c' with
            | Some idx' => list_eqb (tl idx) idx'
            | None => false
            end
        | None => false
        end
      else expanded per_level rs' vs
  end.

(** does [world.view_resources::<Views!(vs…), _>()] (and every other place resources are viewed:
    the bound is the same) type-check over [Resources!(rs…)]? *)
Definition res_views_accepted (rs vs : list nat) : bool :=
  expanded fact_resource_reshape_indices_per_level rs vs.

