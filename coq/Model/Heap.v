(** Physical layer, allocation level: one column of an archetype as the unsafe
    code handles it — a [Vec<C>] that exists only as raw parts [(address,
    capacity)] next to a length kept elsewhere, rebuilt with
    [Vec::from_raw_parts(ptr, length, cap)] around every call and stored back
    afterwards ([entity/sealed/storage.rs], [entities/sealed/storage.rs],
    [registry/sealed/storage.rs], [archetype/mod.rs]).
    The heap is a set of blocks, each remembering the element type, the
    capacity it was created with (its layout) and its cells.  Rebuilding a Vec
    CHECKS that the block is live, has that element type and that capacity, and
    that the first [length] cells are initialised; releasing or resizing a block
    CHECKS that the capacity passed is the one it was created with — otherwise
    the distinguished UB outcome [None].  The new capacity after growth is an
    oracle ([want]): any answer that is large enough.  Whether pointer and
    capacity are stored back after a capacity-changing call is read off the
    source (Gen/Facts.v: [fact_wb_*]); without it the model keeps the stale raw
    parts, as the code would.  Definitions only. *)
From Brood Require Export Base.
From Brood Require Export Facts.

Record block := mkBlock { bk_elem : nat; bk_cap : nat; bk_cells : list (option val) }.
Record heap := mkHeap { hp_blocks : list (nat * block); hp_next : nat }.
Definition raw := (nat * nat)%type.      (* address, capacity *)

Fixpoint hfind (a : nat) (l : list (nat * block)) : option block :=
  match l with
  | [] => None
  | (a', b) :: t => if Nat.eqb a' a then Some b else hfind a t
  end.
Fixpoint hremove (a : nat) (l : list (nat * block)) : list (nat * block) :=
  match l with
  | [] => []
  | (a', b) :: t => if Nat.eqb a' a then t else (a', b) :: hremove a t
  end.
Fixpoint hset (a : nat) (b : block) (l : list (nat * block)) : list (nat * block) :=
  match l with
  | [] => []
  | (a', b') :: t => if Nat.eqb a' a then (a', b) :: t else (a', b') :: hset a b t
  end.

(** a zero-sized element type never allocates ([zst = true]); capacity 0 means nothing is allocated *)
Definition allocated (zst : bool) (r : raw) : bool := negb zst && negb (Nat.eqb (snd r) 0).

(** [Vec::from_raw_parts(ptr, len, cap)] is sound iff ... *)
Definition rebuild (h : heap) (zst : bool) (elem : nat) (r : raw) (len : nat) : option (list (option val)) :=
  if zst then Some (repeat (Some 0%N) len)
  else if Nat.eqb (snd r) 0 then (if Nat.eqb len 0 then Some [] else None)
  else match hfind (fst r) (hp_blocks h) with
       | Some b =>
           if Nat.eqb (bk_elem b) elem && Nat.eqb (bk_cap b) (snd r) && Nat.leb len (snd r)
              && forallb (fun c => match c with Some _ => true | None => false end) (firstn len (bk_cells b))
           then Some (bk_cells b) else None
       | None => None
       end.

Definition halloc (h : heap) (elem cap : nat) : heap * nat :=
  (mkHeap ((hp_next h, mkBlock elem cap (repeat None cap)) :: hp_blocks h) (S (hp_next h)), hp_next h).

(** release with the layout derived from [cap]: must be the block's own *)
Definition hdealloc (h : heap) (zst : bool) (elem : nat) (r : raw) : option heap :=
  if allocated zst r then
    match hfind (fst r) (hp_blocks h) with
    | Some b => if Nat.eqb (bk_elem b) elem && Nat.eqb (bk_cap b) (snd r)
                then Some (mkHeap (hremove (fst r) (hp_blocks h)) (hp_next h)) else None
    | None => None
    end
  else Some h.

(** a fresh block of [ncap] cells holding copies of the first [len] cells *)
Definition hgrow (h : heap) (elem ncap len : nat) (cells : list (option val)) : heap * nat :=
  (mkHeap ((hp_next h, mkBlock elem ncap (firstn len cells ++ repeat None (ncap - len))) :: hp_blocks h) (S (hp_next h)),
   hp_next h).

(** grow (or shrink) to exactly [ncap] cells, keeping the first [len] *)
Definition hresize (h : heap) (zst : bool) (elem : nat) (r : raw) (len ncap : nat) : option (heap * raw) :=
  match rebuild h zst elem r len with
  | None => None
  | Some cells =>
      if zst then Some (h, r)
      else if Nat.eqb ncap 0 then match hdealloc h zst elem r with Some h' => Some (h', (0, 0)) | None => None end
      else
        match hdealloc (fst (hgrow h elem ncap len cells)) zst elem r with
        | Some h3 => Some (h3, (snd (hgrow h elem ncap len cells), ncap))
        | None => None
        end
  end.

(** what the caller keeps after a capacity-changing call: the new raw parts if the code stores
    pointer and capacity back, the old ones otherwise *)
Definition stored (wb : bool) (old new : raw) : raw := if wb then new else old.

(** [v.push(x)] on the rebuilt Vec, then the write-back *)
Definition col_push (wb : bool) (h : heap) (zst : bool) (elem : nat) (r : raw) (len : nat) (x : val) (want : nat)
  : option (heap * raw) :=
  match rebuild h zst elem r len with
  | None => None
  | Some _ =>
      if zst then Some (h, r)
      else if Nat.ltb len (snd r) then
        match hfind (fst r) (hp_blocks h) with
        | Some b => Some (mkHeap (hset (fst r) (mkBlock elem (bk_cap b) (upd len (fun _ => Some x) (bk_cells b))) (hp_blocks h)) (hp_next h), r)
        | None => None
        end
      else
        match hresize h zst elem r len (Nat.max want (S len)) with
        | Some (h1, r1) =>
            match hfind (fst r1) (hp_blocks h1) with
            | Some b => Some (mkHeap (hset (fst r1) (mkBlock elem (bk_cap b) (upd len (fun _ => Some x) (bk_cells b))) (hp_blocks h1)) (hp_next h1),
                              stored wb r r1)
            | None => None
            end
        | None => None
        end
  end.

(** [v.reserve(additional)] *)
Definition col_reserve (wb : bool) (h : heap) (zst : bool) (elem : nat) (r : raw) (len add want : nat) : option (heap * raw) :=
  match rebuild h zst elem r len with
  | None => None
  | Some _ =>
      if zst then Some (h, r)
      else if Nat.leb (len + add) (snd r) then Some (h, r)
      else match hresize h zst elem r len (Nat.max want (len + add)) with
           | Some (h1, r1) => Some (h1, stored wb r r1)
           | None => None
           end
  end.

(** [v.shrink_to_fit()] *)
Definition col_shrink (wb : bool) (h : heap) (zst : bool) (elem : nat) (r : raw) (len : nat) : option (heap * raw) :=
  match rebuild h zst elem r len with
  | None => None
  | Some _ =>
      if zst then Some (h, r)
      else if Nat.eqb (snd r) len then Some (h, r)
      else match hresize h zst elem r len len with
           | Some (h1, r1) => Some (h1, stored wb r r1)
           | None => None
           end
  end.

(** [drop(Vec::from_raw_parts(ptr, len, cap))] *)
Definition col_free (h : heap) (zst : bool) (elem : nat) (r : raw) (len : nat) : option heap :=
  match rebuild h zst elem r len with
  | None => None
  | Some _ => hdealloc h zst elem r
  end.

(** the facts of the source, per operation class *)
Definition wb_push : bool := fact_wb_push && fact_wb_buffer_push && fact_wb_other.
Definition wb_reserve : bool := fact_wb_reserve && fact_wb_extend.
Definition wb_shrink : bool := fact_wb_shrink.

(** the column is what the raw parts say *)
Definition col_ok (h : heap) (zst : bool) (elem : nat) (r : raw) (len : nat) : Prop :=
  rebuild h zst elem r len <> None /\ (allocated zst r = true -> fst r < hp_next h).

(** every block has an address below the next fresh one, once *)
Definition heap_wf (h : heap) : Prop :=
  NoDup (map fst (hp_blocks h)) /\ forall a b, In (a, b) (hp_blocks h) -> a < hp_next h /\ length (bk_cells b) = bk_cap b.

(** * A store of columns sharing one heap: what an archetype table is at this level *)
Record col := mkCol { c_zst : bool; c_elem : nat; c_raw : raw; c_len : nat }.

Inductive cop :=
| CNew (zst : bool) (elem : nat)             (* Vec::new() taken apart *)
| CPush (i : nat) (x : val) (want : nat)
| CReserve (i add want : nat)
| CShrink (i : nat)
| CSetLen (i n : nat)                         (* swap_remove / clear / pop: never longer *)
| CFree (i : nat).                            (* drop(Vec::from_raw_parts(..)); the raw parts are not used again *)

Definition cstate := (heap * list col)%type.
Definition cinit : cstate := (mkHeap [] 0, []).

Definition with_col (s : cstate) (i : nat) (f : col -> option (heap * col)) : option cstate :=
  match nth_error (snd s) i with
  | None => Some s
  | Some c => match f c with
              | Some (h', c') => Some (h', upd i (fun _ => c') (snd s))
              | None => None
              end
  end.

Definition cstep (wbp wbr wbs : bool) (s : cstate) (o : cop) : option cstate :=
  let h := fst s in
  match o with
  | CNew zst elem => Some (h, snd s ++ [mkCol zst elem (0, 0) 0])
  | CPush i x want =>
      with_col s i (fun c => match col_push wbp h (c_zst c) (c_elem c) (c_raw c) (c_len c) x want with
                             | Some (h', r') => Some (h', mkCol (c_zst c) (c_elem c) r' (S (c_len c)))
                             | None => None end)
  | CReserve i add want =>
      with_col s i (fun c => match col_reserve wbr h (c_zst c) (c_elem c) (c_raw c) (c_len c) add want with
                             | Some (h', r') => Some (h', mkCol (c_zst c) (c_elem c) r' (c_len c))
                             | None => None end)
  | CShrink i =>
      with_col s i (fun c => match col_shrink wbs h (c_zst c) (c_elem c) (c_raw c) (c_len c) with
                             | Some (h', r') => Some (h', mkCol (c_zst c) (c_elem c) r' (c_len c))
                             | None => None end)
  | CSetLen i n =>
      with_col s i (fun c => Some (h, mkCol (c_zst c) (c_elem c) (c_raw c) (Nat.min n (c_len c))))
  | CFree i =>
      with_col s i (fun c => match col_free h (c_zst c) (c_elem c) (c_raw c) (c_len c) with
                             | Some h' => Some (h', mkCol (c_zst c) (c_elem c) (0, 0) 0)
                             | None => None end)
  end.

Fixpoint crun (wbp wbr wbs : bool) (s : cstate) (ops : list cop) : option cstate :=
  match ops with
  | [] => Some s
  | o :: t => match cstep wbp wbr wbs s o with Some s' => crun wbp wbr wbs s' t | None => None end
  end.

(** A growth interrupted by a panic of user code ([Vec::clone_from] reserved room in the column being
    cloned into and moved it, then a component's [Clone] panicked): pointer and capacity of the moved
    column reach the archetype only if something writes them back while unwinding — read off the source,
    [fact_clone_from_writes_back_on_unwind]; the archetype holds no rows meanwhile (length 0: the values
    in the block are leaked, the block itself stays owned by the column). *)
Definition cgrow_unwound (wbu : bool) (s : cstate) (i add want : nat) : option cstate :=
  match cstep true wbu true s (CReserve i add want) with
  | Some s1 => cstep true true true s1 (CSetLen i 0)
  | None => None
  end.
Definition cgrow_unwound_src (s : cstate) (i add want : nat) : option cstate :=
  cgrow_unwound fact_clone_from_writes_back_on_unwind s i add want.

Definition c_alloc (c : col) : bool := allocated (c_zst c) (c_raw c).

(** every column is what its raw parts say; no two columns share a block; every block has an owner *)
Definition CInv (s : cstate) : Prop :=
  heap_wf (fst s) /\
  (forall i c, nth_error (snd s) i = Some c -> col_ok (fst s) (c_zst c) (c_elem c) (c_raw c) (c_len c)) /\
  (forall i j ci cj, i <> j -> nth_error (snd s) i = Some ci -> nth_error (snd s) j = Some cj ->
                     c_alloc ci = true -> c_alloc cj = true -> fst (c_raw ci) <> fst (c_raw cj)) /\
  (forall a, hfind a (hp_blocks (fst s)) <> None ->
             exists i c, nth_error (snd s) i = Some c /\ c_alloc c = true /\ fst (c_raw c) = a).

(** * Batch adoption ([entities/sealed/storage.rs] extend_components)
    [World::extend] hands over one caller-built [Vec<C>] per column.  If the column is empty AND owns no
    allocation (capacity 0), the caller's Vec is ADOPTED: its raw parts become the column's.  Otherwise the
    values are appended ([v.extend(..)] = reserve, then pushes that find room).  Whether the capacity is
    tested — not only the length — is read off the source ([fact_adopt_requires_no_allocation]): without
    the test, a column emptied by [clear] (length 0, capacity kept) would drop its block on the floor. *)
Definition cadopt (s : cstate) (i : nat) (vals : list val) (spare : nat) : option cstate :=
  with_col s i (fun c =>
    let cap := length vals + spare in
    if c_zst c then Some (fst s, mkCol true (c_elem c) (c_raw c) (length vals))
    else if Nat.eqb cap 0 then Some (fst s, mkCol false (c_elem c) (0, 0) 0)
    else let h := fst s in
         Some (mkHeap ((hp_next h, mkBlock (c_elem c) cap (map Some vals ++ repeat None spare)) :: hp_blocks h) (S (hp_next h)),
               mkCol false (c_elem c) (hp_next h, cap) (length vals))).

Definition cextend_ops (i : nat) (vals : list val) (want : nat) : list cop :=
  CReserve i (length vals) want :: map (fun x => CPush i x 0) vals.

Definition cextend (guard : bool) (s : cstate) (i : nat) (vals : list val) (spare want : nat) : option cstate :=
  match nth_error (snd s) i with
  | None => Some s
  | Some c =>
      if Nat.eqb (c_len c) 0 && (negb guard || Nat.eqb (snd (c_raw c)) 0) && negb (c_zst c)
      then cadopt s i vals spare
      else crun true true true s (cextend_ops i vals want)
  end.

Definition cextend_src (s : cstate) (i : nat) (vals : list val) (spare want : nat) : option cstate :=
  cextend fact_adopt_requires_no_allocation s i vals spare want.
