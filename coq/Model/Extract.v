(** Extraction of the executable model (ExtrOcamlBasic only). *)
From Brood Require Import World Multi SerdeC Phys Kinds Sched Query Subset SubsetM.
Require Extraction.
Require Import ExtrOcamlBasic.
Extraction "model.ml" step run abs clone_world clone_from_world world_eqb
  ser_world de_world empty_world get_loc is_active
  query_impl entry_query entries_entry_query de_content
  p_remove_row p_clear p_set p_drop_arch parch_of double_drops find_arch
  N.add N.mul N.div_eucl N.modulo N.of_nat N.to_nat.
