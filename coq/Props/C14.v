(** C14 — Programs requesting conflicting or thread-unsafe access do not compile.
    Property theorems only; proofs are in Proofs/AccessFacts.v.
    [accepts] (Model/Access.v) composes the bounds the library states for each
    public API: ContainsViews (each registry component consumed by at most one
    view), Disjoint between iterator views and entry views (through the
    regenerated Merge table), resource ContainsViews, the Send/Sync bounds of the
    unsafe impls and the lifetimes of returned references (both read off the
    source into Gen/Facts.v on every run).  PARTIAL: rustc's trait solver and
    borrow checker are the oracle for the bounds themselves; the generated program
    family is compiled by the real rustc and its verdicts compared with [accepts]. *)
From Brood Require Import Base World Kinds Tables Sched Facts Access BaseFacts AccessFacts.

(** Whatever the modelled bounds accept holds no two simultaneously usable
    references to one component or resource of which one is mutable, views nothing
    outside the registry, and lets no non-Send / non-Sync payload reach another
    thread — outside the known class K14a (finding F3). *)
Theorem C14_sound : forall p, accepts p = true -> ~ K14 p -> Sound p.
Proof. exact accepts_sound. Qed.
Check (C14_sound : forall p, accepts p = true -> ~ K14 p -> Sound p).
Print Assumptions C14_sound.

(** The known finding, kept visible: two results of query::entries::Entry::query
    coexist (they carry the world lifetime, Gen/Facts.v records it), although both may be mutable. *)
Theorem C14_K14a_refuted : accepts (COverlap REntriesEntry true true) = true /\ ~ Sound (COverlap REntriesEntry true true).
Proof. split; [reflexivity|]. cbn. intros [H _]. discriminate. Qed.
Check (C14_K14a_refuted : accepts (COverlap REntriesEntry true true) = true /\ ~ Sound (COverlap REntriesEntry true true)).
Print Assumptions C14_K14a_refuted.

(** The paired conflict-free programs are accepted. *)
Theorem C14_neighbours : forall n k1 k2 c1 c2, c1 < n -> c2 < n -> c1 <> c2 ->
  accepts (CQuery n [VComp k1 c1; VComp k2 c2] []) = true /\
  accepts (CQuery n [VComp k1 c1] [VComp k2 c2]) = true /\
  (is_mut_kind k1 = false -> is_mut_kind k2 = false -> accepts (CQuery n [VComp k1 c1] [VComp k2 c1]) = true).
Proof. exact accepts_neighbours. Qed.
Check (C14_neighbours : forall n k1 k2 c1 c2, c1 < n -> c2 < n -> c1 <> c2 ->
  accepts (CQuery n [VComp k1 c1; VComp k2 c2] []) = true /\
  accepts (CQuery n [VComp k1 c1] [VComp k2 c2]) = true /\
  (is_mut_kind k1 = false -> is_mut_kind k2 = false -> accepts (CQuery n [VComp k1 c1] [VComp k2 c1]) = true)).
Print Assumptions C14_neighbours.

(** Non-vacuity: what is rejected. *)
Example C14_example :
  accepts (CQuery 2 [VComp KRef 0; VComp KRef 0] []) = false /\
  accepts (CQuery 2 [VComp KRef 0] [VComp KMut 0]) = false /\
  accepts (CQuery 2 [VComp KOptRef 0] [VComp KRef 0]) = true /\
  accepts (CResViews 2 [(false, 0); (true, 0)]) = false /\
  accepts (CThread TViewRef true false) = false /\ accepts (CThread TViewMut true false) = true /\
  accepts (COverlap RWorldEntry true true) = false.
Proof. vm_compute. repeat split; reflexivity. Qed.
