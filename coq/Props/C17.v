(** C17 — A panic in user code never leads to double drops or invalid memory.
    Property theorems only; proofs are in Proofs/PhysFacts.v.
    Cell-level model of the column store (Model/Phys.v): [fault = Some k] makes the
    k-th Drop callback of an operation panic; the operation stops where the code is
    unwound, leaving the raw parts and the shared length as they are at that moment;
    the world is dropped afterwards.  Proved safe: dropping a world, overwriting a
    component (Entry::add on a present component, writes through &mut views, resource
    writes), clear (finding F8b, repaired), remove (finding F8a, repaired).
    clone_from of an archetype (findings F8c and F11, repaired; Clone and Drop callbacks).
    PARTIAL: clone, serialization, equality, Debug, the shape
    changes of Entry::add/remove and system bodies have no fault model here; they are
    judged by fault injection on the real code (every callback kind, every position). *)
From Brood Require Import Base World Multi Phys BaseFacts PhysFacts Heap HeapFacts ColsFacts CloneFromM CloneFromFacts CloneFromW CloneFromWFacts.

(** A panic in any Drop while the world is being dropped: the rest of that column is
    still dropped, later columns are leaked, nothing is dropped twice. *)
Theorem C17_world_drop : forall a f, Clean a -> double_drops (fst (p_drop_arch a f)) = [].
Proof. intros a f H. exact (drop_clean_no_double a f H). Qed.
Check (C17_world_drop : forall a f, Clean a -> double_drops (fst (p_drop_arch a f)) = []).
Print Assumptions C17_world_drop.

(** A panic in the Drop of an overwritten value: the new value is in place, the store is
    clean, and dropping the world later (with or without a further panic) drops nothing twice. *)
Theorem C17_overwrite : forall a r c v f a' evs p f', Clean a -> p_set a r c v f = Some (a', evs, p) ->
  double_drops evs = [] /\ double_drops (fst (p_drop_arch a' f')) = [].
Proof.
  intros a r c v f a' evs p f' HC H. destruct (set_keeps_clean a r c v f a' evs p HC H) as [HC' D].
  split; [exact D|]. exact (drop_clean_no_double a' f' HC').
Qed.
Check (C17_overwrite : forall a r c v f a' evs p f', Clean a -> p_set a r c v f = Some (a', evs, p) ->
  double_drops evs = [] /\ double_drops (fst (p_drop_arch a' f')) = []).
Print Assumptions C17_overwrite.

(** A panic in any Drop during [remove] (World::remove): the row has left every column, the identifier
    column and the shared length before the first Drop runs, so the archetype is clean and one row shorter
    whatever callback panics, and nothing is dropped twice then or when the world is dropped.  This is
    finding F8a REPAIRED; both orderings are read off the source ([fact_remove_defers_drops],
    [fact_remove_decrements_length_first]). *)
Theorem C17_remove : forall a i f f' a' evs p, Clean a -> p_remove_row a i f = Some (a', evs, p) ->
  Clean a' /\ pa_len a' = pa_len a - 1 /\ double_drops evs = [] /\ double_drops (fst (p_drop_arch a' f')) = [].
Proof. exact remove_fault_safe_src. Qed.
Check (C17_remove : forall a i f f' a' evs p, Clean a -> p_remove_row a i f = Some (a', evs, p) ->
  Clean a' /\ pa_len a' = pa_len a - 1 /\ double_drops evs = [] /\ double_drops (fst (p_drop_arch a' f')) = []).
Print Assumptions C17_remove.

(** the hypothesis is met: a removal with a panicking Drop does return a state *)
Example C17_remove_nonvacuous :
  exists a' evs, p_remove_row w_arch 0 (Some 0) = Some (a', evs, true) /\ pa_len a' = 2.
Proof. vm_compute. eauto. Qed.

(** ... as it was before the repair (finding F8a, class K17a): values dropped column by column, the length
    written last: the moved last cell is dropped a second time when the world is dropped. *)
Theorem C17_remove_F8a_before_the_repair :
  exists a i k, Clean a /\
    match p_remove_row_gen false false a i (Some k) with
    | Some (a', _, unwound) => unwound = true /\ double_drops (fst (p_drop_arch a' None)) <> []
    | None => False
    end.
Proof.
  exists w_arch, 0, 0. split.
  - split; [reflexivity|]. intros col [<-|[<-|[]]] r Hr; cbn in Hr;
      destruct r as [|[|[|r]]]; try lia; cbn; eauto.
  - pose proof remove_fault_double_drop as H. destruct (p_remove_row_gen false false w_arch 0 (Some 0)) as [[[a' e] u]|]; [|exact H].
    destruct H as [H1 H2]. split; [exact H1|]. rewrite H2. discriminate.
Qed.
Print Assumptions C17_remove_F8a_before_the_repair.

(** A panic in any Drop during [clear] (World::clear, and the clearing of a destination-only archetype by
    clone_from): the archetype is left empty, the values not dropped yet are leaked, nothing is dropped
    twice then or when the world is dropped.  This is finding F8b REPAIRED: the shared length is set
    before the components are dropped, which is read off the source ([fact_clear_sets_length_first]). *)
Theorem C17_clear : forall a f f', Clean a ->
  let '(a', evs, _) := p_clear a f in
  pa_len a' = 0 /\ double_drops evs = [] /\ double_drops (fst (p_drop_arch a' f')) = [].
Proof. exact clear_fault_safe_src. Qed.
Check (C17_clear : forall a f f', Clean a ->
  let '(a', evs, _) := p_clear a f in
  pa_len a' = 0 /\ double_drops evs = [] /\ double_drops (fst (p_drop_arch a' f')) = []).
Print Assumptions C17_clear.

(** ... as it was before the repair (length written last): the emptied column is dropped again. *)
Theorem C17_clear_F8b_before_the_repair :
  exists a k, Clean a /\
    let '(a', _, unwound) := p_clear_gen false a (Some k) in
    unwound = true /\ double_drops (fst (p_drop_arch a' None)) <> [].
Proof.
  exists w_arch, 1. split.
  - split; [reflexivity|]. intros col [<-|[<-|[]]] r Hr; cbn in Hr;
      destruct r as [|[|[|r]]]; try lia; cbn; eauto.
  - pose proof clear_fault_double_drop as H. destruct (p_clear_gen false w_arch (Some 1)) as [[a' e] u].
    destruct H as [H1 H2]. split; [exact H1|]. rewrite H2. discriminate.
Qed.
Print Assumptions C17_clear_F8b_before_the_repair.

(** A panic in any Clone or Drop callback during [Archetype::clone_from] (the k-th callback of either
    kind): the archetype holds no rows while its columns are replaced — read off the source,
    [fact_clone_from_hides_rows_first] — so nothing is dropped twice, then or when the world is dropped,
    whatever the lengths of destination and source; and a call that returns leaves a clean archetype
    holding exactly the source's values (the part of C10 that is about one archetype).
    This is finding F8c REPAIRED. *)
Theorem C17_clone_from : forall a src lb f f', Clean a ->
  length src = count_true (pa_shape a) -> (forall s, In s src -> length s = lb) ->
  let '(a', evs, unwound) := p_clone_from a src lb f in
  double_drops evs = [] /\ double_drops (fst (p_drop_arch a' f')) = [] /\
  (unwound = true -> pa_len a' = 0) /\
  (unwound = false -> Clean a' /\ pa_len a' = lb /\
                      Forall2 (fun col' s => firstn lb col' = map Owned s) (pa_cols a') src).
Proof. exact clone_from_safe_src. Qed.
Check (C17_clone_from : forall a src lb f f', Clean a ->
  length src = count_true (pa_shape a) -> (forall s, In s src -> length s = lb) ->
  let '(a', evs, unwound) := p_clone_from a src lb f in
  double_drops evs = [] /\ double_drops (fst (p_drop_arch a' f')) = [] /\
  (unwound = true -> pa_len a' = 0) /\
  (unwound = false -> Clean a' /\ pa_len a' = lb /\
                      Forall2 (fun col' s => firstn lb col' = map Owned s) (pa_cols a') src)).
Print Assumptions C17_clone_from.

(** the hypotheses are met and both outcomes occur: a longer destination, a Clone panic in the second column *)
Example C17_clone_from_nonvacuous :
  (let '(a', _, unwound) := p_clone_from d_arch [[91]%N; [92]%N] 1 (Some (CbClone, 1)) in unwound = true /\ pa_len a' = 0) /\
  (let '(a', _, unwound) := p_clone_from d_arch [[91]%N; [92]%N] 1 None in unwound = false /\ pa_len a' = 1).
Proof. vm_compute. auto. Qed.

(** ... as it was before the repair (the old length kept over columns already truncated): *)
Theorem C17_clone_from_F8c_before_the_repair :
  exists a src lb k, Clean a /\ length src = count_true (pa_shape a) /\ (forall s, In s src -> length s = lb) /\
    let '(a', _, unwound) := p_clone_from_gen false a src lb (Some (CbClone, k)) in
    unwound = true /\ double_drops (fst (p_drop_arch a' None)) <> [].
Proof.
  exists d_arch, [[91]%N; [92]%N], 1, 1. split.
  - split; [reflexivity|]. intros col [<-|[<-|[]]] r Hr; cbn in Hr;
      destruct r as [|[|[|r]]]; try lia; cbn; eauto.
  - split; [reflexivity|]. split; [intros s [<-|[<-|[]]]; reflexivity|].
    pose proof clone_from_old_length_double_drop as H.
    destruct (p_clone_from_gen false d_arch [[91]%N; [92]%N] 1 (Some (CbClone, 1))) as [[a' e] u].
    destruct H as [H1 H2]. split; [exact H1|]. rewrite H2. discriminate.
Qed.
Print Assumptions C17_clone_from_F8c_before_the_repair.

(** The other half of F8c, at the heap level: [Vec::clone_from] had to grow (move) the column it was cloning
    into and a Clone panicked afterwards.  With pointer and capacity written back while unwinding — read off
    the source, [fact_clone_from_writes_back_on_unwind] — the column store keeps its invariant (no block
    released twice, every block owned), so every later history is safe ([crun_inv]); without it the column
    keeps the raw parts of the released block. *)
Theorem C17_clone_from_growth_unwound : forall s i add want, CInv s ->
  exists s', cgrow_unwound_src s i add want = Some s' /\ CInv s'.
Proof. exact cgrow_unwound_src_inv. Qed.
Check (C17_clone_from_growth_unwound : forall s i add want, CInv s ->
  exists s', cgrow_unwound_src s i add want = Some s' /\ CInv s').
Print Assumptions C17_clone_from_growth_unwound.

Theorem C17_clone_from_growth_F8c_before_the_repair :
  match crun true true true cinit [CNew false 0; CPush 0 1%N 1] with
  | Some s => match cgrow_unwound false s 0 5 0 with
              | Some s1 => cstep true true true s1 (CFree 0) = None
              | None => False
              end
  | None => False
  end.
Proof. exact wb_unwind_needed. Qed.
Print Assumptions C17_clone_from_growth_F8c_before_the_repair.

(** [World::clone_from] across archetypes and the allocator: whichever archetype the panic happens in, the
    world the caller gets back satisfies what [entry], [remove], [clear] and the swap-remove fix-up rely on
    unchecked — every accepted identifier points at a row holding it, every stored row is known to the
    allocator — because the old identifiers are forgotten before the archetypes are touched and every
    archetype is emptied while the panic unwinds (both read off the source).  Finding F11 REPAIRED. *)
Theorem C17_clone_from_world : forall dst src fault, WInv src -> WInv (pw_clone_from dst src fault).
Proof. exact clone_from_world_safe_src. Qed.
Check (C17_clone_from_world : forall dst src fault, WInv src -> WInv (pw_clone_from dst src fault)).
Print Assumptions C17_clone_from_world.

(** each of the two is needed: with the old allocator kept (before the repair) an accepted identifier
    points past the end of its archetype; without the emptying on unwind (the first, incomplete repair) a
    row stays stored under an identifier the allocator does not know *)
Theorem C17_clone_from_world_F11_before_the_repair :
  WInv w_dst /\ WInv w_src /\
  (let w := pw_clone_from_gen false true w_dst w_src (Some 1) in
   nth_error (pw_slots w) 2 = Some (Some (0, 2)) /\ row_of w 0 2 = None) /\
  (let w := pw_clone_from_gen true false w_dst w_src (Some 1) in
   row_of w 0 0 = Some 0 /\ nth_error (pw_slots w) 0 = None).
Proof. exact (conj w_dst_inv (conj w_src_inv (conj stale_allocator_resolves_nowhere unknown_rows_stay))). Qed.
Print Assumptions C17_clone_from_world_F11_before_the_repair.

(** [World::remove] under a panicking Drop, at the level of identifiers and rows: the identifier is released
    before the row is removed (read off the source), so the state the caller gets back is the state after a
    completed removal; released afterwards (before the repair of F8a), a panic leaves the identifier accepted,
    pointing at a row that holds another entity. *)
Theorem C17_remove_index_state : forall w i a r panics, pw_remove w i a r panics = pw_remove w i a r false.
Proof. exact remove_state_independent_of_panic. Qed.
Print Assumptions C17_remove_index_state.

(** ... and that state is consistent: for EVERY world satisfying the index invariant and every identifier it
    accepts, whatever Drop panics during [World::remove], the world the caller gets back satisfies it again
    (swap-remove of the identifier column, the moved row's slot, the released slot). *)
Theorem C17_remove_world : forall w i a r panics, WInv w -> nth_error (pw_slots w) i = Some (Some (a, r)) ->
  WInv (pw_remove w i a r panics).
Proof. exact remove_under_panic_keeps_WInv. Qed.
Check (C17_remove_world : forall w i a r panics, WInv w -> nth_error (pw_slots w) i = Some (Some (a, r)) ->
  WInv (pw_remove w i a r panics)).
Print Assumptions C17_remove_world.

Theorem C17_remove_released_last_before_the_repair :
  let w := pw_remove_gen false w_dst 0 0 0 true in
  nth_error (pw_slots w) 0 = Some (Some (0, 0)) /\ row_of w 0 0 = Some 2 /\ winv_b w = false.
Proof. exact remove_released_last_dangles. Qed.
Print Assumptions C17_remove_released_last_before_the_repair.

(** [Entry::remove] under a panicking Drop: the detached component is dropped last (read off the source), so
    the entity has its new row and its location before any user code runs; dropped earlier, a panic leaves the
    identifier pointing at another entity's row. *)
Theorem C17_entry_remove_index_state : forall w i a r b panics,
  pw_entry_remove w i a r b panics = pw_entry_remove w i a r b false.
Proof. exact entry_remove_state_independent_of_panic. Qed.
Print Assumptions C17_entry_remove_index_state.

(** ... and consistent: for every world satisfying the index invariant, whatever the detached component's
    Drop does, the world the caller gets back from [Entry::remove] satisfies it again (the shape change as the
    code performs it — the slot overwritten at the end, never released in between — is the composition of a
    removal and a push, each of which keeps the invariant). *)
Theorem C17_entry_remove_world : forall w i a r b panics, WInv w ->
  nth_error (pw_slots w) i = Some (Some (a, r)) -> b < length (pw_archs w) ->
  WInv (pw_entry_remove w i a r b panics).
Proof. exact entry_remove_under_panic_keeps_WInv. Qed.
Check (C17_entry_remove_world : forall w i a r b panics, WInv w ->
  nth_error (pw_slots w) i = Some (Some (a, r)) -> b < length (pw_archs w) ->
  WInv (pw_entry_remove w i a r b panics)).
Print Assumptions C17_entry_remove_world.

Theorem C17_entry_remove_dropped_early :
  let w := pw_entry_remove_gen false w_dst 0 0 0 1 true in
  nth_error (pw_slots w) 0 = Some (Some (0, 0)) /\ row_of w 0 0 = Some 2 /\ row_of w 1 1 = Some 0 /\ winv_b w = false.
Proof. exact entry_remove_dropped_early_dangles. Qed.
Print Assumptions C17_entry_remove_dropped_early.
