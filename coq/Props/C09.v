(** C09 — Parallel queries visit exactly what sequential queries visit, once each.
    Property theorems only; proofs are in Proofs/ParFacts.v.
    rayon (bridge, slice producers, hashbrown's RawParIter) is modelled by
    contract: however it splits the archetype sequence ([split]) and each index
    range ([isplit]), and for every consumer whose reducer is associative with
    the empty fold as unit and whose driving distributes over concatenation.
    PARTIAL: real thread interleavings are not exhibited; the statement is about
    what is handed to the consumer. *)
From Coq Require Import Permutation.
From Brood Require Import Base World Kinds Tables Sched Query Par BaseFacts Inv QueryFacts ParFacts.
From Brood Require Import Query Facts Advance AdvanceFacts.

(** For every consumer obeying rayon's contract and every splitting, the custom
    ResultsConsumer/ResultsFolder drives exactly the sequential item sequence. *)
Theorem C09_drive : forall (item R : Type) (reduce : R -> R -> R) (empty : R) (drive : list item -> R)
  (results : arch -> option (list item)),
  (forall a b c, reduce (reduce a b) c = reduce a (reduce b c)) ->
  (forall a, reduce empty a = a) -> (forall a, reduce a empty = a) ->
  drive [] = empty -> (forall xs ys, drive (xs ++ ys) = reduce (drive xs) (drive ys)) ->
  forall t, drive_par reduce empty drive results t = drive (seq_items results (flatten t)).
Proof. exact drive_par_seq. Qed.
Print Assumptions C09_drive.

(** Hence a parallel query presents exactly the results of the sequential query
    (the same sequence, so the same multiset; each entity exactly once by C03). *)
Theorem C09_par_eq_seq : forall w vs f t rows,
  flatten t = w_archs w -> query_impl w vs f = Some rows ->
  drive_par (@app (list qitem)) [] (fun l => l) (arch_results vs f) t = rows.
Proof. exact par_query_eq_seq. Qed.
Check (C09_par_eq_seq : forall w vs f t rows,
  flatten t = w_archs w -> query_impl w vs f = Some rows ->
  drive_par (@app (list qitem)) [] (fun l => l) (arch_results vs f) t = rows).
Print Assumptions C09_par_eq_seq.

Theorem C09_par_eq_spec : forall w vs f t, Inv w -> wf_views (w_n w) vs -> flatten t = w_archs w ->
  drive_par (@app (list qitem)) [] (fun l => l) (arch_results vs f) t = query_spec (abs w) vs f.
Proof. intros w vs f t HI WF Hf. eapply par_query_eq_seq; [exact Hf|]. apply query_impl_spec; assumption. Qed.
Check (C09_par_eq_spec : forall w vs f t, Inv w -> wf_views (w_n w) vs -> flatten t = w_archs w ->
  drive_par (@app (list qitem)) [] (fun l => l) (arch_results vs f) t = query_spec (abs w) vs f).
Print Assumptions C09_par_eq_spec.

(** The RepeatNone producer (absent optional mutable views): any splitting yields exactly count Nones. *)
Theorem C09_repeat_none : forall t count, repeat_none_items count t = repeat None count.
Proof. exact repeat_none_count. Qed.
Check (C09_repeat_none : forall t count, repeat_none_items count t = repeat None count).
Print Assumptions C09_repeat_none.

(** The zip of the column producers: whatever the index splitting, each row index of an
    archetype is handed to exactly one item, so no two items of one parallel iteration give
    access to the same cell. *)
Theorem C09_rows_once : forall t cols start len, NoDup (map fst (zip_items cols start len t)) /\
  zip_items cols start len t = map (fun r => (r, map (fun c => nth r c 0%N) cols)) (seq start len).
Proof. intros. split; [apply zip_items_nodup|apply zip_items_rows]. Qed.
Check (C09_rows_once : forall t cols start len, NoDup (map fst (zip_items cols start len t)) /\
  zip_items cols start len t = map (fun r => (r, map (fun c => nth r c 0%N) cols)) (seq start len)).
Print Assumptions C09_rows_once.

(** The same with RepeatNone among the zipped producers, each split by its own split_at: when every
    producer has the archetype's length, any splitting hands out exactly one row per index (None in
    the positions of an absent optional component). *)
Theorem C09_zip_with_repeat_none : forall t cols len, (forall c, In c cols -> pcol_len c = len) ->
  pzip_items cols len t = whole_rows cols len.
Proof. exact pzip_items_rows. Qed.
Check (C09_zip_with_repeat_none : forall t cols len, (forall c, In c cols -> pcol_len c = len) ->
  pzip_items cols len t = whole_rows cols len).
Print Assumptions C09_zip_with_repeat_none.

Example C09_example :
  repeat_none_items 5 (INodeN 2 ILeafN (INodeN 9 ILeafN ILeafN)) = [None; None; None; None; None] /\
  map fst (zip_items [[7%N; 8%N; 9%N]] 0 3 (INodeN 1 ILeafN (INodeN 1 ILeafN ILeafN))) = [0; 1; 2].
Proof. vm_compute. auto. Qed.


(** the parallel view of an archetype ([registry/sealed/par_view.rs]) selects its columns by the same walk as the
    sequential one: one column consumed for every component the archetype has — read off the source together
    with the sequential sites; so each row item handed to a worker is the item the sequential query yields *)
Theorem C09_par_view_walk : forall k bits cols vs, walk_src k bits cols vs = walk k bits cols vs.
Proof. exact walk_src_is_walk. Qed.
Print Assumptions C09_par_view_walk.
