(** How World and Batch values can be obtained ([world/mod.rs],
    [world/impl_default.rs], [world/impl_serde.rs],
    [registry/sealed/assertions.rs], [entities/mod.rs],
    [entities/sealed/length.rs]).  The control structure is read off the source
    by tools/translate_facts.py (Gen/Facts.v): where a fact does not hold the
    model takes the unchecked path, so the theorems below only type-check while
    every constructor really goes through the checks.  Definitions only. *)
From Brood Require Export Base.
From Brood Require Export Facts.

Inductive ctor := CNew | CWithResources | CDefault | CDeserialize.
Inductive outcome := Returned | Panicked.

(** [Assertions::assert_no_duplicates]: component types as numbers (TypeId is
    injective), the hash set as a list. [false] = the [assert!] fires. *)
Fixpoint assert_no_dup (tys : list nat) (seen : list nat) : bool :=
  match tys with
  | [] => true
  | c :: r =>
      if fact_assert_cons_inserts_then_recurses
      then (if existsb (Nat.eqb c) seen then false else assert_no_dup r (c :: seen))
      else true
  end.

(** [World::from_raw_parts] *)
Definition from_raw_parts (reg : list nat) : outcome :=
  if fact_from_raw_parts_asserts_first && fact_assert_starts_from_empty_set && fact_assert_null_is_noop
  then (if assert_no_dup reg [] then Returned else Panicked)
  else Returned.

Definition with_resources (reg : list nat) : outcome :=
  if fact_with_resources_calls_from_raw_parts then from_raw_parts reg else Returned.

Definition construct (k : ctor) (reg : list nat) : outcome :=
  if negb fact_only_from_raw_parts_and_clone_build then Returned else
  match k with
  | CNew => if fact_new_calls_with_resources then with_resources reg else Returned
  | CWithResources => with_resources reg
  | CDefault => if fact_default_calls_checked_ctor then with_resources reg else Returned
  | CDeserialize => if fact_deserialize_calls_from_raw_parts then from_raw_parts reg else Returned
  end.

(** [Length] for a heterogeneous list of columns, given by their lengths. *)
Fixpoint check_len_against (cols : list nat) (len : nat) : bool :=
  match cols with
  | [] => true
  | c :: r => if fact_len_cons then Nat.eqb c len && check_len_against r len else true
  end.

Definition component_len (cols : list nat) : nat := match cols with [] => 0 | c :: _ => c end.

Definition check_len (cols : list nat) : bool :=
  match cols with
  | [] => true
  | c :: r => if fact_len_cons && fact_len_null then check_len_against r c else true
  end.

(** [Batch::new]: [None] = the [assert!] fires; [Some len] = a batch of that length. *)
Definition batch_new (cols : list nat) : option nat :=
  if fact_batch_new_asserts_check_len_first
  then (if check_len cols then Some (component_len cols) else None)
  else Some (component_len cols).

(** The only other way to a [Batch] is [unsafe]. *)
Definition batch_safe_ctor_unique : bool :=
  fact_batch_new_unchecked_is_unsafe && fact_only_new_unchecked_builds_batch && fact_batch_len_is_first_column.

(** * The [entities!] macro: [new_unchecked] behind a safe-looking front
    The arms of the macro call [Batch::new_unchecked] inside an [unsafe] block of their own, so they
    are constructors reachable from safe code.  [entities!((c1, .., ck); n)] builds one [vec![c; n]]
    per column; [evals] is what successive evaluations of the size expression return (it may have side
    effects).  Whether it is evaluated once and the result reused is read off the source. *)
Definition macro_cloned_cols (once : bool) (k : nat) (evals : list nat) : list nat :=
  if once then repeat (hd 0 evals) k else firstn k (evals ++ repeat 0 k).
Definition macro_cloned (k : nat) (evals : list nat) : list nat :=
  macro_cloned_cols fact_entities_macro_evaluates_size_once k evals.

(** every way to a [Batch] from safe code: [Batch::new], or a macro arm — the cloning one above, the
    transposing one (rectangular by the macro pattern itself: one expression per tuple and column) and the
    two without any column; and the [unsafe] blocks of the macro hold none of the caller's expressions, so that
    a front looking safe IS safe (finding F17) *)
Definition batch_safe_ctors_known : bool :=
  batch_safe_ctor_unique && fact_entities_macro_unchecked_arms_known
  && fact_entities_macro_unsafe_holds_no_metavariable.
