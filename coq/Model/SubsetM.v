(** Query-time [Entries] ([query/entries.rs] Entry::query, [archetype/mod.rs]
    view_row_maybe_uninit_unchecked, [registry/sealed/view.rs] view_one_maybe_uninit,
    [query/view/subset.rs]): a system declares entry views [supers]; at run time it asks an
    entry for a sub-list [subs].  The row is first viewed through the SUPER views without
    knowing whether the archetype has their components: a non-optional view of an absent
    component leaves an UNINITIALISED slot.  Each sub-view is then taken out of the slot of
    the super-view of the same component by one of four operations, chosen per pair of
    kinds — the table is regenerated from the source (Gen/Subset.v).  [assume_init] on an
    uninitialised slot and [unwrap_unchecked] on [None] are the UB outcome [None].
    Definitions only. *)
From Brood Require Export Query.
From Brood Require Export Subset.

Inductive slot := SUninit | SInit (v : val) | SSome (v : val) | SNone.

(** [view_one_maybe_uninit]: the registry is walked along the identifier bits; a column is consumed for
    every component the archetype has, viewed or not *)
Fixpoint walk_mu (k : nat) (bits : shape) (cols : list val) (vs : list view) : option (list (nat * slot)) :=
  match bits with
  | [] => Some []
  | b :: bs =>
      match kind_of k vs with
      | Some kd =>
          if b then
            match cols with
            | c :: cs => match walk_mu (S k) bs cs vs with
                         | Some r => Some ((k, if is_opt_kind kd then SSome c else SInit c) :: r)
                         | None => None end
            | [] => None
            end
          else match walk_mu (S k) bs cols vs with
               | Some r => Some ((k, if is_opt_kind kd then SNone else SUninit) :: r)
               | None => None end
      | None =>
          if b then match cols with _ :: cs => walk_mu (S k) bs cs vs | [] => None end
          else walk_mu (S k) bs cols vs
      end
  end.

Definition extract (op : sub_op) (s : slot) (bit : bool) : option qitem :=
  match op with
  | OpAssumeInit => match s with SInit v => Some (QVal v) | _ => None end
  | OpUnwrap => match s with SSome v => Some (QVal v) | _ => None end
  | OpCondInit => if bit then match s with SInit v => Some (QOpt (Some v)) | _ => None end else Some (QOpt None)
  | OpPass => match s with SSome v => Some (QOpt (Some v)) | SNone => Some (QOpt None) | _ => None end
  end.

Definition has_ident (vs : list view) : bool := existsb (fun v => match v with VIdent => true | _ => false end) vs.

Definition sub_view (id : eid) (sh : shape) (canon : list (nat * slot)) (supers : list view) (v : view) : option qitem :=
  match v with
  | VIdent => if has_ident supers && subset_identifier_passes then Some (QId id) else None
  | VComp ks c =>
      match kind_of c supers with
      | Some kp =>
          match subset_table ks kp, find (fun p => Nat.eqb (fst p) c) canon with
          | Some op, Some p => extract op (snd p) (get_bit c sh)
          | _, _ => None
          end
      | None => None
      end
  end.

Definition entries_view (sh : shape) (supers subs : list view) (rw : row) : option (list qitem) :=
  match walk_mu 0 sh (snd rw) supers with
  | Some canon => mapM (sub_view (fst rw) sh canon supers) subs
  | None => None
  end.

(** The filter [And<Filter, SubViews>] as [query/view/contains/filter.rs] decides it: every item is looked up
    against the entry view of its component; what happens then is the regenerated [sub_filter_table].
    [None]: no impl for that item over those entry views (the program does not compile). *)
Definition item_filter (supers : list view) (sh : shape) (it : fitem) (c : nat) : option bool :=
  match sub_filter_table it (kind_of c supers) with
  | Some true => Some (get_bit c sh)
  | Some false => Some true
  | None => None
  end.
Definition item_of_kind (k : vkind) : fitem :=
  match k with KRef => IRef | KMut => IMut | KOptRef => IOptRef | KOptMut => IOptMut end.
Definition opt_and (a b : option bool) : option bool :=
  match a, b with Some x, Some y => Some (x && y) | _, _ => None end.
Definition opt_or (a b : option bool) : option bool :=
  match a, b with Some x, Some y => Some (x || y) | _, _ => None end.
Fixpoint efilter (supers : list view) (sh : shape) (f : qfilter) : option bool :=
  match f with
  | FNone => Some true
  | FHas c => item_filter supers sh IHas c
  | FNot g => option_map negb (efilter supers sh g)
  | FAnd g h => opt_and (efilter supers sh g) (efilter supers sh h)
  | FOr g h => opt_or (efilter supers sh g) (efilter supers sh h)
  | FViews vs =>
      fold_right (fun v acc => opt_and (match v with
                                        | VComp k c => item_filter supers sh (item_of_kind k) c
                                        | VIdent => Some true
                                        end) acc) (Some true) vs
  end.

(** every [Has<C>] of the filter names a component some entry view covers *)
Fixpoint filter_covered (supers : list view) (f : qfilter) : Prop :=
  match f with
  | FNone => True
  | FHas c => kind_of c supers <> None
  | FNot g => filter_covered supers g
  | FAnd g h | FOr g h => filter_covered supers g /\ filter_covered supers h
  | FViews _ => False      (* the user's filter never contains the internal views-as-filter node *)
  end.

(** [query::entries::Entry::query]: the filter is [And<Filter, SubViews>] on the entity's archetype *)
Definition entries_entry_query (w : world) (e : eid) (supers subs : list view) (f : qfilter)
  : option (option (list qitem)) :=
  match get_loc w e with
  | None => Some None
  | Some (sh, r) =>
      match efilter supers sh (FAnd f (FViews subs)) with
      | None => None
      | Some false => Some None
      | Some true =>
        match find_arch sh (w_archs w) with
        | Some a => match nth_error (a_rows a) r with
                    | Some rw => match entries_view sh supers subs rw with Some x => Some (Some x) | None => None end
                    | None => None
                    end
        | None => None
        end
      end
  end.

(** the sub-views are a subset the type system accepts: an impl exists for every pair *)
Definition subset_ok (supers subs : list view) : Prop :=
  forall v, In v subs ->
    match v with
    | VIdent => has_ident supers = true
    | VComp ks c => exists kp, kind_of c supers = Some kp /\ subset_table ks kp <> None
    end.
