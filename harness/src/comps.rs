//! Instrumented components (registry R5) and resources.
//!
//! C0: 8-byte, C1: zero-sized, C2: over-aligned (32), C3: heap-owning, C4: 4-byte.
use crate::ledger::{callback, Kind};
use serde::{Deserialize, Deserializer, Serialize, Serializer};
use std::fmt;

pub trait Tok: Sized {
    const IDX: u8;
    fn new(tok: u64) -> Self;
    fn tok(&self) -> u64;
    /// Replace the payload without running Drop (used by systems that mutate in place).
    fn set_tok(&mut self, tok: u64);
}

macro_rules! common_impls {
    ($name:ident) => {
        impl Clone for $name {
            fn clone(&self) -> Self {
                callback(Kind::Clone, Self::IDX, self.tok());
                Self::raw(self.tok())
            }
        }
        impl Drop for $name {
            fn drop(&mut self) {
                callback(Kind::Drop, Self::IDX, self.tok());
            }
        }
        impl PartialEq for $name {
            fn eq(&self, other: &Self) -> bool {
                callback(Kind::Eq, Self::IDX, self.tok());
                self.tok() == other.tok()
            }
        }
        impl Eq for $name {}
        impl fmt::Debug for $name {
            fn fmt(&self, f: &mut fmt::Formatter<'_>) -> fmt::Result {
                callback(Kind::Dbg, Self::IDX, self.tok());
                write!(f, "{}({})", stringify!($name), self.tok())
            }
        }
        impl Serialize for $name {
            fn serialize<S: Serializer>(&self, s: S) -> Result<S::Ok, S::Error> {
                callback(Kind::Ser, Self::IDX, self.tok());
                s.serialize_u64(self.tok())
            }
        }
        impl<'de> Deserialize<'de> for $name {
            fn deserialize<D: Deserializer<'de>>(d: D) -> Result<Self, D::Error> {
                let t = u64::deserialize(d)?;
                callback(Kind::De, Self::IDX, Self::norm(t));
                Ok(Self::raw(Self::norm(t)))
            }
        }
    };
}

pub struct C0(pub u64);
pub struct C1;
#[repr(align(32))]
pub struct C2(pub u64);
pub struct C3(pub Box<u64>);
pub struct C4(pub u32);

macro_rules! tok_impl {
    ($name:ident, $idx:expr, $raw:expr, $get:expr, $set:expr, $norm:expr) => {
        impl $name {
            #[inline]
            fn raw(t: u64) -> Self {
                ($raw)(t)
            }
            #[inline]
            fn norm(t: u64) -> u64 {
                ($norm)(t)
            }
        }
        impl Tok for $name {
            const IDX: u8 = $idx;
            fn new(tok: u64) -> Self {
                let t = Self::norm(tok);
                callback(Kind::New, $idx, t);
                Self::raw(t)
            }
            fn tok(&self) -> u64 {
                ($get)(self)
            }
            fn set_tok(&mut self, tok: u64) {
                ($set)(self, Self::norm(tok))
            }
        }
        common_impls!($name);
    };
}

tok_impl!(C0, 0, |t| C0(t), |s: &C0| s.0, |s: &mut C0, t| s.0 = t, |t| t);
tok_impl!(C1, 1, |_t| C1, |_s: &C1| 0u64, |_s: &mut C1, _t| (), |_t| 0u64);
tok_impl!(C2, 2, |t| C2(t), |s: &C2| s.0, |s: &mut C2, t| s.0 = t, |t| t);
tok_impl!(C3, 3, |t| C3(Box::new(t)), |s: &C3| *s.0, |s: &mut C3, t| *s.0 = t, |t| t);
tok_impl!(C4, 4, |t| C4(t as u32), |s: &C4| s.0 as u64, |s: &mut C4, t| s.0 = t as u32, |t: u64| t & 0xffff_ffff);

// Components 5..15 (registry R16 only): mixed sizes and alignments, a second zero-sized type,
// a second heap-owning type, a 16-byte and a 16-aligned one.
pub struct C5(pub u32);
pub struct C6(pub u64);
pub struct C7(pub u16);
pub struct C8(pub u8);
pub struct C9;
pub struct C10(pub Box<u64>);
pub struct C11(pub u32);
pub struct C12(pub u64, pub u64);
pub struct C13(pub u32);
#[repr(align(16))]
pub struct C14(pub u64);
pub struct C15(pub u32);
tok_impl!(C5, 5, |t| C5(t as u32), |s: &C5| s.0 as u64, |s: &mut C5, t| s.0 = t as u32, |t: u64| t & 0xffff_ffff);
tok_impl!(C6, 6, |t| C6(t), |s: &C6| s.0, |s: &mut C6, t| s.0 = t, |t| t);
tok_impl!(C7, 7, |t| C7(t as u16), |s: &C7| s.0 as u64, |s: &mut C7, t| s.0 = t as u16, |t: u64| t & 0xffff);
tok_impl!(C8, 8, |t| C8(t as u8), |s: &C8| s.0 as u64, |s: &mut C8, t| s.0 = t as u8, |t: u64| t & 0xff);
tok_impl!(C9, 9, |_t| C9, |_s: &C9| 0u64, |_s: &mut C9, _t| (), |_t| 0u64);
tok_impl!(C10, 10, |t| C10(Box::new(t)), |s: &C10| *s.0, |s: &mut C10, t| *s.0 = t, |t| t);
tok_impl!(C11, 11, |t| C11(t as u32), |s: &C11| s.0 as u64, |s: &mut C11, t| s.0 = t as u32, |t: u64| t & 0xffff_ffff);
tok_impl!(C12, 12, |t| C12(t, !t), |s: &C12| { assert_eq!(s.1, !s.0, "C12 payload torn"); s.0 }, |s: &mut C12, t| { s.0 = t; s.1 = !t; }, |t| t);
tok_impl!(C13, 13, |t| C13(t as u32), |s: &C13| s.0 as u64, |s: &mut C13, t| s.0 = t as u32, |t: u64| t & 0xffff_ffff);
tok_impl!(C14, 14, |t| C14(t), |s: &C14| s.0, |s: &mut C14, t| s.0 = t, |t| t);
tok_impl!(C15, 15, |t| C15(t as u32), |s: &C15| s.0 as u64, |s: &mut C15, t| s.0 = t as u32, |t: u64| t & 0xffff_ffff);

pub struct RA(pub u64);
pub struct RB(pub u64);
pub struct RC(pub u32);
pub struct RD(pub Box<u64>);
tok_impl!(RA, 100, |t| RA(t), |s: &RA| s.0, |s: &mut RA, t| s.0 = t, |t| t);
tok_impl!(RB, 101, |t| RB(t), |s: &RB| s.0, |s: &mut RB, t| s.0 = t, |t| t);
tok_impl!(RC, 102, |t| RC(t as u32), |s: &RC| s.0 as u64, |s: &mut RC, t| s.0 = t as u32, |t: u64| t & 0xffff_ffff);
tok_impl!(RD, 103, |t| RD(Box::new(t)), |s: &RD| *s.0, |s: &mut RD, t| *s.0 = t, |t| t);

pub type Res4 = brood::Resources!(RA, RB, RC, RD);
