(** Proofs for C15: positional lookup and the canonical-then-reshape view. *)
From Brood Require Import Base Res BaseFacts.

Lemma res_get_nth res i : res_get res i = nth_error res i.
Proof. revert i. induction res as [|r t IH]; intros [|i]; cbn; auto. Qed.

Lemma res_set_upd res i v : res_set res i v = upd i (fun _ => v) res.
Proof. revert i. induction res as [|r t IH]; intros [|i]; cbn; auto. f_equal. apply IH. Qed.

Lemma res_get_set res i j v : i < length res ->
  res_get (res_set res i v) j = if Nat.eqb j i then Some v else res_get res j.
Proof.
  revert i j. induction res as [|r t IH]; intros i j Hi; cbn in Hi; [lia|].
  destruct i as [|i], j as [|j]; cbn; auto. apply IH. lia.
Qed.

(** the canonical list holds exactly the requested resources, in list order *)
Lemma canonical_from_in k res req i v :
  In (i, v) (canonical_from k res req) <-> (k <= i /\ nth_error res (i - k) = Some v /\ requested req i = true).
Proof.
  revert k. induction res as [|r t IH]; intros k; cbn [canonical_from].
  - split; [intros []|]. intros (_ & H & _). destruct (i - k); discriminate.
  - destruct (requested req k) eqn:E.
    + cbn [In]. rewrite IH. split.
      * intros [H|(L & N & R)].
        -- inversion H; subst. rewrite Nat.sub_diag. cbn. auto.
        -- split; [lia|]. split; [|exact R]. replace (i - k) with (S (i - S k)) by lia. exact N.
      * intros (L & N & R). destruct (Nat.eq_dec i k) as [->|Hne].
        -- left. rewrite Nat.sub_diag in N. cbn in N. congruence.
        -- right. split; [lia|]. split; [|exact R]. replace (i - k) with (S (i - S k)) in N by lia. exact N.
    + rewrite IH. split.
      * intros (L & N & R). split; [lia|]. split; [|exact R]. replace (i - k) with (S (i - S k)) by lia. exact N.
      * intros (L & N & R). destruct (Nat.eq_dec i k) as [->|Hne]; [congruence|].
        split; [lia|]. split; [|exact R]. replace (i - k) with (S (i - S k)) in N by lia. exact N.
Qed.

Lemma canonical_from_keys_nodup k res req : NoDup (map fst (canonical_from k res req)).
Proof.
  revert k. induction res as [|r t IH]; intros k; cbn [canonical_from]; [constructor|].
  destruct (requested req k); [|apply IH]. cbn. constructor; [|apply IH].
  intros H. apply in_map_iff in H as ([i v] & E & Hin). cbn in E. subst i.
  apply canonical_from_in in Hin as (L & _). lia.
Qed.

Lemma get_view_spec i vs : NoDup (map fst vs) ->
  match get_view i vs with
  | Some (v, rest) => In (i, v) vs /\ (forall p, In p rest <-> (In p vs /\ fst p <> i)) /\ NoDup (map fst rest)
  | None => ~ In i (map fst vs)
  end.
Proof.
  induction vs as [|[k v] t IH]; intros ND; cbn [get_view]; [intros []|].
  cbn in ND. inversion ND as [|? ? Hn ND']; subst.
  destruct (Nat.eqb k i) eqn:E.
  - apply Nat.eqb_eq in E. subst k. split; [left; reflexivity|]. split; [|exact ND'].
    intros p. split.
    + intros Hp. split; [right; exact Hp|]. intros X. apply Hn. rewrite <- X. apply in_map. exact Hp.
    + intros [[<-|Hp] Hne]; [cbn in Hne; congruence|exact Hp].
  - apply Nat.eqb_neq in E. specialize (IH ND').
    destruct (get_view i t) as [[x rest]|].
    + destruct IH as (Hin & Hrest & NDr). split; [right; exact Hin|]. split.
      * intros p. cbn [In]. rewrite Hrest. split.
        -- intros [<-|[Hp Hne]]; [split; [left; reflexivity|cbn; exact E]|split; [right; exact Hp|exact Hne]].
        -- intros [[<-|Hp] Hne]; [left; reflexivity|right; split; assumption].
      * cbn. constructor; [|exact NDr]. intros X. apply in_map_iff in X as (p & Ep & Hp). apply Hrest in Hp as [Hp _].
        apply Hn. rewrite <- Ep. apply in_map. exact Hp.
    + cbn. intros [X|X]; [congruence|exact (IH X)].
Qed.

(** reshape succeeds exactly on a duplicate-free request covering the views, and
    hands back, at position j, the view of the j-th requested resource *)
Lemma reshape_spec : forall req vs, NoDup (map fst vs) -> NoDup req ->
  (forall i, In i req <-> In i (map fst vs)) ->
  exists out, reshape vs req = Some out /\ length out = length req /\
    forall j i, nth_error req j = Some i -> exists v, nth_error out j = Some v /\ In (i, v) vs.
Proof.
  induction req as [|i t IH]; intros vs NDv NDr Hcov.
  - destruct vs as [|[k v] vs'].
    + exists []. cbn. split; [reflexivity|]. split; [reflexivity|]. intros [|j] i H; discriminate.
    + exfalso. apply (proj2 (Hcov k)). left. reflexivity.
  - inversion NDr as [|? ? Hn NDt]; subst. cbn [reshape].
    pose proof (get_view_spec i vs NDv) as G.
    destruct (get_view i vs) as [[v rest]|].
    + destruct G as (Hin & Hrest & NDrest).
      destruct (IH rest NDrest NDt) as (out & E & L & P).
      { intros k. split.
        - intros Hk. assert (In k (map fst vs)) by (apply Hcov; right; exact Hk).
          apply in_map_iff in H as ([k' v'] & Ek & Hp). cbn in Ek. subst k'.
          apply in_map_iff. exists (k, v'). split; [reflexivity|]. apply Hrest. split; [exact Hp|].
          cbn. intros ->. contradiction.
        - intros Hk. apply in_map_iff in Hk as ([k' v'] & Ek & Hp). cbn in Ek. subst k'.
          apply Hrest in Hp as [Hp Hne]. cbn in Hne.
          assert (In k (i :: t)) by (apply Hcov; apply in_map_iff; exists (k, v'); auto).
          destruct H as [->|H]; [congruence|exact H]. }
      rewrite E. exists (v :: out). split; [reflexivity|]. split; [cbn; congruence|].
      intros [|j] i0 H; cbn in H.
      * inversion H; subst. exists v. split; [reflexivity|exact Hin].
      * destruct (P j i0 H) as (v0 & N & I). exists v0. split; [exact N|]. apply Hrest in I as [I _]. exact I.
    + exfalso. apply G. apply Hcov. left. reflexivity.
Qed.

Lemma requested_in req i : requested req i = true <-> In i req.
Proof.
  unfold requested. rewrite existsb_exists. split.
  - intros (x & Hx & E). apply Nat.eqb_eq in E. subst. exact Hx.
  - intros H. exists i. split; [exact H|apply Nat.eqb_refl].
Qed.

Theorem view_resources_spec res req : NoDup req -> (forall i, In i req -> i < length res) ->
  exists out, view_resources res req = Some out /\ length out = length req /\
    forall j i, nth_error req j = Some i -> nth_error out j = res_get res i.
Proof.
  intros ND Hb. unfold view_resources.
  destruct (reshape_spec req (canonical res req)) as (out & E & L & P).
  - apply canonical_from_keys_nodup.
  - exact ND.
  - intros i. split.
    + intros Hi. destruct (nth_error res i) as [v|] eqn:Ev.
      * apply in_map_iff. exists (i, v). split; [reflexivity|]. apply canonical_from_in.
        rewrite Nat.sub_0_r. split; [lia|]. split; [exact Ev|]. apply requested_in. exact Hi.
      * apply nth_error_None in Ev. specialize (Hb i Hi). lia.
    + intros Hi. apply in_map_iff in Hi as ([k v] & Ek & Hp). cbn in Ek. subst k.
      apply canonical_from_in in Hp as (_ & _ & R). apply requested_in. exact R.
  - exists out. split; [exact E|]. split; [exact L|].
    intros j i Hj. destruct (P j i Hj) as (v & N & I). rewrite N, res_get_nth.
    apply canonical_from_in in I as (_ & Nv & _). rewrite Nat.sub_0_r in Nv. symmetry. exact Nv.
Qed.
