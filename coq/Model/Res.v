(** Resources ([resource/contains/resource.rs], [resource/contains/views.rs],
    [query/view/resource/get.rs], [reshape.rs]): a heterogeneous list addressed
    by type.  Types are positions in the resource list (a resource list cannot
    name one type twice and still be addressed: the index would be ambiguous).
    Definitions only. *)
From Brood Require Export Base.

(** [ContainsResource::get]: the type-level index walks down the list. *)
Fixpoint res_get (res : list val) (i : nat) : option val :=
  match res, i with
  | [], _ => None
  | r :: _, 0 => Some r
  | _ :: t, S i' => res_get t i'
  end.

(** [get_mut] followed by an assignment. *)
Fixpoint res_set (res : list val) (i : nat) (v : val) : list val :=
  match res, i with
  | [], _ => []
  | _ :: t, 0 => v :: t
  | r :: t, S i' => r :: res_set t i' v
  end.

(** [ContainsViews::view]: first the canonical views — walk the resource list,
    keep (a reference to) every resource that is requested, in list order
    ([CanonicalViews]) — then [Reshape]: for each requested view in the order
    written, [Get] removes the matching view from what is left of the canonical
    list.  Views are (resource index, value). *)
Definition requested (req : list nat) (i : nat) : bool := existsb (Nat.eqb i) req.

Fixpoint canonical_from (k : nat) (res : list val) (req : list nat) : list (nat * val) :=
  match res with
  | [] => []
  | r :: t => if requested req k then (k, r) :: canonical_from (S k) t req else canonical_from (S k) t req
  end.

Definition canonical (res : list val) (req : list nat) : list (nat * val) := canonical_from 0 res req.

(** [Get<Resource, Index>]: the first view of that resource and the remainder. *)
Fixpoint get_view (i : nat) (vs : list (nat * val)) : option (val * list (nat * val)) :=
  match vs with
  | [] => None
  | (k, v) :: t =>
      if Nat.eqb k i then Some (v, t)
      else match get_view i t with
           | Some (x, rest) => Some (x, (k, v) :: rest)
           | None => None
           end
  end.

Fixpoint reshape (vs : list (nat * val)) (req : list nat) : option (list val) :=
  match req with
  | [] => match vs with [] => Some [] | _ => None end
  | i :: t =>
      match get_view i vs with
      | Some (v, rest) => match reshape rest t with Some r => Some (v :: r) | None => None end
      | None => None
      end
  end.

Definition view_resources (res : list val) (req : list nat) : option (list val) :=
  reshape (canonical res req) req.
