// World-history driver: applies one operation per input line to real
// `brood::World`s built from /repo and prints a canonical trace.
// Included by src/bin/wh.rs (registry R5) and src/bin/wh16.rs (registry R16) after
// `use brood_verif_harness::gen_rN::*;` which provides N, W and the typed operations.
use brood_verif_harness::ledger::{self, Kind};
use brood_verif_harness::{id_parts, mk_id};
use serde::{Deserialize, Serialize};
use std::collections::HashMap;
use std::fmt::Write as _;
use std::io::{BufRead, Write};
use std::panic::{catch_unwind, AssertUnwindSafe};


fn bits_of(bytes: &[u8]) -> String {
    (0..N)
        .map(|k| if bytes[k / 8] >> (k % 8) & 1 == 1 { '1' } else { '0' })
        .collect()
}

// ---- content-level deserialization of arbitrary (mutated) serialized content (C11) ----
use serde_assert::Token;

#[derive(Clone)]
struct SArch {
    bytes: Vec<u8>,
    declared: u64,
    rows: Vec<((u64, u64), Vec<u64>)>,
    /// (row, column): that cell is written as a token of the wrong type
    poison: Option<(usize, usize)>,
}

#[derive(Clone)]
struct Content {
    archs: Vec<SArch>,
    length: u64,
    free: Vec<(u64, u64)>,
    res: [u64; 4],
}

fn content_of(w: &mut W) -> Content {
    let d = w.verif_dump();
    let vals: HashMap<(usize, u64), Vec<u64>> = query_all(w).into_iter().map(|(id, _b, v)| (id, v)).collect();
    let archs = d
        .archetypes
        .iter()
        .map(|a| SArch {
            bytes: a.identifier_bytes.clone(),
            declared: a.length as u64,
            rows: a
                .entity_identifiers
                .iter()
                .map(|id| ((id.0 as u64, id.1), vals.get(id).cloned().unwrap_or_default()))
                .collect(),
            poison: None,
        })
        .collect();
    let free = d.free.iter().map(|&i| (i as u64, d.slots[i].0)).collect();
    let rv = res_values(w);
    Content { archs, length: d.slots.len() as u64, free, res: rv }
}

fn mutate(c: &mut Content, m: &[&str]) {
    let si = |i: usize| -> i64 { m.get(i).and_then(|x| x.parse::<i64>().ok()).unwrap_or(0) };
    let n = |i: usize| -> u64 { si(i).unsigned_abs() };
    // declared lengths stay bounded by the input size: no wrap-around
    let addi = |x: u64, d: i64| -> u64 { if d < 0 { x.saturating_sub(d.unsigned_abs()) } else { x.saturating_add(d as u64).min(1 << 20) } };
    let na = c.archs.len();
    let arch = |c: &Content, i: usize| -> usize { if na == 0 { 0 } else { (n(i) as usize) % c.archs.len() } };
    match m.first().copied().unwrap_or("none") {
        "dupid" => {
            if na > 0 {
                let (a, b) = (arch(c, 1), arch(c, 3));
                if !c.archs[a].rows.is_empty() && !c.archs[b].rows.is_empty() {
                    let id = c.archs[a].rows[n(2) as usize % c.archs[a].rows.len()].0;
                    let k = n(4) as usize % c.archs[b].rows.len();
                    c.archs[b].rows[k].0 = id;
                }
            }
        }
        "dupfree" => {
            // one stored identifier written over another row's, and the vacated identifier listed as free: every
            // slot is accounted for, but two rows carry one identifier
            if na > 0 {
                let (a, b) = (arch(c, 1), arch(c, 3));
                if !c.archs[a].rows.is_empty() && !c.archs[b].rows.is_empty() {
                    let id = c.archs[a].rows[n(2) as usize % c.archs[a].rows.len()].0;
                    let k = n(4) as usize % c.archs[b].rows.len();
                    let old = c.archs[b].rows[k].0;
                    if old != id {
                        c.archs[b].rows[k].0 = id;
                        c.free.push(old);
                    }
                }
            }
        }
        "setid" => {
            if na > 0 {
                let a = arch(c, 1);
                if !c.archs[a].rows.is_empty() {
                    let k = n(2) as usize % c.archs[a].rows.len();
                    c.archs[a].rows[k].0 = (n(3), n(4));
                }
            }
        }
        "gen" => {
            if na > 0 {
                let a = arch(c, 1);
                if !c.archs[a].rows.is_empty() {
                    let k = n(2) as usize % c.archs[a].rows.len();
                    c.archs[a].rows[k].0 .1 = c.archs[a].rows[k].0 .1.wrapping_add(n(3));
                }
            }
        }
        "freeadd" => c.free.push((n(1), n(2))),
        "freedel" => {
            if !c.free.is_empty() {
                let k = n(1) as usize % c.free.len();
                c.free.remove(k);
            }
        }
        "freedup" => {
            if !c.free.is_empty() {
                let k = n(1) as usize % c.free.len();
                let x = c.free[k];
                c.free.push(x);
            }
        }
        "freegenmax" => {
            // a freed identifier whose generation is the largest one: reusing the slot must wrap around
            if !c.free.is_empty() {
                let k = n(1) as usize % c.free.len();
                c.free[k].1 = u64::MAX;
            }
        }
        "freelive" => {
            // list a stored identifier as free as well
            if na > 0 {
                let a = arch(c, 1);
                if !c.archs[a].rows.is_empty() {
                    let id = c.archs[a].rows[n(2) as usize % c.archs[a].rows.len()].0;
                    c.free.push(id);
                }
            }
        }
        "freeold" => {
            // a stored identifier listed as free under its previous generation
            if na > 0 {
                let a = arch(c, 1);
                if !c.archs[a].rows.is_empty() {
                    let k = n(2) as usize % c.archs[a].rows.len();
                    let id = c.archs[a].rows[k].0;
                    c.archs[a].rows[k].0 .1 = id.1.wrapping_add(1);
                    c.free.push(id);
                }
            }
        }
        "len" => c.length = addi(c.length, si(1)),
        "alen" => {
            if na > 0 {
                let a = arch(c, 1);
                c.archs[a].declared = addi(c.archs[a].declared, si(2));
            }
        }
        "byte" => {
            if na > 0 {
                let a = arch(c, 1);
                if !c.archs[a].bytes.is_empty() {
                    let k = n(2) as usize % c.archs[a].bytes.len();
                    c.archs[a].bytes[k] ^= n(3) as u8;
                }
            }
        }
        "addbyte" => {
            if na > 0 {
                let a = arch(c, 1);
                c.archs[a].bytes.push(n(2) as u8);
            }
        }
        "delbyte" => {
            if na > 0 {
                let a = arch(c, 1);
                c.archs[a].bytes.pop();
            }
        }
        "delval" => {
            if na > 0 {
                let a = arch(c, 1);
                if !c.archs[a].rows.is_empty() {
                    let k = n(2) as usize % c.archs[a].rows.len();
                    c.archs[a].rows[k].1.pop();
                }
            }
        }
        "addval" => {
            if na > 0 {
                let a = arch(c, 1);
                if !c.archs[a].rows.is_empty() {
                    let k = n(2) as usize % c.archs[a].rows.len();
                    c.archs[a].rows[k].1.push(n(3));
                }
            }
        }
        "poison" => {
            if na > 0 {
                let a = arch(c, 1);
                if !c.archs[a].rows.is_empty() {
                    let k = n(2) as usize % c.archs[a].rows.len();
                    let nv = c.archs[a].rows[k].1.len();
                    if nv > 0 {
                        c.archs[a].poison = Some((k, n(3) as usize % nv));
                    }
                }
            }
        }
        "delrow" => {
            if na > 0 {
                let a = arch(c, 1);
                if !c.archs[a].rows.is_empty() {
                    let k = n(2) as usize % c.archs[a].rows.len();
                    c.archs[a].rows.remove(k);
                    if n(3) == 1 {
                        c.archs[a].declared = c.archs[a].rows.len() as u64;
                    }
                }
            }
        }
        "duprow" => {
            if na > 0 {
                let a = arch(c, 1);
                if !c.archs[a].rows.is_empty() {
                    let k = n(2) as usize % c.archs[a].rows.len();
                    let r = c.archs[a].rows[k].clone();
                    c.archs[a].rows.push(r);
                    if n(3) == 1 {
                        c.archs[a].declared = c.archs[a].rows.len() as u64;
                    }
                }
            }
        }
        "delarch" => {
            if na > 0 {
                let a = arch(c, 1);
                c.archs.remove(a);
            }
        }
        "duparch" => {
            if na > 0 {
                let a = arch(c, 1);
                let x = c.archs[a].clone();
                c.archs.push(x);
            }
        }
        "emptyarch" => {
            // an archetype with the given identifier bytes and no rows
            let nb = (N + 7) / 8;
            let bytes: Vec<u8> = (0..nb).map(|k| n(1 + k) as u8).collect();
            c.archs.push(SArch { bytes, declared: 0, rows: Vec::new(), poison: None });
        }
        _ => {}
    }
}

/// Encoding variations that do not change the content (a self-describing format may hand the fields of a struct
/// back in any order): every k-th identifier is written with `generation` before `index`.
static ID_SWAP_EVERY: std::sync::atomic::AtomicUsize = std::sync::atomic::AtomicUsize::new(0);
static ID_COUNT: std::sync::atomic::AtomicUsize = std::sync::atomic::AtomicUsize::new(0);

fn id_tokens(t: &mut Vec<Token>, id: (u64, u64)) {
    use std::sync::atomic::Ordering::SeqCst;
    let every = ID_SWAP_EVERY.load(SeqCst);
    let swapped = every > 0 && ID_COUNT.fetch_add(1, SeqCst) % every == 0;
    t.push(Token::Struct { name: "Identifier", len: 2 });
    if swapped {
        t.push(Token::Field("generation"));
        t.push(Token::U64(id.1));
        t.push(Token::Field("index"));
        t.push(Token::U64(id.0));
    } else {
        t.push(Token::Field("index"));
        t.push(Token::U64(id.0));
        t.push(Token::Field("generation"));
        t.push(Token::U64(id.1));
    }
    t.push(Token::StructEnd);
}

fn ncols_of(bytes: &[u8]) -> usize {
    (0..N).filter(|&k| bytes.get(k / 8).map_or(false, |b| b >> (k % 8) & 1 == 1)).count()
}

fn encode(c: &Content, hr: bool) -> Vec<Token> {
    let mut t = Vec::new();
    t.push(Token::Tuple { len: 3 });
    t.push(Token::Seq { len: Some(c.archs.len()) });
    for a in &c.archs {
        t.push(Token::NewtypeStruct { name: "Archetype" });
        t.push(Token::Tuple { len: 3 });
        t.push(Token::Tuple { len: a.bytes.len() });
        for b in &a.bytes {
            t.push(Token::U8(*b));
        }
        t.push(Token::TupleEnd);
        t.push(Token::U64(a.declared));
        if hr {
            t.push(Token::Tuple { len: a.rows.len() });
            for (ri, (id, vals)) in a.rows.iter().enumerate() {
                t.push(Token::Tuple { len: 1 + vals.len() });
                id_tokens(&mut t, *id);
                for (ci, v) in vals.iter().enumerate() {
                    if a.poison == Some((ri, ci)) {
                        t.push(Token::Bool(true));
                    } else {
                        t.push(Token::U64(*v));
                    }
                }
                t.push(Token::TupleEnd);
            }
            t.push(Token::TupleEnd);
        } else {
            let ncols = a.rows.iter().map(|r| r.1.len()).max().unwrap_or_else(|| ncols_of(&a.bytes));
            t.push(Token::Tuple { len: 1 + ncols });
            t.push(Token::Tuple { len: a.rows.len() });
            for (id, _) in &a.rows {
                id_tokens(&mut t, *id);
            }
            t.push(Token::TupleEnd);
            for j in 0..ncols {
                let col: Vec<(usize, u64)> =
                    a.rows.iter().enumerate().filter_map(|(ri, r)| r.1.get(j).map(|v| (ri, *v))).collect();
                t.push(Token::Tuple { len: col.len() });
                for (ri, v) in col {
                    if a.poison == Some((ri, j)) {
                        t.push(Token::Bool(true));
                    } else {
                        t.push(Token::U64(v));
                    }
                }
                t.push(Token::TupleEnd);
            }
            t.push(Token::TupleEnd);
        }
        t.push(Token::TupleEnd);
    }
    t.push(Token::SeqEnd);
    t.push(Token::Struct { name: "Allocator", len: 2 });
    t.push(Token::Field("length"));
    t.push(Token::U64(c.length));
    t.push(Token::Field("free"));
    t.push(Token::Seq { len: Some(c.free.len()) });
    for f in &c.free {
        id_tokens(&mut t, *f);
    }
    t.push(Token::SeqEnd);
    t.push(Token::StructEnd);
    t.push(Token::Tuple { len: 4 });
    for v in &c.res {
        t.push(Token::U64(*v));
    }
    t.push(Token::TupleEnd);
    t.push(Token::TupleEnd);
    t
}

fn content_text(c: &Content) -> String {
    let mut s = String::new();
    for a in &c.archs {
        let hex: String = a.bytes.iter().map(|b| format!("{:02x}", b)).collect();
        let _ = write!(s, " | A {} {} {}", if hex.is_empty() { "-".to_string() } else { hex }, a.declared, a.rows.len());
        for (ri, (id, vals)) in a.rows.iter().enumerate() {
            let _ = write!(s, " {} {} {}", id.0, id.1, vals.len());
            for (ci, v) in vals.iter().enumerate() {
                if a.poison == Some((ri, ci)) {
                    let _ = write!(s, " !{}", v);
                } else {
                    let _ = write!(s, " {}", v);
                }
            }
        }
    }
    let _ = write!(s, " | L {} | F", c.length);
    for f in &c.free {
        let _ = write!(s, " {}:{}", f.0, f.1);
    }
    let _ = write!(s, " | R {} {} {} {}", c.res[0], c.res[1], c.res[2], c.res[3]);
    s
}

struct State {
    worlds: Vec<Option<W>>,
    issued: Vec<(usize, u64)>,
}

fn dump_world(out: &mut String, ws: usize, w: &mut W, issued: &[(usize, u64)]) {
    let d = w.verif_dump();
    // Values through the public query API.
    let mut vals: HashMap<(usize, u64), (String, Vec<u64>)> = HashMap::new();
    let mut qcount = 0usize;
    for (idp, bits, v) in query_all(w) {
        qcount += 1;
        if vals.insert(idp, (bits, v)).is_some() {
            let _ = writeln!(out, "w {} !query-duplicate-id {:?}", ws, idp);
        }
    }
    let _ = writeln!(out, "w {} len {}", ws, w.len());
    if w.is_empty() != (w.len() == 0) {
        let _ = writeln!(out, "w {} !is_empty-mismatch", ws);
    }
    if d.len != w.len() {
        let _ = writeln!(out, "w {} !len-hook-mismatch {}", ws, d.len);
    }
    let addr_to_bits: HashMap<usize, String> = d
        .archetypes
        .iter()
        .map(|a| (a.identifier_addr, bits_of(&a.identifier_bytes)))
        .collect();
    let mut s = format!("w {} slots", ws);
    for (g, loc) in &d.slots {
        match loc {
            None => {
                let _ = write!(s, " {}:-", g);
            }
            Some((addr, row)) => match addr_to_bits.get(addr) {
                Some(b) => {
                    let _ = write!(s, " {}:{}:{}", g, b, row);
                }
                None => {
                    let _ = write!(s, " {}:FOREIGN:{}", g, row);
                }
            },
        }
    }
    let _ = writeln!(out, "{}", s);
    let mut s = format!("w {} free", ws);
    for i in &d.free {
        let _ = write!(s, " {}", i);
    }
    let _ = writeln!(out, "{}", s);
    let mut archs: Vec<String> = Vec::new();
    let mut total = 0usize;
    for a in &d.archetypes {
        let bits = bits_of(&a.identifier_bytes);
        let mut s = format!("w {} arch {}", ws, bits);
        let ncols = bits.chars().filter(|&c| c == '1').count();
        if a.components_raw.len() != ncols {
            let _ = write!(s, " !columns={}", a.components_raw.len());
        }
        if a.entity_identifiers_raw.1 < a.length {
            let _ = write!(s, " !idcap<{}", a.length);
        }
        for id in &a.entity_identifiers {
            total += 1;
            let _ = write!(s, " | {}:{}", id.0, id.1);
            match vals.get(id) {
                Some((b, v)) => {
                    if *b != bits {
                        let _ = write!(s, " !shape={}", b);
                    }
                    for x in v {
                        let _ = write!(s, " {}", x);
                    }
                }
                None => {
                    let _ = write!(s, " !not-in-query");
                }
            }
        }
        archs.push(s);
    }
    archs.sort();
    for a in archs {
        let _ = writeln!(out, "{}", a);
    }
    if total != qcount {
        let _ = writeln!(out, "w {} !query-count {} rows {}", ws, qcount, total);
    }
    let mut tid: Vec<String> = d
        .type_id_lookup
        .iter()
        .map(|a| addr_to_bits.get(a).cloned().unwrap_or_else(|| "FOREIGN".into()))
        .collect();
    tid.sort();
    let _ = writeln!(out, "w {} tid {}", ws, tid.join(" "));
    // foreign lookup as a set (duplicate keys after clone are harmless; multiplicity not compared)
    let mut foreign: Vec<String> = d
        .foreign_identifier_lookup
        .iter()
        .map(|(kaddr, klen, t)| {
            let tb = addr_to_bits.get(t).cloned().unwrap_or_else(|| "FOREIGN".into());
            // The key must be the target's own identifier buffer.
            if kaddr != t || *klen != (N + 7) / 8 {
                match addr_to_bits.get(kaddr) {
                    Some(kb) if *kb == tb => tb,
                    Some(kb) => format!("{}!key={}", tb, kb),
                    None => format!("{}!key=FOREIGN", tb),
                }
            } else {
                tb
            }
        })
        .collect();
    foreign.sort();
    foreign.dedup();
    let _ = writeln!(out, "w {} foreign {}", ws, foreign.join(" "));
    let rv = res_values(w);
    let _ = writeln!(out, "w {} res {} {} {} {}", ws, rv[0], rv[1], rv[2], rv[3]);
    if let Some(m) = res_view_check(w) {
        let _ = writeln!(out, "w {} !res-view-mismatch {}", ws, m.replace(' ', "_"));
    }
    let mut live: Vec<(usize, u64)> = Vec::new();
    for &(i, g) in issued {
        let id = mk_id(i, g);
        let c = w.contains(id);
        let e = w.entry(id).is_some();
        if c != e {
            let _ = writeln!(out, "w {} !contains-entry-mismatch {}:{}", ws, i, g);
        }
        if c {
            live.push((i, g));
        }
    }
    live.sort();
    live.dedup();
    let mut s = format!("w {} live", ws);
    for (i, g) in live {
        let _ = write!(s, " {}:{}", i, g);
    }
    let _ = writeln!(out, "{}", s);
}

fn events_line() -> String {
    let mut evs: Vec<String> = ledger::take_events()
        .into_iter()
        .filter_map(|(k, c, t)| match k {
            Kind::Drop => Some(format!("D:{}:{}", c, t)),
            Kind::Clone => Some(format!("C:{}:{}", c, t)),
            Kind::De => Some(format!("E:{}:{}", c, t)),
            _ => None,
        })
        .collect();
    evs.sort();
    format!("ev {}", evs.join(" "))
}

fn parse_target(s: &str, issued: &[(usize, u64)]) -> (usize, u64) {
    if let Some(rest) = s.strip_prefix('#') {
        let (k, d) = match rest.split_once('^') {
            Some((k, d)) => (k.parse::<usize>().unwrap(), d.parse::<u64>().unwrap()),
            None => (rest.parse::<usize>().unwrap(), 0),
        };
        if issued.is_empty() {
            return (0, d);
        }
        let (i, g) = issued[k % issued.len()];
        (i, g.wrapping_add(d))
    } else {
        let (i, g) = s.split_once(':').unwrap();
        (i.parse().unwrap(), g.parse().unwrap())
    }
}

fn comps_mask(cs: &[usize]) -> u32 {
    cs.iter().fold(0, |m, &c| m | 1 << c)
}

fn fmt_ids(ids: &[(usize, u64)]) -> String {
    ids.iter()
        .map(|(i, g)| format!("{}:{}", i, g))
        .collect::<Vec<_>>()
        .join(" ")
}

fn apply(st: &mut State, line: &str, out: &mut String) {
    let t: Vec<&str> = line.split_whitespace().collect();
    let u = |i: usize| -> usize { t[i].parse().unwrap() };
    let v64 = |i: usize| -> u64 { t[i].parse().unwrap() };
    let mut opline = format!("op {}", line);
    let mut ret = String::from("none");
    match t[0] {
        "new" => {
            let ws = u(1);
            while st.worlds.len() <= ws {
                st.worlds.push(None);
            }
            st.worlds[ws] = Some(new_world(v64(2), v64(3), v64(4), v64(5)));
        }
        "drop" => {
            st.worlds[u(1)] = None;
        }
        "ins" => {
            let (ws, desc, k) = (u(1), u(2) == 1, u(3));
            let mut cs = Vec::new();
            let mut vals = vec![0u64; N];
            for j in 0..k {
                let c = u(4 + 2 * j);
                cs.push(c);
                vals[c] = v64(5 + 2 * j);
            }
            if let Some(w) = st.worlds[ws].as_mut() {
                let id = id_parts(do_insert(w, comps_mask(&cs), desc, &vals));
                st.issued.push(id);
                ret = format!("id {}:{}", id.0, id.1);
            }
        }
        "ext" => {
            let (ws, desc, k) = (u(1), u(2) == 1, u(3));
            let cs: Vec<usize> = (0..k).map(|j| u(4 + j)).collect();
            let rows = u(4 + k);
            let mut cols: Vec<Vec<u64>> = vec![Vec::new(); N];
            let mut p = 5 + k;
            for _ in 0..rows {
                for &c in &cs {
                    cols[c].push(v64(p));
                    p += 1;
                }
            }
            if let Some(w) = st.worlds[ws].as_mut() {
                let ids: Vec<_> = do_extend(w, comps_mask(&cs), desc, rows, &cols)
                    .into_iter()
                    .map(id_parts)
                    .collect();
                st.issued.extend(ids.iter().copied());
                ret = format!("ids {}", fmt_ids(&ids));
            }
        }
        "xrg" => {
            // a batch whose j-th column is one value longer or shorter than the others:
            // `Batch::new` must refuse it (panic) before anything reaches the column store
            let (ws, desc, k) = (u(1), u(2) == 1, u(3));
            let cs: Vec<usize> = (0..k).map(|j| u(4 + j)).collect();
            let rows = u(4 + k);
            let (j, longer) = (u(5 + k), u(6 + k) == 1);
            let mut cols: Vec<Vec<u64>> = vec![Vec::new(); N];
            let mut p = 7 + k;
            for (idx, &c) in cs.iter().enumerate() {
                let n = if idx == j { if longer { rows + 1 } else { rows - 1 } } else { rows };
                for _ in 0..n {
                    cols[c].push(v64(p));
                    p += 1;
                }
            }
            if let Some(w) = st.worlds[ws].as_mut() {
                let ids: Vec<_> = do_extend(w, comps_mask(&cs), desc, rows, &cols)
                    .into_iter()
                    .map(id_parts)
                    .collect();
                st.issued.extend(ids.iter().copied());
                ret = format!("ids {}", fmt_ids(&ids));
            }
        }
        "rem" => {
            let (i, g) = parse_target(t[2], &st.issued);
            opline = format!("op rem {} {}:{}", t[1], i, g);
            if let Some(w) = st.worlds[u(1)].as_mut() {
                w.remove(mk_id(i, g));
            }
        }
        "clr" => {
            if let Some(w) = st.worlds[u(1)].as_mut() {
                let d = w.verif_dump();
                let order: Vec<String> = d
                    .archetypes
                    .iter()
                    .filter(|a| a.length > 0)
                    .map(|a| bits_of(&a.identifier_bytes))
                    .collect();
                if !line.contains('|') {
                    opline = format!("op clr {} | {}", t[1], order.join(" "));
                }
                w.clear();
            }
        }
        "ead" | "erm" | "wrt" => {
            let (i, g) = parse_target(t[2], &st.issued);
            let c = u(3);
            opline = format!("op {} {} {}:{} {}", t[0], t[1], i, g, t[3..].join(" "));
            if let Some(w) = st.worlds[u(1)].as_mut() {
                let id = mk_id(i, g);
                let val = if t.len() > 4 { v64(4) } else { 0 };
                let b = by_comp(w, t[0], id, c, val);
                ret = format!("bool {}", b);
            }
        }
        "erm2" => {
            // erm2 ws id c c2 v: Entry::remove::<C> then Entry::add(C2) through one Entry
            let (i, g) = parse_target(t[2], &st.issued);
            opline = format!("op erm2 {} {}:{} {}", t[1], i, g, t[3..].join(" "));
            if let Some(w) = st.worlds[u(1)].as_mut() {
                ret = match entry_remove_then_add(w, mk_id(i, g), u(3), u(4), v64(5)) {
                    None => "bool false".into(),
                    Some(false) => "bool true".into(),
                    Some(true) => "bool true caught-panic".into(),
                };
            }
        }
        "ead2" => {
            // ead2 ws id c1 v1 c2 v2 rm: Entry::add(C1) then Entry::add(C2) / Entry::remove::<C2>() through one Entry
            let (i, g) = parse_target(t[2], &st.issued);
            opline = format!("op ead2 {} {}:{} {}", t[1], i, g, t[3..].join(" "));
            if let Some(w) = st.worlds[u(1)].as_mut() {
                ret = match entry_add_then(w, mk_id(i, g), u(3), v64(4), u(5), v64(6), u(7) == 1) {
                    None => "bool false".into(),
                    Some(()) => "bool true".into(),
                };
            }
        }
        "rsv" => {
            let (ws, desc, k) = (u(1), u(2) == 1, u(3));
            let cs: Vec<usize> = (0..k).map(|j| u(4 + j)).collect();
            let amount = u(4 + k);
            if let Some(w) = st.worlds[ws].as_mut() {
                do_reserve(w, comps_mask(&cs), desc, amount);
            }
        }
        "qry" => {
            if let Some(w) = st.worlds[u(1)].as_mut() {
                let (mut rows, flag) = run_query(w, u(2), if t.len() > 5 { u(5) } else { 0 });
                rows.sort();
                let mut r = String::from("rows");
                for x in &rows {
                    r.push(' ');
                    r.push_str(if x.is_empty() { "_" } else { x });
                }
                if let Some(f) = flag {
                    r.push_str(" !");
                    r.push_str(&f);
                }
                ret = r;
            }
        }
        "eqry" => {
            let (i, g) = parse_target(t[2], &st.issued);
            opline = format!("op eqry {} {}:{} {}", t[1], i, g, t[3..].join(" "));
            if let Some(w) = st.worlds[u(1)].as_mut() {
                ret = match run_entry_query(w, mk_id(i, g), u(3)) {
                    None => "noentry".into(),
                    Some(None) => "nomatch".into(),
                    Some(Some(r)) => format!("row {}", if r.is_empty() { "_".to_string() } else { r }),
                };
            }
        }
        "pqry" => {
            if let Some(w) = st.worlds[u(1)].as_mut() {
                let (mut rows, flag) = run_par_query(w, u(2));
                rows.sort();
                let mut r = String::from("rows");
                for x in &rows {
                    r.push(' ');
                    r.push_str(if x.is_empty() { "_" } else { x });
                }
                if let Some(f) = flag {
                    r.push_str(" !");
                    r.push_str(&f);
                }
                ret = r;
            }
        }
        "pqwr" => {
            if let Some(w) = st.worlds[u(1)].as_mut() {
                ret = format!("n {}", run_par_query_write(w, u(2), v64(3)));
            }
        }
        "nqry" => {
            // nqry ws id k <E> <S> <F>
            let (i, g) = parse_target(t[2], &st.issued);
            opline = format!("op nqry {} {}:{} {}", t[1], i, g, t[3..].join(" "));
            if let Some(w) = st.worlds[u(1)].as_mut() {
                ret = match run_entries_query(w, mk_id(i, g), u(3)) {
                    None => "noentry".into(),
                    Some(None) => "nomatch".into(),
                    Some(Some(r)) => format!("row {}", if r.is_empty() { "_".to_string() } else { r }),
                };
            }
        }
        "qwr" => {
            if let Some(w) = st.worlds[u(1)].as_mut() {
                ret = format!("n {}", run_query_write(w, u(2), v64(3)));
            }
        }
        "shr" => {
            if let Some(w) = st.worlds[u(1)].as_mut() {
                w.shrink_to_fit();
            }
        }
        "rset" => {
            if let Some(w) = st.worlds[u(1)].as_mut() {
                set_res(w, u(2), v64(3), if t.len() > 4 { u(4) } else { 0 });
            }
        }
        "cln" => {
            let (src, dst) = (u(1), u(2));
            while st.worlds.len() <= dst {
                st.worlds.push(None);
            }
            st.worlds[dst] = None;
            ledger::take_events();
            let c = st.worlds[src].as_ref().map(|w| w.clone());
            st.worlds[dst] = c;
        }
        "clf" => {
            let (dst, src) = (u(1), u(2));
            if dst != src {
                let s = st.worlds[src].take();
                if let (Some(s), Some(d)) = (s.as_ref(), st.worlds[dst].as_mut()) {
                    d.clone_from(s);
                }
                st.worlds[src] = s;
            }
        }
        "srd" => {
            let (hr, src, dst) = (u(1) == 1, u(2), u(3));
            while st.worlds.len() <= dst {
                st.worlds.push(None);
            }
            if dst != src {
                st.worlds[dst] = None;
                ledger::take_events();
                if let Some(w) = st.worlds[src].as_ref() {
                    let ser = serde_assert::Serializer::builder()
                        .is_human_readable(hr)
                        .build();
                    match w.serialize(&ser) {
                        Ok(tokens) => {
                            let mut de = serde_assert::Deserializer::builder()
                                .tokens(tokens)
                                .is_human_readable(hr)
                                .build();
                            match W::deserialize(&mut de) {
                                Ok(w2) => {
                                    st.worlds[dst] = Some(w2);
                                    ret = "ok".into();
                                }
                                Err(e) => {
                                    ret = format!("err-de {}", e.to_string().replace('\n', " "));
                                }
                            }
                        }
                        Err(e) => {
                            ret = format!("err-ser {}", e.to_string().replace('\n', " "));
                        }
                    }
                }
            }
        }
        "mde" => {
            // mde src dst hr <mutation words…> [; <mutation words…>]
            let (src, dst, hr) = (u(1), u(2), u(3) == 1);
            while st.worlds.len() <= dst {
                st.worlds.push(None);
            }
            if dst != src {
                st.worlds[dst] = None;
                ledger::take_events();
                if let Some(w) = st.worlds[src].as_mut() {
                    let mut c = content_of(w);
                    ID_SWAP_EVERY.store(0, std::sync::atomic::Ordering::SeqCst);
                    ID_COUNT.store(0, std::sync::atomic::Ordering::SeqCst);
                    for m in t[4..].split(|x| *x == ";") {
                        if m.first().copied() == Some("idswap") {
                            // not a change of the content: the order of the fields of identifier structs
                            let k = m.get(1).and_then(|x| x.parse::<usize>().ok()).unwrap_or(1).max(1);
                            ID_SWAP_EVERY.store(k, std::sync::atomic::Ordering::SeqCst);
                            continue;
                        }
                        mutate(&mut c, m);
                    }
                    opline = format!("op cde {} {}{}", dst, if hr { 1 } else { 0 }, content_text(&c));
                    let tokens = serde_assert::Tokens(encode(&c, hr));
                    ID_SWAP_EVERY.store(0, std::sync::atomic::Ordering::SeqCst);
                    let mut de = serde_assert::Deserializer::builder()
                        .tokens(tokens)
                        .is_human_readable(hr)
                        .build();
                    match W::deserialize(&mut de) {
                        Ok(w2) => {
                            st.worlds[dst] = Some(w2);
                            ret = "ok".into();
                        }
                        Err(e) => {
                            ret = format!("err-de {}", e.to_string().replace('\n', " ").replace(' ', "_"));
                        }
                    }
                }
            }
        }
        "mrk" => {
            // mrk n: the next n operations are one operation applied to n worlds that are copies of each other
            // (a marker for the oracles; nothing happens)
        }
        "tde" => {
            // tde src dst hr <dup|del|swap|inc k>…: the unmutated serialization of `src`, mutated at the level of
            // tokens (duplicate / delete / swap with the next / alter token k), then deserialized into `dst`.
            // Accepted: reported as `cde` with the content of the world that came out; rejected: `tde`.
            let (src, dst, hr) = (u(1), u(2), u(3) == 1);
            while st.worlds.len() <= dst {
                st.worlds.push(None);
            }
            if dst != src {
                st.worlds[dst] = None;
                ledger::take_events();
                if let Some(w) = st.worlds[src].as_mut() {
                    let c = content_of(w);
                    let mut toks = encode(&c, hr);
                    let mut i = 4;
                    while i + 1 < t.len() {
                        let k0 = t[i + 1].parse::<usize>().unwrap_or(0);
                        // `dupn`/`deln`/`incn`: the k-th numeric token (values, identifier fields, declared lengths);
                        // `dups`/`dels`: the k-th structural token; otherwise any token
                        let pick = |numeric: bool| -> Option<usize> {
                            let c: Vec<usize> = toks
                                .iter()
                                .enumerate()
                                .filter(|(_, x)| matches!(x, Token::U64(_) | Token::U8(_)) == numeric)
                                .map(|(j, _)| j)
                                .collect();
                            if c.is_empty() { None } else { Some(c[k0 % c.len()]) }
                        };
                        let (kind, k) = match t[i] {
                            "dupn" => ("dup", pick(true)),
                            "deln" => ("del", pick(true)),
                            "incn" => ("inc", pick(true)),
                            "dups" => ("dup", pick(false)),
                            "dels" => ("del", pick(false)),
                            other => (other, Some(k0 % toks.len().max(1))),
                        };
                        let k = match k {
                            Some(k) if k < toks.len() => k,
                            _ => {
                                i += 2;
                                continue;
                            }
                        };
                        match kind {
                            "dup" => {
                                let x = toks[k].clone();
                                toks.insert(k, x);
                            }
                            "del" => {
                                toks.remove(k);
                            }
                            "swap" => {
                                if k + 1 < toks.len() {
                                    toks.swap(k, k + 1);
                                }
                            }
                            _ => {
                                toks[k] = match toks[k].clone() {
                                    Token::U64(v) => Token::U64(v.wrapping_add(1) % (1 << 20)),
                                    Token::U8(v) => Token::U8(v ^ 1),
                                    Token::Tuple { len } => Token::Tuple { len: len + 1 },
                                    Token::Seq { len } => Token::Seq { len: len.map(|l| l + 1) },
                                    Token::Field(_) => Token::Field("index"),
                                    x => x,
                                };
                            }
                        }
                        i += 2;
                    }
                    opline = format!("op tde {} {}", dst, if hr { 1 } else { 0 });
                    let mut de = serde_assert::Deserializer::builder()
                        .tokens(serde_assert::Tokens(toks))
                        .is_human_readable(hr)
                        .build();
                    match W::deserialize(&mut de) {
                        Ok(mut w2) => {
                            let c2 = content_of(&mut w2);
                            opline = format!("op cde {} {}{}", dst, if hr { 1 } else { 0 }, content_text(&c2));
                            st.worlds[dst] = Some(w2);
                            ret = "ok".into();
                        }
                        Err(e) => {
                            ret = format!("err-de {}", e.to_string().replace('\n', " ").replace(' ', "_"));
                        }
                    }
                }
            }
        }
        "fault" => {
            // fault <drop|clone|eq|ser|de> k: the k-th such callback of the next operation panics
            let kind = match t[1] {
                "drop" => Kind::Drop,
                "clone" => Kind::Clone,
                "eq" => Kind::Eq,
                "ser" => Kind::Ser,
                "de" => Kind::De,
                _ => Kind::Dbg,
            };
            // `fault kind k res`: the k-th callback of a RESOURCE (numbered from 100)
            ledger::arm_from(kind, v64(2), if t.get(3).copied() == Some("res") { 100 } else { 0 });
        }
        "dbg" => {
            if let Some(w) = st.worlds[u(1)].as_ref() {
                ret = format!("len {}", format!("{:?}", w).len());
            }
        }
        "eq" => {
            let (a, b) = (u(1), u(2));
            if let (Some(x), Some(y)) = (st.worlds[a].as_ref(), st.worlds[b].as_ref()) {
                ret = format!("bool {} {}", x == y, y == x);
            }
        }
        other => panic!("unknown op {}", other),
    }
    let _ = writeln!(out, "{}", opline);
    let _ = writeln!(out, "ret {}", ret);
}

fn main() {
    let args: Vec<String> = std::env::args().collect();
    let input: Box<dyn BufRead> = if args.len() > 1 {
        Box::new(std::io::BufReader::new(std::fs::File::open(&args[1]).unwrap()))
    } else {
        Box::new(std::io::BufReader::new(std::io::stdin()))
    };
    brood_verif_harness::alloc_audit::init_main_thread();
    std::panic::set_hook(Box::new(|_| {}));
    let threads: usize = std::env::var("VERIF_POOL").ok().and_then(|s| s.parse().ok()).unwrap_or(4);
    let _ = rayon::ThreadPoolBuilder::new().num_threads(threads).build_global();
    let stdout = std::io::stdout();
    let mut so = std::io::BufWriter::new(stdout.lock());
    let mut st = State {
        worlds: Vec::new(),
        issued: Vec::new(),
    };
    for line in input.lines() {
        let line = line.unwrap();
        let line = line.trim();
        if line.is_empty() || line.starts_with('%') {
            continue;
        }
        let mut out = String::new();
        if let Some(rest) = line.strip_prefix("case ") {
            // Drop everything from the previous case and audit the ledger.
            st.worlds.clear();
            let (live, dd) = ledger::audit();
            if !st.issued.is_empty() || !live.is_empty() || !dd.is_empty() {
                let _ = writeln!(out, "audit live={:?} double={:?}", live, dd);
            }
            st.issued.clear();
            ledger::reset();
            let _ = writeln!(out, "case {}", rest);
            let _ = writeln!(out, "nreg {}", N);
            so.write_all(out.as_bytes()).unwrap();
            continue;
        }
        if line == "end" {
            ledger::disarm();
            // Dropping a world must always be possible, whatever happened before.
            let worlds = std::mem::take(&mut st.worlds);
            if catch_unwind(AssertUnwindSafe(move || drop(worlds))).is_err() {
                let _ = writeln!(out, "xa world-drop-panicked");
            }
            let (live, dd) = ledger::audit();
            let _ = writeln!(out, "audit live={:?} double={:?}", live, dd);
            st.issued = Vec::new();
            ledger::reset();
            let problems = brood_verif_harness::alloc_audit::take_problems();
            if !problems.is_empty() {
                let _ = writeln!(out, "xa {}", problems.join(" ; "));
            }
            let (leaks, a, f, r) = brood_verif_harness::alloc_audit::end_of_case();
            let _ = writeln!(out, "alloc leaks={:?} allocs={} frees={} reallocs={}", leaks, a, f, r);
            so.write_all(out.as_bytes()).unwrap();
            continue;
        }
        ledger::take_events();
        // Resolve `#k` ordinals first, so that the echoed op is resolved even when the op panics.
        let resolved: String = line
            .split_whitespace()
            .map(|tok| {
                if tok.starts_with('#') {
                    let (i, g) = parse_target(tok, &st.issued);
                    format!("{}:{}", i, g)
                } else {
                    tok.to_string()
                }
            })
            .collect::<Vec<_>>()
            .join(" ");
        // The table order `clear` visits archetypes in is an oracle input: record it before the call.
        let resolved = if resolved.starts_with("clr ") && !resolved.contains('|') {
            let ws: usize = resolved.split_whitespace().nth(1).and_then(|x| x.parse().ok()).unwrap_or(0);
            match st.worlds.get(ws).and_then(|w| w.as_ref()) {
                Some(w) => {
                    let d = w.verif_dump();
                    let order: Vec<String> =
                        d.archetypes.iter().filter(|a| a.length > 0).map(|a| bits_of(&a.identifier_bytes)).collect();
                    format!("{} | {}", resolved, order.join(" "))
                }
                None => resolved,
            }
        } else {
            resolved
        };
        let line: &str = &resolved;
        let is_fault = line.starts_with("fault ");
        let r = catch_unwind(AssertUnwindSafe(|| {
            // Parallel queries are started from this thread: rayon injects the job into its pool here and its
            // injector allocates queue blocks that live as long as the pool.  Those are rayon's, not the
            // library's, so the main thread's allocations are not attributed to the library during these ops
            // (the work itself runs on the pool's threads, which the audit never attributes).
            let _scope = if line.starts_with("pqry ") || line.starts_with("pqwr ") {
                None
            } else {
                Some(brood_verif_harness::alloc_audit::enter(1))
            };
            let mut o = String::new();
            apply(&mut st, line, &mut o);
            o
        }));
        let fired = if is_fault { false } else { ledger::disarm() };
        match r {
            Ok(o) => out.push_str(&o),
            Err(_) => {
                let _ = writeln!(out, "op {}", line);
                let _ = writeln!(out, "ret panic{}", if fired { "-injected" } else { "" });
            }
        }
        let _ = writeln!(out, "{}", events_line());
        let problems = brood_verif_harness::alloc_audit::take_problems();
        if !problems.is_empty() {
            let _ = writeln!(out, "xa {}", problems.join(" ; "));
        }
        let issued = st.issued.clone();
        for (ws, w) in st.worlds.iter_mut().enumerate() {
            if let Some(w) = w.as_mut() {
                let r = catch_unwind(AssertUnwindSafe(|| {
                    let mut o = String::new();
                    dump_world(&mut o, ws, w, &issued);
                    o
                }));
                match r {
                    Ok(o) => out.push_str(&o),
                    Err(_) => {
                        let _ = writeln!(out, "w {} !dump-panicked", ws);
                    }
                }
            }
        }
        // Dump-time callbacks (none expected) are discarded.
        ledger::take_events();
        so.write_all(out.as_bytes()).unwrap();
        // flushed after every operation: if the process dies inside the library the trace says where
        so.flush().unwrap();
    }
    so.flush().unwrap();
}
