(** Scheduling layer: the compile-time greedy stager and the run-time
    fork/join structure of [run_schedule] ([system/schedule/stager.rs],
    [claim/*.rs], [stage.rs], [stages.rs]).  Definitions only.
    All table lookups go through Gen/Tables.v (regenerated from the source). *)
From Brood Require Export Kinds.
From Brood Require Export Tables.

Set Implicit Arguments.

(** * Tasks *)
Record task := mkTask {
  t_views  : list view;          (* System::Views *)
  t_filter : qfilter;             (* System::Filter *)
  t_entry  : list view;          (* System::EntryViews *)
  t_res    : list (bool * nat)   (* ResourceViews: (mutable?, resource index) *)
}.

(** * Filters on an archetype shape ([registry/contains/filter/sealed.rs]) *)
Definition view_filter (v : view) (s : shape) : bool :=
  match v with
  | VComp k c => if view_filter_table k then get_bit c s else true
  | VIdent => true
  end.

Fixpoint filter_eval (f : qfilter) (s : shape) : bool :=
  match f with
  | FNone => true
  | FHas c => get_bit c s
  | FNot g => negb (filter_eval g s)
  | FAnd g h => filter_eval g s && filter_eval h s
  | FOr g h => filter_eval g s || filter_eval h s
  | FViews vs => forallb (fun v => view_filter v s) vs
  end.

(** [ViewsSealed::EntryFilter]: which archetypes the entry views can reach. *)
Definition entry_filter (vs : list view) (s : shape) : bool :=
  fold_right (fun v acc =>
                acc || match v with
                       | VComp k c => if entry_filter_table k then get_bit c s else false
                       | VIdent => entry_filter_ident
                       end) entry_filter_null vs.

(** The filter a task's archetype claims are computed with:
    [Or<And<Views, Filter>, EntryViewsFilter>]. *)
Definition task_reaches (t : task) (s : shape) : bool :=
  (forallb (fun v => view_filter v s) (t_views t) && filter_eval (t_filter t) s)
  || entry_filter (t_entry t) s.

(** * Claims *)
Definition claims := list claim.   (* one per registry component *)

Definition claim_of_views (n : nat) (vs : list view) : claims :=
  map (fun c =>
         match find (fun v => match v with VComp _ c' => Nat.eqb c c' | VIdent => false end) vs with
         | Some (VComp k _) => view_claim_table k
         | _ => absent_claim
         end) (seq 0 n).

Fixpoint claims_try_merge (a b : claims) : option claims :=
  match a, b with
  | [], [] => Some []
  | x :: a', y :: b' =>
      match claim_merge_table x y, claims_try_merge a' b' with
      | Some z, Some r => Some (z :: r)
      | _, _ => None
      end
  | _, _ => None
  end.

(** [ArchetypeClaims]: the views' claims merged (unchecked) with the entry views' claims. *)
Definition task_claims (n : nat) (t : task) : option claims :=
  claims_try_merge (claim_of_views n (t_views t)) (claim_of_views n (t_entry t)).

Definition res_claims (nres : nat) (t : task) : claims :=
  map (fun i =>
         match find (fun p => Nat.eqb i (snd p)) (t_res t) with
         | Some (true, _) => CMut
         | Some (false, _) => CImm
         | None => CNone
         end) (seq 0 nres).

(** * Static stager *)

(** [view::Merge] of views and entry views, per component: the merged kind. *)
Definition kind_of (c : nat) (vs : list view) : option vkind :=
  match find (fun v => match v with VComp _ c' => Nat.eqb c c' | VIdent => false end) vs with
  | Some (VComp k _) => Some k
  | _ => None
  end.

Definition merged_views (n : nat) (t : task) : option (list (option vkind)) :=
  fold_right (fun c acc =>
                match merge_table (kind_of c (t_views t)) (kind_of c (t_entry t)), acc with
                | Some k, Some r => Some (k :: r)
                | _, _ => None
                end) (Some []) (seq 0 n).

Definition ckind_of (k : option vkind) : ckind :=
  match k with
  | None => PNotPresent
  | Some KRef => PRef | Some KMut => PMut | Some KOptRef => POptRef | Some KOptMut => POptMut
  end.

(** [Verifier]: the merged views [v] of the new task against one earlier
    task's merged views [c] of the stage: Cut as soon as a row says Cut. *)
Fixpoint verify (v c : list (option vkind)) : option decision :=
  match v, c with
  | [], [] => Some Append
  | vk :: v', ck :: c' =>
      match vk with
      | None => verify v' c'
      | Some k =>
          match verifier_table k (ckind_of ck) with
          | Some Cut => Some Cut
          | Some Append => verify v' c'
          | None => None
          end
      end
  | _, _ => None
  end.

(** [Claims]: against every earlier task of the stage. *)
Fixpoint verify_all (v : list (option vkind)) (cs : list (list (option vkind))) : option decision :=
  match cs with
  | [] => Some Append
  | c :: t =>
      match verify v c with
      | Some Append => verify_all v t
      | r => r
      end
  end.

Definition res_views (nres : nat) (t : task) : list (option vkind) :=
  map (fun i => match find (fun p => Nat.eqb i (snd p)) (t_res t) with
                | Some (true, _) => Some KMut
                | Some (false, _) => Some KRef
                | None => None
                end) (seq 0 nres).

(** One pass of the greedy stager: returns the stages as lists of task indices. *)
Fixpoint stager (n nres : nat) (ts : list (nat * task))
         (cur : list nat) (cclaims rclaims : list (list (option vkind)))
  : option (list (list nat)) :=
  match ts with
  | [] => Some (match cur with [] => [] | _ => [rev cur] end)
  | (i, t) :: rest =>
      match merged_views n t with
      | None => None
      | Some mv =>
          match verify_all mv cclaims, verify_all (res_views nres t) rclaims with
          | Some d1, Some d2 =>
              match merger_table d1 d2 with
              | Append => stager n nres rest (i :: cur) (mv :: cclaims) (res_views nres t :: rclaims)
              | Cut =>
                  match stager n nres rest [i] [mv] [res_views nres t] with
                  | Some r => Some (rev cur :: r)
                  | None => None
                  end
              end
          | _, _ => None
          end
      end
  end.

Definition stages_of (n nres : nat) (ts : list task) : option (list (list nat)) :=
  stager n nres (combine (seq 0 (length ts)) ts) [] [] [].

(** * Run-time fork/join structure *)

(** What a run looks like: a series-parallel term.  [SPar a b] is one
    [rayon::join(|| a, || b)]; [SSeq a b] is "a, then b" on one thread. *)
Inductive sp := SNil | SLeaf (t : nat) | SSeq (a b : sp) | SPar (a b : sp).

(** borrowed_archetypes: shape ↦ merged claims. *)
Definition borrowed := list (shape * claims).

Fixpoint b_find (s : shape) (b : borrowed) : option claims :=
  match b with
  | [] => None
  | (s', c) :: t => if shape_eqb s' s then Some c else b_find s t
  end.

Fixpoint b_set (s : shape) (c : claims) (b : borrowed) : borrowed :=
  match b with
  | [] => [(s, c)]
  | (s', c') :: t => if shape_eqb s' s then (s, c) :: t else (s', c') :: b_set s c t
  end.

(** [query_archetype_identifiers] (checked): merge the task's claims on every
    archetype it reaches into the map, or fail without changing it. *)
Fixpoint merge_archs_checked (cl : claims) (archs : list shape) (b : borrowed) : option borrowed :=
  match archs with
  | [] => Some b
  | s :: t =>
      match b_find s b with
      | Some old =>
          match claims_try_merge cl old with
          | Some m => merge_archs_checked cl t (b_set s m b)
          | None => None
          end
      | None => merge_archs_checked cl t (b_set s cl b)
      end
  end.

(** [query_archetype_identifiers_unchecked]: [merge_unchecked] is
    [try_merge(..).unwrap_unchecked()]: [None] here is undefined behaviour. *)
Definition reached (t : task) (archs : list shape) : list shape :=
  filter (task_reaches t) archs.

Section Run.
  Variable n nres : nat.
  Variable tasks : list task.       (* the schedule *)
  Variable archs : list shape.      (* archetypes present in the world *)

  Definition task_at (i : nat) : option task := nth_error tasks i.

  (** [Stage::run_add_ons] over the next stage's tasks. Returns the items run
      and the has_run flags. *)
  Fixpoint add_ons (next : list nat) (b : borrowed) (rc : claims) : option (sp * list bool) :=
    match next with
    | [] => Some (SNil, [])
    | i :: rest =>
        match task_at i with
        | None => None
        | Some t =>
            match task_claims n t with
            | None => None
            | Some cl =>
                match claims_try_merge (res_claims nres t) rc with
                | Some rc' =>
                    match merge_archs_checked cl (reached t archs) b with
                    | Some b' =>
                        match add_ons rest b' rc' with
                        | Some (items, hr) => Some (SPar items (SLeaf i), true :: hr)
                        | None => None
                        end
                    | None =>
                        (* note: the *merged* resource claims are passed on (variable shadowing in the code) *)
                        match add_ons rest b rc' with
                        | Some (items, hr) => Some (items, false :: hr)
                        | None => None
                        end
                    end
                | None =>
                    match add_ons rest b rc with
                    | Some (items, hr) => Some (items, false :: hr)
                    | None => None
                    end
                end
            end
        end
    end.

  (** [Stage::run] over the tasks of one stage. [None] = undefined behaviour
      ([merge_unchecked] on claims that do not merge). *)
  Fixpoint stage_run (stage : list nat) (has_run : list bool) (b : borrowed) (rc : claims)
           (next : list nat) : option (sp * list bool) :=
    match stage with
    | [] =>
        match b with
        | [] => Some (SNil, map (fun _ => false) next)
        | _ => add_ons next b rc
        end
    | i :: rest =>
        let h := match has_run with x :: _ => x | [] => false end in
        let hs := match has_run with _ :: y => y | [] => [] end in
        if h then stage_run rest hs b rc next
        else
          match task_at i with
          | None => None
          | Some t =>
              match task_claims n t with
              | None => None
              | Some cl =>
                  match merge_archs_checked cl (reached t archs) b,
                        claims_try_merge rc (res_claims nres t) with
                  | Some b', Some rc' =>
                      match stage_run rest hs b' rc' next with
                      | Some (items, nh) => Some (SPar items (SLeaf i), nh)
                      | None => None
                      end
                  | _, _ => None
                  end
              end
          end
    end.

  (** [Stages::run] *)
  Fixpoint stages_run (stages : list (list nat)) (has_run : list bool) : option sp :=
    match stages with
    | [] => Some SNil
    | st :: rest =>
        let next := match rest with nx :: _ => nx | [] => [] end in
        match stage_run st has_run [] (repeat CNone nres) next with
        | Some (items, nh) =>
            match stages_run rest nh with
            | Some more => Some (SSeq items more)
            | None => None
            end
        | None => None
        end
    end.

  Definition run_schedule : option (list (list nat) * sp) :=
    match stages_of n nres tasks with
    | None => None
    | Some stages =>
        match stages_run stages (map (fun _ => false) (match stages with s :: _ => s | [] => [] end)) with
        | Some items => Some (stages, items)
        | None => None
        end
    end.
End Run.
