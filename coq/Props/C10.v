(** C10 — A cloned world is an exact, fully independent copy.
    Property theorems only; proofs are in Proofs/CloneEq.v.
    Independence of the two worlds is true by construction in a functional
    model; it is carried by the correspondence check (pointer-identity dump,
    lock-step continuation), not by a theorem. *)
From Brood Require Import Base World Multi Spec BaseFacts Inv CloneEq.

(** clone() never reaches an unchecked failure and yields the same world. *)
Theorem C10_clone : forall w, Inv w ->
  exists evs, clone_world w = Some (w, evs) /\ world_eqb w w = true /\ Inv w.
Proof.
  intros w HI. destruct (clone_world w) as [[w' evs]|] eqn:E.
  - pose proof (clone_world_same _ _ _ E) as ->. exists evs. split; [reflexivity|].
    split; [apply world_eqb_refl; exact HI | exact HI].
  - exfalso. exact (clone_world_safe w HI E).
Qed.
Check (C10_clone : forall w, Inv w ->
  exists evs, clone_world w = Some (w, evs) /\ world_eqb w w = true /\ Inv w).
Print Assumptions C10_clone.

(** clone_from(): whatever the destination held, the result holds exactly the
    source's entities, identifiers, allocator state and resources, and is a
    valid world again. *)
Theorem C10_clone_from : forall dst src, Inv dst -> Inv src -> w_n dst = w_n src ->
  exists w' evs, clone_from_world dst src = Some (w', evs) /\ Inv w' /\
    w_slots w' = w_slots src /\ w_free w' = w_free src /\ w_len w' = w_len src /\
    w_res w' = w_res src /\ feq (absf w') (absf src).
Proof.
  intros dst src Hd Hs Hn.
  destruct (clone_from_world dst src) as [[w' evs]|] eqn:E.
  - exists w', evs. split; [reflexivity|].
    split; [exact (clone_from_inv _ _ _ _ Hd Hs Hn E)|].
    destruct (clone_from_content _ _ _ _ Hd Hs Hn E) as (A & B & C & D & _ & F). auto.
  - exfalso. exact (clone_from_safe dst src Hs E).
Qed.
Check (C10_clone_from : forall dst src, Inv dst -> Inv src -> w_n dst = w_n src ->
  exists w' evs, clone_from_world dst src = Some (w', evs) /\ Inv w' /\
    w_slots w' = w_slots src /\ w_free w' = w_free src /\ w_len w' = w_len src /\
    w_res w' = w_res src /\ feq (absf w') (absf src)).
Print Assumptions C10_clone_from.
