(** C05 — No safe call sequence corrupts or misuses memory in the column store.
    Property theorems only; proofs are in Proofs/{StepInv,QueryFacts,SerdeCFacts,PhysFacts}.v.
    What is proved: (a) at the logical layer every [get_unchecked(_mut)],
    [unwrap_unchecked] and [unreachable_unchecked] of the allocator, the archetype
    table and the world operations is a checked access in the model, and no history
    ever fails one; (b) a query never selects a column for a view other than the
    one holding that component; (c) at the cell level the structural column
    operations keep "the first [length] cells of every column hold live values",
    which is what makes the reconstruction [Vec::from_raw_parts(ptr, length, cap)]
    sound, and dropping such a store drops nothing twice.
    PARTIAL (carried by the correspondence, not by a theorem): allocation layouts
    (size/alignment at release = at creation), capacity write-back after growth, the
    packed row buffer offsets, and "all memory is returned" are audited on the real
    code by the harness's global allocator after every operation and at the end of
    every history; AddressSanitizer runs in the thorough tier. *)
From Brood Require Import Base World Multi Spec Kinds Tables Sched Query SerdeC Phys
  BaseFacts Inv StepInv QueryFacts SerdeL SerdeCFacts PhysFacts.

Theorem C05_unchecked_accesses : forall n res ops, run (empty_world n res) ops <> None.
Proof. intros n res ops. exact (run_safe ops (empty_world n res) (empty_world_inv n res)). Qed.
Check (C05_unchecked_accesses : forall n res ops, run (empty_world n res) ops <> None).
Print Assumptions C05_unchecked_accesses.

Theorem C05_unchecked_accesses_from : forall w ops, Inv w -> run w ops <> None.
Proof. intros w ops HI. exact (run_safe ops w HI). Qed.
Check (C05_unchecked_accesses_from : forall w ops, Inv w -> run w ops <> None).
Print Assumptions C05_unchecked_accesses_from.

(** a deserialized world is as safe as any other *)
Theorem C05_after_deserialize : forall n archs len free res w ops,
  de_content n archs len free res = inr w -> run w ops <> None.
Proof. intros n archs len free res w ops E. apply run_safe. eapply de_content_inv. exact E. Qed.
Print Assumptions C05_after_deserialize.

(** views read the column of their own component, never another one, and never a missing one *)
Theorem C05_views_read_their_column : forall w vs f, Inv w -> wf_views (w_n w) vs ->
  query_impl w vs f <> None.
Proof. intros w vs f HI WF. rewrite (query_impl_spec w vs f HI WF). discriminate. Qed.
Check (C05_views_read_their_column : forall w vs f, Inv w -> wf_views (w_n w) vs -> query_impl w vs f <> None).
Print Assumptions C05_views_read_their_column.

(** cell level: what the logical layer stores is a clean column store ... *)
Theorem C05_store_clean : forall a spare,
  (forall rw, In rw (a_rows a) -> length (snd rw) = count_true (a_shape a)) -> Clean (parch_of a spare).
Proof. exact parch_of_clean. Qed.
Print Assumptions C05_store_clean.

(** ... kept clean by the in-place operations (the shared length is what every later
    [from_raw_parts] uses) ... *)
Theorem C05_remove_keeps_clean : forall a i a' evs p, Clean a -> p_remove_row a i None = Some (a', evs, p) ->
  p = false /\ Clean a' /\ pa_len a' = pa_len a - 1 /\ double_drops evs = [].
Proof. exact remove_row_clean. Qed.
Print Assumptions C05_remove_keeps_clean.

Theorem C05_set_keeps_clean : forall a r c v f a' evs p, Clean a -> p_set a r c v f = Some (a', evs, p) ->
  Clean a' /\ double_drops evs = [].
Proof. exact set_keeps_clean. Qed.
Print Assumptions C05_set_keeps_clean.

Theorem C05_clear_keeps_clean : forall a a' evs p, Clean a -> p_clear a None = (a', evs, p) ->
  p = false /\ pa_len a' = 0 /\ double_drops evs = [].
Proof. exact clear_clean. Qed.
Print Assumptions C05_clear_keeps_clean.

(** ... and releasing a clean store releases every value once. *)
Theorem C05_drop_clean : forall a f, Clean a -> double_drops (fst (p_drop_arch a f)) = [].
Proof. intros a f H. exact (drop_clean_no_double a f H). Qed.
Print Assumptions C05_drop_clean.
