// C11: deserializing untrusted input must yield `Err(..)` or a valid world.
//
// The row count of an archetype and the slot count of the entity allocator are read from the
// input and used, unchecked, as the size of eager allocations:
//
//   * archetype, human-readable encoding : `Vec::with_capacity(length)`   (archetype/impl_serde.rs, DeserializeRows)
//   * archetype, compact encoding        : `Vec::with_capacity(length)`   (archetype/impl_serde.rs, DeserializeColumn)
//   * allocator, both encodings          : `vec![None; length]`           (entity/allocator/impl_serde.rs, from_serialized_parts)
//
// A few dozen bytes of input therefore make `World::deserialize` panic ("capacity overflow")
// instead of returning an error; with a somewhat smaller number (e.g. 1e12) the process is
// aborted by the allocation-failure handler, or, for the allocator's `vec![None; length]`,
// gigabytes are allocated *and written* before the input is finally rejected.
//
// Only safe public API is used. Exits 0 / prints PASS if every input is answered with `Err`.

use brood::{Registry, World};
use serde::{Deserialize, Serialize};
use std::panic::{catch_unwind, AssertUnwindSafe};

#[derive(Clone, Debug, PartialEq, Serialize, Deserialize)]
struct A(u32);

type Registry = Registry!(A);
type W = World<Registry>;

fn outcome(name: &str, f: impl FnOnce() -> Result<W, String>) -> bool {
    match catch_unwind(AssertUnwindSafe(f)) {
        Ok(Err(error)) => {
            println!("ok        {name}: rejected with Err({error})");
            true
        }
        Ok(Ok(world)) => {
            println!("ok        {name}: accepted, len {}", world.len());
            true
        }
        Err(payload) => {
            let message = payload
                .downcast_ref::<String>()
                .cloned()
                .or_else(|| payload.downcast_ref::<&str>().map(|s| (*s).to_string()))
                .unwrap_or_default();
            println!("VIOLATION {name}: deserialization panicked: {message:?}");
            false
        }
    }
}

fn main() {
    let mut held = true;

    // Sanity: a well-formed document is accepted.
    held &= outcome("well-formed json", || {
        serde_json::from_str::<W>(
            r#"[[[[1],1,[[{"index":0,"generation":0},7]]]],{"length":1,"free":[]},[]]"#,
        )
        .map_err(|e| e.to_string())
    });

    // 1. Human-readable encoding, archetype length = usize::MAX, no rows at all.
    held &= outcome("json, archetype length", || {
        serde_json::from_str::<W>(
            r#"[[[[0],18446744073709551615,[]]],{"length":0,"free":[]},[]]"#,
        )
        .map_err(|e| e.to_string())
    });

    // 2. Both encodings: allocator length = usize::MAX with an otherwise empty world.
    held &= outcome("json, allocator length", || {
        serde_json::from_str::<W>(r#"[[],{"length":18446744073709551615,"free":[]},[]]"#)
            .map_err(|e| e.to_string())
    });

    // 3. Compact (column-wise) encoding, archetype length = usize::MAX.
    held &= outcome("compact tokens, archetype length", || {
        use serde_assert::{Deserializer, Token, Tokens};
        let tokens = Tokens(vec![
            Token::Tuple { len: 3 },
            Token::Seq { len: Some(1) },
            Token::NewtypeStruct { name: "Archetype" },
            Token::Tuple { len: 3 },
            // identifier: no components
            Token::Tuple { len: 1 },
            Token::U8(0),
            Token::TupleEnd,
            // length
            Token::U64(u64::MAX),
            // columns: only the entity identifier column
            Token::Tuple { len: 1 },
            Token::Tuple { len: usize::MAX },
            Token::TupleEnd,
            Token::TupleEnd,
            Token::TupleEnd,
            Token::SeqEnd,
            Token::Struct { name: "Allocator", len: 2 },
            Token::Field("length"),
            Token::U64(0),
            Token::Field("free"),
            Token::Seq { len: Some(0) },
            Token::SeqEnd,
            Token::StructEnd,
            Token::Tuple { len: 0 },
            Token::TupleEnd,
            Token::TupleEnd,
        ]);
        let mut deserializer = Deserializer::builder()
            .tokens(tokens)
            .is_human_readable(false)
            .build();
        W::deserialize(&mut deserializer).map_err(|e| format!("{e:?}"))
    });

    if held {
        println!("PASS");
    } else {
        println!("FAIL: untrusted input made World::deserialize panic instead of returning Err");
        std::process::exit(1);
    }
}
