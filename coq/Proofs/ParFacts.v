(** Proofs for C09. *)
From Coq Require Import Permutation.
From Brood Require Import Base World Kinds Tables Sched Query Par BaseFacts.

Section ConsumerFacts.
  Variable item R : Type.
  Variable reduce : R -> R -> R.
  Variable empty : R.
  Variable drive : list item -> R.
  Variable results : arch -> option (list item).

  (** rayon's consumer contract *)
  Hypothesis reduce_assoc : forall a b c, reduce (reduce a b) c = reduce a (reduce b c).
  Hypothesis reduce_empty_l : forall a, reduce empty a = a.
  Hypothesis reduce_empty_r : forall a, reduce a empty = a.
  Hypothesis drive_nil : drive [] = empty.
  Hypothesis drive_app : forall xs ys, drive (xs ++ ys) = reduce (drive xs) (drive ys).

  Notation consume := (consume reduce drive results).
  Notation complete := (complete empty).
  Notation seq_items := (seq_items results).

  Lemma fold_consume : forall l p,
    complete (fold_left consume l p) = reduce (complete p) (drive (seq_items l)).
  Proof.
    induction l as [|a t IH]; intros p; cbn [fold_left Par.seq_items flat_map].
    - rewrite drive_nil, reduce_empty_r. reflexivity.
    - rewrite IH. unfold Par.consume. destruct (results a) as [its|].
      + rewrite drive_app. destruct p as [p|]; cbn [Par.complete].
        * rewrite reduce_assoc. reflexivity.
        * rewrite reduce_empty_l. reflexivity.
      + cbn [app]. reflexivity.
  Qed.

  Lemma seq_items_app a b : seq_items (a ++ b) = seq_items a ++ seq_items b.
  Proof. unfold Par.seq_items. apply flat_map_app. Qed.

  (** whatever the splitting: driving in parallel = driving the sequential item sequence *)
  Theorem drive_par_seq : forall t, drive_par reduce empty drive results t = drive (seq_items (flatten t)).
  Proof.
    induction t as [l|a IHa b IHb]; cbn [drive_par flatten].
    - rewrite fold_consume. cbn [Par.complete]. apply reduce_empty_l.
    - rewrite IHa, IHb, seq_items_app, drive_app. reflexivity.
  Qed.
End ConsumerFacts.

(** Instance: collecting the items (R = list, reduce = app): the parallel iterator presents
    exactly the item sequence of the sequential query, each item once. *)
Theorem par_items_seq item (results : arch -> option (list item)) t :
  drive_par (@app item) [] (fun l => l) results t = seq_items results (flatten t).
Proof.
  apply drive_par_seq.
  - intros a b c. symmetry. apply app_assoc.
  - reflexivity.
  - apply app_nil_r.
  - reflexivity.
  - reflexivity.
Qed.

(** with the results of the sequential query per archetype, this is [query_impl] *)
Definition arch_results (vs : list view) (f : qfilter) (a : arch) : option (list (list qitem)) :=
  if filter_eval (query_filter vs f) (a_shape a)
  then match mapM (view_row (a_shape a) vs) (a_rows a) with Some r => Some r | None => Some [] end
  else None.

Lemma seq_items_query vs f archs rows :
  query_archs vs f archs = Some rows -> seq_items (arch_results vs f) archs = rows.
Proof.
  revert rows. induction archs as [|a t IH]; intros rows H; cbn [query_archs Par.seq_items flat_map] in *.
  - inversion H; reflexivity.
  - destruct (query_arch vs f a) as [x|] eqn:Ea; [|discriminate].
    destruct (query_archs vs f t) as [r|] eqn:Et; [|discriminate].
    inversion H; subst rows. clear H. fold (seq_items (arch_results vs f) t). rewrite (IH r eq_refl).
    f_equal. unfold query_arch in Ea. unfold arch_results.
    destruct (filter_eval (query_filter vs f) (a_shape a)).
    + rewrite Ea. reflexivity.
    + inversion Ea; reflexivity.
Qed.

Theorem par_query_eq_seq w vs f t rows :
  flatten t = w_archs w -> query_impl w vs f = Some rows ->
  drive_par (@app (list qitem)) [] (fun l => l) (arch_results vs f) t = rows.
Proof.
  intros Hf Hq. rewrite par_items_seq, Hf. apply seq_items_query. exact Hq.
Qed.

(** * RepeatNone *)
Theorem repeat_none_count : forall t count,
  repeat_none_items count t = repeat None count.
Proof.
  induction t as [|i a IHa b IHb]; intros count; cbn [repeat_none_items]; [reflexivity|].
  rewrite IHa, IHb, <- repeat_app. f_equal. lia.
Qed.

(** * Zip: every row index is handed out exactly once, whatever the splitting *)
Theorem zip_items_rows : forall t cols start len,
  zip_items cols start len t = map (fun r => (r, map (fun c => nth r c 0%N) cols)) (seq start len).
Proof.
  induction t as [|i a IHa b IHb]; intros cols start len; cbn [zip_items]; [reflexivity|].
  rewrite IHa, IHb, <- map_app. f_equal.
  replace (seq start len) with (seq start (Nat.min i len + (len - Nat.min i len))) by (f_equal; lia).
  rewrite seq_app. reflexivity.
Qed.

Corollary zip_items_nodup t cols start len : NoDup (map fst (zip_items cols start len t)).
Proof.
  rewrite zip_items_rows, map_map. cbn [fst]. rewrite map_id. apply seq_NoDup.
Qed.

(** * Zip with RepeatNone: when every producer has the archetype's length, any splitting hands out
      exactly one row per index, with None in the RepeatNone positions *)
Lemma min_len_all cols len : (forall c, In c cols -> pcol_len c = len) -> min_len cols len = len.
Proof.
  induction cols as [|c t IH]; intros H; cbn [min_len fold_right]; [reflexivity|].
  fold (min_len t len). rewrite IH by (intros x Hx; apply H; right; exact Hx).
  rewrite (H c (or_introl eq_refl)). apply Nat.min_id.
Qed.

Lemma pcol_split_len i c : i <= pcol_len c ->
  pcol_len (fst (pcol_split i c)) = i /\ pcol_len (snd (pcol_split i c)) = pcol_len c - i.
Proof.
  destruct c as [l|n]; cbn [pcol_split pcol_len fst snd]; intros H.
  - rewrite firstn_length, skipn_length. lia.
  - lia.
Qed.

Lemma nth_firstn_lt A : forall (l : list A) n r, r < n -> nth_error (firstn n l) r = nth_error l r.
Proof. induction l as [|x t IH]; intros [|n] [|r] H; cbn; try reflexivity; try lia. apply IH. lia. Qed.

Lemma nth_skipn_add A : forall (l : list A) n r, nth_error (skipn n l) r = nth_error l (n + r).
Proof.
  induction l as [|x t IH]; intros [|n] r; cbn; try reflexivity.
  - destruct r; reflexivity.
  - apply IH.
Qed.

Lemma pcol_item_split i c r : i <= pcol_len c ->
  (r < i -> pcol_item (fst (pcol_split i c)) r = pcol_item c r) /\
  pcol_item (snd (pcol_split i c)) r = pcol_item c (i + r).
Proof.
  destruct c as [l|n]; cbn [pcol_split pcol_item pcol_len fst snd]; intros H.
  - split; [intros Hr; apply nth_firstn_lt; exact Hr|apply nth_skipn_add].
  - split; reflexivity.
Qed.

Definition whole_rows (cols : list pcol) (len : nat) : list (list (option val)) :=
  map (fun r => map (fun c => pcol_item c r) cols) (seq 0 len).

Theorem pzip_items_rows : forall t cols len, (forall c, In c cols -> pcol_len c = len) ->
  pzip_items cols len t = whole_rows cols len.
Proof.
  induction t as [|i a IHa b IHb]; intros cols len H; cbn [pzip_items].
  - unfold leaf_rows, whole_rows. rewrite (min_len_all cols len H). reflexivity.
  - set (i' := Nat.min i len).
    assert (Hi : i' <= len) by (subst i'; lia).
    rewrite IHa, IHb.
    + unfold whole_rows.
      replace (seq 0 len) with (seq 0 (i' + (len - i'))) by (f_equal; lia).
      rewrite seq_app, map_app. f_equal.
      * apply map_ext_in. intros r Hr. apply in_seq in Hr. rewrite map_map. apply map_ext_in. intros c Hc.
        apply (pcol_item_split i' c r); [rewrite (H c Hc); exact Hi|lia].
      * assert (Hseq : forall k s0, seq (s0 + i') k = map (fun r => i' + r) (seq s0 k)).
        { induction k as [|k IHk]; intros s0; cbn [seq map]; [reflexivity|].
          f_equal; [lia|]. rewrite <- IHk. reflexivity. }
        rewrite (Hseq (len - i') 0). rewrite map_map. apply map_ext_in. intros r Hr. rewrite map_map.
        apply map_ext_in. intros c Hc.
        apply (pcol_item_split i' c r). rewrite (H c Hc). exact Hi.
    + intros c Hc. apply in_map_iff in Hc as (c0 & <- & Hc0).
      destruct (pcol_split_len i' c0 ltac:(rewrite (H c0 Hc0); exact Hi)) as [L1 L2].
      first [exact L1 | rewrite L2, (H c0 Hc0); reflexivity].
    + intros c Hc. apply in_map_iff in Hc as (c0 & <- & Hc0).
      destruct (pcol_split_len i' c0 ltac:(rewrite (H c0 Hc0); exact Hi)) as [L1 L2].
      first [exact L1 | rewrite L2, (H c0 Hc0); reflexivity].
Qed.
