(** What a program can hold at once, and what the type system is asked to
    accept (C14): the bounds of each public API as the library states them
    ([registry/contains/views], [query/view/disjoint.rs] via the regenerated
    [merge_table], [resource/contains/views.rs], the Send/Sync impls and the
    lifetimes of returned references read off the source into Gen/Facts.v).
    rustc is the oracle for trait resolution and borrow checking themselves:
    this file states the bounds.  Definitions only. *)
From Brood Require Export Base World Kinds Tables Sched.
From Brood Require Export Facts.

(** through run_schedule: the system value itself, or a reference held by its views / resource views / entry views *)
Inductive twhere := WViews | WRes | WEntry.
Inductive tapi := TWorldMove | TWorldShare | TViewRef | TViewMut
                | TTaskSelf (par : bool) | TTaskRef (par : bool) (w : twhere) | TTaskMut (par : bool) (w : twhere).
(** where the result of a repeated call comes from *)
Inductive rapi := RWorldEntry | REntriesEntry | RWorldQuery | RViewResources | RGetMut.

Inductive cprog :=
| CQuery (n : nat) (views entry : list view)       (* one query over a registry of n components *)
| CResViews (nres : nat) (req : list (bool * nat)) (* view_resources / resource views of a query *)
| COutside                                         (* a component or resource the registry does not list *)
| CInside
| CThread (api : tapi) (send sync : bool)          (* payload component is Send? Sync? *)
| COverlap (api : rapi) (m1 m2 : bool)             (* two results of one receiver alive at once, mutable? *)
| CSharedTwice                                     (* two results of a &self method (get::<R>()) alive at once *)
| CSequential | CDisjoint.

Definition comps_of (vs : list view) : list nat :=
  flat_map (fun v => match v with VComp _ c => [c] | VIdent => [] end) vs.

(** [ContainsViews]: each registry component is consumed by at most one view. *)
Definition contains_views (n : nat) (vs : list view) : bool :=
  nodupb (comps_of vs) && forallb (fun c => Nat.ltb c n) (comps_of vs).

(** [Disjoint] between iterator views and entry views, by the regenerated [Merge] table:
    a pair of kinds on one component has an impl only if neither is mutable. *)
Definition disjoint_views (n : nat) (vs es : list view) : bool :=
  forallb (fun c => match merge_table (kind_of c vs) (kind_of c es) with Some _ => true | None => false end) (seq 0 n).

(** the Send bound the [Task] impl (task::System / task::ParSystem) puts on that part of a system *)
Definition task_bound (par : bool) (w : twhere) : bool :=
  match par, w with
  | false, WViews => fact_task_system_views_send | false, WRes => fact_task_system_res_send | false, WEntry => fact_task_system_entry_send
  | true, WViews => fact_task_parsystem_views_send | true, WRes => fact_task_parsystem_res_send | true, WEntry => fact_task_parsystem_entry_send
  end.

Definition thread_ok (api : tapi) (send sync : bool) : bool :=
  match api with
  | TTaskSelf par => if (if par then fact_task_parsystem_self_send else fact_task_system_self_send) then send else true
  | TTaskRef par w => if task_bound par w then sync else true     (* &T: Send iff T: Sync *)
  | TTaskMut par w => if task_bound par w then send else true     (* &mut T: Send iff T: Send *)
  | TWorldMove => if fact_world_send_needs_components_send then send else true
  | TWorldShare => if fact_world_sync_needs_components_sync then sync else true
  | TViewRef =>   (* a &C reaches another thread: through result::Iter / Entries / par views *)
      if fact_iter_send_needs_views_send && fact_entries_send_needs_views_send && fact_parview_ref_needs_sync && fact_parviews_need_send
      then sync else true
  | TViewMut =>
      if fact_iter_send_needs_views_send && fact_entries_send_needs_views_send && fact_parview_mut_needs_send && fact_parviews_need_send
      then send else true
  end.

(** does the returned value borrow the (mutable) receiver? then the borrow checker
    rejects a second call while the first result is alive *)
Definition borrows_receiver (api : rapi) : bool :=
  match api with
  | RWorldEntry => fact_world_entry_query_borrows_receiver
  | REntriesEntry => fact_entries_entry_query_borrows_receiver
  | RWorldQuery => fact_world_query_borrows_receiver
  | RViewResources => fact_view_resources_borrows_receiver
  | RGetMut => fact_get_mut_borrows_receiver
  end.

Definition accepts (p : cprog) : bool :=
  match p with
  | CQuery n vs es =>
      (* the [Disjoint] bound between views and entry views is on every public way to a query result — query,
         par_query, run_system, run_par_system, the two [Task] impls (read off the source) — and [Disjoint] is what
         [disjoint_views] says only while each side's [MutableInverse] takes exactly the mutably viewed components
         out of the registry and goes on into the tail after every head, the identifier view included (read off
         query/view/disjoint.rs) *)
      contains_views n vs && contains_views n es
      && (if fact_entry_views_disjoint_bound_everywhere && fact_disjoint_takes_out_exactly_the_mutable_views
          then disjoint_views n vs es else true)
  | CResViews nres req => nodupb (map snd req) && forallb (fun r => Nat.ltb (snd r) nres) req
  | COutside => false
  | CInside => true
  | CThread api send sync => thread_ok api send sync
  | COverlap api m1 m2 => negb (borrows_receiver api)
  | CSharedTwice | CSequential | CDisjoint => true
  end.

(** What the property demands of an accepted program. *)
Definition view_mut (v : view) : bool := match v with VComp k _ => is_mut_kind k | VIdent => false end.

Definition Sound (p : cprog) : Prop :=
  match p with
  | CQuery n vs es =>
      (* nothing outside the registry is viewed; a component is reached by at most one of the
         iterator's views and at most one of the entry views, and if by both then only immutably *)
      (forall c, In c (comps_of vs ++ comps_of es) -> c < n) /\
      NoDup (comps_of vs) /\ NoDup (comps_of es) /\
      (forall c k1 k2, In (VComp k1 c) vs -> In (VComp k2 c) es -> is_mut_kind k1 = false /\ is_mut_kind k2 = false)
  | CResViews nres req => NoDup (map snd req) /\ forall r, In r req -> snd r < nres
  | COutside => False
  | CInside => True
  | CThread api send sync =>
      match api with
      | TWorldMove | TViewMut | TTaskSelf _ | TTaskMut _ _ => send = true
      | TWorldShare | TViewRef | TTaskRef _ _ => sync = true
      end
  | COverlap _ m1 m2 => m1 = false /\ m2 = false
  | CSharedTwice | CSequential | CDisjoint => True
  end.

(** The known class K14a (finding F3): results of [query::entries::Entry::query] carry the
    world lifetime, so two of them coexist. *)
Definition K14 (p : cprog) : Prop :=
  match p with COverlap REntriesEntry _ _ => True | _ => False end.
