(** C03 / C05: query-time Entries sub-views never read an uninitialised slot and return what
    [World::entry(e).query] returns for the same views. *)
From Brood Require Import Base World Multi Spec Kinds Tables Sched Query Subset SubsetM BaseFacts Inv StepInv Refine QueryFacts.

Definition slot_for (sh : shape) (vals : list val) (k : nat) (kd : vkind) : slot :=
  if get_bit k sh
  then (if is_opt_kind kd then SSome (nth (rank k sh) vals 0%N) else SInit (nth (rank k sh) vals 0%N))
  else (if is_opt_kind kd then SNone else SUninit).

Fixpoint expect_mu (k : nat) (bits : shape) (sh : shape) (vals : list val) (vs : list view) : list (nat * slot) :=
  match bits with
  | [] => []
  | _ :: bs =>
      match kind_of k vs with
      | Some kd => (k, slot_for sh vals k kd) :: expect_mu (S k) bs sh vals vs
      | None => expect_mu (S k) bs sh vals vs
      end
  end.

(** the maybe-uninit walk never fails on a well-formed row, whatever the archetype has *)
Lemma walk_mu_expect sh vals vs :
  length vals = count_true sh ->
  forall bits k, skipn k sh = bits ->
  walk_mu k bits (skipn (rank k sh) vals) vs = Some (expect_mu k bits sh vals vs).
Proof.
  intros HL. induction bits as [|b bs IH]; intros k Hs; cbn [walk_mu expect_mu]; [reflexivity|].
  destruct (skipn_cons_nth _ _ _ _ _ Hs) as [Hn Hs'].
  assert (Hk : k < length sh) by (apply nth_error_Some; congruence).
  pose proof (get_bit_nth_error _ _ _ Hn) as Hb.
  pose proof (rf_rank_S k sh Hk) as HS. rewrite Hb in HS.
  assert (Hcol : b = true -> skipn (rank k sh) vals = nth (rank k sh) vals 0%N :: skipn (rank (S k) sh) vals).
  { intros ->. assert (Hlt : rank k sh < length vals) by (rewrite HL; apply rf_rank_lt_count; exact Hb).
    destruct (nth_error vals (rank k sh)) as [x|] eqn:Ex; [|apply nth_error_None in Ex; lia].
    rewrite (nth_of_nth_error val _ _ 0%N _ Ex). rewrite (skipn_nth_cons val _ _ _ Ex). f_equal. f_equal. lia. }
  destruct (kind_of k vs) as [kd|] eqn:Ek.
  - unfold slot_for. rewrite Hb. destruct b.
    + rewrite (Hcol eq_refl), (IH (S k) Hs'). reflexivity.
    + replace (rank k sh) with (rank (S k) sh) at 1 by lia. rewrite (IH (S k) Hs'). reflexivity.
  - destruct b.
    + rewrite (Hcol eq_refl). apply IH. exact Hs'.
    + replace (rank k sh) with (rank (S k) sh) by lia. apply IH. exact Hs'.
Qed.

Lemma find_expect_mu sh vals vs c kd : kind_of c vs = Some kd ->
  forall bits k, k <= c -> c < k + length bits ->
  find (fun p => Nat.eqb (fst p) c) (expect_mu k bits sh vals vs) = Some (c, slot_for sh vals c kd).
Proof.
  intros Hc. induction bits as [|b bs IH]; intros k Hk Hlt; cbn [length] in Hlt; [lia|]. cbn [expect_mu].
  destruct (Nat.eq_dec k c) as [->|Hne].
  - rewrite Hc. cbn [find fst]. rewrite Nat.eqb_refl. reflexivity.
  - destruct (kind_of k vs) as [kd'|].
    + cbn [find fst]. assert (E : Nat.eqb k c = false) by (apply Nat.eqb_neq; exact Hne). rewrite E.
      apply IH; lia.
    + apply IH; lia.
Qed.

(** one pair of kinds: the operation the source uses gives the specified item, provided a non-optional
    sub-view's component is present (what the filter guarantees) *)
Lemma extract_spec ks kp op sh vals c :
  subset_table ks kp = Some op ->
  (is_opt_kind ks = false -> get_bit c sh = true) ->
  extract op (slot_for sh vals c kp) (get_bit c sh) =
  Some (if is_opt_kind ks
        then QOpt (if get_bit c sh then Some (nth (rank c sh) vals 0%N) else None)
        else QVal (nth (rank c sh) vals 0%N)).
Proof.
  intros HT HB. unfold slot_for.
  destruct ks, kp; cbn in HT; inversion HT; subst op; cbn [is_opt_kind] in *;
    try (rewrite (HB eq_refl)); cbn; try reflexivity; destruct (get_bit c sh); reflexivity.
Qed.

Theorem entries_view_spec n sh supers subs f id vals :
  wf_views n supers -> wf_views n subs -> subset_ok supers subs ->
  length sh = n -> length vals = count_true sh ->
  filter_eval (query_filter subs f) sh = true ->
  entries_view sh supers subs (id, vals) = Some (map (spec_item id (row_abs sh vals)) subs).
Proof.
  intros [NDp Hbp] [NDs Hbs] SO Hn HL HF. unfold entries_view. cbn [fst snd].
  pose proof (walk_mu_expect sh vals supers HL sh 0 eq_refl) as W.
  change (rank 0 sh) with 0 in W. cbn [skipn] in W. rewrite W.
  apply mapM_map. intros v Hv. specialize (SO v Hv). destruct v as [ks c|]; cbn [sub_view spec_item].
  - destruct SO as (kp & Hkp & HT). rewrite Hkp.
    destruct (subset_table ks kp) as [op|] eqn:ET; [|congruence].
    pose proof (kind_of_in _ _ _ NDs Hv) as Hks.
    assert (Hc : c < length sh) by (rewrite Hn; apply Hbs; eapply in_view_comps; exact Hv).
    rewrite (find_expect_mu sh vals supers c kp Hkp sh 0) by lia. cbn [snd].
    rewrite (extract_spec ks kp op sh vals c ET) by (intros Ho; eapply filter_views_bits; eauto).
    assert (Hnth : nth_error (row_abs sh vals) c = Some (if get_bit c sh then nth_error vals (rank c sh) else None)).
    { rewrite rf_nth_row_abs. apply Nat.ltb_lt in Hc. rewrite Hc. reflexivity. }
    rewrite (nth_of_nth_error _ _ _ None _ Hnth).
    destruct (get_bit c sh) eqn:GB.
    + assert (Hlt : rank c sh < length vals) by (rewrite HL; apply rf_rank_lt_count; exact GB).
      destruct (nth_error vals (rank c sh)) as [x|] eqn:Ex; [|apply nth_error_None in Ex; lia].
      rewrite (nth_of_nth_error val _ _ 0%N _ Ex). reflexivity.
    + destruct (is_opt_kind ks) eqn:Eo; [reflexivity|].
      rewrite (filter_views_bits _ _ _ HF _ _ Hks Eo) in GB. discriminate.
  - rewrite SO. reflexivity.
Qed.

(** * The filter, decided through the regenerated table, is the specified one *)
Lemma item_has supers sh c : kind_of c supers <> None -> item_filter supers sh IHas c = Some (get_bit c sh).
Proof.
  unfold item_filter. destruct (kind_of c supers) as [kp|]; [|congruence]. intros _. destruct kp; reflexivity.
Qed.

Lemma efilter_plain supers sh f : filter_covered supers f -> efilter supers sh f = Some (filter_eval f sh).
Proof.
  induction f as [|c|g IH|g IHg h IHh|g IHg h IHh|vs]; cbn [efilter filter_eval filter_covered]; intros H.
  - reflexivity.
  - apply item_has. exact H.
  - rewrite (IH H). reflexivity.
  - destruct H as [H1 H2]. rewrite (IHg H1), (IHh H2). reflexivity.
  - destruct H as [H1 H2]. rewrite (IHg H1), (IHh H2). reflexivity.
  - contradiction.
Qed.

Lemma item_view supers sh ks kp c : kind_of c supers = Some kp -> subset_table ks kp <> None ->
  item_filter supers sh (item_of_kind ks) c = Some (view_filter (VComp ks c) sh).
Proof.
  intros Hk HT. unfold item_filter. rewrite Hk.
  destruct ks, kp; cbn in HT |- *; try congruence; try reflexivity.
Qed.

Lemma efilter_views supers subs sh : subset_ok supers subs ->
  efilter supers sh (FViews subs) = Some (forallb (fun v => view_filter v sh) subs).
Proof.
  cbn [efilter]. induction subs as [|v t IH]; intros SO; cbn [fold_right forallb]; [reflexivity|].
  rewrite IH by (intros x Hx; apply SO; right; exact Hx).
  pose proof (SO v (or_introl eq_refl)) as Hv. destruct v as [ks c|].
  - destruct Hv as (kp & Hk & HT). rewrite (item_view supers sh ks kp c Hk HT). reflexivity.
  - reflexivity.
Qed.

Theorem efilter_spec supers subs f sh : subset_ok supers subs -> filter_covered supers f ->
  efilter supers sh (FAnd f (FViews subs)) = Some (filter_eval (query_filter subs f) sh).
Proof.
  intros SO FC. change (efilter supers sh (FAnd f (FViews subs))) with (opt_and (efilter supers sh f) (efilter supers sh (FViews subs))).
  rewrite (efilter_plain supers sh f FC), (efilter_views supers subs sh SO).
  unfold query_filter. cbn [opt_and filter_eval]. rewrite andb_comm. reflexivity.
Qed.

(** what a system sees through [Entries] is what [World::entry] shows for the same views *)
Theorem entries_entry_query_eq w e supers subs f : Inv w ->
  wf_views (w_n w) supers -> wf_views (w_n w) subs -> subset_ok supers subs -> filter_covered supers f ->
  entries_entry_query w e supers subs f = entry_query w e subs f.
Proof.
  intros HI WFp WFs SO FC. unfold entries_entry_query, entry_query.
  destruct (get_loc w e) as [[sh r]|] eqn:Eg; [|reflexivity].
  rewrite (efilter_spec supers subs f sh SO FC).
  destruct (filter_eval (query_filter subs f) sh) eqn:EF; [|reflexivity].
  destruct (find_arch sh (w_archs w)) as [a|] eqn:Hf; [|reflexivity].
  destruct (nth_error (a_rows a) r) as [[id vals]|] eqn:Hrow; [|reflexivity].
  pose proof (find_arch_In _ _ Hf) as Hin. pose proof (find_arch_shape _ _ Hf) as Hsh.
  destruct (inv_shapes HI a Hin) as [Hn Hlen].
  assert (HL : length vals = count_true sh).
  { rewrite <- Hsh. apply (Hlen (id, vals)). eapply nth_error_In. exact Hrow. }
  assert (Hn' : length sh = w_n w) by (rewrite <- Hsh; exact Hn).
  rewrite (entries_view_spec (w_n w) sh supers subs f id vals WFp WFs SO Hn' HL EF).
  rewrite (view_row_spec (w_n w) sh subs f id vals WFs Hn' HL EF). reflexivity.
Qed.

(** non-vacuity, and the slot that must not be read: a [&C] super-view of an absent component *)
Example entries_view_example :
  entries_view [true; false; true] [VComp KMut 0; VComp KRef 1; VComp KOptMut 2; VIdent]
                                   [VComp KOptRef 1; VComp KRef 2; VIdent; VComp KRef 0] ((7, 0%N), [11%N; 13%N])
  = Some [QOpt None; QVal 13%N; QId (7, 0%N); QVal 11%N] /\
  entries_view [true; false; true] [VComp KMut 0; VComp KRef 1] [VComp KRef 1] ((7, 0%N), [11%N; 13%N]) = None.
Proof. vm_compute. split; reflexivity. Qed.
