#!/bin/sh
# Build the framework from files on disk only (offline).
set -e
cd "$(dirname "$0")"
export CARGO_NET_OFFLINE=true
python3 tools/gen_harness.py harness/src
python3 tools/gen_ctor.py harness/src/bin
[ -f /repo/Cargo.lock ] && cp /repo/Cargo.lock harness/Cargo.lock && cp /repo/Cargo.lock harness_sched/Cargo.lock
(cd coq && coq_makefile -f _CoqProject -o Makefile >/dev/null && timeout 3000 make -j16)
python3 - <<'PY'
import sys
sys.path.insert(0, 'lib')
import common
common.build_extract()
err = common.build_harness()
if err:
    print(err[-3000:])
    sys.exit(1)
import sched
fam, err, missing = sched.build()
if missing:
    print((err or "")[-3000:])
    print("schedule harness: missing binaries", missing)
    sys.exit(1)
print("setup ok")
PY
