(** Proofs about the cleanup of a failed column-wise table (C11, C04; finding F14). *)
From Brood Require Import Base DeRows DeRowsFacts DeCols.
From Coq Require Import Permutation.

Lemma made_map_Gone l : made (map Gone l) = [].
Proof. induction l as [|x t IH]; cbn; [reflexivity|exact IH]. Qed.

(** the elements read: what is made is what was appended; a failure drops the whole Vec *)
Lemma de_col_elems_spec : forall n toks acc,
  match de_col_elems n toks acc with
  | (Some (col, rest), evs) => gone evs = [] /\ col = acc ++ made evs /\ length col = length acc + n
  | (None, evs) => Permutation (acc ++ made evs) (gone evs)
  end.
Proof.
  induction n as [|n IH]; intros toks acc; cbn [de_col_elems].
  - cbn. rewrite app_nil_r. auto.
  - destruct toks as [|[v|] toks'].
    + cbn [made gone]. rewrite made_map_Gone, gone_map_Gone, app_nil_r. apply Permutation_refl.
    + specialize (IH toks' (acc ++ [v])). destruct (de_col_elems n toks' (acc ++ [v])) as [[[col rest]|] evs].
      * destruct IH as (G & C & L). cbn. split; [exact G|]. split; [rewrite C, <- app_assoc; reflexivity|].
        rewrite L, app_length. cbn. lia.
      * cbn. rewrite <- app_assoc in IH. exact IH.
    + cbn [made gone]. rewrite made_map_Gone, gone_map_Gone, app_nil_r. apply Permutation_refl.
Qed.

Lemma de_col_spec len toks :
  match de_col true len toks with
  | (Some col, evs) => gone evs = [] /\ made evs = col /\ length col = len
  | (None, evs) => Permutation (made evs) (gone evs)
  end.
Proof.
  unfold de_col. pose proof (de_col_elems_spec len toks []) as H.
  destruct (de_col_elems len toks []) as [[[col rest]|] evs].
  - destruct H as (G & C & L). cbn in C, L. destruct rest as [|t rest].
    + auto.
    + rewrite made_app, gone_app, made_map_Gone, gone_map_Gone, G, app_nil_r. cbn. rewrite <- C. apply Permutation_refl.
  - exact H.
Qed.

Theorem de_cols_balanced len : forall ncols cols got, Forall (fun c => length c = len) got ->
  match de_cols true len ncols cols got with
  | (None, evs) => Permutation (concat got ++ made evs) (gone evs)
  | (Some res, evs) => gone evs = [] /\ Permutation (concat got ++ made evs) (concat res) /\ Forall (fun c => length c = len) res
  end.
Proof.
  induction ncols as [|k IH]; intros cols got HF; cbn [de_cols].
  - cbn. rewrite app_nil_r. auto.
  - destruct cols as [|toks cols'].
    + rewrite made_free, app_nil_r, (gone_free len got HF). apply Permutation_refl.
    + pose proof (de_col_spec len toks) as HC. destruct (de_col true len toks) as [[col|] evs].
      * destruct HC as (G & M & L).
        assert (HF' : Forall (fun c => length c = len) (got ++ [col])).
        { apply Forall_app. split; [exact HF|constructor; [exact L|constructor]]. }
        specialize (IH cols' (got ++ [col]) HF').
        destruct (de_cols true len k cols' (got ++ [col])) as [[res|] evs'].
        -- destruct IH as (G' & P & F). rewrite made_app, gone_app, G, G'. split; [reflexivity|]. split; [|exact F].
           rewrite concat_app in P. cbn in P. rewrite app_nil_r in P. rewrite M, app_assoc. exact P.
        -- rewrite made_app, gone_app, G. cbn [app].
           rewrite concat_app in IH. cbn in IH. rewrite app_nil_r in IH. rewrite M, app_assoc. exact IH.
      * rewrite made_app, gone_app, made_free, app_nil_r, (gone_free len got HF).
        apply Permutation_trans with (made evs ++ concat got); [apply Permutation_app_comm|].
        apply Permutation_app_tail. exact HC.
Qed.

(** * Whatever element or column fails, and also when the deserializer fails after a column was read, a
      failed column-wise table drops exactly the values it created; a success drops none *)
Theorem de_ctable_conserves ncols len cols :
  match de_ctable true ncols len cols with
  | (None, evs) => Permutation (made evs) (gone evs)
  | (Some res, evs) => gone evs = [] /\ Permutation (made evs) (concat res) /\ Forall (fun c => length c = len) res
  end.
Proof.
  unfold de_ctable. pose proof (de_cols_balanced len ncols cols [] (Forall_nil _)) as H.
  destruct (de_cols true len ncols cols []) as [[res|] evs]; cbn [concat app] in H; exact H.
Qed.

(** with the column handed back as raw parts (before the repair of F14) a trailing element leaks the column *)
Lemma raw_parts_leak : let '(res, evs) := de_ctable false 1 2 [[Some 1%N; Some 2%N; Some 3%N]] in
  res = None /\ made evs = [1%N; 2%N] /\ gone evs = [].
Proof. vm_compute. auto. Qed.

Example de_ctable_example : de_ctable true 2 2 [[Some 1%N; Some 3%N]; [Some 2%N; Some 4%N]]
  = (Some [[1%N; 3%N]; [2%N; 4%N]], [Made 1%N; Made 3%N; Made 2%N; Made 4%N]).
Proof. vm_compute. reflexivity. Qed.

Lemma de_column_fact : fact_de_column_returns_owned_vec = true.
Proof. reflexivity. Qed.

Theorem de_ctable_src_conserves ncols len cols :
  match de_ctable_src ncols len cols with
  | (None, evs) => Permutation (made evs) (gone evs)
  | (Some res, evs) => gone evs = [] /\ Permutation (made evs) (concat res) /\ Forall (fun c => length c = len) res
  end.
Proof. unfold de_ctable_src. rewrite de_column_fact. apply de_ctable_conserves. Qed.
