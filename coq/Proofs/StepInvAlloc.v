(** Preservation of the structural invariant [Inv] (and UB-freedom) by the
    operations that allocate or only touch the archetype table:
    insert, extend, reserve, shrink_to_fit and resource assignment. *)
From Brood Require Import Base World BaseFacts Inv.

(** * Small list facts *)

Lemma nth_error_seq_lt s n k : k < n -> nth_error (seq s n) k = Some (s + k).
Proof.
  revert s k. induction n as [|n IH]; intros s k Hk; [lia|].
  destruct k as [|k]; cbn [seq nth_error].
  - f_equal; lia.
  - rewrite IH by lia. f_equal; lia.
Qed.

Lemma map_add_seq a s n : map (fun k => a + k) (seq s n) = seq (a + s) n.
Proof.
  revert s. induction n as [|n IH]; intros s; cbn [seq map]; auto.
  rewrite IH. f_equal. f_equal. lia.
Qed.

Lemma nth_error_map_some A B (f : A -> B) l k y :
  nth_error (map f l) k = Some y -> exists x, nth_error l k = Some x /\ f x = y.
Proof.
  rewrite nth_error_map. destruct (nth_error l k) as [x|]; cbn; intros H; [|discriminate].
  inversion H; eauto.
Qed.

Lemma map_fst_combine A B (l1 : list A) (l2 : list B) :
  length l1 = length l2 -> map fst (combine l1 l2) = l1.
Proof.
  revert l2. induction l1 as [|x t IH]; intros [|y u] H; cbn in *; auto; try discriminate.
  f_equal. apply IH. lia.
Qed.

Lemma NoDup_map_filter A B (f : A -> B) p (l : list A) :
  NoDup (map f l) -> NoDup (map f (filter p l)).
Proof.
  induction l as [|x t IH]; cbn [map filter]; intros ND; auto.
  inversion ND as [|? ? Hnin ND']; subst.
  destruct (p x); cbn [map]; auto.
  constructor; auto.
  intros HI. apply Hnin. apply in_map_iff in HI as [y [Hy1 Hy2]].
  apply filter_In in Hy2 as [Hy2 _]. apply in_map_iff; eauto.
Qed.

(** * Shapes and canonical values *)

Lemma shape_of_length n cs : length (shape_of n cs) = n.
Proof. unfold shape_of. rewrite map_length, seq_length. reflexivity. Qed.

Lemma count_true_cons b s :
  count_true (b :: s) = if b then S (count_true s) else count_true s.
Proof. unfold count_true. cbn [filter]. destruct b; reflexivity. Qed.

Lemma bits_on_length_gen s off :
  length (filter (fun k => nth (k - off) s false) (seq off (length s))) = count_true s.
Proof.
  revert off. induction s as [|b t IH]; intros off.
  - reflexivity.
  - cbn [length seq filter]. rewrite Nat.sub_diag.
    change (nth 0 (b :: t) false) with b.
    rewrite count_true_cons.
    assert (E : filter (fun k => nth (k - off) (b :: t) false) (seq (S off) (length t))
                = filter (fun k => nth (k - S off) t false) (seq (S off) (length t))).
    { apply filter_ext_in. intros k Hk. apply in_seq in Hk.
      replace (k - off) with (S (k - S off)) by lia. reflexivity. }
    rewrite E. destruct b; cbn [length]; rewrite IH; reflexivity.
Qed.

Lemma bits_on_length s : length (bits_on s) = count_true s.
Proof.
  unfold bits_on, get_bit. rewrite <- (bits_on_length_gen s 0).
  f_equal. apply filter_ext. intros k. rewrite Nat.sub_0_r. reflexivity.
Qed.

Lemma canon_vals_length sh ent : length (canon_vals sh ent) = count_true sh.
Proof. unfold canon_vals. rewrite map_length. apply bits_on_length. Qed.

(** * Archetype table: more finite-map facts *)

Lemma find_arch_cons sh b t :
  find_arch sh (b :: t) = if shape_eqb (a_shape b) sh then Some b else find_arch sh t.
Proof. reflexivity. Qed.

Lemma find_arch_filter p archs sh :
  NoDup (map a_shape archs) ->
  find_arch sh (filter p archs) =
  match find_arch sh archs with
  | Some a => if p a then Some a else None
  | None => None
  end.
Proof.
  induction archs as [|b t IH]; intros ND; [reflexivity|].
  cbn [map] in ND. inversion ND as [|? ? Hnin ND']; subst.
  cbn [filter]. rewrite (find_arch_cons sh b t).
  destruct (p b) eqn:Ep.
  - rewrite find_arch_cons.
    destruct (shape_eqb (a_shape b) sh) eqn:Es.
    + rewrite Ep. reflexivity.
    + apply IH; auto.
  - rewrite IH by auto.
    destruct (shape_eqb (a_shape b) sh) eqn:Es.
    + apply shape_eqb_eq in Es. subst sh.
      apply find_arch_None in Hnin. rewrite Hnin, Ep. reflexivity.
    + reflexivity.
Qed.

Lemma total_rows_filter_nonempty archs :
  total_rows (filter (fun a => negb (is_nil (a_rows a))) archs) = total_rows archs.
Proof.
  induction archs as [|b t IH]; [reflexivity|].
  cbn [filter]. rewrite total_rows_cons.
  destruct (a_rows b) as [|rw rows] eqn:Er; cbn [is_nil negb].
  - rewrite IH. reflexivity.
  - rewrite total_rows_cons, IH, Er. reflexivity.
Qed.

(** * Worlds *)

Lemma with_store_id w :
  with_store w (w_archs w) (w_tid w) (w_slots w) (w_free w) (w_len w) = w.
Proof. destruct w; reflexivity. Qed.

(** * [ensure_for_entity] *)

Lemma ensure_for_entity_inv w sh :
  Inv w -> length sh = w_n w ->
  exists archs1 tid1 a,
    ensure_for_entity sh (w_archs w) (w_tid w) = Some (archs1, tid1) /\
    find_arch sh archs1 = Some a /\
    Inv (with_store w archs1 tid1 (w_slots w) (w_free w) (w_len w)).
Proof.
  intros HI Hlen. unfold ensure_for_entity.
  destruct (mem_shape sh (w_tid w)) eqn:Em.
  - apply mem_shape_In in Em. destruct (inv_tid HI sh Em) as [a Ha].
    rewrite Ha. exists (w_archs w), (w_tid w), a. split; [reflexivity|]. split; auto.
    rewrite with_store_id. exact HI.
  - assert (Hex : exists a, find_arch sh (ensure_arch sh (w_archs w)) = Some a).
    { rewrite find_ensure_arch. destruct (find_arch sh (w_archs w)); eauto.
      rewrite shape_eqb_refl. eauto. }
    destruct Hex as [a Ha].
    exists (ensure_arch sh (w_archs w)), (sh :: w_tid w), a.
    split; [reflexivity|]. split; auto.
    constructor; cbn [with_store w_n w_archs w_tid w_slots w_free w_len].
    + intros b Hb. apply In_ensure_arch in Hb as [Hb| ->].
      * apply (inv_shapes HI); auto.
      * cbn. split; auto. intros rw [].
    + apply ensure_arch_nodup. apply (inv_nodup HI).
    + intros i g sh' r Hs.
      destruct (@inv_fwd _ HI _ _ _ _ Hs) as (b & vals & Hb1 & Hb2).
      exists b, vals. split; auto. rewrite find_ensure_arch, Hb1. reflexivity.
    + intros sh' b r i g vals Hf Hr. rewrite find_ensure_arch in Hf.
      destruct (find_arch sh' (w_archs w)) as [b'|] eqn:Eb.
      * inversion Hf; subst b'. eapply (inv_bwd HI); eauto.
      * destruct (shape_eqb sh sh'); [|discriminate].
        inversion Hf; subst b. cbn in Hr. destruct r; discriminate.
    + apply (inv_free_nodup HI).
    + apply (inv_free HI).
    + rewrite total_rows_ensure_arch. apply (inv_len HI).
    + intros sh' [<-|Hin]; eauto.
      destruct (inv_tid HI sh' Hin) as [b Hb]. exists b.
      rewrite find_ensure_arch, Hb. reflexivity.
Qed.

(** * The allocator *)

(** The allocator half of [Inv]. *)
Definition FreeOK (slots : list slot) (free : list nat) : Prop :=
  NoDup free /\
  forall i, In i free <-> exists g, nth_error slots i = Some (mkSlot g None).

(** What a successful [alloc_batch sh start count slots free] returns. *)
Record AllocSpec (sh : shape) (start count : nat) (slots slots' : list slot)
       (free' : list nat) (ids : list eid) : Prop := mkAllocSpec {
  as_len : length ids = count;
  as_nodup : NoDup (map fst ids);
  (* the k-th identifier's slot now points at row [start + k] of [sh] *)
  as_new : forall k id, nth_error ids k = Some id ->
      nth_error slots' (fst id) = Some (mkSlot (snd id) (Some (sh, start + k)));
  (* the identifiers' slots were absent or inactive before *)
  as_fresh : forall id s, In id ids -> nth_error slots (fst id) = Some s -> s_loc s = None;
  (* all other slots are untouched *)
  as_other : forall j, ~ In j (map fst ids) -> nth_error slots' j = nth_error slots j;
  as_free : FreeOK slots' free'
}.

Lemma alloc_batch_spec sh count : forall start slots free,
  FreeOK slots free ->
  exists slots' free' ids,
    alloc_batch sh start count slots free = Some (slots', free', ids) /\
    AllocSpec sh start count slots slots' free' ids.
Proof.
  induction count as [|c IH]; intros start slots free [Hnd Hfr].
  - exists slots, free, []. split; [reflexivity|].
    constructor; cbn [map length]; auto.
    + constructor.
    + intros k id H; destruct k; discriminate.
    + intros id s [].
    + split; auto.
  - destruct free as [|i fr].
    + (* the free list is exhausted: the slot vector grows *)
      cbn [alloc_batch]. eexists _, _, _. split; [reflexivity|].
      remember (S c) as n eqn:En. clear En IH c.
      constructor.
      * rewrite map_length, seq_length. reflexivity.
      * rewrite map_map. cbn [fst]. rewrite map_add_seq. apply seq_NoDup.
      * intros k id Hk. apply nth_error_map_some in Hk as (x & Hx & <-). cbn [fst snd].
        assert (Hkn : k < n).
        { rewrite <- (seq_length n 0). apply nth_error_Some. congruence. }
        rewrite nth_error_seq_lt in Hx by auto. inversion Hx; subst x.
        rewrite nth_error_app2 by lia.
        replace (length slots + k - length slots) with k by lia.
        rewrite nth_error_map, nth_error_seq_lt by auto. reflexivity.
      * intros id s Hin Hs. apply in_map_iff in Hin as (x & <- & _). cbn [fst] in Hs.
        assert (length slots + x < length slots) by (apply nth_error_Some; congruence). lia.
      * intros j Hj. rewrite map_map in Hj. cbn [fst] in Hj. rewrite map_add_seq in Hj.
        rewrite in_seq in Hj.
        destruct (Nat.ltb_spec j (length slots)) as [Hlt|Hge].
        -- apply nth_error_app1; auto.
        -- rewrite (proj2 (nth_error_None slots j)) by auto.
           apply nth_error_None. rewrite app_length, map_length, seq_length. lia.
      * split; [constructor|]. intros j; split; [intros []|]. intros [g Hg].
        destruct (Nat.ltb_spec j (length slots)) as [Hlt|Hge].
        -- rewrite nth_error_app1 in Hg by auto. apply (Hfr j). eauto.
        -- rewrite nth_error_app2, nth_error_map in Hg by auto.
           destruct (nth_error (seq 0 n) (j - length slots)); cbn in Hg; discriminate.
    + (* reuse the slot at the front of the free list *)
      assert (Hs : exists g, nth_error slots i = Some (mkSlot g None)).
      { apply Hfr. left; reflexivity. }
      destruct Hs as [g Hs].
      cbn [alloc_batch]. rewrite Hs. cbn [obind s_gen].
      set (slots1 := upd i (fun _ => mkSlot (gen_next g) (Some (sh, start))) slots).
      assert (Hs1 : nth_error slots1 i = Some (mkSlot (gen_next g) (Some (sh, start)))).
      { unfold slots1. rewrite nth_error_upd_same, Hs. reflexivity. }
      assert (HF1 : FreeOK slots1 fr).
      { inversion Hnd as [|? ? Hnin Hnd']; subst. split; auto.
        intros j. split.
        - intros Hj. assert (j <> i) by (intros ->; contradiction).
          unfold slots1. rewrite nth_error_upd_other by auto. apply Hfr. right; auto.
        - intros [g' Hg'].
          destruct (Nat.eq_dec j i) as [->|Hne].
          + rewrite Hs1 in Hg'. discriminate.
          + unfold slots1 in Hg'. rewrite nth_error_upd_other in Hg' by auto.
            assert (Hin : In j (i :: fr)) by (apply Hfr; eauto).
            destruct Hin as [->|Hin]; [contradiction|auto]. }
      destruct (IH (S start) slots1 fr HF1) as (sl & fr' & ids & Hal & Hsp).
      rewrite Hal. exists sl, fr', ((i, gen_next g) :: ids). split; [reflexivity|].
      destruct Hsp as [L ND NEW FR OTH FOK].
      assert (Hi_notin : ~ In i (map fst ids)).
      { intros Hin. apply in_map_iff in Hin as (id & Hfst & Hid).
        assert (Hx : nth_error slots1 (fst id) =
                     Some (mkSlot (gen_next g) (Some (sh, start)))) by (rewrite Hfst; auto).
        specialize (FR id _ Hid Hx). discriminate. }
      constructor.
      * cbn [length]. f_equal. exact L.
      * cbn [map fst]. constructor; auto.
      * intros [|k] id Hk; cbn [nth_error] in Hk.
        -- inversion Hk; subst id. cbn [fst snd]. rewrite (OTH i Hi_notin), Hs1.
           rewrite Nat.add_0_r. reflexivity.
        -- rewrite (NEW k id Hk). replace (S start + k) with (start + S k) by lia. reflexivity.
      * intros id s [<-|Hin] Hs'.
        -- cbn [fst] in Hs'. rewrite Hs in Hs'. inversion Hs'; reflexivity.
        -- apply (FR id s Hin). unfold slots1. rewrite nth_error_upd_other; auto.
           intros E. apply Hi_notin. rewrite <- E. apply in_map; auto.
      * intros j Hj. cbn [map fst] in Hj. rewrite (OTH j) by (intros Hc; apply Hj; right; auto).
        unfold slots1. apply nth_error_upd_other. intros E; apply Hj; left; auto.
      * exact FOK.
Qed.

(** The free list after a batch allocation (not needed below; for later use). *)
Lemma alloc_batch_free sh count : forall start slots free slots' free' ids,
  alloc_batch sh start count slots free = Some (slots', free', ids) ->
  free' = skipn (Nat.min count (length free)) free.
Proof.
  induction count as [|c IH]; intros start slots free slots' free' ids H.
  - cbn in H. inversion H; reflexivity.
  - destruct free as [|i fr]; cbn [alloc_batch] in H.
    + inversion H; subst. rewrite skipn_nil. reflexivity.
    + destruct (nth_error slots i) as [s|]; cbn [obind] in H; [|discriminate].
      destruct (alloc_batch sh (S start) c
                  (upd i (fun _ => mkSlot (gen_next (s_gen s)) (Some (sh, start))) slots) fr)
        as [[[sl fr1] ids1]|] eqn:E; cbn [obind] in H; [|discriminate].
      inversion H; subst. apply IH in E. subst free'. reflexivity.
Qed.

(** [alloc_one] is a batch of one. *)
Lemma alloc_one_batch slots free sh start :
  alloc_batch sh start 1 slots free =
  match alloc_one slots free (sh, start) with
  | Some (sl, fr, id) => Some (sl, fr, [id])
  | None => None
  end.
Proof.
  destruct free as [|i fr]; cbn [alloc_batch alloc_one].
  - cbn [seq map]. rewrite !Nat.add_0_r. reflexivity.
  - destruct (nth_error slots i); cbn [obind]; reflexivity.
Qed.

Lemma alloc_one_spec slots free sh start :
  FreeOK slots free ->
  exists slots' free' id,
    alloc_one slots free (sh, start) = Some (slots', free', id) /\
    AllocSpec sh start 1 slots slots' free' [id].
Proof.
  intros HF.
  destruct (alloc_batch_spec sh 1 start slots free HF) as (sl & fr & ids & Hal & Hsp).
  rewrite alloc_one_batch in Hal.
  destruct (alloc_one slots free (sh, start)) as [[[sl' fr'] id]|]; [|discriminate].
  inversion Hal; subst. eauto.
Qed.

Lemma Inv_FreeOK w : Inv w -> FreeOK (w_slots w) (w_free w).
Proof. intros HI. split; [apply (inv_free_nodup HI) | apply (inv_free HI)]. Qed.

Lemma alloc_spec_active sh start count slots' free' ids w w' :
  AllocSpec sh start count (w_slots w) slots' free' ids ->
  w_slots w' = slots' ->
  forall id, In id ids -> is_active w id = false /\ is_active w' id = true.
Proof.
  intros [L ND NEW FR OTH FOK] Hw' id Hid. unfold is_active. split.
  - destruct (nth_error (w_slots w) (fst id)) as [s|] eqn:E; auto.
    rewrite (FR id s Hid E). reflexivity.
  - apply In_nth_error in Hid as [k Hk]. rewrite Hw', (NEW k id Hk).
    cbn [s_loc s_gen]. apply N.eqb_refl.
Qed.

(** * Appending freshly allocated rows to an archetype *)

Lemma append_rows_inv w sh a count slots' free' ids (newrows : list row) len' :
  Inv w ->
  find_arch sh (w_archs w) = Some a ->
  AllocSpec sh (length (a_rows a)) count (w_slots w) slots' free' ids ->
  map fst newrows = ids ->
  (forall rw, In rw newrows -> length (snd rw) = count_true sh) ->
  len' = w_len w + length ids ->
  Inv (with_store w (upd_arch sh (fun old => old ++ newrows) (w_archs w))
                  (w_tid w) slots' free' len').
Proof.
  intros HI Ha [L ND NEW FR OTH [FND FIN]] Hmap Hvals Hlen.
  pose proof (find_arch_shape _ _ Ha) as Hsha.
  assert (Hfind : forall sh',
             find_arch sh' (upd_arch sh (fun old => old ++ newrows) (w_archs w)) =
             if shape_eqb sh' sh then Some (mkArch sh (a_rows a ++ newrows))
             else find_arch sh' (w_archs w)).
  { intros sh'. rewrite find_upd_arch, Ha. cbn [option_map]. rewrite Hsha. reflexivity. }
  assert (Hnewrow : forall k rw, nth_error newrows k = Some rw ->
                                 nth_error ids k = Some (fst rw)).
  { intros k rw H. rewrite <- Hmap. exact (map_nth_error fst k newrows H). }
  assert (Hact : forall i g loc, nth_error (w_slots w) i = Some (mkSlot g (Some loc)) ->
                                 ~ In i (map fst ids)).
  { intros i g loc Hs Hin. apply in_map_iff in Hin as (id & <- & Hid).
    specialize (FR id _ Hid Hs). discriminate. }
  constructor; cbn [with_store w_n w_archs w_tid w_slots w_free w_len].
  - intros b Hb. apply In_upd_arch in Hb as (a0 & Ha0 & ->).
    destruct (inv_shapes HI a0 Ha0) as [S1 S2].
    destruct (shape_eqb (a_shape a0) sh) eqn:E.
    + apply shape_eqb_eq in E. cbn [a_shape a_rows]. split; auto.
      intros rw Hrw. apply in_app_or in Hrw as [Hrw|Hrw]; auto. rewrite E. auto.
    + split; auto.
  - rewrite map_shape_upd_arch. apply (inv_nodup HI).
  - intros i g sh' r Hs.
    destruct (in_dec Nat.eq_dec i (map fst ids)) as [Hin|Hnin].
    + apply in_map_iff in Hin as (id & Hfst & Hid). apply In_nth_error in Hid as [k Hk].
      pose proof (NEW k id Hk) as Hn. rewrite Hfst, Hs in Hn.
      inversion Hn as [[Hg Hsh Hr]]. clear Hn. subst g sh' r.
      rewrite <- Hmap in Hk. apply nth_error_map_some in Hk as (rw & Hrw & Hfrw).
      exists (mkArch sh (a_rows a ++ newrows)), (snd rw). split.
      * rewrite Hfind, shape_eqb_refl. reflexivity.
      * cbn [a_rows]. rewrite nth_error_app2 by lia.
        replace (length (a_rows a) + k - length (a_rows a)) with k by lia.
        destruct rw as [id' v]. cbn [fst snd] in *. subst id'.
        destruct id as [i' g']. cbn [fst snd] in *. subst i'. exact Hrw.
    + rewrite (OTH i Hnin) in Hs.
      destruct (@inv_fwd _ HI _ _ _ _ Hs) as (b & vals & Hb1 & Hb2).
      rewrite Hfind. destruct (shape_eqb sh' sh) eqn:E.
      * apply shape_eqb_eq in E. subst sh'. rewrite Ha in Hb1. inversion Hb1; subst b.
        exists (mkArch sh (a_rows a ++ newrows)), vals. split; auto.
        cbn [a_rows]. rewrite nth_error_app1; auto. apply nth_error_Some. congruence.
      * exists b, vals. auto.
  - intros sh' b r i g vals Hf Hr. rewrite Hfind in Hf.
    destruct (shape_eqb sh' sh) eqn:E.
    + apply shape_eqb_eq in E. subst sh'. inversion Hf; subst b. cbn [a_rows] in Hr.
      destruct (Nat.ltb_spec r (length (a_rows a))) as [Hlt|Hge].
      * rewrite nth_error_app1 in Hr by auto.
        pose proof (@inv_bwd _ HI _ _ _ _ _ _ Ha Hr) as Hs.
        rewrite (OTH i); auto. eapply Hact; eauto.
      * rewrite nth_error_app2 in Hr by auto.
        pose proof (Hnewrow _ _ Hr) as Hk. cbn [fst] in Hk.
        pose proof (NEW _ _ Hk) as Hn. cbn [fst snd] in Hn. rewrite Hn.
        repeat f_equal. lia.
    + pose proof (@inv_bwd _ HI _ _ _ _ _ _ Hf Hr) as Hs.
      rewrite (OTH i); auto. eapply Hact; eauto.
  - exact FND.
  - exact FIN.
  - subst len'. rewrite (inv_len HI).
    pose proof (total_rows_upd_arch sh (fun old => old ++ newrows) (w_archs w)
                                    (inv_nodup HI) Ha) as Ht.
    cbv beta in Ht. rewrite app_length in Ht.
    assert (length newrows = length ids) by (rewrite <- Hmap, map_length; reflexivity).
    lia.
  - intros sh' Hin. destruct (inv_tid HI sh' Hin) as [b Hb]. rewrite Hfind.
    destruct (shape_eqb sh' sh); eauto.
Qed.

(** * [do_reserve] *)

Lemma do_reserve_cases w comps :
  Inv w ->
  do_reserve w comps = Some (w, ORejected, []) \/
  exists archs1 tid1,
    Inv (with_store w archs1 tid1 (w_slots w) (w_free w) (w_len w)) /\
    do_reserve w comps =
    Some (with_store w archs1 tid1 (w_slots w) (w_free w) (w_len w), ONone, []).
Proof.
  intros HI. unfold do_reserve.
  destruct (negb (wf_comps (w_n w) comps)); [left; reflexivity|right].
  destruct (ensure_for_entity_inv w (shape_of (w_n w) comps) HI (shape_of_length _ _))
    as (archs1 & tid1 & a & Hens & Ha & HI1).
  rewrite Hens. cbn [obind]. eauto.
Qed.

Theorem do_reserve_inv : forall w comps w' r evs,
  Inv w -> do_reserve w comps = Some (w', r, evs) -> Inv w'.
Proof.
  intros w comps w' r evs HI H.
  destruct (do_reserve_cases w comps HI) as [E|(archs1 & tid1 & HI1 & E)];
    rewrite E in H; inversion H; subst; auto.
Qed.

Theorem do_reserve_safe : forall w comps, Inv w -> do_reserve w comps <> None.
Proof.
  intros w comps HI.
  destruct (do_reserve_cases w comps HI) as [E|(archs1 & tid1 & HI1 & E)];
    rewrite E; discriminate.
Qed.

Theorem do_reserve_n : forall w comps w' r evs,
  do_reserve w comps = Some (w', r, evs) -> w_n w' = w_n w.
Proof.
  intros w comps w' r evs H. unfold do_reserve in H.
  destruct (negb (wf_comps (w_n w) comps)); [inversion H; reflexivity|].
  destruct (ensure_for_entity _ _ _) as [[archs1 tid1]|]; cbn [obind] in H; [|discriminate].
  inversion H; reflexivity.
Qed.

(** * [do_insert] *)

Lemma do_insert_cases w ent :
  Inv w ->
  do_insert w ent = Some (w, ORejected, []) \/
  exists archs1 tid1 a slots1 free1 id,
    let sh := shape_of (w_n w) (map fst ent) in
    Inv (with_store w archs1 tid1 (w_slots w) (w_free w) (w_len w)) /\
    find_arch sh archs1 = Some a /\
    AllocSpec sh (length (a_rows a)) 1 (w_slots w) slots1 free1 [id] /\
    do_insert w ent =
    Some (with_store w (upd_arch sh (fun rows => rows ++ [(id, canon_vals sh ent)]) archs1)
                     tid1 slots1 free1 (S (w_len w)), OId id, []).
Proof.
  intros HI. unfold do_insert.
  destruct (negb (wf_comps (w_n w) (map fst ent))); [left; reflexivity|right].
  set (sh := shape_of (w_n w) (map fst ent)).
  destruct (ensure_for_entity_inv w sh HI (shape_of_length _ _))
    as (archs1 & tid1 & a & Hens & Ha & HI1).
  destruct (alloc_one_spec (w_slots w) (w_free w) sh (length (a_rows a)) (Inv_FreeOK w HI))
    as (slots1 & free1 & id & Hal & Hsp).
  exists archs1, tid1, a, slots1, free1, id. cbv zeta.
  rewrite Hens. cbn [obind]. rewrite Ha. cbn [obind]. rewrite Hal. cbn [obind].
  auto.
Qed.

Theorem do_insert_inv : forall w ent w' r evs,
  Inv w -> do_insert w ent = Some (w', r, evs) -> Inv w'.
Proof.
  intros w ent w' r evs HI H.
  destruct (do_insert_cases w ent HI)
    as [E|(archs1 & tid1 & a & slots1 & free1 & id & HI1 & Ha & Hsp & E)];
    rewrite E in H; inversion H; subst; auto.
  set (sh := shape_of (w_n w) (map fst ent)) in *.
  set (w1 := with_store w archs1 tid1 (w_slots w) (w_free w) (w_len w)) in *.
  apply (append_rows_inv w1 sh a 1 slots1 free1 [id] [(id, canon_vals sh ent)]
                         (S (w_len w)) HI1 Ha Hsp).
  - reflexivity.
  - intros rw [<-|[]]. apply canon_vals_length.
  - cbn. lia.
Qed.

Theorem do_insert_safe : forall w ent, Inv w -> do_insert w ent <> None.
Proof.
  intros w ent HI.
  destruct (do_insert_cases w ent HI)
    as [E|(archs1 & tid1 & a & slots1 & free1 & id & HI1 & Ha & Hsp & E)];
    rewrite E; discriminate.
Qed.

Theorem do_insert_n : forall w ent w' r evs,
  do_insert w ent = Some (w', r, evs) -> w_n w' = w_n w.
Proof.
  intros w ent w' r evs H. unfold do_insert in H.
  destruct (negb (wf_comps (w_n w) (map fst ent))); [inversion H; reflexivity|].
  destruct (ensure_for_entity _ _ _) as [[archs1 tid1]|]; cbn [obind] in H; [|discriminate].
  destruct (find_arch _ archs1) as [a|]; cbn [obind] in H; [|discriminate].
  destruct (alloc_one _ _ _) as [[[slots1 free1] id]|]; cbn [obind] in H; [|discriminate].
  inversion H; reflexivity.
Qed.

Theorem do_insert_fresh : forall w ent w' id evs,
  Inv w -> do_insert w ent = Some (w', OId id, evs) ->
  is_active w id = false /\ is_active w' id = true.
Proof.
  intros w ent w' id evs HI H.
  destruct (do_insert_cases w ent HI)
    as [E|(archs1 & tid1 & a & slots1 & free1 & id' & HI1 & Ha & Hsp & E)];
    rewrite E in H; inversion H; subst.
  eapply alloc_spec_active; [exact Hsp|reflexivity|left; reflexivity].
Qed.

(** * [do_extend] *)

Lemma do_extend_cases w comps rows0 :
  Inv w ->
  do_extend w comps rows0 = Some (w, ORejected, []) \/
  exists archs1 tid1 a slots1 free1 ids,
    let sh := shape_of (w_n w) comps in
    let rows := batch_rows comps rows0 in
    Inv (with_store w archs1 tid1 (w_slots w) (w_free w) (w_len w)) /\
    find_arch sh archs1 = Some a /\
    AllocSpec sh (length (a_rows a)) (length rows) (w_slots w) slots1 free1 ids /\
    do_extend w comps rows0 =
    Some (with_store w
            (upd_arch sh
               (fun old => old ++ map (fun p => (fst p, canon_vals sh (combine comps (snd p))))
                                      (combine ids rows)) archs1)
            tid1 slots1 free1 (w_len w + length rows), OIds ids, []).
Proof.
  intros HI. unfold do_extend.
  destruct (negb (wf_comps (w_n w) comps &&
                  forallb (fun r => Nat.eqb (length r) (length comps)) rows0));
    [left; reflexivity|right].
  set (sh := shape_of (w_n w) comps).
  set (rows := batch_rows comps rows0).
  destruct (ensure_for_entity_inv w sh HI (shape_of_length _ _))
    as (archs1 & tid1 & a & Hens & Ha & HI1).
  destruct (alloc_batch_spec sh (length rows) (length (a_rows a)) (w_slots w) (w_free w)
                             (Inv_FreeOK w HI))
    as (slots1 & free1 & ids & Hal & Hsp).
  exists archs1, tid1, a, slots1, free1, ids. cbv zeta.
  rewrite Hens. cbn [obind]. rewrite Ha. cbn [obind]. rewrite Hal. cbn [obind].
  auto.
Qed.

Theorem do_extend_inv : forall w comps rows w' r evs,
  Inv w -> do_extend w comps rows = Some (w', r, evs) -> Inv w'.
Proof.
  intros w comps rows0 w' r evs HI H.
  destruct (do_extend_cases w comps rows0 HI)
    as [E|(archs1 & tid1 & a & slots1 & free1 & ids & HI1 & Ha & Hsp & E)];
    rewrite E in H; inversion H; subst; auto.
  set (sh := shape_of (w_n w) comps) in *.
  set (rows := batch_rows comps rows0) in *.
  set (w1 := with_store w archs1 tid1 (w_slots w) (w_free w) (w_len w)) in *.
  pose proof (as_len _ _ _ _ _ _ _ Hsp) as L.
  apply (append_rows_inv w1 sh a (length rows) slots1 free1 ids
           (map (fun p => (fst p, canon_vals sh (combine comps (snd p)))) (combine ids rows))
           (w_len w + length rows) HI1 Ha Hsp).
  - rewrite map_map. cbn [fst]. apply map_fst_combine. exact L.
  - intros rw Hrw. apply in_map_iff in Hrw as (p & <- & _). cbn [snd].
    apply canon_vals_length.
  - cbn. lia.
Qed.

Theorem do_extend_safe : forall w comps rows, Inv w -> do_extend w comps rows <> None.
Proof.
  intros w comps rows0 HI.
  destruct (do_extend_cases w comps rows0 HI)
    as [E|(archs1 & tid1 & a & slots1 & free1 & ids & HI1 & Ha & Hsp & E)];
    rewrite E; discriminate.
Qed.

Theorem do_extend_n : forall w comps rows w' r evs,
  do_extend w comps rows = Some (w', r, evs) -> w_n w' = w_n w.
Proof.
  intros w comps rows0 w' r evs H. unfold do_extend in H.
  destruct (negb _); [inversion H; reflexivity|].
  destruct (ensure_for_entity _ _ _) as [[archs1 tid1]|]; cbn [obind] in H; [|discriminate].
  destruct (find_arch _ archs1) as [a|]; cbn [obind] in H; [|discriminate].
  destruct (alloc_batch _ _ _ _ _) as [[[slots1 free1] ids]|]; cbn [obind] in H; [|discriminate].
  inversion H; reflexivity.
Qed.

Theorem do_extend_ids : forall w comps rows w' ids evs,
  Inv w -> do_extend w comps rows = Some (w', OIds ids, evs) ->
  length ids = length (batch_rows comps rows) /\ NoDup ids /\
  (forall id, In id ids -> is_active w id = false /\ is_active w' id = true).
Proof.
  intros w comps rows0 w' ids evs HI H.
  destruct (do_extend_cases w comps rows0 HI)
    as [E|(archs1 & tid1 & a & slots1 & free1 & ids' & HI1 & Ha & Hsp & E)];
    rewrite E in H; inversion H; subst.
  split; [|split].
  - apply (as_len _ _ _ _ _ _ _ Hsp).
  - apply (NoDup_map_inv fst). apply (as_nodup _ _ _ _ _ _ _ Hsp).
  - intros id Hid. eapply alloc_spec_active; [exact Hsp|reflexivity|exact Hid].
Qed.

(** * [do_shrink] *)

Theorem do_shrink_inv : forall w w' r evs,
  Inv w -> do_shrink w = Some (w', r, evs) -> Inv w'.
Proof.
  intros w w' r evs HI H. unfold do_shrink in H. inversion H; subst; clear H.
  set (p := fun a : arch => negb (is_nil (a_rows a))).
  pose proof (inv_nodup HI) as ND.
  assert (Hkeep : forall sh a rw k, find_arch sh (w_archs w) = Some a ->
                    nth_error (a_rows a) k = Some rw ->
                    find_arch sh (filter p (w_archs w)) = Some a).
  { intros sh a rw k Ha Hk. rewrite find_arch_filter, Ha by auto.
    unfold p. destruct (a_rows a); [destruct k; discriminate|reflexivity]. }
  assert (Hsub : forall sh a, find_arch sh (filter p (w_archs w)) = Some a ->
                              find_arch sh (w_archs w) = Some a).
  { intros sh a Ha. rewrite find_arch_filter in Ha by auto.
    destruct (find_arch sh (w_archs w)) as [b|]; [|discriminate].
    destruct (p b); [auto|discriminate]. }
  constructor; cbn [with_store w_n w_archs w_tid w_slots w_free w_len].
  - intros a Ha. apply filter_In in Ha as [Ha _]. apply (inv_shapes HI); auto.
  - apply NoDup_map_filter; auto.
  - intros i g sh k Hs.
    destruct (@inv_fwd _ HI _ _ _ _ Hs) as (a & vals & Ha1 & Ha2).
    exists a, vals. split; auto. eapply Hkeep; eauto.
  - intros sh a k i g vals Ha Hk. apply Hsub in Ha. eapply (inv_bwd HI); eauto.
  - apply (inv_free_nodup HI).
  - apply (inv_free HI).
  - unfold p. rewrite total_rows_filter_nonempty. apply (inv_len HI).
  - intros sh Hin. apply filter_In in Hin as [Hin Hmem].
    destruct (inv_tid HI sh Hin) as [a Ha]. exists a.
    rewrite find_arch_filter, Ha by auto.
    destruct (p a) eqn:Ep; auto. exfalso.
    apply negb_true_iff in Hmem.
    assert (Hm : mem_shape sh (map a_shape (filter (fun a => is_nil (a_rows a)) (w_archs w)))
                 = true).
    { apply mem_shape_In. rewrite <- (find_arch_shape _ _ Ha). apply in_map.
      apply filter_In. split; [eapply find_arch_In; eauto|].
      unfold p in Ep. apply negb_false_iff in Ep. exact Ep. }
    congruence.
Qed.

Theorem do_shrink_n : forall w w' r evs,
  do_shrink w = Some (w', r, evs) -> w_n w' = w_n w.
Proof. intros w w' r evs H. unfold do_shrink in H. inversion H; reflexivity. Qed.

(** * [do_res_set] *)

Theorem do_res_set_inv : forall w i v w' r evs,
  Inv w -> do_res_set w i v = Some (w', r, evs) -> Inv w'.
Proof.
  intros w i v w' r evs HI H. unfold do_res_set in H.
  destruct (nth_error (w_res w) i); inversion H; subst; auto.
  destruct HI as [I1 I2 I3 I4 I5 I6 I7 I8]. constructor; cbn; auto.
Qed.

Theorem do_res_set_n : forall w i v w' r evs,
  do_res_set w i v = Some (w', r, evs) -> w_n w' = w_n w.
Proof.
  intros w i v w' r evs H. unfold do_res_set in H.
  destruct (nth_error (w_res w) i); inversion H; reflexivity.
Qed.

Print Assumptions do_insert_inv.
Print Assumptions do_insert_safe.
Print Assumptions do_extend_inv.
Print Assumptions do_extend_safe.
Print Assumptions do_reserve_inv.
Print Assumptions do_reserve_safe.
Print Assumptions do_shrink_inv.
Print Assumptions do_res_set_inv.
Print Assumptions do_insert_n.
Print Assumptions do_extend_n.
Print Assumptions do_reserve_n.
Print Assumptions do_shrink_n.
Print Assumptions do_res_set_n.
Print Assumptions do_insert_fresh.
Print Assumptions do_extend_ids.
