(* Model-side driver for world histories.
   Reads the implementation trace (lines "case", "op …", "end"; everything
   else is ignored), replays every op on the extracted Gallina model and
   prints a trace in exactly the harness's format. *)
open Model

let rec nat_of_int i = if i <= 0 then O else S (nat_of_int (i - 1))
let rec int_of_nat = function O -> 0 | S n -> 1 + int_of_nat n

let n_ten = N.of_nat (nat_of_int 10)
let n_of_string (s : string) : n =
  let r = ref N0 in
  String.iter (fun c ->
      r := N.add (N.mul !r n_ten) (N.of_nat (nat_of_int (Char.code c - 48)))) s;
  !r
let string_of_n (x : n) : string =
  if x = N0 then "0" else begin
    let b = Buffer.create 20 in
    let rec go x acc =
      if x = N0 then acc else
        let (q, r) = N.div_eucl x n_ten in
        go q (string_of_int (int_of_nat (N.to_nat r)) :: acc) in
    List.iter (Buffer.add_string b) (go x []);
    Buffer.contents b
  end

let nreg = ref 5
let bits_of (sh : shape) = String.concat "" (List.map (fun b -> if b then "1" else "0") sh)
let shape_of_bits (s : string) : shape = List.init (String.length s) (fun i -> s.[i] = '1')

let worlds : world option array ref = ref (Array.make 8 None)
let issued : (int * n) list ref = ref []   (* reverse order of issue *)
let ensure ws =
  if ws >= Array.length !worlds then begin
    let a = Array.make (2 * ws + 2) None in
    Array.blit !worlds 0 a 0 (Array.length !worlds);
    worlds := a
  end

let fmt_eid ((i, g) : eid) = Printf.sprintf "%d:%s" (int_of_nat i) (string_of_n g)

let dump_world buf ws (w : world) =
  let p fmt = Printf.bprintf buf fmt in
  p "w %d len %d\n" ws (int_of_nat w.w_len);
  p "w %d slots" ws;
  List.iter (fun s ->
      match s.s_loc with
      | None -> p " %s:-" (string_of_n s.s_gen)
      | Some (sh, r) -> p " %s:%s:%d" (string_of_n s.s_gen) (bits_of sh) (int_of_nat r))
    w.w_slots;
  p "\n";
  p "w %d free" ws;
  List.iter (fun i -> p " %d" (int_of_nat i)) w.w_free;
  p "\n";
  let archs = List.map (fun a ->
      let b = Buffer.create 64 in
      Printf.bprintf b "w %d arch %s" ws (bits_of a.a_shape);
      List.iter (fun (id, vals) ->
          Printf.bprintf b " | %s" (fmt_eid id);
          List.iter (fun v -> Printf.bprintf b " %s" (string_of_n v)) vals) a.a_rows;
      Buffer.contents b) w.w_archs in
  List.iter (fun s -> p "%s\n" s) (List.sort compare archs);
  p "w %d tid %s\n" ws (String.concat " " (List.sort compare (List.map bits_of w.w_tid)));
  p "w %d foreign %s\n" ws
    (String.concat " " (List.sort_uniq compare (List.map (fun a -> bits_of a.a_shape) w.w_archs)));
  p "w %d res %s\n" ws (String.concat " " (List.map string_of_n w.w_res));
  let live = List.filter (fun (i, g) -> is_active w (nat_of_int i, g)) !issued in
  let live = List.sort_uniq compare (List.map (fun (i, g) -> (i, string_of_n g, g)) live) in
  (* sort numerically on (index, generation) like the harness *)
  let live = List.sort (fun (i1, _, g1) (i2, _, g2) ->
      if i1 <> i2 then compare i1 i2 else
        match N.compare g1 g2 with Eq -> 0 | Lt -> -1 | Gt -> 1) live in
  p "w %d live" ws;
  List.iter (fun (i, gs, _) -> p " %d:%s" i gs) live;
  p "\n"

let fmt_events (evs : event list) =
  let strs = List.filter_map (function
      | Dropped (c, v) -> Some (Printf.sprintf "D:%d:%s" (int_of_nat c) (string_of_n v))
      | Cloned (c, v) -> Some (Printf.sprintf "C:%d:%s" (int_of_nat c) (string_of_n v))
      | ResDropped (i, v) -> Some (Printf.sprintf "D:%d:%s" (100 + int_of_nat i) (string_of_n v))
      | ResCloned (i, v) -> Some (Printf.sprintf "C:%d:%s" (100 + int_of_nat i) (string_of_n v)))
      evs in
  "ev " ^ String.concat " " (List.sort compare strs)

(* events of creating a world's content by deserialization *)
let de_events (w : world) : string list =
  List.concat_map (fun a ->
      let cs = bits_on a.a_shape in
      List.concat_map (fun (_, vals) ->
          List.map2 (fun c v -> Printf.sprintf "E:%d:%s" (int_of_nat c) (string_of_n v)) cs vals)
        a.a_rows) w.w_archs
  @ List.mapi (fun i v -> Printf.sprintf "E:%d:%s" (100 + i) (string_of_n v)) w.w_res

let world_drop_events (w : world) : event list =
  List.concat_map arch_drops w.w_archs
  @ List.mapi (fun i v -> ResDropped (nat_of_int i, v)) w.w_res

let parse_eid (s : string) : eid =
  match String.split_on_char ':' s with
  | [i; g] -> (nat_of_int (int_of_string i), n_of_string g)
  | _ -> failwith ("bad eid " ^ s)

(* ---- queries (C03): views and filter are spelled out in the op line ---- *)
let parse_view (s : string) : view =
  if s = "id" then VIdent else
    let kind, rest =
      if String.length s >= 2 && String.sub s 0 2 = "or" then KOptRef, String.sub s 2 (String.length s - 2)
      else if String.length s >= 2 && String.sub s 0 2 = "om" then KOptMut, String.sub s 2 (String.length s - 2)
      else if s.[0] = 'r' then KRef, String.sub s 1 (String.length s - 1)
      else KMut, String.sub s 1 (String.length s - 1) in
    VComp (kind, nat_of_int (int_of_string rest))

let parse_views (s : string) : view list =
  if s = "-" then [] else List.map parse_view (String.split_on_char ';' s)

let parse_filter (s : string) : qfilter =
  let pos = ref 0 in
  let peek () = s.[!pos] in
  let adv () = incr pos in
  let number () =
    let st = !pos in
    while !pos < String.length s && s.[!pos] >= '0' && s.[!pos] <= '9' do incr pos done;
    int_of_string (String.sub s st (!pos - st)) in
  let rec go () =
    match peek () with
    | 'n' -> adv (); FNone
    | 'h' -> adv (); FHas (nat_of_int (number ()))
    | '!' -> adv (); FNot (go ())
    | '&' | '|' as c ->
      adv (); adv ();                      (* operator and '(' *)
      let a = go () in adv ();              (* ',' *)
      let b = go () in adv ();              (* ')' *)
      if c = '&' then FAnd (a, b) else FOr (a, b)
    | 'v' ->
      adv (); adv ();
      let st = !pos in
      while s.[!pos] <> ']' do incr pos done;
      let vs = parse_views (String.sub s st (!pos - st)) in
      adv (); FViews vs
    | c -> failwith (Printf.sprintf "bad filter char %c" c) in
  go ()

let fmt_item (it : qitem) : string =
  match it with
  | QId e -> fmt_eid e
  | QVal v -> "v" ^ string_of_n v
  | QOpt (Some v) -> "s" ^ string_of_n v
  | QOpt None -> "n"

let fmt_row (r : qitem list) : string =
  match r with [] -> "_" | _ -> String.concat "," (List.map fmt_item r)

let norm_comp (c : int) (v : n) : n =
  let m k = N.modulo v (n_of_string k) in
  if c = 1 || c = 9 then N0
  else if c = 4 || c = 5 || c = 11 || c = 13 || c = 15 then m "4294967296"
  else if c = 7 then m "65536"
  else if c = 8 then m "256"
  else m "18446744073709551616"

exception ModelUB of string

(* ---- C17: an armed fault (kind, k) applies to the next operation.  For the operations the cell-level
   model covers, the values that will be dropped a second time when the world is dropped are predicted. *)
let armed : (string * int) option ref = ref None

let fmt_dd (l : (nat * n) list) : string =
  String.concat " " (List.sort compare (List.map (fun (c, v) -> Printf.sprintf "%d:%s" (int_of_nat c) (string_of_n v)) l))

let predict_fault (w : world) (toks : string list) (k : int) : string =
  let arr = Array.of_list toks in
  let fault_of i = if i < 0 then None else Some (nat_of_int i) in
  match arr.(0) with
  | "rem" ->
    (match get_loc w (parse_eid arr.(2)) with
     | None -> ""
     | Some (sh, r) ->
       match find_arch sh w.w_archs with
       | None -> "?"
       | Some a ->
         match p_remove_row (parch_of a []) r (fault_of k) with
         | Some ((a', _), true) -> fmt_dd (double_drops (fst (p_drop_arch a' None)))
         | Some ((_, _), false) -> ""
         | None -> "?")
  | "clr" ->
    (* archetypes are cleared in the order the implementation reports; the first panic ends the operation *)
    let order = if Array.length arr > 3
      then List.map shape_of_bits (Array.to_list (Array.sub arr 3 (Array.length arr - 3))) else [] in
    (* the order the implementation reports is the table's; the one clear uses is the model's [clear_order] of it *)
    let order = clear_order order in
    let rec go k = function
      | [] -> ""
      | sh :: rest ->
        (match find_arch sh w.w_archs with
         | None -> go k rest
         | Some a ->
           let cells = List.length a.a_rows * List.length (List.filter (fun b -> b) a.a_shape) in
           if k >= cells then go (k - cells) rest
           else
             let ((a', _), _) = p_clear (parch_of a []) (fault_of k) in
             fmt_dd (double_drops (fst (p_drop_arch a' None)))) in
    go k order
  | "ead" | "wrt" ->
    (match get_loc w (parse_eid arr.(2)) with
     | None -> ""
     | Some (sh, r) ->
       let c = int_of_string arr.(3) in
       if not (List.nth sh c) then (if arr.(0) = "ead" then "?" else "")
       else match find_arch sh w.w_archs with
         | None -> "?"
         | Some a ->
           match p_set (parch_of a []) r (nat_of_int c) N0 (fault_of k) with
           | Some ((a', _), _) -> fmt_dd (double_drops (fst (p_drop_arch a' None)))
           | None -> "?")
  | "drop" -> ""
  | _ -> "?"

let apply (toks : string list) (buf : Buffer.t) =
  let p fmt = Printf.bprintf buf fmt in
  let arr = Array.of_list toks in
  let u i = int_of_string arr.(i) in
  let nv i = n_of_string arr.(i) in
  (* payload normalisation of the harness component types (harness/src/comps.rs):
     zero-sized C1, C9; 32 bits C4, C5, C11, C13, C15; 16 bits C7; 8 bits C8 *)
  let nvc c i =
    let mask m = n_of_string (string_of_int (int_of_string arr.(i) land m)) in
    if c = 1 || c = 9 then N0
    else if c = 4 || c = 5 || c = 11 || c = 13 || c = 15 then mask 0xFFFFFFFF
    else if c = 7 then mask 0xFFFF
    else if c = 8 then mask 0xFF
    else n_of_string arr.(i) in
  let ret = ref "none" in
  let evs = ref "ev " in
  let single ws (o : op) =
    ensure ws;
    match !worlds.(ws) with
    | None -> ()
    | Some w ->
      match step w o with
      | None -> raise (ModelUB (String.concat " " toks))
      | Some ((w', out), ev) ->
        !worlds.(ws) <- Some w';
        evs := fmt_events ev;
        (match out with
         | ONone -> ()
         | OId e ->
           issued := (int_of_nat (fst e), snd e) :: !issued;
           ret := "id " ^ fmt_eid e
         | OIds l ->
           List.iter (fun e -> issued := (int_of_nat (fst e), snd e) :: !issued) l;
           ret := "ids " ^ String.concat " " (List.map fmt_eid l)
         | OBool b -> ret := "bool " ^ string_of_bool b
         | ORejected -> ret := "rejected")
  in
  (match !armed, arr.(0) with
   | Some (kind, k), op when op <> "fault" ->
     armed := None;
     let ws = (try u 1 with _ -> 0) in
     let pd =
       if kind <> "drop" then "?"
       else (ensure ws; match !worlds.(ws) with Some w -> (try predict_fault w toks k with _ -> "?") | None -> "") in
     p "pd %s\n" pd
   | _ -> ());
  (match arr.(0) with
   | "new" ->
     let ws = u 1 in
     ensure ws;
     !worlds.(ws) <- Some (empty_world (nat_of_int !nreg) [nv 2; nv 3; n_of_string (string_of_int (int_of_string arr.(4) land 0xFFFFFFFF)); nv 5])
   | "drop" ->
     let ws = u 1 in
     ensure ws;
     (match !worlds.(ws) with
      | Some w -> evs := fmt_events (world_drop_events w)
      | None -> ());
     !worlds.(ws) <- None
   | "ins" ->
     let k = u 3 in
     let ent = List.init k (fun j -> (nat_of_int (u (4 + 2 * j)), nvc (u (4 + 2 * j)) (5 + 2 * j))) in
     single (u 1) (Insert ent)
   | "ext" ->
     let k = u 3 in
     let cs = List.init k (fun j -> nat_of_int (u (4 + j))) in
     let rows = u (4 + k) in
     let base = 5 + k in
     let rws = List.init rows (fun r -> List.init k (fun j -> nvc (u (4 + j)) (base + r * k + j))) in
     single (u 1) (Extend (cs, rws))
   | "rem" -> single (u 1) (Remove (parse_eid arr.(2)))
   | "clr" ->
     (* op clr ws | shape shape … *)
     let order = if Array.length arr > 3
       then List.map shape_of_bits (Array.to_list (Array.sub arr 3 (Array.length arr - 3)))
       else [] in
     single (u 1) (Clear order)
   | "ead" -> single (u 1) (EntryAdd (parse_eid arr.(2), nat_of_int (u 3), nvc (u 3) 4))
   | "erm" -> single (u 1) (EntryRemove (parse_eid arr.(2), nat_of_int (u 3)))
   | "wrt" -> single (u 1) (WriteMut (parse_eid arr.(2), nat_of_int (u 3), nvc (u 3) 4))
   | "ead2" ->
     (* Entry::add(C1) then Entry::add(C2) / Entry::remove::<C2> through one entry = the two operations in sequence *)
     let ws = u 1 in
     ensure ws;
     (match !worlds.(ws) with
      | None -> ()
      | Some w ->
        let e = parse_eid arr.(2) in
        (match step w (EntryAdd (e, nat_of_int (u 3), nvc (u 3) 4)) with
         | None -> raise (ModelUB "ead2")
         | Some ((w1, out1), ev1) ->
           let second = if u 7 = 1 then EntryRemove (e, nat_of_int (u 5)) else EntryAdd (e, nat_of_int (u 5), nvc (u 5) 6) in
           match step w1 second with
           | None -> raise (ModelUB "ead2")
           | Some ((w2, _), ev2) ->
             !worlds.(ws) <- Some w2;
             evs := fmt_events (ev1 @ ev2);
             ret := (match out1 with OBool b -> "bool " ^ string_of_bool b | _ -> "rejected")))
   | "erm2" ->
     (* Entry::remove::<C> then Entry::add(C2) through one entry = the two operations in sequence *)
     let ws = u 1 in
     ensure ws;
     (match !worlds.(ws) with
      | None -> ()
      | Some w ->
        let e = parse_eid arr.(2) in
        (match step w (EntryRemove (e, nat_of_int (u 3))) with
         | None -> raise (ModelUB "erm2")
         | Some ((w1, out1), ev1) ->
           match step w1 (EntryAdd (e, nat_of_int (u 4), nvc (u 4) 5)) with
           | None -> raise (ModelUB "erm2")
           | Some ((w2, _), ev2) ->
             !worlds.(ws) <- Some w2;
             evs := fmt_events (ev1 @ ev2);
             ret := (match out1 with OBool b -> "bool " ^ string_of_bool b | _ -> "rejected")))
   | "rsv" ->
     let k = u 3 in
     let cs = List.init k (fun j -> nat_of_int (u (4 + j))) in
     single (u 1) (Reserve cs)
   | "qry" | "pqry" ->
     let ws = u 1 in
     ensure ws;
     (match !worlds.(ws) with
      | None -> ()
      | Some w ->
        match query_impl w (parse_views arr.(3)) (parse_filter arr.(4)) with
        | None -> raise (ModelUB "query")
        | Some rows -> ret := String.concat " " ("rows" :: List.sort compare (List.map fmt_row rows)))
   | "eqry" ->
     let ws = u 1 in
     ensure ws;
     (match !worlds.(ws) with
      | None -> ()
      | Some w ->
        let e = parse_eid arr.(2) in
        if not (is_active w e) then ret := "noentry" else
        match entry_query w e (parse_views arr.(4)) (parse_filter arr.(5)) with
        | None -> raise (ModelUB "entry query")
        | Some None -> ret := "nomatch"
        | Some (Some r) -> ret := "row " ^ fmt_row r)
   | "nqry" ->
     let ws = u 1 in
     ensure ws;
     (match !worlds.(ws) with
      | None -> ()
      | Some w ->
        let e = parse_eid arr.(2) in
        if not (is_active w e) then ret := "noentry" else
        (* as the code does it: the declared entry views first (maybe-uninit slots), then the sub-views out of them *)
        match entries_entry_query w e (parse_views arr.(4)) (parse_views arr.(5)) (parse_filter arr.(6)) with
        | None -> raise (ModelUB "entries query")
        | Some None -> ret := "nomatch"
        | Some (Some r) -> ret := "row " ^ fmt_row r)
   | "qwr" | "pqwr" ->
     let ws = u 1 in
     ensure ws;
     (match !worlds.(ws) with
      | None -> ()
      | Some w ->
        let vs = parse_views arr.(4) in
        let delta = nv 3 in
        match query_impl w (VIdent :: vs) (parse_filter arr.(5)) with
        | None -> raise (ModelUB "query")
        | Some rows ->
          let count = ref 0 in
          let allev = ref [] in
          List.iter (fun row ->
              match row with
              | QId e :: items ->
                List.iter2 (fun v it ->
                    match v, it with
                    | VComp ((KMut | KOptMut), c), (QVal old | QOpt (Some old)) ->
                      let ci = int_of_nat c in
                      (match !worlds.(ws) with
                       | Some w1 ->
                         (match step w1 (WriteMut (e, c, norm_comp ci (N.add old delta))) with
                          | Some ((w2, _), ev) -> !worlds.(ws) <- Some w2; allev := ev @ !allev; incr count
                          | None -> raise (ModelUB "write"))
                       | None -> ())
                    | _ -> ()) vs items
              | _ -> ()) rows;
          evs := fmt_events !allev;
          ret := Printf.sprintf "n %d" !count)
   | "shr" -> single (u 1) ShrinkToFit
   | "rset" ->
     let v = if u 2 = 2 then n_of_string (string_of_int (int_of_string arr.(3) land 0xFFFFFFFF)) else nv 3 in
     single (u 1) (ResSet (nat_of_int (u 2), v))
   | "cln" ->
     let src = u 1 and dst = u 2 in
     ensure src; ensure dst;
     (* the harness discards the events of dropping the old destination *)
     !worlds.(dst) <- None;
     (match !worlds.(src) with
      | None -> ()
      | Some w ->
        match clone_world w with
        | None -> raise (ModelUB "clone")
        | Some (w', ev) -> !worlds.(dst) <- Some w'; evs := fmt_events ev)
   | "clf" ->
     let dst = u 1 and src = u 2 in
     ensure src; ensure dst;
     if dst <> src then
       (match !worlds.(dst), !worlds.(src) with
        | Some d, Some s ->
          (match clone_from_world d s with
           | None -> raise (ModelUB "clone_from")
           | Some (w', ev) -> !worlds.(dst) <- Some w'; evs := fmt_events ev)
        | _ -> ())
   | "srd" ->
     let src = u 2 and dst = u 3 in
     ensure src; ensure dst;
     if dst <> src then begin
       !worlds.(dst) <- None;
       match !worlds.(src) with
       | None -> ()
       | Some w ->
         match ser_world w with
         | None -> raise (ModelUB "serialize")
         | Some sw ->
           match de_world (nat_of_int !nreg) sw with
           | Inl _ -> ret := "err-de"
           | Inr w' ->
             !worlds.(dst) <- Some w';
             ret := "ok";
             evs := "ev " ^ String.concat " " (List.sort compare (de_events w'))
     end
   | "fault" ->
     (* `fault kind k res`: only the callbacks of resources count — outside the cell-level model *)
     armed := Some ((if Array.length arr > 3 then arr.(1) ^ "-res" else arr.(1)), u 2)
   | "dbg" -> ()
   | "mrk" -> ()
   | "xrg" ->
     (* a ragged batch is refused by Batch::new (a panic): nothing reaches the world *)
     let ws = u 1 in
     ensure ws;
     (match !worlds.(ws) with
      | Some _ ->
        ret := "panic";
        (* the values handed over are dropped by the unwinding *)
        let k = u 3 in
        let rows = u (4 + k) and j = u (5 + k) and longer = u (6 + k) = 1 in
        let pos = ref (7 + k) in
        let strs = ref [] in
        for idx = 0 to k - 1 do
          let c = u (4 + idx) in
          let n = if idx = j then (if longer then rows + 1 else rows - 1) else rows in
          for _ = 1 to n do
            strs := Printf.sprintf "D:%d:%s" c (string_of_n (nvc c !pos)) :: !strs;
            incr pos
          done
        done;
        evs := "ev " ^ String.concat " " (List.sort compare !strs)
      | None -> ())
   | "tde" ->
     (* a token-level mutation that was rejected: the destination is gone *)
     if List.length toks > 4 then begin
       (* as written (`tde src dst hr …`): the source world does not exist, the harness only clears the destination *)
       let src = u 1 and dst = u 2 in
       ensure src; ensure dst;
       if dst <> src then !worlds.(dst) <- None
     end else begin
       let dst = u 1 in
       ensure dst;
       !worlds.(dst) <- None;
       ret := "err-de"; evs := "ev ?"
     end
   | "mde" ->
     (* the source world does not exist: the harness only clears the destination *)
     let src = u 1 and dst = u 2 in
     ensure src; ensure dst;
     if dst <> src then !worlds.(dst) <- None
   | "cde" ->
     (* cde dst hr | A hex declared nrows (idx gen k v…)* | … | L length | F i:g … | R v v v v *)
     let dst = u 1 in
     ensure dst;
     !worlds.(dst) <- None;
     let sections =
       let rec split acc cur = function
         | [] -> List.rev (List.rev cur :: acc)
         | "|" :: t -> split (List.rev cur :: acc) [] t
         | x :: t -> split acc (x :: cur) t in
       split [] [] (List.tl (List.tl (List.tl toks))) in
     let archs = ref [] and len = ref 0 and free = ref [] and res = ref [] in
     List.iter (fun sec ->
         match sec with
         | "A" :: hex :: declared :: nrows :: rest ->
           let bytes =
             if hex = "-" then []
             else List.init (String.length hex / 2) (fun i -> n_of_string (string_of_int (int_of_string ("0x" ^ String.sub hex (2 * i) 2)))) in
           let a = Array.of_list rest in
           let pos = ref 0 in
           let rows = List.init (int_of_string nrows) (fun _ ->
               let idx = int_of_string a.(!pos) and gen = n_of_string a.(!pos + 1) and k = int_of_string a.(!pos + 2) in
               (* a cell written as a token of the wrong type ("!v") cannot be read: whatever else the row
                  holds it is rejected (rendered here as a row no shape can have) *)
               let cells = List.init k (fun j -> a.(!pos + 3 + j)) in
               let vals =
                 if List.exists (fun t -> String.length t > 0 && t.[0] = '!') cells
                 then List.init 1000 (fun _ -> N0)
                 else
                   (* every cell travels as a u64 token; the harness types keep what fits their payload *)
                   let cs = List.concat (List.mapi (fun bi b ->
                       let b = int_of_string (string_of_n b) in
                       List.filter_map (fun j -> if (b lsr j) land 1 = 1 then Some (8 * bi + j) else None) [0;1;2;3;4;5;6;7]) bytes) in
                   let raw = List.map n_of_string cells in
                   if List.length cs = List.length raw then List.map2 norm_comp cs raw else raw in
               pos := !pos + 3 + k;
               ((nat_of_int idx, gen), vals)) in
           archs := { sa_bytes = bytes; sa_len = nat_of_int (int_of_string declared); sa_rows = rows } :: !archs
         | "L" :: l :: _ -> len := int_of_string l
         | "F" :: fs -> free := List.map parse_eid fs
         | "R" :: rs -> res := List.map n_of_string rs
         | _ -> ()) sections;
     (match de_content (nat_of_int !nreg) (List.rev !archs) (nat_of_int !len) !free !res with
      | Inl _ -> ret := "err-de"; evs := "ev ?"
      | Inr w' ->
        !worlds.(dst) <- Some w';
        ret := "ok";
        evs := "ev " ^ String.concat " " (List.sort compare (de_events w')))
   | "eq" ->
     let a = u 1 and b = u 2 in
     ensure a; ensure b;
     (match !worlds.(a), !worlds.(b) with
      | Some x, Some y ->
        ret := Printf.sprintf "bool %b %b" (world_eqb x y) (world_eqb y x)
      | _ -> ())
   | other -> failwith ("unknown op " ^ other));
  p "op %s\n" (String.concat " " toks);
  p "ret %s\n" !ret;
  p "%s\n" !evs

let () =
  let ic = if Array.length Sys.argv > 1 then open_in Sys.argv.(1) else stdin in
  let out = Buffer.create (1 lsl 16) in
  let flush_out () = print_string (Buffer.contents out); Buffer.clear out in
  let reset () =
    worlds := Array.make 8 None;
    issued := [] in
  (try
     while true do
       let line = input_line ic in
       let toks = List.filter (fun s -> s <> "") (String.split_on_char ' ' line) in
       (match toks with
        | "case" :: rest ->
          reset ();
          Printf.bprintf out "case %s\n" (String.concat " " rest)
        | "nreg" :: k :: _ -> nreg := int_of_string k
        | "op" :: rest ->
          (try apply rest out
           with ModelUB s ->
             Printf.bprintf out "op %s\nret MODEL-UB %s\nev \n" (String.concat " " rest) s);
          Array.iteri (fun ws w ->
              match w with Some w -> dump_world out ws w | None -> ()) !worlds
        | _ -> ());
       if Buffer.length out > 60000 then flush_out ()
     done
   with End_of_file -> ());
  flush_out ()
