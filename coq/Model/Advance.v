(** The column pointer of the view walks ([registry/sealed/view.rs] view / view_one / view_one_maybe_uninit,
    [registry/sealed/par_view.rs] par_view): the registry is walked component by component alongside the
    identifier bits, and the slice of columns must lose its first element exactly when the archetype HAS the
    component — whether or not it is viewed, optional or not.  [Model/Query.v: walk] and [Model/SubsetM.v:
    walk_mu] assume that; here the same walks are written with the advance as a parameter, which is read off
    the source per impl and function ([fact_views_consume_one_column_per_present_component]). *)
From Brood Require Export Query.
From Brood Require Export SubsetM.
From Brood Require Export Facts.

Definition step_cols (adv : bool) (cols : list val) : list val := if adv then tl cols else cols.

Fixpoint walk_adv (adv : bool) (k : nat) (bits : shape) (cols : list val) (vs : list view) : option (list (nat * qitem)) :=
  match bits with
  | [] => Some []
  | b :: bs =>
      match kind_of k vs with
      | Some kd =>
          if is_opt_kind kd then
            if b then
              match cols with
              | c :: _ => match walk_adv adv (S k) bs (step_cols adv cols) vs with Some r => Some ((k, QOpt (Some c)) :: r) | None => None end
              | [] => None
              end
            else match walk_adv adv (S k) bs cols vs with Some r => Some ((k, QOpt None) :: r) | None => None end
          else
            match cols with
            | c :: _ =>
                if b then match walk_adv adv (S k) bs (step_cols adv cols) vs with Some r => Some ((k, QVal c) :: r) | None => None end
                else None
            | [] => None
            end
      | None =>
          if b then match cols with _ :: _ => walk_adv adv (S k) bs (step_cols adv cols) vs | [] => None end
          else walk_adv adv (S k) bs cols vs
      end
  end.

Definition walk_src := walk_adv fact_views_consume_one_column_per_present_component.
