(** The specification side of C01/C02: a world is a finite map from live
    identifiers to component vectors.  Definitions only. *)
From Brood Require Export World.

Set Implicit Arguments.

(** Component vector: position k is [Some v] iff the entity has component k. *)
Definition cvec := list (option val).

(** The map, as a function.  [absf w e] is what the world holds for [e]. *)
Definition fmap := eid -> option cvec.

Definition absf (w : world) : fmap :=
  fun e => match find (fun p => eid_eqb (fst p) e) (abs w) with
           | Some p => Some (snd p)
           | None => None
           end.

Definition fupd (m : fmap) (e : eid) (v : option cvec) : fmap :=
  fun e' => if eid_eqb e' e then v else m e'.

Definition feq (m m' : fmap) : Prop := forall e, m e = m' e.

(** The component vector written in [entity!(…)], whatever the textual order. *)
Definition cvec_of (n : nat) (ent : list (nat * val)) : cvec :=
  map (fun k => if has_comp k (map fst ent) then Some (lookup k ent) else None) (seq 0 n).

Fixpoint fupd_all (m : fmap) (kvs : list (eid * cvec)) : fmap :=
  match kvs with
  | [] => m
  | (e, v) :: t => fupd_all (fupd m e (Some v)) t
  end.

(** One step of the reference map.  Relational in the identifiers returned by
    insert/extend: any identifiers that are not currently live (C02 says more:
    never issued before). *)
Definition spec_step (n : nat) (m : fmap) (o : op) (r : out) (m' : fmap) : Prop :=
  match o with
  | Insert ent =>
      if wf_comps n (map fst ent)
      then exists id, r = OId id /\ m id = None /\ feq m' (fupd m id (Some (cvec_of n ent)))
      else r = ORejected /\ feq m' m
  | Extend comps rows =>
      if wf_comps n comps && forallb (fun rw => Nat.eqb (length rw) (length comps)) rows
      then exists ids,
          r = OIds ids /\ length ids = length (batch_rows comps rows) /\ NoDup ids /\
          (forall id, In id ids -> m id = None) /\
          feq m' (fupd_all m (combine ids (map (fun rw => cvec_of n (combine comps rw))
                                               (batch_rows comps rows))))
      else r = ORejected /\ feq m' m
  | Remove e => r = ONone /\ feq m' (fupd m e None)
  | Clear _ => r = ONone /\ feq m' (fun _ => None)
  | EntryAdd e c v =>
      if Nat.ltb c n then
        match m e with
        | None => r = OBool false /\ feq m' m
        | Some cv => r = OBool true /\ feq m' (fupd m e (Some (upd c (fun _ => Some v) cv)))
        end
      else r = ORejected /\ feq m' m
  | EntryRemove e c =>
      if Nat.ltb c n then
        match m e with
        | None => r = OBool false /\ feq m' m
        | Some cv => r = OBool true /\ feq m' (fupd m e (Some (upd c (fun _ => None) cv)))
        end
      else r = ORejected /\ feq m' m
  | WriteMut e c v =>
      if Nat.ltb c n then
        match m e with
        | None => r = OBool false /\ feq m' m
        | Some cv =>
            match nth c cv None with
            | Some _ => r = OBool true /\ feq m' (fupd m e (Some (upd c (fun _ => Some v) cv)))
            | None => r = OBool false /\ feq m' m
            end
        end
      else r = ORejected /\ feq m' m
  | Reserve _ | ShrinkToFit => feq m' m
  | ResSet _ _ => feq m' m
  end.

(** Number of live entities of the map = length of its listing. *)
Definition live_count (w : world) : nat := length (abs w).

(** Resources: only [ResSet] changes them. *)
Definition spec_res (res : list val) (o : op) : list val :=
  match o with
  | ResSet i v => upd i (fun _ => v) res
  | _ => res
  end.
