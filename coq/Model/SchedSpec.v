(** Specification side of the scheduling layer (C07, C08, C12): what a
    series-parallel run term allows, when two tasks may touch the same data,
    and what "equals the sequential run" means.  Definitions only. *)
From Brood Require Export Sched.

Set Implicit Arguments.

(** * Structure of a run *)
Fixpoint leaves (t : sp) : list nat :=
  match t with
  | SNil => []
  | SLeaf x => [x]
  | SSeq a b => leaves a ++ leaves b
  | SPar a b => leaves a ++ leaves b
  end.

(** [x] and [y] are under the two sides of one join: they may overlap in time. *)
Fixpoint par_in (t : sp) (x y : nat) : Prop :=
  match t with
  | SNil | SLeaf _ => False
  | SSeq a b => par_in a x y \/ par_in b x y
  | SPar a b => (In x (leaves a) /\ In y (leaves b)) \/ (In x (leaves b) /\ In y (leaves a))
                \/ par_in a x y \/ par_in b x y
  end.

(** [x] is sequenced before [y]. *)
Fixpoint seq_in (t : sp) (x y : nat) : Prop :=
  match t with
  | SNil | SLeaf _ => False
  | SSeq a b => (In x (leaves a) /\ In y (leaves b)) \/ seq_in a x y \/ seq_in b x y
  | SPar a b => seq_in a x y \/ seq_in b x y
  end.

(** Every order in which the leaves can actually execute (tasks taken as
    atomic): sequences respect [SSeq]; a join interleaves its two sides. *)
Inductive shuffle : list nat -> list nat -> list nat -> Prop :=
| sh_nil : shuffle [] [] []
| sh_l x a b m : shuffle a b m -> shuffle (x :: a) b (x :: m)
| sh_r x a b m : shuffle a b m -> shuffle a (x :: b) (x :: m).

Inductive lin : sp -> list nat -> Prop :=
| lin_nil : lin SNil []
| lin_leaf x : lin (SLeaf x) [x]
| lin_seq a b la lb : lin a la -> lin b lb -> lin (SSeq a b) (la ++ lb)
| lin_par a b la lb m : lin a la -> lin b lb -> shuffle la lb m -> lin (SPar a b) m.

(** * Access modes *)

(** Two claims on the same datum conflict when one of them is mutable. *)
Definition claim_conflict (a b : claim) : bool :=
  match a, b with
  | CMut, CImm | CMut, CMut | CImm, CMut => true
  | _, _ => false
  end.

Definition claim_le (a b : claim) : bool :=
  match a, b with
  | CNone, _ => true
  | CImm, CImm | CImm, CMut => true
  | CMut, CMut => true
  | _, _ => false
  end.

Fixpoint claims_le (a b : claims) : bool :=
  match a, b with
  | [], [] => true
  | x :: a', y :: b' => claim_le x y && claims_le a' b'
  | _, _ => false
  end.

Definition mergeable (a b : claims) : bool :=
  match claims_try_merge a b with Some _ => true | None => false end.

Section Compat.
  Variable n nres : nat.
  Variable archs : list shape.

  (** How task [t] may access component [c] of an entity stored in archetype
      [s] / resource [i]: through its query iterator or its entry views if it
      reaches [s] at all, with the mode of its (merged) claims. *)
  Definition access (t : task) (s : shape) (c : nat) : claim :=
    if task_reaches t s
    then match task_claims n t with Some cl => nth c cl CNone | None => CNone end
    else CNone.

  Definition res_access (t : task) (i : nat) : claim := nth i (res_claims nres t) CNone.

  (** No component of any entity present, and no resource, can be written by
      one and read or written by the other. *)
  Definition no_shared_write (ta tb : task) : Prop :=
    (forall s c, In s archs -> claim_conflict (access ta s c) (access tb s c) = false) /\
    (forall i, claim_conflict (res_access ta i) (res_access tb i) = false).

  (** The run-time test the scheduler applies (claims merge on every commonly
      reached archetype, and resource claims merge). *)
  Definition dyn_compat (ta tb : task) : Prop :=
    mergeable (res_claims nres ta) (res_claims nres tb) = true /\
    forall s, In s archs -> task_reaches ta s = true -> task_reaches tb s = true ->
      exists ca cb, task_claims n ta = Some ca /\ task_claims n tb = Some cb /\ mergeable ca cb = true.
End Compat.

(** * Static conflicts (what the declared views say, independent of the world) *)
Definition kinds_conflict (a b : option vkind) : bool :=
  match a, b with
  | Some ka, Some kb => is_mut_kind ka || is_mut_kind kb
  | _, _ => false
  end.

Fixpoint views_conflict (a b : list (option vkind)) : bool :=
  match a, b with
  | x :: a', y :: b' => kinds_conflict x y || views_conflict a' b'
  | _, _ => false
  end.

(** * Semantics of tasks as store transformers, for C07 *)
Section Sem.
  Variable store : Type.
  Variable sem : nat -> store -> store.      (* what running task i does *)
  Definition exec (order : list nat) (s : store) : store := fold_left (fun st i => sem i st) order s.
End Sem.

(** * What a task may touch, from its declared views alone (no claim bookkeeping, no table)
    Through its query: the viewed components of the archetypes that have every non-optional
    viewed component and pass the filter.  Through [Entries]: a viewed entry component of ANY
    archetype that has it (an entry can be looked up for any identifier). *)
Definition mode_of (k : vkind) : claim := if is_mut_kind k then CMut else CImm.
Definition claim_max (a b : claim) : claim :=
  match a, b with
  | CMut, _ | _, CMut => CMut
  | CImm, _ | _, CImm => CImm
  | CNone, CNone => CNone
  end.
Definition declared_match (t : task) (s : shape) : bool :=
  forallb (fun v => match v with VComp k c => is_opt_kind k || get_bit c s | VIdent => true end) (t_views t)
  && filter_eval (t_filter t) s.
Definition may_access (t : task) (s : shape) (c : nat) : claim :=
  claim_max
    (if declared_match t s && get_bit c s
     then match kind_of c (t_views t) with Some k => mode_of k | None => CNone end else CNone)
    (if get_bit c s
     then match kind_of c (t_entry t) with Some k => mode_of k | None => CNone end else CNone).
