#!/usr/bin/env python3
"""Confirms a seeded change (a patch that breaks a property while compiling and
passing the existing tests) in a scratch worktree, runs the registered checks
against it in /repo, and files it under /verif/seeded/<name>/.

  tools/seedtest.py <mutant_dir> <property> <name> [--checks C01,C13,...] [--skip-confirm]

<mutant_dir> holds patch.diff, demo.rs (README.md optional).  Nothing is ever
committed to /repo: the patch is applied, the checks run, and the tree is
restored with `git checkout -- .` straight afterwards."""
import argparse
import json
import os
import shutil
import subprocess
import sys
import time

VERIF = os.path.dirname(os.path.dirname(os.path.abspath(__file__)))
REPO = "/repo"
SCRATCH = os.environ.get("VERIF_SCRATCH", "/tmp/seedcheck")


def sh(cmd, cwd=None, timeout=3600, env=None):
    e = dict(os.environ)
    e["CARGO_NET_OFFLINE"] = "true"
    if env:
        e.update(env)
    p = subprocess.run(cmd, cwd=cwd, shell=isinstance(cmd, str), timeout=timeout, env=e,
                       stdout=subprocess.PIPE, stderr=subprocess.STDOUT, text=True)
    return p.returncode, p.stdout


def confirm(mdir, log):
    """(a) compiles, (b) suite passes, (c) demo fails with / passes without."""
    wt = os.path.join(SCRATCH, "wt")
    tgt = os.path.join(SCRATCH, "target")
    sh(["git", "-C", REPO, "worktree", "remove", "--force", wt])
    shutil.rmtree(wt, ignore_errors=True)
    os.makedirs(SCRATCH, exist_ok=True)
    rc, out = sh(["git", "-C", REPO, "worktree", "add", "--detach", wt, "HEAD"])
    if rc:
        raise SystemExit("worktree: " + out)
    res = {}
    try:
        demo = os.path.join(SCRATCH, "demo")
        shutil.rmtree(demo, ignore_errors=True)
        os.makedirs(os.path.join(demo, "src"))
        shutil.copy(os.path.join(REPO, "Cargo.lock"), os.path.join(demo, "Cargo.lock"))
        shutil.copy(os.path.join(mdir, "demo.rs"), os.path.join(demo, "src", "main.rs"))
        env = {"CARGO_TARGET_DIR": tgt}
        for serde_dep in ('serde = { version = "1", features = ["derive"] }',
                          'serde = { version = "1", default-features = false, features = ["alloc"] }'):
            with open(os.path.join(demo, "Cargo.toml"), "w") as f:
                f.write('[package]\nname = "demo"\nversion = "0.1.0"\nedition = "2021"\n\n[workspace]\n\n[dependencies]\n'
                        'brood = { path = "%s", features = ["serde", "rayon"] }\n%s\n'
                        'serde_derive = "1"\nserde_assert = "0.5.0"\nserde_json = "1.0"\nrayon = "1.6.0"\n' % (wt, serde_dep))
            rc, out = sh("cargo run --offline -q", cwd=demo, env=env, timeout=1800)
            if rc == 0 or "could not compile" not in out or os.path.exists(os.path.join(mdir, "expect.txt")):
                break
        res["demo_on_original"] = rc
        res["demo_on_original_compile_error"] = ("error[E" in out) or ("could not compile" in out)
        log.append("demo on original: rc=%d %s" % (rc, out[-300:].replace("\n", " | ")))
        rc, out = sh(["git", "apply", os.path.join(mdir, "patch.diff")], cwd=wt)
        if rc:
            raise SystemExit("patch does not apply: " + out)
        rc, out = sh("cargo test --offline 2>&1 | grep -E '^test result|error(\\[|:)' ", cwd=wt, env=env, timeout=3000)
        res["suite"] = out.strip().split("\n")
        res["suite_ok"] = ("FAILED" not in out) and ("error" not in out) and ("test result: ok" in out)
        log.append("suite with change: " + " / ".join(res["suite"]))
        rc, out = sh("cargo build --offline --features serde,rayon -q", cwd=wt, env=env, timeout=1800)
        res["features_build"] = rc
        rc, out = sh("cargo run --offline -q", cwd=demo, env=env, timeout=1800)
        res["demo_on_mutant"] = rc
        res["demo_on_mutant_compiles"] = "could not compile" not in out
        log.append("demo on mutant: rc=%d %s" % (rc, out[-400:].replace("\n", " | ")))
    finally:
        sh(["git", "-C", REPO, "worktree", "remove", "--force", wt])
        shutil.rmtree(wt, ignore_errors=True)
        shutil.rmtree(os.path.join(SCRATCH, "demo"), ignore_errors=True)
    compile_fail = os.path.exists(os.path.join(mdir, "expect.txt")) and "compile-fail-on-original" in open(os.path.join(mdir, "expect.txt")).read()
    if compile_fail:
        # C14-style: the demonstration must NOT compile on the original and must compile on the mutant
        res["confirmed"] = bool(res.get("demo_on_original_compile_error") and res.get("suite_ok") and res.get("features_build") == 0
                                and res.get("demo_on_mutant_compiles"))
    else:
        res["confirmed"] = (res.get("demo_on_original") == 0 and res.get("suite_ok") and res.get("features_build") == 0
                            and res.get("demo_on_mutant", 0) != 0)
    return res


def run_checks(mdir, checks, log):
    rc, out = sh(["git", "-C", REPO, "status", "--porcelain", "--untracked-files=no"])
    if out.strip():
        raise SystemExit("/repo is not clean: " + out)
    results = {}
    rc, out = sh(["git", "-C", REPO, "apply", os.path.join(mdir, "patch.diff")])
    if rc:
        raise SystemExit("patch does not apply to /repo: " + out)
    try:
        for c in checks:
            t0 = time.time()
            rc, out = sh(["./check", c, "--tier", "quick"], cwd=VERIF, timeout=3600)
            viol = [l for l in out.split("\n") if l.startswith("VIOLATION")]
            results[c] = {"rc": rc, "violation_lines": viol, "secs": round(time.time() - t0, 1),
                          "tail": out[-600:]}
            log.append("check %s: rc=%d %s" % (c, rc, viol[:1]))
            rp = None
            if viol and "replay=" in viol[0]:
                rp = viol[0].split("replay=")[1].split()[0]
                if os.path.exists(rp):
                    results[c]["replay"] = json.load(open(rp))
    finally:
        sh(["git", "-C", REPO, "checkout", "--", "."])
        # the checks regenerated coq/Gen/*.v from the changed source: regenerate them from the restored one
        for tool, name in (("translate.py", "Tables"), ("translate_facts.py", "Facts"), ("translate_bytes.py", "Bytes"), ("translate_subset.py", "Subset")):
            sh([sys.executable, os.path.join(VERIF, "tools", tool), os.path.join(VERIF, "coq", "Gen", name + ".v")])
    return results


def main():
    ap = argparse.ArgumentParser()
    ap.add_argument("mdir")
    ap.add_argument("prop")
    ap.add_argument("name")
    ap.add_argument("--checks")
    ap.add_argument("--skip-confirm", action="store_true")
    ap.add_argument("--confirm-only", action="store_true",
                    help="only confirm the change in the scratch worktree and cache the result in <mdir>/confirmation.json")
    a = ap.parse_args()
    cache = os.path.join(a.mdir, "confirmation.json")
    if a.confirm_only:
        log = []
        conf = confirm(a.mdir, log)
        conf["head"] = sh(["git", "-C", REPO, "rev-parse", "HEAD"])[1].strip()
        json.dump({"confirmation": conf, "log": log}, open(cache, "w"), indent=1)
        print("\n".join(log))
        print("confirmed: %s" % conf["confirmed"])
        return
    log = []
    dst = os.path.join(VERIF, "seeded", a.name)
    meta_path = os.path.join(dst, "meta.json")
    meta = json.load(open(meta_path)) if os.path.exists(meta_path) else {}
    head = sh(["git", "-C", REPO, "rev-parse", "HEAD"])[1].strip()
    cached = json.load(open(cache)) if os.path.exists(cache) else None
    # VERIF_ACCEPT_CONF_HEAD: earlier heads whose confirmation still stands (the commits since do not touch the change)
    ok_heads = [head] + [h for h in os.environ.get("VERIF_ACCEPT_CONF_HEAD", "").split(",") if h]
    if cached and any(cached["confirmation"].get("head", "").startswith(h) or h.startswith(cached["confirmation"].get("head", "?")) for h in ok_heads) and not a.skip_confirm:
        conf = cached["confirmation"]
        log += cached.get("log", [])
        meta["confirmation"] = conf
        if not conf["confirmed"]:
            print("\n".join(log))
            print("NOT CONFIRMED: %s" % conf)
            sys.exit(3)
    elif not a.skip_confirm:
        conf = confirm(a.mdir, log)
        meta["confirmation"] = conf
        if not conf["confirmed"]:
            print("\n".join(log))
            print("NOT CONFIRMED: %s" % conf)
            return 2
    checks = a.checks.split(",") if a.checks else [a.prop]
    results = run_checks(a.mdir, checks, log)
    os.makedirs(dst, exist_ok=True)
    for f in ("patch.diff", "demo.rs", "README.md"):
        src = os.path.join(a.mdir, f)
        if os.path.exists(src) and os.path.abspath(src) != os.path.abspath(os.path.join(dst, f)):
            shutil.copy(src, os.path.join(dst, f))
    summ = os.path.join(VERIF, "seeded", "summaries.json")
    if os.path.exists(summ):
        S = json.load(open(summ))
        if a.name in S:
            meta["summary"], meta["needs_to_manifest"] = S[a.name]
    meta.update({"property": a.prop, "name": a.name,
                 "what_ran": ["scratch worktree: demo on original (must pass), git apply, cargo test --offline (must pass), "
                              "cargo build --features serde,rayon, demo on mutant (must fail)",
                              "git -C /repo apply patch.diff; ./check <id> --tier quick; git -C /repo checkout -- ."],
                 "log": log})
    meta.setdefault("checks", {}).update({c: {"rc": r["rc"], "violation_lines": r["violation_lines"], "secs": r["secs"],
                                              "replay_kind": (r.get("replay") or {}).get("kind"),
                                              "replay_message": (r.get("replay") or {}).get("message")}
                                          for c, r in results.items()})
    meta["caught_by"] = sorted(c for c, r in meta["checks"].items() if r["rc"] == 1 and r["violation_lines"])
    with open(meta_path, "w") as f:
        json.dump(meta, f, indent=1)
    print("\n".join(log))
    print("caught_by:", meta["caught_by"])
    return 0


if __name__ == "__main__":
    sys.exit(main())
