(** C07 — Running a schedule equals running its tasks one by one in declared order.
    Property theorems only; proofs are in Proofs/SchedFacts.v.
    [run_schedule n nres tasks archs] (Model/Sched.v) mirrors the compile-time
    stager and the run-time fork/join structure of stage.rs / stages.rs, with all
    decision tables regenerated from the Rust source (Gen/Tables.v).  A run is a
    series-parallel term [T]; [lin T sigma] says [sigma] is an order in which the
    tasks can actually execute (tasks atomic: see DESIGN.md on what is partial). *)
From Coq Require Import Permutation.
From Brood Require Import Base Kinds Tables Sched SchedSpec SchedFacts TouchFacts.

(** Every schedule that type-checks (the stager accepts it) runs to completion
    without ever hitting an unchecked merge that fails, on every world, and runs
    every task exactly once. *)
Theorem C07_once : forall n nres tasks archs stages, NoDup archs ->
  stages_of n nres tasks = Some stages ->
  exists T, run_schedule n nres tasks archs = Some (stages, T) /\
            Permutation (leaves T) (seq 0 (length tasks)).
Proof.
  intros n nres tasks archs stages ND HS.
  destruct (@run_schedule_facts n nres tasks archs ND stages HS) as (T & E & P & _). exists T. auto.
Qed.
Check (C07_once : forall n nres tasks archs stages, NoDup archs ->
  stages_of n nres tasks = Some stages ->
  exists T, run_schedule n nres tasks archs = Some (stages, T) /\
            Permutation (leaves T) (seq 0 (length tasks))).
Print Assumptions C07_once.

(** Whatever tasks the run-time optimisation starts early: two tasks that are not
    compatible on this world execute in declared order in every admissible
    execution order. *)
Theorem C07_order : forall n nres tasks archs stages T sigma, NoDup archs ->
  stages_of n nres tasks = Some stages ->
  run_schedule n nres tasks archs = Some (stages, T) -> lin T sigma ->
  forall i j, i < j -> ~ compat n nres tasks archs i j -> ~ before sigma j i.
Proof.
  intros n nres tasks archs stages T sigma ND HS HR HL i j Hij Hnc B.
  destruct (@run_schedule_facts n nres tasks archs ND stages HS) as (T' & E & _ & PA & SE).
  rewrite HR in E. inversion E; subst T'. clear E.
  destruct (@lin_before T sigma HL _ _ B) as [Hp|Hs].
  - apply Hnc. apply compat_sym. apply PA. exact Hp.
  - destruct (SE _ _ Hs) as [Hlt|Hc]; [lia|]. apply Hnc. apply compat_sym. exact Hc.
Qed.
Check (C07_order : forall n nres tasks archs stages T sigma, NoDup archs ->
  stages_of n nres tasks = Some stages ->
  run_schedule n nres tasks archs = Some (stages, T) -> lin T sigma ->
  forall i j, i < j -> ~ compat n nres tasks archs i j -> ~ before sigma j i).
Print Assumptions C07_order.

(** Hence: for any semantics of the tasks in which compatible tasks commute
    (tasks confined to what their query result hands them: the hypothesis of
    C08/C14), every admissible execution order leaves exactly the state of the
    sequential run in the order written. *)
Theorem C07_sequential : forall n nres tasks archs stages T, NoDup archs ->
  stages_of n nres tasks = Some stages ->
  run_schedule n nres tasks archs = Some (stages, T) ->
  forall (store : Type) (sem : nat -> store -> store),
    (forall i j, compat n nres tasks archs i j -> commute sem i j) ->
    forall sigma, lin T sigma -> forall s, exec sem sigma s = exec sem (seq 0 (length tasks)) s.
Proof.
  intros n nres tasks archs stages T ND HS HR store sem Hcomm sigma HL s.
  destruct (@run_schedule_facts n nres tasks archs ND stages HS) as (T' & E & P & PA & SE).
  rewrite HR in E. inversion E; subst T'. clear E.
  apply sorted_exec.
  - intros a b Eab. eapply seq_increasing. exact Eab.
  - eapply Permutation_trans; [apply lin_perm; exact HL|exact P].
  - intros i j Hij B.
    assert (C : compat n nres tasks archs j i).
    { destruct (@lin_before T sigma HL _ _ B) as [Hp|Hs]; [apply PA; exact Hp|].
      destruct (SE _ _ Hs) as [Hlt|Hc]; [lia|exact Hc]. }
    intros st. symmetry. apply (Hcomm j i C).
Qed.
Check (C07_sequential : forall n nres tasks archs stages T, NoDup archs ->
  stages_of n nres tasks = Some stages ->
  run_schedule n nres tasks archs = Some (stages, T) ->
  forall (store : Type) (sem : nat -> store -> store),
    (forall i j, compat n nres tasks archs i j -> commute sem i j) ->
    forall sigma, lin T sigma -> forall s, exec sem sigma s = exec sem (seq 0 (length tasks)) s).
Print Assumptions C07_sequential.

(** The same with the hypothesis on the tasks' semantics stated over what they DECLARE (views, filter, entry
    views, resource views — [may_access], no claim bookkeeping): it is enough that two tasks commute whenever
    neither may write a component of a present archetype, or a resource, that the other may read or write. *)
Theorem C07_sequential_declared : forall n nres tasks archs stages T, NoDup archs ->
  stages_of n nres tasks = Some stages ->
  run_schedule n nres tasks archs = Some (stages, T) ->
  forall (store : Type) (sem : nat -> store -> store),
    (forall i j ti tj ci cj, task_at tasks i = Some ti -> task_at tasks j = Some tj ->
       task_claims n ti = Some ci -> task_claims n tj = Some cj ->
       (forall s c, In s archs -> c < n -> claim_conflict (may_access ti s c) (may_access tj s c) = false) ->
       (forall r, claim_conflict (res_access nres ti r) (res_access nres tj r) = false) ->
       commute sem i j) ->
    (forall i ti, task_at tasks i = Some ti -> task_claims n ti <> None) ->
    forall sigma, lin T sigma -> forall s, exec sem sigma s = exec sem (seq 0 (length tasks)) s.
Proof.
  intros n nres tasks archs stages T ND HS HR store sem Hcomm Hwf sigma HL s.
  apply (C07_sequential n nres tasks archs stages T ND HS HR store sem); [|exact HL].
  intros i j (ti & tj & Hi & Hj & D).
  destruct (task_claims n ti) as [ci|] eqn:Ci; [|exfalso; exact (Hwf i ti Hi Ci)].
  destruct (task_claims n tj) as [cj|] eqn:Cj; [|exfalso; exact (Hwf j tj Hj Cj)].
  pose proof (dyn_compat_no_shared_write D) as NS.
  apply (Hcomm i j ti tj ci cj Hi Hj Ci Cj).
  - intros sh c Hs Hc. exact (no_shared_write_declared n nres archs ti tj ci cj Ci Cj NS sh c Hs Hc).
  - exact (proj2 NS).
Qed.
Print Assumptions C07_sequential_declared.

(** Non-vacuity and the F4 regression (fixed by e2af2ab): T0:&mut A, T1:&mut B,
    T2:&mut B on a world with the archetype {A,B}.  T2 conflicts with T1, so it
    must not be started early; the model (with the repaired insertion discipline)
    sequences it after the first stage. *)
Definition f4_tasks : list task :=
  [mkTask [VComp KMut 0] FNone [] []; mkTask [VComp KMut 1] FNone [] []; mkTask [VComp KMut 1] FNone [] []].
Example C07_example :
  run_schedule 2 0 f4_tasks [[true; true]]
  = Some ([[0; 1]; [2]], SSeq (SPar (SPar SNil (SLeaf 1)) (SLeaf 0)) (SSeq (SPar SNil (SLeaf 2)) SNil)).
Proof. vm_compute. reflexivity. Qed.
