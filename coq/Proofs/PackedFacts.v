(** C05 / C04: the packed row buffer and the identifier-byte arithmetic of Entry::add / Entry::remove.
    The byte arithmetic is the GENERATED one (Gen/Bytes.v). *)
From Coq Require Import NArith.
From Brood Require Import Base Bytes Packed BaseFacts.

Local Open Scope N_scope.

Lemma testbit_255 j : j < 8 -> N.testbit 255 j = true.
Proof. intros H. change 255 with (N.ones 8). apply N.ones_spec_low. exact H. Qed.

Lemma testbit_small b j : b < 256 -> 8 <= j -> N.testbit b j = false.
Proof.
  intros Hb Hj. destruct (N.eq_dec b 0) as [->|Hz]; [apply N.bits_0|].
  apply N.bits_above_log2. apply N.log2_lt_pow2; [lia|].
  apply N.lt_le_trans with (2 ^ 8); [exact Hb|]. apply N.pow_le_mono_r; lia.
Qed.

Lemma testbit_ones m j : N.testbit (N.shiftl 1 m - 1) j = (j <? m).
Proof.
  rewrite N.shiftl_1_l, N.sub_1_r, <- N.ones_equiv.
  destruct (N.ltb_spec j m) as [H|H]; [apply N.ones_spec_low; exact H|apply N.ones_spec_high; exact H].
Qed.

(** [|= 1 << (ci % 8)] sets exactly that bit of the byte *)
Lemma add_byte_bits ci b j : j < 8 ->
  N.testbit (entry_add_byte ci b) j = ((ci mod 8 =? j) || N.testbit b j)%bool.
Proof.
  intros Hj. unfold entry_add_byte. rewrite N.land_spec, N.lor_spec, N.shiftl_1_l, N.pow2_bits_eqb, (testbit_255 j Hj).
  rewrite andb_true_r. apply orb_comm.
Qed.

(** [^= 1 << (ci % 8)] flips exactly that bit *)
Lemma remove_byte_bits ci b j : j < 8 ->
  N.testbit (entry_remove_byte ci b) j = xorb (N.testbit b j) (ci mod 8 =? j).
Proof.
  intros Hj. unfold entry_remove_byte. rewrite N.land_spec, N.lxor_spec, N.shiftl_1_l, N.pow2_bits_eqb, (testbit_255 j Hj).
  apply andb_true_r.
Qed.

Lemma add_byte_index ci : entry_add_byte_index ci = ci / 8.
Proof. reflexivity. Qed.
Lemma remove_byte_index ci : entry_remove_byte_index ci = ci / 8.
Proof. reflexivity. Qed.

(** the masking loop keeps exactly the bits of the components preceding [ci] *)
Lemma mask_byte_bits index ci b j : j < 8 ->
  N.testbit (entry_remove_mask_byte index ci b) j = ((8 * index + j <? ci) && N.testbit b j)%bool.
Proof.
  intros Hj. unfold entry_remove_mask_byte.
  assert (H8 : 8 <> 0) by lia. pose proof (N.div_mod ci 8 H8) as DM. pose proof (N.mod_lt ci 8 H8) as ML.
  destruct (N.ltb_spec (ci / 8) index) as [H1|H1].
  - rewrite N.land_0_l, N.bits_0. destruct (N.ltb_spec (8 * index + j) ci) as [H|H]; [|reflexivity].
    exfalso. revert DM ML H1. generalize (ci / 8) (ci mod 8). intros q r DM ML H1. lia.
  - destruct (N.eqb_spec index (ci / 8)) as [H2|H2].
    + rewrite !N.land_spec, testbit_ones, (testbit_255 j Hj), andb_true_r, andb_comm. f_equal.
      subst index. revert DM ML. generalize (ci / 8) (ci mod 8). intros q r DM ML.
      destruct (N.ltb_spec j r), (N.ltb_spec (8 * q + j) ci); try reflexivity; lia.
    + destruct (N.ltb_spec (8 * index + j) ci) as [H|H]; [reflexivity|]. exfalso.
      assert (index < ci / 8) by lia. clear H1 H2. revert DM ML H0. generalize (ci / 8) (ci mod 8). intros q r DM ML H0. lia.
Qed.

Local Close Scope N_scope.

(** * Identifier bytes as a list *)
Lemma nth_error_ext_eq {A} (l1 l2 : list A) : (forall k, nth_error l1 k = nth_error l2 k) -> l1 = l2.
Proof.
  revert l2. induction l1 as [|x t IH]; intros [|y t2] H; [reflexivity|specialize (H 0); discriminate|specialize (H 0); discriminate|].
  pose proof (H 0) as H0. cbn in H0. inversion H0; subst. f_equal. apply IH. intros k. exact (H (S k)).
Qed.

Lemma nth_error_shape n bytes k :
  nth_error (shape_of_bytes' n bytes) k =
  if Nat.ltb k n then Some (byte_bit' (nth (k / 8) bytes 0%N) (k mod 8)) else None.
Proof.
  unfold shape_of_bytes'. destruct (Nat.ltb_spec k n) as [H|H].
  - rewrite nth_error_map, (nth_error_nth' (seq 0 n) 0) by (rewrite seq_length; exact H).
    rewrite seq_nth by exact H. reflexivity.
  - apply nth_error_None. rewrite map_length, seq_length. exact H.
Qed.

Lemma nth_upd_N (i j : nat) (f : N -> N) (l : list N) : i < length l ->
  nth j (upd i f l) 0%N = if Nat.eqb j i then f (nth i l 0%N) else nth j l 0%N.
Proof.
  intros Hi. destruct (Nat.ltb_spec j (length l)) as [Hj|Hj].
  - apply nth_error_nth. rewrite nth_error_upd. destruct (Nat.eqb_spec j i) as [->|Hne].
    + rewrite (nth_error_nth' l 0%N Hi). reflexivity.
    + apply nth_error_nth'. exact Hj.
  - destruct (Nat.eqb_spec j i) as [->|Hne]; [lia|].
    rewrite !nth_overflow; [reflexivity|exact Hj|rewrite upd_length; exact Hj].
Qed.

Lemma of_nat_div8 c : N.to_nat (N.of_nat c / 8) = c / 8.
Proof. change 8%N with (N.of_nat 8). rewrite <- Nat2N.inj_div. apply Nat2N.id. Qed.
Lemma of_nat_mod8 c : (N.of_nat c mod 8)%N = N.of_nat (c mod 8).
Proof. change 8%N with (N.of_nat 8). symmetry. apply Nat2N.inj_mod. Qed.

Lemma div8_bound c n : c < n -> c / 8 < (n + 7) / 8.
Proof.
  intros H. pose proof (Nat.div_mod c 8 ltac:(lia)). pose proof (Nat.mod_upper_bound c 8 ltac:(lia)).
  apply Nat.div_lt_upper_bound; [lia|].
  pose proof (Nat.div_mod (n + 7) 8 ltac:(lia)). pose proof (Nat.mod_upper_bound (n + 7) 8 ltac:(lia)).
  revert H0 H1 H2 H3. generalize (c / 8) (c mod 8) ((n + 7) / 8) ((n + 7) mod 8). intros. lia.
Qed.

Lemma same_bit k c : (Nat.eqb (k / 8) (c / 8) && Nat.eqb (c mod 8) (k mod 8))%bool = Nat.eqb k c.
Proof.
  pose proof (Nat.div_mod k 8 ltac:(lia)). pose proof (Nat.div_mod c 8 ltac:(lia)).
  destruct (Nat.eqb_spec k c) as [->|Hne]; [rewrite !Nat.eqb_refl; reflexivity|].
  destruct (Nat.eqb_spec (k / 8) (c / 8)) as [E1|E1]; [|reflexivity].
  destruct (Nat.eqb_spec (c mod 8) (k mod 8)) as [E2|E2]; [|reflexivity]. exfalso. apply Hne. congruence.
Qed.

Theorem shape_add_bytes n bytes c : c < n -> length bytes = (n + 7) / 8 ->
  shape_of_bytes' n (add_bytes c bytes) = set_bit c true (shape_of_bytes' n bytes).
Proof.
  intros Hc HL. apply nth_error_ext_eq. intros k. unfold set_bit. rewrite nth_error_upd, !nth_error_shape.
  destruct (Nat.ltb_spec k n) as [Hk|Hk]; [|destruct (Nat.eqb k c); reflexivity].
  unfold add_bytes. rewrite add_byte_index, of_nat_div8, nth_upd_N by (rewrite HL; apply div8_bound; exact Hc).
  unfold byte_bit'. destruct (Nat.eqb_spec (k / 8) (c / 8)) as [E|E].
  - rewrite add_byte_bits by (pose proof (Nat.mod_upper_bound k 8); lia).
    rewrite of_nat_mod8. rewrite <- E.
    replace (N.eqb (N.of_nat (c mod 8)) (N.of_nat (k mod 8))) with (Nat.eqb (c mod 8) (k mod 8))
      by (destruct (Nat.eqb_spec (c mod 8) (k mod 8)), (N.eqb_spec (N.of_nat (c mod 8)) (N.of_nat (k mod 8))); try reflexivity; lia).
    pose proof (same_bit k c) as SB. rewrite E, Nat.eqb_refl in SB. cbn [andb] in SB. rewrite SB.
    destruct (Nat.eqb k c); reflexivity.
  - destruct (Nat.eqb_spec k c) as [->|Hne]; [congruence|reflexivity].
Qed.

Theorem shape_remove_bytes n bytes c : c < n -> length bytes = (n + 7) / 8 ->
  get_bit c (shape_of_bytes' n bytes) = true ->
  shape_of_bytes' n (remove_bytes c bytes) = set_bit c false (shape_of_bytes' n bytes).
Proof.
  intros Hc HL HB. apply nth_error_ext_eq. intros k. unfold set_bit. rewrite nth_error_upd, !nth_error_shape.
  destruct (Nat.ltb_spec k n) as [Hk|Hk]; [|destruct (Nat.eqb k c); reflexivity].
  unfold remove_bytes. rewrite remove_byte_index, of_nat_div8, nth_upd_N by (rewrite HL; apply div8_bound; exact Hc).
  unfold byte_bit'. destruct (Nat.eqb_spec (k / 8) (c / 8)) as [E|E].
  - rewrite remove_byte_bits by (pose proof (Nat.mod_upper_bound k 8); lia).
    rewrite of_nat_mod8. rewrite <- E.
    replace (N.eqb (N.of_nat (c mod 8)) (N.of_nat (k mod 8))) with (Nat.eqb (c mod 8) (k mod 8))
      by (destruct (Nat.eqb_spec (c mod 8) (k mod 8)), (N.eqb_spec (N.of_nat (c mod 8)) (N.of_nat (k mod 8))); try reflexivity; lia).
    pose proof (same_bit k c) as SB. rewrite E, Nat.eqb_refl in SB. cbn [andb] in SB. rewrite SB.
    destruct (Nat.eqb_spec k c) as [->|Hne]; cbn [option_map]; [|rewrite xorb_false_r; reflexivity].
    (* the bit being removed is set *)
    assert (HB' : nth_error (shape_of_bytes' n bytes) c = Some true).
    { unfold get_bit in HB. rewrite <- HB. apply nth_error_nth'. unfold shape_of_bytes'. rewrite map_length, seq_length. exact Hc. }
    rewrite nth_error_shape in HB'. destruct (Nat.ltb c n) eqn:EL; [|discriminate].
    assert (HB2 : byte_bit' (nth (c / 8) bytes 0%N) (c mod 8) = true) by congruence.
    unfold byte_bit' in HB2. rewrite HB2. reflexivity.
  - destruct (Nat.eqb_spec k c) as [->|Hne]; [congruence|reflexivity].
Qed.

Lemma nth_error_combine_seq {A} (l : list A) : forall s j x, nth_error l j = Some x ->
  nth_error (combine (seq s (length l)) l) j = Some (s + j, x).
Proof.
  induction l as [|y t IH]; intros s j x H; [destruct j; discriminate|].
  cbn [length seq combine]. destruct j as [|j]; cbn in H |- *.
  - inversion H; subst. rewrite Nat.add_0_r. reflexivity.
  - rewrite (IH (S s) j x H). f_equal. f_equal. lia.
Qed.

Lemma nth_mapi_N (f : nat -> N -> N) (l : list N) j : j < length l -> nth j (mapi f l) 0%N = f j (nth j l 0%N).
Proof.
  intros H. unfold mapi. apply nth_error_nth. rewrite nth_error_map.
  rewrite (nth_error_combine_seq l 0 j (nth j l 0%N)) by (apply nth_error_nth'; exact H). reflexivity.
Qed.

Lemma mapi_length {A B} (f : nat -> A -> B) l : length (mapi f l) = length l.
Proof. unfold mapi. rewrite map_length, combine_length, seq_length. lia. Qed.

Lemma nth_error_mask_shape c sh k : c <= length sh ->
  nth_error (mask_shape c sh) k =
  if Nat.ltb k c then nth_error sh k else if Nat.ltb k (length sh) then Some false else None.
Proof.
  intros Hc. unfold mask_shape. destruct (Nat.ltb_spec k c) as [H|H].
  - rewrite nth_error_app1 by (rewrite firstn_length; lia). apply nth_error_firstn || idtac.
    revert k H. clear Hc. revert c. induction sh as [|b t IH]; intros c k H; [destruct c, k; reflexivity|].
    destruct c as [|c]; [lia|]. destruct k as [|k]; [reflexivity|]. cbn. apply IH. lia.
  - rewrite nth_error_app2 by (rewrite firstn_length; lia). rewrite firstn_length, (Nat.min_l _ _ Hc).
    destruct (Nat.ltb_spec k (length sh)) as [H2|H2].
    + rewrite (nth_error_nth' _ false) by (rewrite repeat_length; lia). f_equal. apply nth_repeat.
    + apply nth_error_None. rewrite repeat_length. lia.
Qed.

Theorem shape_mask_bytes n bytes c : c <= n -> length bytes = (n + 7) / 8 ->
  shape_of_bytes' n (mask_bytes c bytes) = mask_shape c (shape_of_bytes' n bytes).
Proof.
  intros Hc HL. apply nth_error_ext_eq. intros k.
  assert (Ln : length (shape_of_bytes' n bytes) = n) by (unfold shape_of_bytes'; rewrite map_length, seq_length; reflexivity).
  rewrite nth_error_mask_shape by (rewrite Ln; exact Hc). rewrite Ln, !nth_error_shape.
  destruct (Nat.ltb_spec k n) as [Hk|Hk]; [|destruct (Nat.ltb_spec k c); [lia|reflexivity]].
  unfold mask_bytes. rewrite nth_mapi_N by (rewrite HL; apply div8_bound; exact Hk).
  unfold byte_bit'. rewrite mask_byte_bits by (pose proof (Nat.mod_upper_bound k 8); lia).
  replace (8 * N.of_nat (k / 8) + N.of_nat (k mod 8))%N with (N.of_nat k)
    by (pose proof (Nat.div_mod k 8 ltac:(lia)); lia).
  replace (N.ltb (N.of_nat k) (N.of_nat c)) with (Nat.ltb k c)
    by (destruct (Nat.ltb_spec k c), (N.ltb_spec (N.of_nat k) (N.of_nat c)); try reflexivity; lia).
  destruct (Nat.ltb k c); reflexivity.
Qed.

(** * The packed row buffer *)
Lemma pbyte_eqb_refl x : pbyte_eqb x x = true.
Proof. destruct x as [[c v] k]. unfold pbyte_eqb. cbn. rewrite !Nat.eqb_refl, N.eqb_refl. reflexivity. Qed.
Lemma pbytes_eqb_refl l : pbytes_eqb l l = true.
Proof. induction l as [|x t IH]; cbn; [reflexivity|]. rewrite pbyte_eqb_refl, IH. reflexivity. Qed.

Lemma bytes_of_length sizes c v : length (bytes_of sizes c v) = size_of sizes c.
Proof. unfold bytes_of. rewrite map_length, seq_length. reflexivity. Qed.

(** reading a [C] where a [C] was written gives it back *)
Lemma read_at_bytes sizes c v pre post : (size_of sizes c = 0 -> v = 0%N) ->
  read_at sizes c (pre ++ bytes_of sizes c v ++ post) (length pre) = Some v.
Proof.
  intros Hz. unfold read_at.
  assert (L : Nat.ltb (length (pre ++ bytes_of sizes c v ++ post)) (length pre + size_of sizes c) = false).
  { apply Nat.ltb_ge. rewrite !app_length, bytes_of_length. lia. }
  rewrite L. rewrite skipn_app, skipn_all, Nat.sub_diag. cbn [skipn app].
  rewrite firstn_app, bytes_of_length, Nat.sub_diag. cbn [firstn]. rewrite app_nil_r.
  rewrite <- (bytes_of_length sizes c v) at 1. rewrite firstn_all.
  unfold bytes_of. destruct (size_of sizes c) as [|m] eqn:ES.
  - cbn. f_equal. symmetry. apply Hz. reflexivity.
  - cbn [seq map]. rewrite pbytes_eqb_refl. reflexivity.
Qed.

Lemma pack_from_cons_true sizes i t x row :
  pack_from sizes i (true :: t) (x :: row) = bytes_of sizes i x ++ pack_from sizes (S i) t row.
Proof. reflexivity. Qed.
Lemma pack_from_cons_false sizes i t row : pack_from sizes i (false :: t) row = pack_from sizes (S i) t row.
Proof. reflexivity. Qed.

Lemma count_true_cons b t : count_true (b :: t) = (if b then 1 else 0) + count_true t.
Proof. unfold count_true. cbn. destruct b; reflexivity. Qed.

(** zero-sized components carry payload 0 *)
Definition zs_ok (sizes : list nat) (i : nat) (sh : shape) (row : list val) : Prop :=
  forall c v, In (c, v) (combine (comps_from i sh) row) -> size_of sizes c = 0 -> v = 0%N.

Lemma zs_ok_tail_true sizes i t x row : zs_ok sizes i (true :: t) (x :: row) ->
  (size_of sizes i = 0 -> x = 0%N) /\ zs_ok sizes (S i) t row.
Proof.
  intros H. split; [intros Hs; apply (H i x); [left; reflexivity|exact Hs]|].
  intros c v Hin. apply H. right. exact Hin.
Qed.
Lemma zs_ok_tail_false sizes i t row : zs_ok sizes i (false :: t) row -> zs_ok sizes (S i) t row.
Proof. intros H c v Hin. apply H. exact Hin. Qed.

(** past the component concerned, both walks read the row back *)
Lemma unpack_add_past sizes c v sh : forall i row pre post, c < i -> length row = count_true sh -> zs_ok sizes i sh row ->
  unpack_add sizes i sh c v (pre ++ pack_from sizes i sh row ++ post) (length pre) = Some row.
Proof.
  induction sh as [|b t IH]; intros i row pre post Hi HL HZ.
  - destruct row; [reflexivity|discriminate].
  - rewrite count_true_cons in HL. cbn [unpack_add]. destruct b.
    + destruct row as [|x row]; [discriminate|]. cbn in HL.
      assert (E : Nat.eqb i c = false) by (apply Nat.eqb_neq; lia). rewrite E.
      destruct (zs_ok_tail_true _ _ _ _ _ HZ) as [Hx HZ'].
      rewrite pack_from_cons_true, <- app_assoc, (read_at_bytes sizes i x pre _ Hx).
      replace (length pre + size_of sizes i) with (length (pre ++ bytes_of sizes i x)) by (rewrite app_length, bytes_of_length; reflexivity).
      rewrite (app_assoc pre). rewrite (IH (S i) row (pre ++ bytes_of sizes i x) post); [reflexivity|lia|lia|exact HZ'].
    + rewrite pack_from_cons_false. apply IH; [lia|cbn in HL; lia|apply zs_ok_tail_false; exact HZ].
Qed.

Lemma unpack_skip_past sizes c sh : forall i row pre post, c < i -> length row = count_true sh -> zs_ok sizes i sh row ->
  unpack_skip sizes i sh c (pre ++ pack_from sizes i sh row ++ post) (length pre) = Some row.
Proof.
  induction sh as [|b t IH]; intros i row pre post Hi HL HZ.
  - destruct row; [reflexivity|discriminate].
  - rewrite count_true_cons in HL. cbn [unpack_skip].
    assert (E : Nat.eqb i c = false) by (apply Nat.eqb_neq; lia). rewrite E. destruct b.
    + destruct row as [|x row]; [discriminate|]. cbn in HL.
      destruct (zs_ok_tail_true _ _ _ _ _ HZ) as [Hx HZ'].
      rewrite pack_from_cons_true, <- app_assoc, (read_at_bytes sizes i x pre _ Hx).
      replace (length pre + size_of sizes i) with (length (pre ++ bytes_of sizes i x)) by (rewrite app_length, bytes_of_length; reflexivity).
      rewrite (app_assoc pre). rewrite (IH (S i) row (pre ++ bytes_of sizes i x) post); [reflexivity|lia|lia|exact HZ'].
    + rewrite pack_from_cons_false. apply IH; [lia|cbn in HL; lia|apply zs_ok_tail_false; exact HZ].
Qed.

(** [Entry::add], along the NEW identifier: every component already there is read from its own bytes, the new one is
    taken from the argument; the row is the old one with the value inserted at its rank *)
Lemma unpack_add_before sizes c v sh : forall i row pre post, i <= c -> c - i < length sh ->
  nth (c - i) sh false = false -> length row = count_true sh -> zs_ok sizes i sh row ->
  unpack_add sizes i (upd (c - i) (fun _ => true) sh) c v (pre ++ pack_from sizes i sh row ++ post) (length pre)
  = Some (insert_at (count_true (firstn (c - i) sh)) v row).
Proof.
  induction sh as [|b t IH]; intros i row pre post Hi Hc Hb HL HZ; [cbn in Hc; lia|].
  rewrite count_true_cons in HL. destruct (Nat.eq_dec i c) as [->|Hne].
  - rewrite Nat.sub_diag in *. cbn in Hb. subst b. cbn [upd unpack_add firstn]. rewrite Nat.eqb_refl.
    rewrite pack_from_cons_false, (unpack_add_past sizes c v t (S c) row pre post); [reflexivity|lia|cbn in HL; lia|].
    apply zs_ok_tail_false. exact HZ.
  - assert (E : c - i = S (c - S i)) by lia. rewrite E in *. cbn [upd nth firstn] in *. cbn [length] in Hc.
    cbn [unpack_add]. rewrite count_true_cons. destruct b.
    + destruct row as [|x row]; [discriminate|]. cbn in HL.
      assert (E2 : Nat.eqb i c = false) by (apply Nat.eqb_neq; exact Hne). rewrite E2.
      destruct (zs_ok_tail_true _ _ _ _ _ HZ) as [Hx HZ'].
      rewrite pack_from_cons_true, <- app_assoc, (read_at_bytes sizes i x pre _ Hx).
      replace (length pre + size_of sizes i) with (length (pre ++ bytes_of sizes i x)) by (rewrite app_length, bytes_of_length; reflexivity).
      rewrite (app_assoc pre). rewrite (IH (S i) row (pre ++ bytes_of sizes i x) post); [reflexivity|lia|lia|exact Hb|lia|exact HZ'].
    + rewrite pack_from_cons_false. cbn [Nat.add]. apply IH; [lia|lia|exact Hb|cbn in HL; lia|apply zs_ok_tail_false; exact HZ].
Qed.

(** [Entry::remove], along the NEW identifier: the removed component's bytes are stepped over, every other
    component is read from its own bytes; the row is the old one without the value at its rank *)
Lemma unpack_skip_before sizes c sh : forall i row pre post, i <= c -> c - i < length sh ->
  nth (c - i) sh false = true -> length row = count_true sh -> zs_ok sizes i sh row ->
  unpack_skip sizes i (upd (c - i) (fun _ => false) sh) c (pre ++ pack_from sizes i sh row ++ post) (length pre)
  = Some (remove_at (count_true (firstn (c - i) sh)) row).
Proof.
  induction sh as [|b t IH]; intros i row pre post Hi Hc Hb HL HZ; [cbn in Hc; lia|].
  rewrite count_true_cons in HL. destruct (Nat.eq_dec i c) as [->|Hne].
  - rewrite Nat.sub_diag in *. cbn in Hb. subst b. cbn [upd unpack_skip firstn]. rewrite Nat.eqb_refl.
    destruct row as [|x row]; [discriminate|]. cbn in HL.
    destruct (zs_ok_tail_true _ _ _ _ _ HZ) as [Hx HZ'].
    rewrite pack_from_cons_true, <- app_assoc.
    replace (length pre + size_of sizes c) with (length (pre ++ bytes_of sizes c x)) by (rewrite app_length, bytes_of_length; reflexivity).
    rewrite (app_assoc pre). rewrite (unpack_skip_past sizes c t (S c) row (pre ++ bytes_of sizes c x) post); [reflexivity|lia|lia|exact HZ'].
  - assert (E : c - i = S (c - S i)) by lia. rewrite E in *. cbn [upd nth firstn] in *. cbn [length] in Hc.
    cbn [unpack_skip]. rewrite count_true_cons.
    assert (E2 : Nat.eqb i c = false) by (apply Nat.eqb_neq; exact Hne). rewrite E2. destruct b.
    + destruct row as [|x row]; [discriminate|]. cbn in HL.
      destruct (zs_ok_tail_true _ _ _ _ _ HZ) as [Hx HZ'].
      rewrite pack_from_cons_true, <- app_assoc, (read_at_bytes sizes i x pre _ Hx).
      replace (length pre + size_of sizes i) with (length (pre ++ bytes_of sizes i x)) by (rewrite app_length, bytes_of_length; reflexivity).
      rewrite (app_assoc pre). rewrite (IH (S i) row (pre ++ bytes_of sizes i x) post); [reflexivity|lia|lia|exact Hb|lia|exact HZ'].
    + rewrite pack_from_cons_false. cbn [Nat.add]. apply IH; [lia|lia|exact Hb|cbn in HL; lia|apply zs_ok_tail_false; exact HZ].
Qed.

(** the value dropped last: at the offset given by the sizes of the preceding components lies exactly the removed one *)
Lemma read_removed sizes c sh : forall i row pre post, i <= c -> c - i < length sh ->
  nth (c - i) sh false = true -> length row = count_true sh -> zs_ok sizes i sh row ->
  read_at sizes c (pre ++ pack_from sizes i sh row ++ post) (length pre + size_from sizes i (firstn (c - i) sh))
  = nth_error row (count_true (firstn (c - i) sh)).
Proof.
  induction sh as [|b t IH]; intros i row pre post Hi Hc Hb HL HZ; [cbn in Hc; lia|].
  rewrite count_true_cons in HL. destruct (Nat.eq_dec i c) as [->|Hne].
  - rewrite Nat.sub_diag in *. cbn in Hb. subst b. cbn [firstn size_from]. rewrite Nat.add_0_r.
    destruct row as [|x row]; [discriminate|].
    destruct (zs_ok_tail_true _ _ _ _ _ HZ) as [Hx _].
    rewrite pack_from_cons_true, <- app_assoc. rewrite (read_at_bytes sizes c x pre _ Hx). reflexivity.
  - assert (E : c - i = S (c - S i)) by lia. rewrite E in *. cbn [nth firstn size_from] in *. cbn [length] in Hc.
    rewrite count_true_cons. destruct b.
    + destruct row as [|x row]; [discriminate|]. cbn in HL.
      destruct (zs_ok_tail_true _ _ _ _ _ HZ) as [Hx HZ'].
      rewrite pack_from_cons_true, <- app_assoc.
      replace (length pre + (size_of sizes i + size_from sizes (S i) (firstn (c - S i) t)))
        with (length (pre ++ bytes_of sizes i x) + size_from sizes (S i) (firstn (c - S i) t))
        by (rewrite app_length, bytes_of_length; lia).
      rewrite (app_assoc pre). rewrite (IH (S i) row (pre ++ bytes_of sizes i x) post); [reflexivity|lia|lia|exact Hb|lia|exact HZ'].
    + rewrite pack_from_cons_false. cbn [Nat.add]. apply IH; [lia|lia|exact Hb|cbn in HL; lia|apply zs_ok_tail_false; exact HZ].
Qed.

Lemma size_from_app sizes a : forall i b, size_from sizes i (a ++ b) = size_from sizes i a + size_from sizes (i + length a) b.
Proof.
  induction a as [|x t IH]; intros i b; cbn [app size_from length]; [rewrite Nat.add_0_r; reflexivity|].
  rewrite IH. replace (S i + length t) with (i + S (length t)) by lia. lia.
Qed.
Lemma size_from_false sizes k : forall i, size_from sizes i (repeat false k) = 0.
Proof. induction k as [|k IH]; intros i; cbn; [reflexivity|apply IH]. Qed.

Lemma size_of_mask sizes c sh : size_of_components sizes (mask_shape c sh) = size_from sizes 0 (firstn c sh).
Proof. unfold size_of_components, mask_shape. rewrite size_from_app, size_from_false. lia. Qed.

(** * The two operations, end to end: what the bytes say is what the logical layer (Model/World.v) does *)
Lemma firstn_upd_same' {A} (f : A -> A) (l : list A) : forall c, firstn c (upd c f l) = firstn c l.
Proof. induction l as [|x t IH]; intros [|c]; cbn; try reflexivity. f_equal. apply IH. Qed.

Lemma shape_length n bytes : length (shape_of_bytes' n bytes) = n.
Proof. unfold shape_of_bytes'. rewrite map_length, seq_length. reflexivity. Qed.

Lemma rank_lt c sh : nth c sh false = true -> count_true (firstn c sh) < count_true sh.
Proof.
  revert c. induction sh as [|b t IH]; intros c H; [destruct c; discriminate|].
  destruct c as [|c]; cbn [nth firstn] in *.
  - subst b. rewrite count_true_cons. unfold count_true. cbn. lia.
  - rewrite !count_true_cons. specialize (IH c H). lia.
Qed.

Theorem phys_entry_add_refines sizes n bytes row c v :
  let sh := shape_of_bytes' n bytes in
  c < n -> length bytes = (n + 7) / 8 -> get_bit c sh = false -> row_ok sizes sh row ->
  phys_entry_add sizes n bytes row c v = Some (add_bytes c bytes, insert_at (rank c (set_bit c true sh)) v row) /\
  shape_of_bytes' n (add_bytes c bytes) = set_bit c true sh.
Proof.
  intros sh Hc HL HB [HR HZ]. split; [|apply shape_add_bytes; assumption].
  unfold phys_entry_add. rewrite (shape_add_bytes n bytes c Hc HL). fold sh. unfold set_bit, pack.
  pose proof (unpack_add_before sizes c v sh 0 row [] [] ltac:(lia)) as U. rewrite Nat.sub_0_r in U.
  cbn [app length] in U. rewrite app_nil_r in U. rewrite U; [|unfold sh; rewrite shape_length; exact Hc|exact HB|exact HR|exact HZ].
  unfold rank. rewrite firstn_upd_same'. reflexivity.
Qed.

Theorem phys_entry_remove_refines sizes n bytes row c :
  let sh := shape_of_bytes' n bytes in
  c < n -> length bytes = (n + 7) / 8 -> get_bit c sh = true -> row_ok sizes sh row ->
  exists old, nth_error row (rank c sh) = Some old /\
    phys_entry_remove sizes n bytes row c = Some (remove_bytes c bytes, remove_at (rank c sh) row, old) /\
    shape_of_bytes' n (remove_bytes c bytes) = set_bit c false sh.
Proof.
  intros sh Hc HL HB [HR HZ].
  assert (Hr : rank c sh < length row) by (rewrite HR; apply rank_lt; exact HB).
  destruct (nth_error row (rank c sh)) as [old|] eqn:EO; [|apply nth_error_None in EO; lia].
  exists old. split; [reflexivity|]. split; [|apply shape_remove_bytes; assumption].
  unfold phys_entry_remove. rewrite (shape_remove_bytes n bytes c Hc HL HB). fold sh. unfold set_bit, pack.
  pose proof (unpack_skip_before sizes c sh 0 row [] [] ltac:(lia)) as U. rewrite Nat.sub_0_r in U.
  cbn [app length] in U. rewrite app_nil_r in U. rewrite U; [|unfold sh; rewrite shape_length; exact Hc|exact HB|exact HR|exact HZ].
  rewrite (shape_mask_bytes n bytes c ltac:(lia) HL). fold sh. rewrite size_of_mask.
  pose proof (read_removed sizes c sh 0 row [] [] ltac:(lia)) as R. rewrite Nat.sub_0_r in R.
  cbn [app length Nat.add] in R. rewrite app_nil_r in R. rewrite R; [|unfold sh; rewrite shape_length; exact Hc|exact HB|exact HR|exact HZ].
  fold (rank c sh). rewrite EO. reflexivity.
Qed.

(** non-vacuity and a concrete run: registry of 10 components (two identifier bytes) with sizes 8,0,4,1,8,8,2,0,4,16 *)
Example packed_example :
  let sizes := [8; 0; 4; 1; 8; 8; 2; 0; 4; 16] in
  phys_entry_remove sizes 10 [5%N; 2%N] [11%N; 12%N; 13%N] 2
  = Some ([1%N; 2%N], [11%N; 13%N], 12%N) /\
  phys_entry_add sizes 10 [5%N; 2%N] [11%N; 12%N; 13%N] 8 (14%N)
  = Some ([5%N; 3%N], [11%N; 12%N; 14%N; 13%N]).
Proof. vm_compute. split; reflexivity. Qed.
