(** Parallel iteration ([query/result/par_iter.rs], [archetypes/par_iter.rs],
    [query/view/par/seal/repeat.rs]): the consumer/folder that drives one
    indexed parallel iterator per matching archetype, under any splitting of
    the archetype sequence, and the [RepeatNone] producer.
    rayon is modelled by contract: a consumer is (result type, reducer, the
    result of an empty fold, what driving a sequence of items yields).
    Definitions only. *)
From Brood Require Export World Kinds Tables Sched Query.

Set Implicit Arguments.

(** * How rayon may split the sequence of archetypes (hashbrown's RawParIter) *)
Inductive split (A : Type) := SLeafs (l : list A) | SNode (a b : split A).
Arguments SLeafs {A} l.
Arguments SNode {A} a b.

Fixpoint flatten {A} (t : split A) : list A :=
  match t with SLeafs l => l | SNode a b => flatten a ++ flatten b end.

Section Consumer.
  Variable item R : Type.
  (** the consumer handed in by the user of the parallel iterator *)
  Variable reduce : R -> R -> R.           (* Reducer::reduce *)
  Variable empty : R.                      (* into_folder().complete() on nothing *)
  Variable drive : list item -> R.         (* driving a parallel iterator over these items into split_off_left() *)

  (** what one matching archetype contributes: its result rows, in row order *)
  Variable results : arch -> option (list item).   (* None: filtered out *)

  (** [ResultsFolder]: [previous] is the reduction of what was consumed so far *)
  Definition consume (previous : option R) (a : arch) : option R :=
    match results a with
    | None => previous
    | Some its =>
        match previous with
        | None => Some (drive its)
        | Some p => Some (reduce p (drive its))
        end
    end.

  Definition complete (previous : option R) : R :=
    match previous with Some p => p | None => empty end.

  (** a leaf of the split is one folder consuming its archetypes in order;
      inner nodes reduce left with right *)
  Fixpoint drive_par (t : split arch) : R :=
    match t with
    | SLeafs l => complete (fold_left consume l None)
    | SNode a b => reduce (drive_par a) (drive_par b)
    end.

  (** the sequential counterpart: every item of every matching archetype, in order *)
  Definition seq_items (l : list arch) : list item :=
    flat_map (fun a => match results a with Some its => its | None => [] end) l.
End Consumer.

(** * [RepeatNone]: an indexed producer of [count] Nones *)
Inductive isplit := ILeafN | INodeN (i : nat) (a b : isplit).   (* split_at i, then recurse *)

(** items produced by a producer of [count] elements under an index split tree;
    [split_at i] gives (i, count - i) as the code does *)
Fixpoint repeat_none_items (count : nat) (t : isplit) : list (option val) :=
  match t with
  | ILeafN => repeat None count
  | INodeN i a b => repeat_none_items (Nat.min i count) a ++ repeat_none_items (count - Nat.min i count) b
  end.

(** * Zip of equal-length column producers: every split cuts all columns at the same index *)
Fixpoint zip_rows (cols : list (list val)) (len : nat) : list (list val) :=
  map (fun r => map (fun c => nth r c 0%N) cols) (seq 0 len).

Fixpoint zip_items (cols : list (list val)) (start len : nat) (t : isplit) : list (nat * list val) :=
  match t with
  | ILeafN => map (fun r => (r, map (fun c => nth r c 0%N) cols)) (seq start len)
  | INodeN i a b =>
      let i' := Nat.min i len in
      zip_items cols start i' a ++ zip_items cols (start + i') (len - i') b
  end.

(** * The zip with [RepeatNone] among the producers: a column is either the values of a
      present component or [RepeatNone count]; every producer is split at the same index
      ([RepeatNone]'s own [split_at i] gives lengths [i] and [count - i]); a leaf zips its
      producers up to the shortest one *)
Inductive pcol := PVals (l : list val) | PNone (count : nat).

Definition pcol_len (c : pcol) : nat := match c with PVals l => length l | PNone n => n end.
Definition pcol_split (i : nat) (c : pcol) : pcol * pcol :=
  match c with
  | PVals l => (PVals (firstn i l), PVals (skipn i l))
  | PNone n => (PNone (Nat.min i n), PNone (n - Nat.min i n))
  end.
Definition pcol_item (c : pcol) (r : nat) : option val :=
  match c with PVals l => nth_error l r | PNone _ => None end.

Definition min_len (cols : list pcol) (len : nat) : nat := fold_right (fun c m => Nat.min (pcol_len c) m) len cols.

(** the rows a leaf hands out: one per index below the shortest producer *)
Definition leaf_rows (cols : list pcol) (len : nat) : list (list (option val)) :=
  map (fun r => map (fun c => pcol_item c r) cols) (seq 0 (min_len cols len)).

Fixpoint pzip_items (cols : list pcol) (len : nat) (t : isplit) : list (list (option val)) :=
  match t with
  | ILeafN => leaf_rows cols len
  | INodeN i a b =>
      let i' := Nat.min i len in
      pzip_items (map (fun c => fst (pcol_split i' c)) cols) i' a ++
      pzip_items (map (fun c => snd (pcol_split i' c)) cols) (len - i') b
  end.
