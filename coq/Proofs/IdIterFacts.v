(** The identifier bit iterator returns the identifier's bits (C01, C03, C05: every column walk). *)
From Brood Require Import Base SerdeC IdIter.
From Coq Require Import ZArith Lia ZifyBool ZifyNat ZifyN.
Ltac Zify.zify_post_hook ::= Z.div_mod_to_equations.

Lemma result_is_bit0 c : iter_result c = N.testbit c 0.
Proof.
  unfold iter_result. rewrite N.bit0_eqb.
  replace (N.land c 1) with (c mod 2)%N by (change 1%N with (N.ones 1); rewrite N.land_ones; reflexivity).
  assert (H : (c mod 2 < 2)%N) by (apply N.mod_lt; discriminate).
  destruct (N.eqb_spec (c mod 2) 0) as [E|E]; destruct (N.eqb_spec (c mod 2) 1) as [E1|E1]; cbn; try reflexivity; try lia.
Qed.

Lemma bit_of_shifted b m : N.testbit (N.shiftr b (N.of_nat m)) 0 = byte_bit b m.
Proof. unfold byte_bit. rewrite N.shiftr_spec'. reflexivity. Qed.

Lemma shift_once b m : iter_shift (N.shiftr b (N.of_nat m)) = N.shiftr b (N.of_nat (S m)).
Proof. unfold iter_shift. rewrite N.shiftr_shiftr. f_equal. lia. Qed.

Lemma end_iff k n : iter_end (N.of_nat k) (N.of_nat n) = Nat.leb n k.
Proof. unfold iter_end. destruct (N.leb_spec (N.of_nat n) (N.of_nat k)); destruct (Nat.leb_spec n k); try reflexivity; lia. Qed.

Lemma reload_iff k n : iter_reload (N.of_nat k) (N.of_nat n) = Nat.ltb k n && Nat.eqb (k mod 8) 0.
Proof.
  unfold iter_reload. f_equal.
  - destruct (N.ltb_spec (N.of_nat k) (N.of_nat n)); destruct (Nat.ltb_spec k n); try reflexivity; lia.
  - change 8%N with (N.of_nat 8). rewrite <- Nat2N.inj_mod.
    destruct (N.eqb_spec (N.of_nat (k mod 8)) 0); destruct (Nat.eqb_spec (k mod 8) 0); try reflexivity; lia.
Qed.

Definition bits_from (k n : nat) (bytes : list N) : list bool :=
  map (fun j => byte_bit (nth (j / 8) bytes 0%N) (j mod 8)) (seq k (n - k)).

Lemma skipn_cons_nth {A} (d : A) : forall (l : list A) i, i < length l -> skipn i l = nth i l d :: skipn (S i) l.
Proof.
  induction l as [|x t IH]; intros [|i] H; cbn in *; try lia; [reflexivity|]. apply IH. lia.
Qed.

(** the invariant: at bit position k the pointer is at byte k/8 and the current byte is that byte shifted by k mod 8 *)
Lemma run_from_spec n bytes0 : length bytes0 = (n + 7) / 8 ->
  forall d k fuel, d = n - k -> k <= n -> d < fuel ->
  forall cur bytes,
    (k < n -> bytes = skipn (k / 8) bytes0 /\ cur = N.shiftr (nth (k / 8) bytes0 0%N) (N.of_nat (k mod 8))) ->
    iter_run_from fuel (N.of_nat n) bytes cur (N.of_nat k) = Some (bits_from k n bytes0).
Proof.
  intros HL. induction d as [|d IH]; intros k fuel Hd Hk Hf cur bytes Hinv.
  - assert (k = n) by lia. subst k. destruct fuel as [|f]; [lia|]. cbn [iter_run_from].
    rewrite end_iff, Nat.leb_refl. unfold bits_from. rewrite Nat.sub_diag. reflexivity.
  - assert (Hlt : k < n) by lia. destruct (Hinv Hlt) as [Hb Hc]. destruct fuel as [|f]; [lia|]. cbn [iter_run_from].
    rewrite end_iff. destruct (Nat.leb_spec n k) as [Hc'|_]; [lia|].
    replace (N.of_nat k + 1)%N with (N.of_nat (S k)) by lia. rewrite reload_iff.
    assert (Hbits : bits_from k n bytes0 = byte_bit (nth (k / 8) bytes0 0%N) (k mod 8) :: bits_from (S k) n bytes0).
    { unfold bits_from. replace (n - k) with (S (n - S k)) by lia. reflexivity. }
    rewrite Hbits. rewrite result_is_bit0, Hc, bit_of_shifted.
    destruct (Nat.ltb_spec (S k) n) as [Hn|Hn]; cbn [andb].
    + destruct (Nat.eqb_spec (S k mod 8) 0) as [Hm|Hm].
      * (* move to the next byte *)
        assert (Hq : S k / 8 = S (k / 8)) by lia.
        assert (Hin : S (k / 8) < length bytes0) by lia.
        rewrite Hb. rewrite (skipn_cons_nth 0%N bytes0 (k / 8)) by lia.
        rewrite (skipn_cons_nth 0%N bytes0 (S (k / 8))) by exact Hin.
        rewrite <- (skipn_cons_nth 0%N bytes0 (S (k / 8))) by exact Hin.
        rewrite (IH (S k) f) ; [reflexivity|lia|lia|lia|].
        intros _. rewrite Hq, Hm. split; [reflexivity|]. cbn. reflexivity.
      * rewrite (IH (S k) f); [reflexivity|lia|lia|lia|].
        intros _. assert (Hq : S k / 8 = k / 8) by lia. assert (Hr : S k mod 8 = S (k mod 8)) by lia.
        rewrite Hq, Hr. split; [exact Hb|]. apply shift_once.
    + (* the last bit: whatever the shifted byte is, the next call ends *)
      rewrite (IH (S k) f); [reflexivity|lia|lia|lia|]. intros Hx. lia.
Qed.

(** * [identifier.iter()] yields exactly the bits the rest of the model reads off the identifier bytes, for
      every registry size and every identifier, without leaving the allocation *)
Theorem iter_run_is_shape n bytes : length bytes = (n + 7) / 8 -> iter_run n bytes = Some (shape_of_bytes n bytes).
Proof.
  intros HL. unfold iter_run. change 0%N with (N.of_nat 0) at 3.
  assert (F : fact_iter_new_reads_first_byte = true) by reflexivity. rewrite F.
  rewrite (run_from_spec n bytes HL (n - 0) 0 (S n) eq_refl ltac:(lia) ltac:(lia)).
  - unfold bits_from, shape_of_bytes. rewrite Nat.sub_0_r. reflexivity.
  - intros Hn. split; [reflexivity|]. cbn [Nat.div Nat.modulo]. 
    destruct (Nat.ltb_spec 0 n) as [_|]; [|lia].
    replace (0 / 8) with 0 by reflexivity. replace (0 mod 8) with 0 by reflexivity.
    destruct bytes as [|b t]; reflexivity.
Qed.

(** a reload test that stops one bit early (or late) is caught: nine components, the ninth set *)
Example iter_nine : iter_run 9 [0%N; 1%N] = Some [false; false; false; false; false; false; false; false; true].
Proof. vm_compute. reflexivity. Qed.
