(** C02: an identifier that is not live resolves to nothing, at every resolution site, also after its slot
    has been handed to another entity. *)
From Brood Require Import Base World Facts Resolve BaseFacts.

Lemma resolve_src_get_loc w e : resolve_src w e = get_loc w e.
Proof.
  unfold resolve_src, resolve_gen, get_loc.
  change (fact_alloc_get_checks_generation && fact_alloc_is_active_checks_generation && fact_resolution_sites_use_allocator) with true.
  reflexivity.
Qed.

Theorem dead_resolves_nowhere w e : is_active w e = false -> resolve_src w e = None.
Proof.
  rewrite resolve_src_get_loc. unfold is_active, get_loc.
  destruct (nth_error (w_slots w) (fst e)) as [s|]; [|reflexivity].
  destruct (s_loc s) as [l|]; [|destruct (N.eqb (s_gen s) (snd e)); reflexivity].
  intros H. rewrite H. reflexivity.
Qed.

(** without the generation comparison a reused slot answers for its former tenant *)
Lemma stale_resolves_without_generation :
  let w := mkWorld 1 [mkArch [true] [((0, 1%N), [7%N])]] [] [mkSlot 1%N (Some ([true], 0))] [] 1 [] in
  is_active w (0, 0%N) = false /\ resolve_gen false w (0, 0%N) = Some ([true], 0) /\ resolve_gen true w (0, 0%N) = None.
Proof. vm_compute. auto. Qed.
