//! World-history driver over the 16-component registry R16 (2-byte identifiers).
use brood::entity;
#[path = "../gen_r16.rs"]
mod gen;
use gen::*;
include!("../wh_main.rs");
