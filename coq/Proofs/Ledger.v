(** C04 as a conservation law: every component/resource value is dropped
    exactly once, exactly when it leaves the world.

    values stored before + values moved in = values stored after + values dropped
    (as multisets), for every operation, for clone / clone_from, and for whole
    histories. *)
From Coq Require Import Permutation.
From Brood Require Import Base World Multi BaseFacts Inv StepInvAlloc StepInvRows CloneEq.

(* a stored/dropped/moved value, tagged by what it is: component k, or resource i *)
Inductive item := Comp (c : nat) (v : val) | Res (i : nat) (v : val).
Definition row_items (sh : shape) (vals : list val) : list item :=
  map (fun p => Comp (fst p) (snd p)) (combine (bits_on sh) vals).
Definition arch_items (a : arch) : list item := flat_map (fun rw => row_items (a_shape a) (snd rw)) (a_rows a).
Definition res_items (res : list val) : list item := map (fun p => Res (fst p) (snd p)) (combine (seq 0 (length res)) res).
(* everything a world owns *)
Definition owned (w : world) : list item := flat_map arch_items (w_archs w) ++ res_items (w_res w).
Definition dropped (evs : list event) : list item :=
  flat_map (fun e => match e with Dropped c v => [Comp c v] | ResDropped i v => [Res i v] | _ => [] end) evs.
Definition cloned (evs : list event) : list item :=
  flat_map (fun e => match e with Cloned c v => [Comp c v] | ResCloned i v => [Res i v] | _ => [] end) evs.
(* what the caller hands over to the world in an operation, given how the operation answered *)
Definition moved_in (n : nat) (o : op) (r : out) : list item :=
  match o, r with
  | Insert ent, OId _ => row_items (shape_of n (map fst ent)) (canon_vals (shape_of n (map fst ent)) ent)
  | Extend comps rows, OIds _ =>
      flat_map (fun rw => row_items (shape_of n comps) (canon_vals (shape_of n comps) (combine comps rw))) (batch_rows comps rows)
  | EntryAdd _ c v, OBool true => [Comp c v]
  | WriteMut _ c v, OBool true => [Comp c v]
  | ResSet i v, ONone => [Res i v]
  | _, _ => []
  end.

(** * Multiset reasoning: permutations of [item] lists by counting *)

Lemma item_eq_dec : forall x y : item, {x = y} + {x <> y}.
Proof. decide equality; try apply N.eq_dec; apply Nat.eq_dec. Qed.

Lemma cnt_cons (a : item) (l : list item) (x : item) :
  count_occ item_eq_dec (a :: l) x =
  (if item_eq_dec a x then 1 else 0) + count_occ item_eq_dec l x.
Proof. cbn [count_occ]. destruct (item_eq_dec a x); reflexivity. Qed.

(** Solves a goal [Permutation L R] over [item] lists built with [++] and
    [::] from the permutation hypotheses in the context. *)
Ltac perm_lia :=
  let x := fresh "x" in
  apply (Permutation_count_occ item_eq_dec); intro x;
  repeat match goal with
         | H : Permutation ?a ?b |- _ =>
             let H' := fresh "C" in
             pose proof (proj1 (Permutation_count_occ item_eq_dec a b) H x) as H'; clear H
         end;
  repeat (rewrite ?count_occ_app, ?cnt_cons in * );
  cbn [count_occ] in *; lia.

(** * Generic list facts *)

Lemma upd_app_len (A : Type) (f : A -> A) (l1 : list A) (x : A) (l2 : list A) :
  upd (length l1) f (l1 ++ x :: l2) = l1 ++ f x :: l2.
Proof. induction l1 as [|y t IH]; cbn; [reflexivity|]. f_equal. exact IH. Qed.

Lemma swap_remove_perm (A : Type) (r : nat) (rows : list A) (rw : A) :
  nth_error rows r = Some rw -> Permutation rows (rw :: swap_remove r rows).
Proof.
  intros H. apply nth_error_split in H as (l1 & l2 & -> & <-).
  destruct l2 as [|y l2'].
  - unfold swap_remove. rewrite app_length. cbn [length].
    replace (length l1 + 1 - 1) with (length l1) by lia.
    rewrite nth_error_app_last, Nat.eqb_refl, removelast_last.
    symmetry. apply Permutation_cons_append.
  - destruct (@exists_last A (y :: l2')) as (m & z & E); [discriminate|].
    rewrite E. clear E y l2'.
    replace (l1 ++ rw :: m ++ [z]) with ((l1 ++ rw :: m) ++ [z])
      by (rewrite <- app_assoc; reflexivity).
    unfold swap_remove. rewrite (app_length (l1 ++ rw :: m) [z]). cbn [length].
    replace (length (l1 ++ rw :: m) + 1 - 1) with (length (l1 ++ rw :: m)) by lia.
    rewrite nth_error_app_last.
    destruct (Nat.eqb_spec (length l1) (length (l1 ++ rw :: m))) as [El|_].
    { rewrite app_length in El. cbn [length] in El. lia. }
    rewrite removelast_last, upd_app_len.
    rewrite <- app_assoc. cbn [app].
    etransitivity; [symmetry; apply Permutation_middle|].
    apply perm_skip. apply Permutation_app_head.
    symmetry. apply Permutation_cons_append.
Qed.

(** * Set bits of a shape, recursively *)

Fixpoint bits_rec (off : nat) (s : shape) : list nat :=
  match s with
  | [] => []
  | b :: t => if b then off :: bits_rec (S off) t else bits_rec (S off) t
  end.

Lemma bits_from_rec (s : shape) : forall off,
  filter (fun k => nth (k - off) s false) (seq off (length s)) = bits_rec off s.
Proof.
  induction s as [|b t IH]; intros off; [reflexivity|].
  cbn [length seq filter bits_rec]. rewrite Nat.sub_diag.
  change (nth 0 (b :: t) false) with b.
  assert (E : filter (fun k => nth (k - off) (b :: t) false) (seq (S off) (length t))
              = filter (fun k => nth (k - S off) t false) (seq (S off) (length t))).
  { apply filter_ext_in. intros k Hk. apply in_seq in Hk.
    replace (k - off) with (S (k - S off)) by lia. reflexivity. }
  rewrite E, IH. reflexivity.
Qed.

Lemma bits_on_rec (s : shape) : bits_on s = bits_rec 0 s.
Proof.
  unfold bits_on, get_bit. rewrite <- bits_from_rec.
  apply filter_ext. intros k. rewrite Nat.sub_0_r. reflexivity.
Qed.

Lemma ct_cons (b : bool) (s : shape) :
  count_true (b :: s) = (if b then 1 else 0) + count_true s.
Proof. unfold count_true. destruct b; reflexivity. Qed.

Lemma bits_rec_nth (s : shape) : forall off c,
  nth c s false = true ->
  nth_error (bits_rec off s) (count_true (firstn c s)) = Some (off + c).
Proof.
  induction s as [|b t IH]; intros off c H.
  - destruct c; discriminate.
  - destruct c as [|c].
    + cbn [nth] in H. subst b. cbn. f_equal. lia.
    + cbn [nth] in H. cbn [firstn bits_rec]. rewrite ct_cons.
      destruct b; cbn [Nat.add nth_error]; rewrite (IH (S off) c H); f_equal; lia.
Qed.

Lemma bits_rec_set_true (s : shape) : forall off c,
  c < length s -> nth c s false = false ->
  bits_rec off (upd c (fun _ => true) s) =
  insert_at (count_true (firstn c s)) (off + c) (bits_rec off s).
Proof.
  induction s as [|b t IH]; intros off c Hc H.
  - cbn in Hc. lia.
  - destruct c as [|c].
    + cbn [nth] in H. subst b. cbn. rewrite Nat.add_0_r. reflexivity.
    + cbn [nth] in H. cbn [length] in Hc. cbn [upd firstn bits_rec]. rewrite ct_cons.
      rewrite (IH (S off) c) by (auto; lia).
      replace (S off + c) with (off + S c) by lia.
      destruct b; cbn [Nat.add insert_at]; reflexivity.
Qed.

Lemma bits_rec_set_false (s : shape) : forall off c,
  nth c s false = true ->
  bits_rec off (upd c (fun _ => false) s) =
  remove_at (count_true (firstn c s)) (bits_rec off s).
Proof.
  induction s as [|b t IH]; intros off c H.
  - destruct c; discriminate.
  - destruct c as [|c].
    + cbn [nth] in H. subst b. cbn. reflexivity.
    + cbn [nth] in H. cbn [upd firstn bits_rec]. rewrite ct_cons.
      rewrite (IH (S off) c H).
      destruct b; cbn [Nat.add remove_at]; reflexivity.
Qed.

Lemma firstn_upd_same (A : Type) (f : A -> A) (l : list A) : forall c,
  firstn c (upd c f l) = firstn c l.
Proof.
  induction l as [|x t IH]; intros [|c]; cbn; auto. f_equal. apply IH.
Qed.

Lemma rank_set_bit (c : nat) (b : bool) (sh : shape) : rank c (set_bit c b sh) = rank c sh.
Proof. unfold rank, set_bit. rewrite firstn_upd_same. reflexivity. Qed.

Lemma bits_on_nth (sh : shape) (c : nat) :
  get_bit c sh = true -> nth_error (bits_on sh) (rank c sh) = Some c.
Proof.
  intros H. rewrite bits_on_rec. unfold rank. apply (bits_rec_nth sh 0 c H).
Qed.

Lemma bits_on_set_true (sh : shape) (c : nat) :
  c < length sh -> get_bit c sh = false ->
  bits_on (set_bit c true sh) = insert_at (rank c sh) c (bits_on sh).
Proof.
  intros Hc H. rewrite !bits_on_rec. unfold rank, set_bit.
  apply (bits_rec_set_true sh 0 c Hc H).
Qed.

Lemma bits_on_set_false (sh : shape) (c : nat) :
  get_bit c sh = true ->
  bits_on (set_bit c false sh) = remove_at (rank c sh) (bits_on sh).
Proof.
  intros H. rewrite !bits_on_rec. unfold rank, set_bit.
  apply (bits_rec_set_false sh 0 c H).
Qed.

(** * Values inside one row *)

Section Comb.
  Variables (A B C : Type) (F : A * B -> C).

  Lemma combine_upd_perm (k : nat) : forall (bs : list A) (vals : list B) c old v,
    nth_error bs k = Some c -> nth_error vals k = Some old ->
    Permutation (F (c, v) :: map F (combine bs vals))
                (F (c, old) :: map F (combine bs (upd k (fun _ => v) vals))).
  Proof.
    induction k as [|k IH]; intros bs vals c old v Hb Hv.
    - destruct bs as [|b bs]; [discriminate|]. destruct vals as [|x vals]; [discriminate|].
      cbn in Hb, Hv. inversion Hb; inversion Hv; subst. cbn. apply perm_swap.
    - destruct bs as [|b bs]; [discriminate|]. destruct vals as [|x vals]; [discriminate|].
      cbn [nth_error] in Hb, Hv. cbn [upd combine map].
      etransitivity; [apply perm_swap|].
      etransitivity; [|apply perm_swap].
      apply perm_skip. apply IH; assumption.
  Qed.

  Lemma combine_insert_perm (k : nat) : forall (bs : list A) (vals : list B) c v,
    k <= length bs -> k <= length vals ->
    Permutation (map F (combine (insert_at k c bs) (insert_at k v vals)))
                (F (c, v) :: map F (combine bs vals)).
  Proof.
    induction k as [|k IH]; intros bs vals c v Hb Hv.
    - cbn. reflexivity.
    - destruct bs as [|b bs]; [cbn in Hb; lia|]. destruct vals as [|x vals]; [cbn in Hv; lia|].
      cbn [length] in Hb, Hv. cbn [insert_at combine map].
      etransitivity; [|apply perm_swap].
      apply perm_skip. apply IH; lia.
  Qed.

  Lemma combine_remove_perm (k : nat) : forall (bs : list A) (vals : list B) c old,
    nth_error bs k = Some c -> nth_error vals k = Some old ->
    Permutation (map F (combine bs vals))
                (F (c, old) :: map F (combine (remove_at k bs) (remove_at k vals))).
  Proof.
    induction k as [|k IH]; intros bs vals c old Hb Hv.
    - destruct bs as [|b bs]; [discriminate|]. destruct vals as [|x vals]; [discriminate|].
      cbn in Hb, Hv. inversion Hb; inversion Hv; subst. cbn. reflexivity.
    - destruct bs as [|b bs]; [discriminate|]. destruct vals as [|x vals]; [discriminate|].
      cbn [nth_error] in Hb, Hv. cbn [remove_at combine map].
      etransitivity; [|apply perm_swap].
      apply perm_skip. apply IH; assumption.
  Qed.
End Comb.

Definition tagC (p : nat * val) : item := Comp (fst p) (snd p).
Definition tagR (p : nat * val) : item := Res (fst p) (snd p).

Lemma row_items_write (sh : shape) (c : nat) (v old : val) (vals : list val) :
  get_bit c sh = true -> nth_error vals (rank c sh) = Some old ->
  Permutation (Comp c v :: row_items sh vals)
              (Comp c old :: row_items sh (upd (rank c sh) (fun _ => v) vals)).
Proof.
  intros Hb Hv.
  apply (combine_upd_perm _ _ _ tagC (rank c sh) (bits_on sh) vals c old v); auto.
  apply bits_on_nth; auto.
Qed.

Lemma row_items_add (sh : shape) (c : nat) (v : val) (vals : list val) :
  c < length sh -> get_bit c sh = false -> length vals = count_true sh ->
  Permutation (row_items (set_bit c true sh) (insert_at (rank c (set_bit c true sh)) v vals))
              (Comp c v :: row_items sh vals).
Proof.
  intros Hc Hb Hl. rewrite rank_set_bit. unfold row_items.
  rewrite bits_on_set_true by assumption.
  apply (combine_insert_perm _ _ _ tagC (rank c sh) (bits_on sh) vals c v).
  - rewrite bits_on_length. apply rank_le.
  - rewrite Hl. apply rank_le.
Qed.

Lemma row_items_remove (sh : shape) (c : nat) (old : val) (vals : list val) :
  get_bit c sh = true -> nth_error vals (rank c sh) = Some old ->
  Permutation (row_items sh vals)
              (Comp c old :: row_items (set_bit c false sh) (remove_at (rank c sh) vals)).
Proof.
  intros Hb Hv. unfold row_items. rewrite bits_on_set_false by assumption.
  apply (combine_remove_perm _ _ _ tagC (rank c sh) (bits_on sh) vals c old); auto.
  apply bits_on_nth; auto.
Qed.

Lemma res_items_set (res : list val) (i : nat) (v old : val) :
  nth_error res i = Some old ->
  Permutation (Res i v :: res_items res)
              (Res i old :: res_items (upd i (fun _ => v) res)).
Proof.
  intros H. unfold res_items. rewrite upd_length.
  apply (combine_upd_perm _ _ _ tagR i (seq 0 (length res)) res i old v); auto.
  assert (Hi : i < length res) by (apply nth_error_Some; congruence).
  rewrite nth_error_seq_lt by assumption. reflexivity.
Qed.

(** * Events *)

Lemma dropped_app (a b : list event) : dropped (a ++ b) = dropped a ++ dropped b.
Proof. apply flat_map_app. Qed.

Lemma cloned_app (a b : list event) : cloned (a ++ b) = cloned a ++ cloned b.
Proof. apply flat_map_app. Qed.

Lemma dropped_drops sh vals : dropped (drops sh vals) = row_items sh vals.
Proof.
  unfold drops, row_items. induction (combine (bits_on sh) vals) as [|p l IH]; cbn; [reflexivity|].
  f_equal. exact IH.
Qed.

Lemma cloned_drops sh vals : cloned (drops sh vals) = [].
Proof.
  unfold drops. induction (combine (bits_on sh) vals) as [|p l IH]; cbn; [reflexivity|]. exact IH.
Qed.

Lemma dropped_clones sh vals : dropped (clones sh vals) = [].
Proof.
  unfold clones. induction (combine (bits_on sh) vals) as [|p l IH]; cbn; [reflexivity|]. exact IH.
Qed.

Lemma cloned_clones sh vals : cloned (clones sh vals) = row_items sh vals.
Proof.
  unfold clones, row_items. induction (combine (bits_on sh) vals) as [|p l IH]; cbn; [reflexivity|].
  f_equal. exact IH.
Qed.

Lemma dropped_arch_drops a : dropped (arch_drops a) = arch_items a.
Proof.
  unfold arch_drops, arch_items. induction (a_rows a) as [|rw l IH]; cbn [flat_map]; [reflexivity|].
  rewrite dropped_app, dropped_drops, IH. reflexivity.
Qed.

Lemma cloned_arch_drops a : cloned (arch_drops a) = [].
Proof.
  unfold arch_drops. induction (a_rows a) as [|rw l IH]; cbn [flat_map]; [reflexivity|].
  rewrite cloned_app, cloned_drops, IH. reflexivity.
Qed.

Lemma dropped_arch_clones a : dropped (arch_clones a) = [].
Proof.
  unfold arch_clones. induction (a_rows a) as [|rw l IH]; cbn [flat_map]; [reflexivity|].
  rewrite dropped_app, dropped_clones, IH. reflexivity.
Qed.

Lemma cloned_arch_clones a : cloned (arch_clones a) = arch_items a.
Proof.
  unfold arch_clones, arch_items. induction (a_rows a) as [|rw l IH]; cbn [flat_map]; [reflexivity|].
  rewrite cloned_app, cloned_clones, IH. reflexivity.
Qed.

Lemma dropped_res_drops res : dropped (res_drops res) = res_items res.
Proof.
  unfold res_drops, res_items.
  induction (combine (seq 0 (length res)) res) as [|p l IH]; cbn; [reflexivity|]. f_equal. exact IH.
Qed.

Lemma cloned_res_drops res : cloned (res_drops res) = [].
Proof.
  unfold res_drops.
  induction (combine (seq 0 (length res)) res) as [|p l IH]; cbn; [reflexivity|]. exact IH.
Qed.

Lemma dropped_res_clones res : dropped (res_clones res) = [].
Proof.
  unfold res_clones.
  induction (combine (seq 0 (length res)) res) as [|p l IH]; cbn; [reflexivity|]. exact IH.
Qed.

Lemma cloned_res_clones res : cloned (res_clones res) = res_items res.
Proof.
  unfold res_clones, res_items.
  induction (combine (seq 0 (length res)) res) as [|p l IH]; cbn; [reflexivity|]. f_equal. exact IH.
Qed.

(** * The archetype table as a finite map: items *)

Notation items archs := (flat_map arch_items archs).

Definition rows_items (sh : shape) (rows : list row) : list item :=
  flat_map (fun rw => row_items sh (snd rw)) rows.

Lemma arch_items_eq a : arch_items a = rows_items (a_shape a) (a_rows a).
Proof. reflexivity. Qed.

Lemma arch_items_mk sh (rows : list row) : arch_items (mkArch sh rows) = rows_items sh rows.
Proof. reflexivity. Qed.

Lemma rows_items_nil sh : rows_items sh [] = [].
Proof. reflexivity. Qed.

Lemma rows_items_cons sh (rw : row) (l : list row) :
  rows_items sh (rw :: l) = row_items sh (snd rw) ++ rows_items sh l.
Proof. reflexivity. Qed.

Lemma rows_items_app sh (l1 l2 : list row) :
  rows_items sh (l1 ++ l2) = rows_items sh l1 ++ rows_items sh l2.
Proof. apply flat_map_app. Qed.

Lemma rows_items_perm sh (l1 l2 : list row) :
  Permutation l1 l2 -> Permutation (rows_items sh l1) (rows_items sh l2).
Proof. intros P. unfold rows_items. apply Permutation_flat_map. exact P. Qed.

Lemma arch_items_found sh archs a :
  find_arch sh archs = Some a -> arch_items a = rows_items sh (a_rows a).
Proof. intros H. rewrite arch_items_eq, (find_arch_shape _ _ H). reflexivity. Qed.

Lemma upd_arch_notin sh f t : ~ In sh (map a_shape t) -> upd_arch sh f t = t.
Proof.
  intros Hn. unfold upd_arch. rewrite <- (map_id t) at 2. apply map_ext_in. intros c Hc.
  destruct (shape_eqb (a_shape c) sh) eqn:E; auto.
  apply shape_eqb_eq in E. exfalso. apply Hn. rewrite <- E. apply in_map; auto.
Qed.

Lemma items_upd_arch sh f archs a :
  NoDup (map a_shape archs) -> find_arch sh archs = Some a ->
  Permutation (items (upd_arch sh f archs) ++ rows_items sh (a_rows a))
              (items archs ++ rows_items sh (f (a_rows a))).
Proof.
  induction archs as [|b t IH]; intros ND H; [discriminate|].
  cbn [map] in ND. inversion ND as [|? ? Hnin ND']; subst.
  rewrite CloneEq.find_arch_cons in H.
  unfold upd_arch. cbn [map]. fold (upd_arch sh f t).
  destruct (shape_eqb (a_shape b) sh) eqn:E.
  - inversion H; subst b. apply shape_eqb_eq in E.
    rewrite upd_arch_notin by (rewrite <- E; exact Hnin).
    cbn [flat_map]. rewrite arch_items_mk, (arch_items_eq a), E.
    perm_lia.
  - specialize (IH ND' H). cbn [flat_map]. perm_lia.
Qed.

Lemma items_ensure_arch sh archs : items (ensure_arch sh archs) = items archs.
Proof.
  unfold ensure_arch. destruct (find_arch sh archs); [reflexivity|].
  rewrite flat_map_app. cbn. apply app_nil_r.
Qed.

Lemma ensure_for_entity_items sh archs tid archs1 tid1 :
  NoDup (map a_shape archs) ->
  ensure_for_entity sh archs tid = Some (archs1, tid1) ->
  items archs1 = items archs /\ NoDup (map a_shape archs1).
Proof.
  intros ND H. unfold ensure_for_entity in H.
  destruct (mem_shape sh tid).
  - destruct (find_arch sh archs); inversion H; subst. auto.
  - inversion H; subst. split; [apply items_ensure_arch | apply ensure_arch_nodup; exact ND].
Qed.

Lemma items_filter_nonempty archs :
  items (filter (fun a => negb (is_nil (a_rows a))) archs) = items archs.
Proof.
  induction archs as [|b t IH]; [reflexivity|].
  cbn [filter flat_map]. destruct (a_rows b) as [|rw rows] eqn:Er; cbn [is_nil negb].
  - rewrite (arch_items_eq b), Er. cbn. exact IH.
  - cbn [flat_map]. rewrite IH. reflexivity.
Qed.

Lemma items_all_empty archs : (forall a, In a archs -> a_rows a = []) -> items archs = [].
Proof.
  induction archs as [|b t IH]; intros H; [reflexivity|].
  cbn [flat_map]. rewrite (arch_items_eq b), (H b) by (left; reflexivity).
  cbn. apply IH. intros a Ha. apply H. right; exact Ha.
Qed.

(** * Row primitives *)

Lemma take_row_unfold sh r archs slots archs1 slots1 rw :
  take_row sh r archs slots = Some (archs1, slots1, rw) ->
  exists a, find_arch sh archs = Some a /\ nth_error (a_rows a) r = Some rw /\
            archs1 = upd_arch sh (swap_remove r) archs.
Proof.
  unfold take_row. intros H.
  destruct (find_arch sh archs) as [a|] eqn:Ea; cbn [obind] in H; [|discriminate].
  destruct (nth_error (a_rows a) r) as [rw0|] eqn:Er; cbn [obind] in H; [|discriminate].
  destruct (last_opt (a_rows a)) as [lr|]; cbn [obind] in H; [|discriminate].
  destruct (if Nat.ltb r (length (a_rows a) - 1) then _ else _) as [s1|];
    cbn [obind] in H; [|discriminate].
  inversion H; subst. exists a. auto.
Qed.

Lemma take_row_items sh r archs slots archs1 slots1 rw :
  NoDup (map a_shape archs) ->
  take_row sh r archs slots = Some (archs1, slots1, rw) ->
  Permutation (items archs) (items archs1 ++ row_items sh (snd rw)) /\
  NoDup (map a_shape archs1).
Proof.
  intros ND H. apply take_row_unfold in H as (a & Ha & Hr & ->).
  split; [|rewrite map_shape_upd_arch; exact ND].
  pose proof (items_upd_arch sh (swap_remove r) archs a ND Ha) as P.
  pose proof (rows_items_perm sh _ _ (swap_remove_perm _ r (a_rows a) rw Hr)) as Q.
  rewrite rows_items_cons in Q. perm_lia.
Qed.

Lemma move_row_items sh' id vals archs slots archs2 slots2 :
  NoDup (map a_shape archs) ->
  move_row sh' id vals archs slots = Some (archs2, slots2) ->
  Permutation (items archs2) (items archs ++ row_items sh' vals).
Proof.
  intros ND H. unfold move_row in H.
  destruct (find_arch sh' (ensure_arch sh' archs)) as [a'|] eqn:Ea; cbn [obind] in H; [|discriminate].
  destruct (set_loc (fst id) (sh', length (a_rows a')) slots) as [s2|]; cbn [obind] in H; [|discriminate].
  inversion H; subst.
  pose proof (items_upd_arch sh' (fun rows => rows ++ [(id, vals)]) (ensure_arch sh' archs) a'
                (ensure_arch_nodup sh' archs ND) Ea) as P.
  cbv beta in P. rewrite rows_items_app, items_ensure_arch in P.
  rewrite rows_items_cons, rows_items_nil, app_nil_r in P. cbn [snd] in P. perm_lia.
Qed.

Lemma set_value_items sh r c v archs archs1 old :
  NoDup (map a_shape archs) -> get_bit c sh = true ->
  set_value sh r c v archs = Some (archs1, old) ->
  Permutation (items archs ++ [Comp c v]) (items archs1 ++ [Comp c old]).
Proof.
  intros ND Hb H. unfold set_value in H.
  destruct (find_arch sh archs) as [a|] eqn:Ea; cbn [obind] in H; [|discriminate].
  destruct (nth_error (a_rows a) r) as [rw|] eqn:Er; cbn [obind] in H; [|discriminate].
  destruct (nth_error (snd rw) (rank c sh)) as [old0|] eqn:Eo; cbn [obind] in H; [|discriminate].
  inversion H; subst archs1 old0. clear H.
  apply nth_error_split in Er as (l1 & l2 & Hsplit & Hlen). subst r.
  match goal with
  | |- context [upd_arch sh ?f archs] => pose proof (items_upd_arch sh f archs a ND Ea) as P
  end.
  rewrite Hsplit in P. rewrite upd_app_len in P.
  rewrite !rows_items_app, !rows_items_cons in P. cbn [snd] in P.
  pose proof (row_items_write sh c v old (snd rw) Hb Eo) as Q.
  perm_lia.
Qed.

(** * The single-world operations *)

Definition ledger (w : world) (o : op) (w' : world) (r : out) (evs : list event) : Prop :=
  Permutation (owned w ++ moved_in (w_n w) o r) (owned w' ++ dropped evs) /\ cloned evs = [].

Lemma ledger_same w o r : moved_in (w_n w) o r = [] -> ledger w o w r [].
Proof. intros E. unfold ledger. rewrite E. cbn. split; reflexivity. Qed.

Lemma insert_ledger w ent w' r evs :
  Inv w -> do_insert w ent = Some (w', r, evs) -> ledger w (Insert ent) w' r evs.
Proof.
  intros HI H. unfold do_insert in H.
  destruct (negb (wf_comps (w_n w) (map fst ent))).
  { inversion H; subst. apply ledger_same. reflexivity. }
  destruct (ensure_for_entity _ (w_archs w) (w_tid w)) as [[archs1 tid1]|] eqn:Eens;
    cbn [obind] in H; [|discriminate].
  destruct (find_arch _ archs1) as [a|] eqn:Ea; cbn [obind] in H; [|discriminate].
  destruct (alloc_one _ _ _) as [[[slots1 free1] id]|]; cbn [obind] in H; [|discriminate].
  inversion H; subst w' r evs. clear H.
  destruct (ensure_for_entity_items _ _ _ _ _ (inv_nodup HI) Eens) as [Hit ND1].
  match goal with
  | |- context [upd_arch ?sh ?f archs1] => pose proof (items_upd_arch sh f archs1 a ND1 Ea) as P
  end.
  cbv beta in P. rewrite rows_items_app, rows_items_cons, rows_items_nil, app_nil_r in P.
  cbn [snd] in P.
  unfold ledger, owned, with_store. cbn [moved_in w_archs w_res w_n dropped cloned flat_map].
  rewrite <- Hit. split; [perm_lia | reflexivity].
Qed.

Lemma alloc_batch_length sh count : forall start slots free sl fr ids,
  alloc_batch sh start count slots free = Some (sl, fr, ids) -> length ids = count.
Proof.
  induction count as [|c IH]; intros start slots free sl fr ids H.
  - cbn in H. inversion H; reflexivity.
  - destruct free as [|i fr0]; cbn [alloc_batch] in H.
    + inversion H; subst. cbn [length]. rewrite map_length, seq_length. reflexivity.
    + destruct (nth_error slots i) as [s|]; cbn [obind] in H; [|discriminate].
      destruct (alloc_batch sh (S start) c
                  (upd i (fun _ => mkSlot (gen_next (s_gen s)) (Some (sh, start))) slots) fr0)
        as [[[sl1 fr1] ids1]|] eqn:E; cbn [obind] in H; [|discriminate].
      inversion H; subst. cbn [length]. f_equal. eapply IH; eauto.
Qed.

Lemma extend_rows_items sh (h : list val -> list val) : forall (ids : list eid) (rows : list (list val)),
  length ids = length rows ->
  rows_items sh (map (fun p => (fst p, h (snd p))) (combine ids rows)) =
  flat_map (fun rw => row_items sh (h rw)) rows.
Proof.
  induction ids as [|i ids IH]; intros [|rw rows] L; cbn in L; try discriminate; [reflexivity|].
  cbn [combine map]. rewrite rows_items_cons. cbn [flat_map fst snd]. f_equal. apply IH. lia.
Qed.

Lemma extend_ledger w comps rows0 w' r evs :
  Inv w -> do_extend w comps rows0 = Some (w', r, evs) -> ledger w (Extend comps rows0) w' r evs.
Proof.
  intros HI H. unfold do_extend in H.
  destruct (negb _).
  { inversion H; subst. apply ledger_same. reflexivity. }
  destruct (ensure_for_entity _ (w_archs w) (w_tid w)) as [[archs1 tid1]|] eqn:Eens;
    cbn [obind] in H; [|discriminate].
  destruct (find_arch _ archs1) as [a|] eqn:Ea; cbn [obind] in H; [|discriminate].
  destruct (alloc_batch _ _ _ _ _) as [[[slots1 free1] ids]|] eqn:Eal; cbn [obind] in H; [|discriminate].
  inversion H; subst w' r evs. clear H.
  apply alloc_batch_length in Eal.
  destruct (ensure_for_entity_items _ _ _ _ _ (inv_nodup HI) Eens) as [Hit ND1].
  match goal with
  | |- context [upd_arch ?sh ?f archs1] => pose proof (items_upd_arch sh f archs1 a ND1 Ea) as P
  end.
  cbv beta in P. rewrite rows_items_app in P.
  rewrite (extend_rows_items _ (fun rw => canon_vals (shape_of (w_n w) comps) (combine comps rw))
             ids (batch_rows comps rows0) Eal) in P.
  unfold ledger, owned, with_store. cbn [moved_in w_archs w_res w_n dropped cloned flat_map].
  rewrite <- Hit. split; [perm_lia | reflexivity].
Qed.

Lemma remove_ledger w e w' r evs :
  Inv w -> do_remove w e = Some (w', r, evs) -> ledger w (Remove e) w' r evs.
Proof.
  intros HI H. unfold do_remove in H.
  destruct (get_loc w e) as [[sh r0]|].
  2:{ inversion H; subst. apply ledger_same. reflexivity. }
  destruct (take_row sh r0 (w_archs w) (w_slots w)) as [[[archs1 slots1] rw]|] eqn:Et;
    cbn [obind] in H; [|discriminate].
  destruct (free_slot _ _ _) as [[slots2 free2]|]; cbn [obind] in H; [|discriminate].
  inversion H; subst w' r evs. clear H.
  destruct (take_row_items _ _ _ _ _ _ _ (inv_nodup HI) Et) as [P _].
  unfold ledger, owned, with_store. cbn [moved_in w_archs w_res].
  rewrite dropped_drops, cloned_drops. split; [perm_lia | reflexivity].
Qed.

Lemma write_like_ledger w sh r0 c v archs1 old :
  Inv w -> get_bit c sh = true ->
  set_value sh r0 c v (w_archs w) = Some (archs1, old) ->
  Permutation (owned w ++ [Comp c v])
    (owned (with_store w archs1 (w_tid w) (w_slots w) (w_free w) (w_len w)) ++
     dropped [Dropped c old]) /\ cloned [Dropped c old] = [].
Proof.
  intros HI Hb Es.
  pose proof (set_value_items _ _ _ _ _ _ _ (inv_nodup HI) Hb Es) as P.
  unfold owned, with_store. cbn [w_archs w_res dropped cloned flat_map].
  split; [perm_lia | reflexivity].
Qed.

Lemma entry_add_ledger w e c v w' r evs :
  Inv w -> do_entry_add w e c v = Some (w', r, evs) -> ledger w (EntryAdd e c v) w' r evs.
Proof.
  intros HI H. unfold do_entry_add in H.
  destruct (Nat.ltb c (w_n w)) eqn:Ec; cbn [negb] in H.
  2:{ inversion H; subst. apply ledger_same. reflexivity. }
  apply Nat.ltb_lt in Ec.
  destruct (get_loc w e) as [[sh r0]|] eqn:G.
  2:{ inversion H; subst. apply ledger_same. reflexivity. }
  destruct (get_bit c sh) eqn:Hb.
  - destruct (set_value sh r0 c v (w_archs w)) as [[archs1 old]|] eqn:Es;
      cbn [obind] in H; [|discriminate].
    inversion H; subst w' r evs. clear H.
    unfold ledger. cbn [moved_in]. eapply write_like_ledger; eauto.
  - destruct (take_row sh r0 (w_archs w) (w_slots w)) as [[[archs1 slots1] rw]|] eqn:Et;
      cbn [obind] in H; [|discriminate].
    destruct (move_row _ _ _ archs1 slots1) as [[archs2 slots2]|] eqn:Em;
      cbn [obind] in H; [|discriminate].
    inversion H; subst w' r evs. clear H.
    destruct (take_row_items _ _ _ _ _ _ _ (inv_nodup HI) Et) as [P ND1].
    pose proof (move_row_items _ _ _ _ _ _ _ ND1 Em) as Q.
    apply take_row_unfold in Et as (a & Ha & Hr & _).
    destruct (inv_shapes HI a (@find_arch_In _ _ _ Ha)) as [Hl Hrows].
    rewrite (@find_arch_shape _ _ _ Ha) in Hl, Hrows.
    pose proof (Hrows rw (nth_error_In _ _ Hr)) as Hvl.
    assert (Hc : c < length sh) by lia.
    pose proof (row_items_add sh c v (snd rw) Hc Hb Hvl) as R.
    unfold ledger, owned, with_store. cbn [moved_in w_archs w_res dropped cloned flat_map].
    split; [perm_lia | reflexivity].
Qed.

Lemma entry_remove_ledger w e c w' r evs :
  Inv w -> do_entry_remove w e c = Some (w', r, evs) -> ledger w (EntryRemove e c) w' r evs.
Proof.
  intros HI H. unfold do_entry_remove in H.
  destruct (Nat.ltb c (w_n w)) eqn:Ec; cbn [negb] in H.
  2:{ inversion H; subst. apply ledger_same. reflexivity. }
  destruct (get_loc w e) as [[sh r0]|] eqn:G.
  2:{ inversion H; subst. apply ledger_same. reflexivity. }
  destruct (get_bit c sh) eqn:Hb.
  2:{ inversion H; subst. apply ledger_same. reflexivity. }
  destruct (take_row sh r0 (w_archs w) (w_slots w)) as [[[archs1 slots1] rw]|] eqn:Et;
    cbn [obind] in H; [|discriminate].
  destruct (nth_error (snd rw) (rank c sh)) as [old|] eqn:Eo; cbn [obind] in H; [|discriminate].
  destruct (move_row _ _ _ archs1 slots1) as [[archs2 slots2]|] eqn:Em;
    cbn [obind] in H; [|discriminate].
  inversion H; subst w' r evs. clear H.
  destruct (take_row_items _ _ _ _ _ _ _ (inv_nodup HI) Et) as [P ND1].
  pose proof (move_row_items _ _ _ _ _ _ _ ND1 Em) as Q.
  pose proof (row_items_remove sh c old (snd rw) Hb Eo) as R.
  unfold ledger, owned, with_store. cbn [moved_in w_archs w_res dropped cloned flat_map].
  split; [perm_lia | reflexivity].
Qed.

Lemma write_ledger w e c v w' r evs :
  Inv w -> do_write w e c v = Some (w', r, evs) -> ledger w (WriteMut e c v) w' r evs.
Proof.
  intros HI H. unfold do_write in H.
  destruct (Nat.ltb c (w_n w)) eqn:Ec; cbn [negb] in H.
  2:{ inversion H; subst. apply ledger_same. reflexivity. }
  destruct (get_loc w e) as [[sh r0]|] eqn:G.
  2:{ inversion H; subst. apply ledger_same. reflexivity. }
  destruct (get_bit c sh) eqn:Hb.
  2:{ inversion H; subst. apply ledger_same. reflexivity. }
  destruct (set_value sh r0 c v (w_archs w)) as [[archs1 old]|] eqn:Es;
    cbn [obind] in H; [|discriminate].
  inversion H; subst w' r evs. clear H.
  unfold ledger. cbn [moved_in]. eapply write_like_ledger; eauto.
Qed.

Lemma reserve_ledger w comps w' r evs :
  Inv w -> do_reserve w comps = Some (w', r, evs) -> ledger w (Reserve comps) w' r evs.
Proof.
  intros HI H. unfold do_reserve in H.
  destruct (negb (wf_comps (w_n w) comps)).
  { inversion H; subst. apply ledger_same. reflexivity. }
  destruct (ensure_for_entity _ (w_archs w) (w_tid w)) as [[archs1 tid1]|] eqn:Eens;
    cbn [obind] in H; [|discriminate].
  inversion H; subst w' r evs. clear H.
  destruct (ensure_for_entity_items _ _ _ _ _ (inv_nodup HI) Eens) as [Hit ND1].
  unfold ledger, owned, with_store. cbn [moved_in w_archs w_res dropped cloned flat_map].
  rewrite Hit. split; reflexivity.
Qed.

Lemma shrink_ledger w w' r evs :
  do_shrink w = Some (w', r, evs) -> ledger w ShrinkToFit w' r evs.
Proof.
  intros H. unfold do_shrink in H. inversion H; subst w' r evs. clear H.
  unfold ledger, owned, with_store. cbn [moved_in w_archs w_res dropped cloned flat_map].
  rewrite items_filter_nonempty. split; reflexivity.
Qed.

Lemma res_set_ledger w i v w' r evs :
  do_res_set w i v = Some (w', r, evs) -> ledger w (ResSet i v) w' r evs.
Proof.
  intros H. unfold do_res_set in H.
  destruct (nth_error (w_res w) i) as [old|] eqn:Eo.
  2:{ inversion H; subst. apply ledger_same. reflexivity. }
  inversion H; subst w' r evs. clear H.
  pose proof (res_items_set (w_res w) i v old Eo) as P.
  unfold ledger, owned. cbn [moved_in w_archs w_res dropped cloned flat_map].
  split; [perm_lia | reflexivity].
Qed.

(** [do_clear]: loop invariant of [clear_archs]. *)
Lemma clear_arch_ledger sh archs slots free evs archs' slots' free' evs' :
  NoDup (map a_shape archs) ->
  clear_arch sh (archs, slots, free, evs) = Some (archs', slots', free', evs') ->
  Permutation (items archs ++ dropped evs) (items archs' ++ dropped evs') /\
  (cloned evs = [] -> cloned evs' = []) /\
  map a_shape archs' = map a_shape archs.
Proof.
  intros ND H. unfold clear_arch in H.
  destruct (find_arch sh archs) as [a|] eqn:Ea.
  2:{ inversion H; subst. split; [reflexivity|]. split; auto. }
  destruct (free_all _ slots free) as [[s1 f1]|]; cbn [obind] in H; [|discriminate].
  inversion H; subst archs' slots' free' evs'. clear H.
  pose proof (items_upd_arch sh (fun _ => []) archs a ND Ea) as P.
  cbv beta in P. rewrite rows_items_nil in P.
  rewrite dropped_app, cloned_app, dropped_arch_drops, cloned_arch_drops.
  rewrite (arch_items_found _ _ _ Ea).
  split; [perm_lia|]. split.
  - intros ->. reflexivity.
  - apply map_shape_upd_arch.
Qed.

Lemma clear_archs_ledger order : forall archs slots free evs archs' slots' free' evs',
  NoDup (map a_shape archs) ->
  clear_archs order (archs, slots, free, evs) = Some (archs', slots', free', evs') ->
  Permutation (items archs ++ dropped evs) (items archs' ++ dropped evs') /\
  (cloned evs = [] -> cloned evs' = []).
Proof.
  induction order as [|sh t IH]; intros archs slots free evs archs' slots' free' evs' ND H.
  - cbn in H. inversion H; subst. split; [reflexivity | auto].
  - cbn [clear_archs] in H.
    destruct (clear_arch sh (archs, slots, free, evs)) as [[[[a1 s1] f1] e1]|] eqn:E1;
      cbn [obind] in H; [|discriminate].
    destruct (clear_arch_ledger _ _ _ _ _ _ _ _ _ ND E1) as (P1 & C1 & M1).
    assert (ND1 : NoDup (map a_shape a1)) by (rewrite M1; exact ND).
    destruct (IH _ _ _ _ _ _ _ _ ND1 H) as (P2 & C2).
    split; [perm_lia | auto].
Qed.

Lemma clear_ledger w visit w' r evs :
  Inv w -> do_clear w visit = Some (w', r, evs) -> ledger w (Clear visit) w' r evs.
Proof.
  intros HI H. unfold do_clear in H.
  destruct (clear_archs_spec w (visit ++ map a_shape (w_archs w))
              (w_archs w) (w_slots w) (w_free w) [] (StInv_init w HI))
    as (a2 & s2 & f2 & e2 & H2 & HI2 & Hm2 & _ & Ho2).
  rewrite H2 in H. cbn [obind] in H. inversion H; subst w' r evs. clear H.
  destruct (clear_archs_ledger _ _ _ _ _ _ _ _ _ (inv_nodup HI) H2) as (P & C).
  assert (E : items a2 = []).
  { apply items_all_empty. intros a Ha. apply (Ho2 (a_shape a)).
    - apply in_or_app. right. rewrite <- Hm2. apply in_map. exact Ha.
    - apply In_find_arch; auto. apply (inv_nodup HI2). }
  unfold ledger, owned, with_store. cbn [moved_in w_archs w_res].
  rewrite E. cbn [dropped flat_map] in P. rewrite E in P.
  split; [perm_lia | apply C; reflexivity].
Qed.

(* conservation for every single-world operation *)
Theorem step_ledger : forall w o w' r evs, Inv w -> step w o = Some (w', r, evs) ->
  Permutation (owned w ++ moved_in (w_n w) o r) (owned w' ++ dropped evs) /\ cloned evs = [].
Proof.
  intros w o w' r evs HI H. change (ledger w o w' r evs). destruct o; cbn [step] in H.
  - apply insert_ledger; assumption.
  - apply extend_ledger; assumption.
  - apply remove_ledger; assumption.
  - exact (@clear_ledger w _ w' r evs HI H).
  - apply entry_add_ledger; assumption.
  - apply entry_remove_ledger; assumption.
  - apply write_ledger; assumption.
  - apply reserve_ledger; assumption.
  - apply shrink_ledger; assumption.
  - apply res_set_ledger; assumption.
Qed.

(** * Clone *)

Lemma dropped_flat_arch_clones l : dropped (flat_map arch_clones l) = [].
Proof.
  induction l as [|a t IH]; cbn [flat_map]; [reflexivity|].
  rewrite dropped_app, dropped_arch_clones, IH. reflexivity.
Qed.

Lemma cloned_flat_arch_clones l : cloned (flat_map arch_clones l) = items l.
Proof.
  induction l as [|a t IH]; cbn [flat_map]; [reflexivity|].
  rewrite cloned_app, cloned_arch_clones, IH. reflexivity.
Qed.

(* clone: nothing is dropped, the copy owns a clone of every value *)
Theorem clone_ledger : forall w w' evs, clone_world w = Some (w', evs) ->
  dropped evs = [] /\ Permutation (cloned evs) (owned w').
Proof.
  intros w w' evs H. unfold clone_world in H.
  destruct (refs_resolve (w_archs w) (w_tid w) (w_slots w)); [|discriminate].
  inversion H; subst w' evs. clear H.
  rewrite dropped_app, cloned_app, dropped_flat_arch_clones, dropped_res_clones,
    cloned_flat_arch_clones, cloned_res_clones.
  split; reflexivity.
Qed.

(** * Clone_from *)

Lemma merge_ledger src : forall dst evs d' evs',
  NoDup (map a_shape dst) ->
  merge_archs src dst evs = (d', evs') ->
  Permutation (items dst ++ items src ++ dropped evs) (items d' ++ dropped evs') /\
  cloned evs' = cloned evs ++ items src.
Proof.
  induction src as [|sa t IH]; intros dst evs d' evs' ND H.
  - cbn in H. inversion H; subst. cbn [flat_map app]. split; [reflexivity|].
    rewrite app_nil_r. reflexivity.
  - cbn [merge_archs] in H.
    destruct (find_arch (a_shape sa) dst) as [da|] eqn:E.
    + apply IH in H as [P C]; [|rewrite map_shape_upd_arch; exact ND].
      pose proof (items_upd_arch (a_shape sa) (fun _ => a_rows sa) dst da ND E) as Q.
      cbv beta in Q.
      rewrite !dropped_app, dropped_arch_drops, dropped_arch_clones in P.
      rewrite (arch_items_found _ _ _ E) in P.
      rewrite !cloned_app, cloned_arch_drops, cloned_arch_clones in C.
      cbn [flat_map]. rewrite (arch_items_eq sa) in *.
      split; [perm_lia|].
      rewrite C. cbn [app]. rewrite <- app_assoc. reflexivity.
    + apply IH in H as [P C].
      2:{ rewrite map_app. cbn [map]. apply NoDup_snoc; [exact ND|].
          apply find_arch_None. exact E. }
      rewrite !dropped_app, dropped_arch_clones in P.
      rewrite flat_map_app in P. cbn [flat_map] in P.
      rewrite !cloned_app, cloned_arch_clones in C.
      cbn [flat_map].
      split; [perm_lia|].
      rewrite C. rewrite <- app_assoc. reflexivity.
Qed.

Lemma detach_ledger src l :
  Permutation (items l)
    (items (fst (detach_others src l)) ++ dropped (snd (detach_others src l))) /\
  cloned (snd (detach_others src l)) = [].
Proof.
  unfold detach_others. cbn [fst snd].
  induction l as [|a t [P C]]; [cbn; split; reflexivity|].
  cbn [map flat_map].
  destruct (find_arch (a_shape a) src) as [sa|].
  - cbn [app]. split; [perm_lia | exact C].
  - rewrite dropped_app, cloned_app, dropped_arch_drops, cloned_arch_drops, C.
    rewrite arch_items_mk, rows_items_nil.
    split; [perm_lia | reflexivity].
Qed.

Lemma items_remove sh l :
  NoDup (map a_shape l) ->
  Permutation (items l) (rows_items sh (rows_of sh l) ++ items (remove_shape sh l)).
Proof.
  induction l as [|a t IH]; intros ND; [reflexivity|].
  cbn [map] in ND. inversion ND as [|? ? Hnin ND']; subst.
  unfold rows_of. rewrite CloneEq.find_arch_cons.
  unfold remove_shape. cbn [filter]. fold (remove_shape sh t).
  destruct (shape_eqb (a_shape a) sh) eqn:E; cbn [negb].
  - apply shape_eqb_eq in E. subst sh.
    rewrite remove_shape_notin by exact Hnin.
    cbn [flat_map]. rewrite (arch_items_eq a). reflexivity.
  - specialize (IH ND'). unfold rows_of in IH. cbn [flat_map]. perm_lia.
Qed.

(** Two tables that denote the same map shape ↦ rows own the same items. *)
Lemma items_ext l1 : forall l2,
  NoDup (map a_shape l1) -> NoDup (map a_shape l2) ->
  (forall sh, rows_of sh l1 = rows_of sh l2) ->
  Permutation (items l1) (items l2).
Proof.
  induction l1 as [|a t IH]; intros l2 ND1 ND2 HR.
  - rewrite (items_all_empty l2); [reflexivity|]. intros b Hb.
    specialize (HR (a_shape b)). unfold rows_of in HR.
    rewrite (In_find_arch l2 b ND2 Hb) in HR. cbn in HR. symmetry. exact HR.
  - cbn [map] in ND1. inversion ND1 as [|? ? Hnin ND1']; subst.
    pose proof (items_remove (a_shape a) l2 ND2) as P.
    rewrite <- (HR (a_shape a)) in P.
    unfold rows_of in P at 1. rewrite CloneEq.find_arch_cons, shape_eqb_refl in P.
    assert (Q : Permutation (items t) (items (remove_shape (a_shape a) l2))).
    { apply IH.
      - exact ND1'.
      - apply remove_shape_nodup. exact ND2.
      - intros sh. rewrite rows_of_remove_shape.
        destruct (shape_eqb sh (a_shape a)) eqn:E.
        + apply shape_eqb_eq in E. subst sh. unfold rows_of.
          assert (Ht : find_arch (a_shape a) t = None) by (apply find_arch_None; exact Hnin).
          rewrite Ht. reflexivity.
        + rewrite <- (HR sh). unfold rows_of. rewrite CloneEq.find_arch_cons.
          rewrite shape_eqb_sym in E. rewrite E. reflexivity. }
    cbn [flat_map]. rewrite (arch_items_eq a). perm_lia.
Qed.

(* clone_from: everything the destination owned is dropped, the result owns a clone of everything the source owns *)
Theorem clone_from_ledger : forall dst src w' evs, Inv dst -> Inv src -> w_n dst = w_n src ->
  clone_from_world dst src = Some (w', evs) ->
  Permutation (dropped evs) (owned dst) /\ Permutation (cloned evs) (owned src) /\ Permutation (owned w') (owned src).
Proof.
  intros dst src w' evs Id Is Hn H.
  unfold clone_from_world in H.
  destruct (refs_resolve (w_archs src) (w_tid src) (w_slots src)); cbn [negb] in H; [|discriminate].
  destruct (merge_archs (w_archs src) (w_archs dst) []) as [archs0 evs0] eqn:Em.
  destruct (detach_others (w_archs src) archs0) as [archs1 evs1] eqn:Ed.
  inversion H; subst w' evs. clear H.
  assert (Ha1 : archs1 = cf_archs (w_archs dst) (w_archs src)).
  { unfold cf_archs. rewrite Em. cbn [fst]. unfold detach_others in Ed.
    inversion Ed. reflexivity. }
  destruct (merge_ledger _ _ _ _ _ (inv_nodup Id) Em) as [P1 C1].
  destruct (detach_ledger (w_archs src) archs0) as [P2 C2].
  rewrite Ed in P2, C2. cbn [fst snd] in P2, C2.
  assert (P3 : Permutation (items archs1) (items (w_archs src))).
  { rewrite Ha1. apply items_ext.
    - apply cf_nodup. exact (inv_nodup Id).
    - exact (inv_nodup Is).
    - intros sh. apply cf_rows_of. exact (inv_nodup Is). }
  cbn [dropped cloned flat_map] in P1, C1. cbn [app] in C1.
  rewrite !dropped_app, !cloned_app, C1, C2,
    dropped_res_drops, dropped_res_clones, cloned_res_drops, cloned_res_clones.
  unfold owned. cbn [w_archs w_res].
  split; [perm_lia|]. split; perm_lia.
Qed.

(** * Whole histories *)

Lemma step_inv_local : forall w o w' r evs, Inv w -> step w o = Some (w', r, evs) -> Inv w'.
Proof.
  intros w o w' r evs HI H. destruct o; cbn [step] in H.
  - eapply do_insert_inv; eassumption.
  - eapply do_extend_inv; eassumption.
  - eapply do_remove_inv; eassumption.
  - eapply do_clear_inv; eassumption.
  - eapply do_entry_add_inv; eassumption.
  - eapply do_entry_remove_inv; eassumption.
  - eapply do_write_inv; eassumption.
  - eapply do_reserve_inv; eassumption.
  - eapply do_shrink_inv; eassumption.
  - eapply do_res_set_inv; eassumption.
Qed.

(* whole histories: owned-at-start + everything moved in = owned-at-end + everything dropped *)
Fixpoint run_ledger (w : world) (ops : list op) : option (world * list item * list item) :=
  match ops with
  | [] => Some (w, [], [])
  | o :: t => match step w o with
              | Some (w1, r, evs) =>
                  match run_ledger w1 t with
                  | Some (w2, ins, drs) => Some (w2, moved_in (w_n w) o r ++ ins, dropped evs ++ drs)
                  | None => None
                  end
              | None => None
              end
  end.

Theorem run_ledger_conserves : forall ops w w' ins drs, Inv w -> run_ledger w ops = Some (w', ins, drs) ->
  Permutation (owned w ++ ins) (owned w' ++ drs).
Proof.
  induction ops as [|o t IH]; intros w w' ins drs HI H; cbn [run_ledger] in H.
  - inversion H; subst. reflexivity.
  - destruct (step w o) as [[[w1 r] evs]|] eqn:E; [|discriminate].
    destruct (run_ledger w1 t) as [[[w2 ins1] drs1]|] eqn:E2; [|discriminate].
    inversion H; subst w' ins drs. clear H.
    destruct (step_ledger w o w1 r evs HI E) as [P1 _].
    pose proof (IH w1 w2 ins1 drs1 (step_inv_local w o w1 r evs HI E) E2) as P2.
    perm_lia.
Qed.

Print Assumptions step_ledger.
Print Assumptions clone_ledger.
Print Assumptions clone_from_ledger.
Print Assumptions run_ledger_conserves.

(* dropping a world drops exactly what it owns, each value once, and clones nothing *)
Lemma dropped_flat_arch_drops l : dropped (flat_map arch_drops l) = flat_map arch_items l.
Proof.
  induction l as [|a t IH]; [reflexivity|]. cbn [flat_map].
  rewrite dropped_app, dropped_arch_drops, IH. reflexivity.
Qed.

Lemma cloned_flat_arch_drops l : cloned (flat_map arch_drops l) = [].
Proof.
  induction l as [|a t IH]; [reflexivity|]. cbn [flat_map].
  rewrite cloned_app, cloned_arch_drops, IH. reflexivity.
Qed.

Theorem drop_world_ledger : forall w, dropped (drop_world w) = owned w /\ cloned (drop_world w) = [].
Proof.
  intros w. unfold drop_world, owned.
  rewrite dropped_app, cloned_app, dropped_flat_arch_drops, cloned_flat_arch_drops,
    dropped_res_drops, cloned_res_drops. split; reflexivity.
Qed.

(* a whole life: a history from a new world, then the world is dropped:
   everything ever moved in (resources at creation, components by the operations)
   is dropped exactly once (as multisets: same values, same multiplicities) *)
Theorem life_ledger : forall n res ops w ins drs,
  run_ledger (empty_world n res) ops = Some (w, ins, drs) ->
  Permutation (res_items res ++ ins) (drs ++ dropped (drop_world w)).
Proof.
  intros n res ops w ins drs H.
  pose proof (run_ledger_conserves ops (empty_world n res) w ins drs (empty_world_inv n res) H) as P.
  destruct (drop_world_ledger w) as [D _]. rewrite D.
  unfold owned at 1 in P. cbn [empty_world w_archs w_res flat_map app] in P.
  eapply Permutation_trans; [exact P|]. apply Permutation_app_comm.
Qed.
Print Assumptions life_ledger.
