//! Instrumented components (registry R5) and resources.
//!
//! C0: 8-byte, C1: zero-sized, C2: over-aligned (32), C3: heap-owning, C4: 4-byte.
use crate::ledger::{callback, Kind};
use serde::{Deserialize, Deserializer, Serialize, Serializer};
use std::fmt;

pub trait Tok: Sized {
    const IDX: u8;
    fn new(tok: u64) -> Self;
    fn tok(&self) -> u64;
    /// Replace the payload without running Drop (used by systems that mutate in place).
    fn set_tok(&mut self, tok: u64);
}

macro_rules! common_impls {
    ($name:ident) => {
        impl Clone for $name {
            fn clone(&self) -> Self {
                callback(Kind::Clone, Self::IDX, self.tok());
                Self::raw(self.tok())
            }
        }
        impl Drop for $name {
            fn drop(&mut self) {
                callback(Kind::Drop, Self::IDX, self.tok());
            }
        }
        impl PartialEq for $name {
            fn eq(&self, other: &Self) -> bool {
                callback(Kind::Eq, Self::IDX, self.tok());
                self.tok() == other.tok()
            }
        }
        impl Eq for $name {}
        impl fmt::Debug for $name {
            fn fmt(&self, f: &mut fmt::Formatter<'_>) -> fmt::Result {
                callback(Kind::Dbg, Self::IDX, self.tok());
                write!(f, "{}({})", stringify!($name), self.tok())
            }
        }
        impl Serialize for $name {
            fn serialize<S: Serializer>(&self, s: S) -> Result<S::Ok, S::Error> {
                callback(Kind::Ser, Self::IDX, self.tok());
                s.serialize_u64(self.tok())
            }
        }
        impl<'de> Deserialize<'de> for $name {
            fn deserialize<D: Deserializer<'de>>(d: D) -> Result<Self, D::Error> {
                let t = u64::deserialize(d)?;
                callback(Kind::De, Self::IDX, Self::norm(t));
                Ok(Self::raw(Self::norm(t)))
            }
        }
    };
}

pub struct C0(pub u64);
pub struct C1;
#[repr(align(32))]
pub struct C2(pub u64);
pub struct C3(pub Box<u64>);
pub struct C4(pub u32);

macro_rules! tok_impl {
    ($name:ident, $idx:expr, $raw:expr, $get:expr, $set:expr, $norm:expr) => {
        impl $name {
            #[inline]
            fn raw(t: u64) -> Self {
                ($raw)(t)
            }
            #[inline]
            fn norm(t: u64) -> u64 {
                ($norm)(t)
            }
        }
        impl Tok for $name {
            const IDX: u8 = $idx;
            fn new(tok: u64) -> Self {
                let t = Self::norm(tok);
                callback(Kind::New, $idx, t);
                Self::raw(t)
            }
            fn tok(&self) -> u64 {
                ($get)(self)
            }
            fn set_tok(&mut self, tok: u64) {
                ($set)(self, Self::norm(tok))
            }
        }
        common_impls!($name);
    };
}

tok_impl!(C0, 0, |t| C0(t), |s: &C0| s.0, |s: &mut C0, t| s.0 = t, |t| t);
tok_impl!(C1, 1, |_t| C1, |_s: &C1| 0u64, |_s: &mut C1, _t| (), |_t| 0u64);
tok_impl!(C2, 2, |t| C2(t), |s: &C2| s.0, |s: &mut C2, t| s.0 = t, |t| t);
tok_impl!(C3, 3, |t| C3(Box::new(t)), |s: &C3| *s.0, |s: &mut C3, t| *s.0 = t, |t| t);
tok_impl!(C4, 4, |t| C4(t as u32), |s: &C4| s.0 as u64, |s: &mut C4, t| s.0 = t as u32, |t: u64| t & 0xffff_ffff);

pub struct RA(pub u64);
pub struct RB(pub u64);
tok_impl!(RA, 100, |t| RA(t), |s: &RA| s.0, |s: &mut RA, t| s.0 = t, |t| t);
tok_impl!(RB, 101, |t| RB(t), |s: &RB| s.0, |s: &mut RB, t| s.0 = t, |t| t);

pub type R5 = brood::Registry!(C0, C1, C2, C3, C4);
pub type Res2 = brood::Resources!(RA, RB);
pub type W5 = brood::World<R5, Res2>;
