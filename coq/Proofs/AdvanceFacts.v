(** C03 / C09: the column walk as the source performs it (advance read off the source) is the walk the
    query theorems are about. *)
From Brood Require Import Base World Kinds Tables Sched Query SubsetM Facts Advance BaseFacts.

Lemma walk_adv_true : forall bits k cols vs, walk_adv true k bits cols vs = walk k bits cols vs.
Proof.
  induction bits as [|b bs IH]; intros k cols vs; cbn [walk_adv walk]; [reflexivity|].
  destruct (kind_of k vs) as [kd|].
  - destruct (is_opt_kind kd).
    + destruct b.
      * destruct cols as [|c cs]; [reflexivity|]. cbn [step_cols tl]. rewrite IH. reflexivity.
      * rewrite IH. reflexivity.
    + destruct cols as [|c cs]; [reflexivity|]. destruct b; [|reflexivity]. cbn [step_cols tl]. rewrite IH. reflexivity.
  - destruct b.
    + destruct cols as [|c cs]; [reflexivity|]. cbn [step_cols tl]. apply IH.
    + apply IH.
Qed.

Theorem walk_src_is_walk k bits cols vs : walk_src k bits cols vs = walk k bits cols vs.
Proof. unfold walk_src. change fact_views_consume_one_column_per_present_component with true. apply walk_adv_true. Qed.

(** a walk that forgets to advance hands the SAME column to two views *)
Lemma walk_without_advance_aliases :
  walk_adv false 0 [true; true] [11%N; 22%N] [VComp KOptMut 0; VComp KRef 1] = Some [(0, QOpt (Some 11%N)); (1, QVal 11%N)] /\
  walk_adv true 0 [true; true] [11%N; 22%N] [VComp KOptMut 0; VComp KRef 1] = Some [(0, QOpt (Some 11%N)); (1, QVal 22%N)].
Proof. vm_compute. split; reflexivity. Qed.
