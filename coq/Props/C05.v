(** C05 — No safe call sequence corrupts or misuses memory in the column store.
    Property theorems only; proofs are in Proofs/{StepInv,QueryFacts,SerdeCFacts,PhysFacts}.v.
    What is proved: (a) at the logical layer every [get_unchecked(_mut)],
    [unwrap_unchecked] and [unreachable_unchecked] of the allocator, the archetype
    table and the world operations is a checked access in the model, and no history
    ever fails one; (b) a query never selects a column for a view other than the
    one holding that component; (c) at the cell level the structural column
    operations keep "the first [length] cells of every column hold live values",
    which is what makes the reconstruction [Vec::from_raw_parts(ptr, length, cap)]
    sound, and dropping such a store drops nothing twice.
    (d) at the allocation level (Model/Heap.v) a store of any number of columns
    sharing one heap, each kept as raw parts (address, capacity) next to a length
    and rebuilt around every call, under every history of push / reserve /
    shrink_to_fit / set_len / free and for every answer of the growth oracle:
    every rebuild finds a live block of the right element type and of exactly
    the capacity passed (so every release and resize uses the creation layout),
    no block is released twice, no two columns share a block, every block has an
    owner, and releasing every column leaves the heap empty — given that pointer
    and capacity are stored back after each capacity-changing call, which is read
    off the source on every run (Gen/Facts.v [fact_wb_*], one per call site) and
    shown necessary by three refuting histories.
    (e) the shape-changing path of Entry::add / Entry::remove at the byte level
    (Model/Packed.v): the row travels through a packed, unaligned byte buffer and
    the new identifier bytes are computed from the old ones by byte arithmetic
    that is REGENERATED from the source (Gen/Bytes.v); for every registry size,
    every component sizes (zero-sized included), every shape and row: every read
    from the buffer finds exactly the bytes of one value of the type read (no
    reinterpretation, nothing past the end), the new identifier is the old one
    with exactly that bit set / cleared, and the row that reaches the new
    archetype and the value dropped last are the ones the logical layer
    (Model/World.v: insert_at / remove_at at the rank) says.
    PARTIAL (carried by the correspondence, not by a theorem): the size/alignment
    of the concrete component types and the lifetime of the identifier buffers
    are audited on the real code by the harness's global allocator after every
    operation and at the end of every history. *)
From Brood Require Import SerdeC IdIter IdIterFacts.
From Brood Require Import Base World Multi Spec Kinds Tables Sched Query SerdeC Phys
  BaseFacts Inv StepInv QueryFacts SerdeL SerdeCFacts PhysFacts Heap HeapFacts ColsFacts Bytes Packed PackedFacts.

Theorem C05_unchecked_accesses : forall n res ops, run (empty_world n res) ops <> None.
Proof. intros n res ops. exact (run_safe ops (empty_world n res) (empty_world_inv n res)). Qed.
Check (C05_unchecked_accesses : forall n res ops, run (empty_world n res) ops <> None).
Print Assumptions C05_unchecked_accesses.

Theorem C05_unchecked_accesses_from : forall w ops, Inv w -> run w ops <> None.
Proof. intros w ops HI. exact (run_safe ops w HI). Qed.
Check (C05_unchecked_accesses_from : forall w ops, Inv w -> run w ops <> None).
Print Assumptions C05_unchecked_accesses_from.

(** a deserialized world is as safe as any other *)
Theorem C05_after_deserialize : forall n archs len free res w ops,
  de_content n archs len free res = inr w -> run w ops <> None.
Proof. intros n archs len free res w ops E. apply run_safe. eapply de_content_inv. exact E. Qed.
Print Assumptions C05_after_deserialize.

(** views read the column of their own component, never another one, and never a missing one *)
Theorem C05_views_read_their_column : forall w vs f, Inv w -> wf_views (w_n w) vs ->
  query_impl w vs f <> None.
Proof. intros w vs f HI WF. rewrite (query_impl_spec w vs f HI WF). discriminate. Qed.
Check (C05_views_read_their_column : forall w vs f, Inv w -> wf_views (w_n w) vs -> query_impl w vs f <> None).
Print Assumptions C05_views_read_their_column.

(** cell level: what the logical layer stores is a clean column store ... *)
Theorem C05_store_clean : forall a spare,
  (forall rw, In rw (a_rows a) -> length (snd rw) = count_true (a_shape a)) -> Clean (parch_of a spare).
Proof. exact parch_of_clean. Qed.
Print Assumptions C05_store_clean.

(** ... kept clean by the in-place operations (the shared length is what every later
    [from_raw_parts] uses) ... *)
Theorem C05_remove_keeps_clean : forall a i a' evs p, Clean a -> p_remove_row a i None = Some (a', evs, p) ->
  p = false /\ Clean a' /\ pa_len a' = pa_len a - 1 /\ double_drops evs = [].
Proof. exact remove_row_clean. Qed.
Print Assumptions C05_remove_keeps_clean.

Theorem C05_set_keeps_clean : forall a r c v f a' evs p, Clean a -> p_set a r c v f = Some (a', evs, p) ->
  Clean a' /\ double_drops evs = [].
Proof. exact set_keeps_clean. Qed.
Print Assumptions C05_set_keeps_clean.

Theorem C05_clear_keeps_clean : forall a a' evs p, Clean a -> p_clear a None = (a', evs, p) ->
  p = false /\ pa_len a' = 0 /\ double_drops evs = [].
Proof. exact clear_clean. Qed.
Print Assumptions C05_clear_keeps_clean.

(** ... and releasing a clean store releases every value once. *)
Theorem C05_drop_clean : forall a f, Clean a -> double_drops (fst (p_drop_arch a f)) = [].
Proof. intros a f H. exact (drop_clean_no_double a f H). Qed.
Print Assumptions C05_drop_clean.


(** allocation level: every history of column operations, with the write-backs the source performs *)
Theorem C05_columns_never_misuse_the_heap : forall ops,
  exists s', crun wb_push wb_reserve wb_shrink cinit ops = Some s' /\ CInv s'.
Proof. exact columns_safe_src. Qed.
Check (C05_columns_never_misuse_the_heap : forall ops,
  exists s', crun wb_push wb_reserve wb_shrink cinit ops = Some s' /\ CInv s').
Print Assumptions C05_columns_never_misuse_the_heap.

Theorem C05_columns_from : forall s ops, CInv s -> exists s', crun true true true s ops = Some s' /\ CInv s'.
Proof. intros s ops H. exact (crun_inv ops s H). Qed.
Print Assumptions C05_columns_from.

(** all memory obtained is returned once every column has been released *)
Theorem C05_all_memory_returned : forall s, CInv s -> exists s', free_all s = Some s' /\ hp_blocks (fst s') = [].
Proof. exact free_all_returns_everything. Qed.
Check (C05_all_memory_returned : forall s, CInv s -> exists s', free_all s = Some s' /\ hp_blocks (fst s') = []).
Print Assumptions C05_all_memory_returned.

(** each write-back is necessary: dropping it reaches the UB outcome (stale pointer or capacity) *)
Theorem C05_writeback_needed :
  crun false true true cinit stale_push = None /\ crun true false true cinit stale_reserve = None /\
  crun true true false cinit stale_shrink = None.
Proof. exact (conj wb_push_needed (conj wb_reserve_needed wb_shrink_needed)). Qed.
Print Assumptions C05_writeback_needed.

Example C05_columns_nonvacuous : exists s', crun wb_push wb_reserve wb_shrink cinit stale_shrink = Some s' /\ hp_blocks (fst s') = [].
Proof. vm_compute. eexists. split; reflexivity. Qed.


(** byte level: Entry::add moves the row through the packed buffer without reinterpreting a byte *)
Theorem C05_entry_add_through_the_buffer : forall sizes n bytes row c v,
  let sh := shape_of_bytes' n bytes in
  c < n -> length bytes = (n + 7) / 8 -> get_bit c sh = false -> row_ok sizes sh row ->
  phys_entry_add sizes n bytes row c v = Some (add_bytes c bytes, insert_at (rank c (set_bit c true sh)) v row) /\
  shape_of_bytes' n (add_bytes c bytes) = set_bit c true sh.
Proof. exact phys_entry_add_refines. Qed.
Check (C05_entry_add_through_the_buffer : forall sizes n bytes row c v,
  let sh := shape_of_bytes' n bytes in
  c < n -> length bytes = (n + 7) / 8 -> get_bit c sh = false -> row_ok sizes sh row ->
  phys_entry_add sizes n bytes row c v = Some (add_bytes c bytes, insert_at (rank c (set_bit c true sh)) v row) /\
  shape_of_bytes' n (add_bytes c bytes) = set_bit c true sh).
Print Assumptions C05_entry_add_through_the_buffer.

(** ... and Entry::remove: the other components reach the new archetype, and the value read at the offset the
    masked identifier gives — the one dropped — is the removed component's own *)
Theorem C05_entry_remove_through_the_buffer : forall sizes n bytes row c,
  let sh := shape_of_bytes' n bytes in
  c < n -> length bytes = (n + 7) / 8 -> get_bit c sh = true -> row_ok sizes sh row ->
  exists old, nth_error row (rank c sh) = Some old /\
    phys_entry_remove sizes n bytes row c = Some (remove_bytes c bytes, remove_at (rank c sh) row, old) /\
    shape_of_bytes' n (remove_bytes c bytes) = set_bit c false sh.
Proof. exact phys_entry_remove_refines. Qed.
Check (C05_entry_remove_through_the_buffer : forall sizes n bytes row c,
  let sh := shape_of_bytes' n bytes in
  c < n -> length bytes = (n + 7) / 8 -> get_bit c sh = true -> row_ok sizes sh row ->
  exists old, nth_error row (rank c sh) = Some old /\
    phys_entry_remove sizes n bytes row c = Some (remove_bytes c bytes, remove_at (rank c sh) row, old) /\
    shape_of_bytes' n (remove_bytes c bytes) = set_bit c false sh).
Print Assumptions C05_entry_remove_through_the_buffer.

(** the masking loop of Entry::remove, as generated from the source, keeps exactly the preceding components *)
Theorem C05_mask_keeps_the_preceding_components : forall n bytes c, c <= n -> length bytes = (n + 7) / 8 ->
  shape_of_bytes' n (mask_bytes c bytes) = mask_shape c (shape_of_bytes' n bytes).
Proof. exact shape_mask_bytes. Qed.
Print Assumptions C05_mask_keeps_the_preceding_components.

(** what the drop at the end of Entry::remove uses is what the theorem is about (read off the source) *)
Theorem C05_remove_drop_site_facts :
  fact_mask_feeds_size_of_components = true /\ fact_drop_reads_at_offset = true /\ fact_mask_from_previous_identifier = true.
Proof. vm_compute. repeat split. Qed.

Example C05_buffer_nonvacuous :
  let sizes := [8; 0; 4; 1; 8; 8; 2; 0; 4; 16] in
  phys_entry_remove sizes 10 [5%N; 2%N] [11%N; 12%N; 13%N] 2 = Some ([1%N; 2%N], [11%N; 13%N], 12%N).
Proof. vm_compute. reflexivity. Qed.


(** batch adoption (World::extend): a caller's Vec becomes a column only where the column is empty and owns no
    allocation (read off the source); then the store stays sound, and every block still has its owner *)
Theorem C05_batch_adoption : forall s i vals spare want, CInv s ->
  exists s', cextend_src s i vals spare want = Some s' /\ CInv s'.
Proof. exact cextend_src_inv. Qed.
Check (C05_batch_adoption : forall s i vals spare want, CInv s ->
  exists s', cextend_src s i vals spare want = Some s' /\ CInv s').
Print Assumptions C05_batch_adoption.

(** ... and the capacity test is needed: a column emptied by clear (length 0, capacity kept) would lose its block *)
Theorem C05_adoption_needs_the_capacity_test :
  match crun true true true cinit adopt_leak_history with
  | Some s => match cextend false s 0 [7%N] 0 0 with
              | Some s' => match free_all s' with Some s'' => length (hp_blocks (fst s'')) | None => 99 end
              | None => 99 end
  | None => 99
  end = 1.
Proof. exact adopt_without_guard_leaks. Qed.

(** The identifier bit iterator ([archetype::identifier::Iter], the walk every column operation is driven
    by): with its four decisions regenerated from the source (Gen/Bytes.v) it returns, for every registry
    size and every identifier of that size, exactly the bits the rest of the model reads off the identifier
    bytes — so a column is never taken for the column of another component — and it never moves its pointer
    past the last byte of the identifier's allocation. *)
Theorem C05_identifier_iterator : forall n bytes, length bytes = (n + 7) / 8 ->
  iter_run n bytes = Some (shape_of_bytes n bytes).
Proof. exact iter_run_is_shape. Qed.
Check (C05_identifier_iterator : forall n bytes, length bytes = (n + 7) / 8 ->
  iter_run n bytes = Some (shape_of_bytes n bytes)).
Print Assumptions C05_identifier_iterator.
