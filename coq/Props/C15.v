(** C15 — Resources are addressed by type and untouched by entity operations.
    Property theorems only; proofs in Proofs/Refine.v, Proofs/CloneEq.v, Proofs/SerdeL.v. *)
From Brood Require Import Base World Multi Spec BaseFacts Inv Refine CloneEq SerdeL Res ResFacts ResOrder ResOrderFacts.

(** Frame: no entity operation alters, duplicates or loses a resource; a write
    through get_mut at position i changes position i only. *)
Theorem C15_frame : forall w o w' r evs, step w o = Some (w', r, evs) ->
  w_res w' = spec_res (w_res w) o.
Proof. exact step_res. Qed.
Check (C15_frame : forall w o w' r evs, step w o = Some (w', r, evs) ->
  w_res w' = spec_res (w_res w) o).
Print Assumptions C15_frame.

Theorem C15_write_visible : forall res i v j, i < length res ->
  nth_error (spec_res res (ResSet i v)) j = if Nat.eqb j i then Some v else nth_error res j.
Proof.
  intros res i v j Hi. cbn [spec_res]. rewrite nth_error_upd.
  destruct (Nat.eqb j i) eqn:E; [|reflexivity].
  apply Nat.eqb_eq in E; subst j.
  destruct (nth_error res i) eqn:E2; [reflexivity|]. apply nth_error_None in E2. lia.
Qed.
Check (C15_write_visible : forall res i v j, i < length res ->
  nth_error (spec_res res (ResSet i v)) j = if Nat.eqb j i then Some v else nth_error res j).
Print Assumptions C15_write_visible.

(** clone copies, clone_from replaces, the serde round trip preserves. *)
Theorem C15_clone : forall w w' evs, clone_world w = Some (w', evs) -> w_res w' = w_res w.
Proof. intros w w' evs E. rewrite (clone_world_same _ _ _ E). reflexivity. Qed.
Check (C15_clone : forall w w' evs, clone_world w = Some (w', evs) -> w_res w' = w_res w).
Print Assumptions C15_clone.

Theorem C15_clone_from : forall dst src w' evs, Inv dst -> Inv src -> w_n dst = w_n src ->
  clone_from_world dst src = Some (w', evs) -> w_res w' = w_res src.
Proof.
  intros dst src w' evs Hd Hs Hn E.
  destruct (clone_from_content _ _ _ _ Hd Hs Hn E) as (_ & _ & _ & R & _). exact R.
Qed.
Check (C15_clone_from : forall dst src w' evs, Inv dst -> Inv src -> w_n dst = w_n src ->
  clone_from_world dst src = Some (w', evs) -> w_res w' = w_res src).
Print Assumptions C15_clone_from.

Theorem C15_serde : forall w s w', Inv w -> ser_world w = Some s -> de_world (w_n w) s = inr w' ->
  w_res w' = w_res w.
Proof.
  intros w s w' HI E D. rewrite (de_ser_roundtrip HI E) in D. inversion D; reflexivity.
Qed.
Check (C15_serde : forall w s w', Inv w -> ser_world w = Some s -> de_world (w_n w) s = inr w' ->
  w_res w' = w_res w).
Print Assumptions C15_serde.

(** get / get_mut address the resource by its position in the list (the type-level index),
    and a write through get_mut is what every later read sees, at that position only. *)
Theorem C15_get : forall res i, res_get res i = nth_error res i.
Proof. exact res_get_nth. Qed.
Check (C15_get : forall res i, res_get res i = nth_error res i).
Print Assumptions C15_get.

Theorem C15_get_set : forall res i j v, i < length res ->
  res_get (res_set res i v) j = if Nat.eqb j i then Some v else res_get res j.
Proof. exact res_get_set. Qed.
Check (C15_get_set : forall res i j v, i < length res ->
  res_get (res_set res i v) j = if Nat.eqb j i then Some v else res_get res j).
Print Assumptions C15_get_set.

(** view_resources (canonical views in list order, then Reshape by successive Get):
    for every duplicate-free request, in whatever order, position j of the result is the
    j-th requested resource.  (Which of these orders type-check is [C15_every_order_accepted] below.) *)
Theorem C15_views : forall res req, NoDup req -> (forall i, In i req -> i < length res) ->
  exists out, view_resources res req = Some out /\ length out = length req /\
    forall j i, nth_error req j = Some i -> nth_error out j = res_get res i.
Proof. exact view_resources_spec. Qed.
Check (C15_views : forall res req, NoDup req -> (forall i, In i req -> i < length res) ->
  exists out, view_resources res req = Some out /\ length out = length req /\
    forall j i, nth_error req j = Some i -> nth_error out j = res_get res i).
Print Assumptions C15_views.

Example C15_example :
  view_resources [10%N; 11%N; 12%N; 13%N] [3; 0; 2] = Some [13%N; 10%N; 12%N] /\
  view_resources [10%N; 11%N; 12%N; 13%N] [] = Some [].
Proof. vm_compute. auto. Qed.

(** "In whatever order views are requested": every duplicate-free request of resources of the list
    type-checks, whatever its order ([Expanded] in resource/contains/views.rs, through which
    view_resources, the resource views of queries and of systems all go).  This is finding F15
    REPAIRED: the witness of each level's reshape is its own, which is read off the source
    ([fact_resource_reshape_indices_per_level]). *)
Lemma fact_per_level : fact_resource_reshape_indices_per_level = true.
Proof. reflexivity. Qed.

Theorem C15_every_order_accepted : forall rs vs, NoDup rs -> NoDup vs -> incl vs rs ->
  res_views_accepted rs vs = true.
Proof.
  intros rs vs H1 H2 H3. unfold res_views_accepted. rewrite fact_per_level. exact (expanded_complete rs vs H1 H2 H3).
Qed.
Check (C15_every_order_accepted : forall rs vs, NoDup rs -> NoDup vs -> incl vs rs ->
  res_views_accepted rs vs = true).
Print Assumptions C15_every_order_accepted.

(** ... and nothing outside the list is ever accepted. *)
Theorem C15_accepted_in_list : forall rs vs, res_views_accepted rs vs = true -> incl vs rs.
Proof. intros rs vs. exact (expanded_sound _ rs vs). Qed.
Print Assumptions C15_accepted_in_list.

(** As it was before the repair (the witness tied to the one of the remaining resources): rotations of
    three views are rejected; of the 24 orders of four views 8 type-check. *)
Theorem C15_orders_F15_before_the_repair :
  exists rs vs, NoDup rs /\ NoDup vs /\ incl vs rs /\ expanded false rs vs = false.
Proof.
  exists [0; 1; 2], [1; 2; 0].
  split; [repeat constructor; cbn; intuition lia|].
  split; [repeat constructor; cbn; intuition lia|].
  split; [intros y Hy; cbn in *; intuition|].
  exact (proj1 tied_witness_rejects_rotation).
Qed.
Print Assumptions C15_orders_F15_before_the_repair.
