(** Clone / clone_from produce exact copies; world equality is sound.
    (Properties "a cloned world is an exact copy" and "equality between worlds
    is sound".) *)
From Brood Require Import Base World Multi Spec BaseFacts Inv.
From Coq Require Import Permutation.

Definition rows_of (sh : shape) (archs : list arch) : list row :=
  match find_arch sh archs with Some a => a_rows a | None => [] end.

(** * Small generic facts *)

Lemma arch_eta a : mkArch (a_shape a) (a_rows a) = a.
Proof. destruct a; reflexivity. Qed.

Lemma find_arch_cons sh a t :
  find_arch sh (a :: t) = if shape_eqb (a_shape a) sh then Some a else find_arch sh t.
Proof. reflexivity. Qed.

Lemma find_arch_Some_In_shape sh archs a :
  find_arch sh archs = Some a -> In sh (map a_shape archs).
Proof.
  intros H. rewrite <- (@find_arch_shape sh archs a H).
  apply in_map. exact (@find_arch_In sh archs a H).
Qed.

Lemma In_shape_find_arch sh archs :
  In sh (map a_shape archs) -> exists a, find_arch sh archs = Some a.
Proof.
  intros H. destruct (find_arch sh archs) as [a|] eqn:E; [eauto|].
  apply find_arch_None in E. contradiction.
Qed.

Lemma NoDup_snoc A (l : list A) x : NoDup l -> ~ In x l -> NoDup (l ++ [x]).
Proof.
  intros ND Hn. apply (@Permutation_NoDup A (x :: l)).
  - apply Permutation_cons_append.
  - constructor; assumption.
Qed.

Lemma NoDup_map_filter A B (f : A -> B) (p : A -> bool) l :
  NoDup (map f l) -> NoDup (map f (filter p l)).
Proof.
  induction l as [|a t IH]; intros ND; cbn [filter map] in *; [constructor|].
  inversion ND as [|x l Hnin ND']; subst.
  destruct (p a); cbn [map]; [|apply IH; exact ND'].
  constructor; [|apply IH; exact ND'].
  intros Hin. apply Hnin. apply in_map_iff in Hin as [b [Hb1 Hb2]].
  apply filter_In in Hb2 as [Hb2 _]. apply in_map_iff. exists b. split; assumption.
Qed.

Lemma find_arch_map g l sh :
  (forall a, a_shape (g a) = a_shape a) ->
  find_arch sh (map g l) = option_map g (find_arch sh l).
Proof.
  intros Hg. unfold find_arch. induction l as [|a t IH]; cbn [map find]; [reflexivity|].
  rewrite Hg. destruct (shape_eqb (a_shape a) sh); [reflexivity | exact IH].
Qed.

Lemma rows_of_alt sh l :
  rows_of sh l = match option_map a_rows (find_arch sh l) with Some r => r | None => [] end.
Proof. unfold rows_of. destruct (find_arch sh l); reflexivity. Qed.

(** * [total_rows] only depends on the finite map shape ↦ rows *)

Definition remove_shape (sh : shape) (l : list arch) : list arch :=
  filter (fun a => negb (shape_eqb (a_shape a) sh)) l.

Lemma remove_shape_notin sh l : ~ In sh (map a_shape l) -> remove_shape sh l = l.
Proof.
  induction l as [|a t IH]; intros Hn; [reflexivity|].
  cbn [map] in Hn. unfold remove_shape. cbn [filter]. fold (remove_shape sh t).
  destruct (shape_eqb (a_shape a) sh) eqn:E.
  - apply shape_eqb_eq in E. exfalso. apply Hn. left. exact E.
  - cbn [negb]. rewrite IH; [reflexivity|]. intros H. apply Hn. right. exact H.
Qed.

Lemma remove_shape_nodup sh l :
  NoDup (map a_shape l) -> NoDup (map a_shape (remove_shape sh l)).
Proof. apply NoDup_map_filter. Qed.

Lemma find_remove_shape sh sh' l :
  find_arch sh' (remove_shape sh l) =
  if shape_eqb sh' sh then None else find_arch sh' l.
Proof.
  induction l as [|a t IH].
  - cbn. destruct (shape_eqb sh' sh); reflexivity.
  - unfold remove_shape. cbn [filter]. fold (remove_shape sh t).
    rewrite find_arch_cons.
    destruct (shape_eqb (a_shape a) sh) eqn:E1; cbn [negb].
    + rewrite IH. destruct (shape_eqb sh' sh) eqn:E2; [reflexivity|].
      destruct (shape_eqb (a_shape a) sh') eqn:E3; [|reflexivity].
      apply shape_eqb_eq in E1. apply shape_eqb_eq in E3. subst sh sh'.
      rewrite shape_eqb_refl in E2. discriminate.
    + rewrite find_arch_cons. rewrite IH.
      destruct (shape_eqb (a_shape a) sh') eqn:E3; [|reflexivity].
      apply shape_eqb_eq in E3. subst sh'. rewrite E1. reflexivity.
Qed.

Lemma rows_of_remove_shape sh sh' l :
  rows_of sh' (remove_shape sh l) = if shape_eqb sh' sh then [] else rows_of sh' l.
Proof.
  unfold rows_of. rewrite find_remove_shape. destruct (shape_eqb sh' sh); reflexivity.
Qed.

Lemma total_rows_remove sh l :
  NoDup (map a_shape l) ->
  total_rows l = length (rows_of sh l) + total_rows (remove_shape sh l).
Proof.
  induction l as [|a t IH]; intros ND; [reflexivity|].
  cbn [map] in ND. inversion ND as [|x l Hnin ND']; subst.
  unfold rows_of. rewrite find_arch_cons.
  unfold remove_shape. cbn [filter]. fold (remove_shape sh t).
  destruct (shape_eqb (a_shape a) sh) eqn:E; cbn [negb].
  - apply shape_eqb_eq in E. subst sh.
    rewrite remove_shape_notin by exact Hnin.
    rewrite total_rows_cons. reflexivity.
  - rewrite !total_rows_cons. rewrite (IH ND'). unfold rows_of. lia.
Qed.

Lemma total_rows_all_empty l :
  (forall a, In a l -> a_rows a = []) -> total_rows l = 0.
Proof.
  induction l as [|a t IH]; intros H; [reflexivity|].
  rewrite total_rows_cons. rewrite (H a) by (left; reflexivity).
  rewrite IH; [reflexivity|]. intros b Hb. apply H. right. exact Hb.
Qed.

(** Two tables that denote the same map shape ↦ rows hold the same number of
    rows (whatever their order and whatever empty archetypes they carry). *)
Lemma total_rows_ext l1 : forall l2,
  NoDup (map a_shape l1) -> NoDup (map a_shape l2) ->
  (forall sh, rows_of sh l1 = rows_of sh l2) ->
  total_rows l1 = total_rows l2.
Proof.
  induction l1 as [|a t IH]; intros l2 ND1 ND2 HR.
  - symmetry. apply total_rows_all_empty. intros b Hb.
    specialize (HR (a_shape b)). unfold rows_of in HR.
    rewrite (In_find_arch l2 b ND2 Hb) in HR. cbn in HR. symmetry. exact HR.
  - cbn [map] in ND1. inversion ND1 as [|x l Hnin ND1']; subst.
    rewrite total_rows_cons.
    rewrite (total_rows_remove (a_shape a) l2 ND2).
    rewrite <- (HR (a_shape a)).
    unfold rows_of at 1. rewrite find_arch_cons, shape_eqb_refl.
    f_equal. apply IH.
    + exact ND1'.
    + apply remove_shape_nodup. exact ND2.
    + intros sh. rewrite rows_of_remove_shape.
      destruct (shape_eqb sh (a_shape a)) eqn:E.
      * apply shape_eqb_eq in E. subst sh. unfold rows_of.
        assert (Ht : find_arch (a_shape a) t = None) by (apply find_arch_None; exact Hnin).
        rewrite Ht. reflexivity.
      * rewrite <- (HR sh). unfold rows_of. rewrite find_arch_cons.
        rewrite shape_eqb_sym in E. rewrite E. reflexivity.
Qed.

(** * [refs_resolve] holds under the invariant *)

Lemma refs_resolve_inv w :
  Inv w -> refs_resolve (w_archs w) (w_tid w) (w_slots w) = true.
Proof.
  intros H. unfold refs_resolve. apply andb_true_iff. split.
  - apply forallb_forall. intros sh Hin.
    destruct (@inv_tid w H sh Hin) as [a Ha]. rewrite Ha. reflexivity.
  - apply forallb_forall. intros s Hin.
    destruct s as [g [[sh r]|]]; cbn [s_loc]; [|reflexivity].
    apply In_nth_error in Hin as [i Hi].
    destruct (@inv_fwd w H i g sh r Hi) as [a [vals [Ha _]]]. rewrite Ha. reflexivity.
Qed.

(** * Clone *)

Theorem clone_world_safe : forall w, Inv w -> clone_world w <> None.
Proof.
  intros w H. unfold clone_world. rewrite (refs_resolve_inv w H). discriminate.
Qed.

Theorem clone_world_same : forall w w' evs, clone_world w = Some (w', evs) -> w' = w.
Proof.
  intros w w' evs. unfold clone_world.
  destruct (refs_resolve (w_archs w) (w_tid w) (w_slots w)); [|discriminate].
  intros H. inversion H. reflexivity.
Qed.

(** * Clone_from: the archetype table of the result as a finite map *)

Lemma merge_nodup src : forall dst evs,
  NoDup (map a_shape dst) -> NoDup (map a_shape (fst (merge_archs src dst evs))).
Proof.
  induction src as [|sa t IH]; intros dst evs ND; cbn [merge_archs]; [exact ND|].
  destruct (find_arch (a_shape sa) dst) as [da|] eqn:E.
  - apply IH. rewrite map_shape_upd_arch. exact ND.
  - apply IH. rewrite map_app. cbn [map]. apply find_arch_None in E.
    apply NoDup_snoc; assumption.
Qed.

Lemma merge_find src : forall dst evs sh,
  NoDup (map a_shape src) ->
  find_arch sh (fst (merge_archs src dst evs)) =
  match find_arch sh src with Some a => Some a | None => find_arch sh dst end.
Proof.
  induction src as [|sa t IH]; intros dst evs sh ND; [reflexivity|].
  cbn [map] in ND. inversion ND as [|x l Hnin ND']; subst.
  cbn [merge_archs]. rewrite find_arch_cons.
  destruct (find_arch (a_shape sa) dst) as [da|] eqn:E.
  - rewrite (IH _ _ sh ND').
    destruct (shape_eqb (a_shape sa) sh) eqn:Es.
    + apply shape_eqb_eq in Es. subst sh.
      assert (Ht : find_arch (a_shape sa) t = None) by (apply find_arch_None; exact Hnin).
      rewrite Ht. rewrite find_upd_arch_same. rewrite E. cbn [option_map].
      rewrite (@find_arch_shape _ _ _ E). rewrite arch_eta. reflexivity.
    + destruct (find_arch sh t); [reflexivity|].
      apply find_upd_arch_other. apply shape_eqb_neq in Es. congruence.
  - rewrite (IH _ _ sh ND').
    destruct (shape_eqb (a_shape sa) sh) eqn:Es.
    + apply shape_eqb_eq in Es. subst sh.
      assert (Ht : find_arch (a_shape sa) t = None) by (apply find_arch_None; exact Hnin).
      rewrite Ht. rewrite find_arch_app. rewrite E.
      rewrite find_arch_cons, shape_eqb_refl. reflexivity.
    + destruct (find_arch sh t); [reflexivity|].
      rewrite find_arch_app. destruct (find_arch sh dst); [reflexivity|].
      rewrite find_arch_cons, Es. reflexivity.
Qed.

Definition detach_f (src : list arch) (a : arch) : arch :=
  match find_arch (a_shape a) src with
  | Some _ => a
  | None => mkArch (a_shape a) []
  end.

Lemma detach_f_shape src a : a_shape (detach_f src a) = a_shape a.
Proof. unfold detach_f. destruct (find_arch (a_shape a) src); reflexivity. Qed.

(** The archetype table [clone_from] leaves in the destination. *)
Definition cf_archs (dst src : list arch) : list arch :=
  map (detach_f src) (fst (merge_archs src dst [])).

Lemma cf_nodup dst src :
  NoDup (map a_shape dst) -> NoDup (map a_shape (cf_archs dst src)).
Proof.
  intros ND. unfold cf_archs. rewrite map_map.
  rewrite (map_ext _ a_shape (detach_f_shape src)).
  apply merge_nodup. exact ND.
Qed.

Lemma cf_find dst src sh :
  NoDup (map a_shape src) ->
  find_arch sh (cf_archs dst src) =
  match find_arch sh src with
  | Some a => Some a
  | None => match find_arch sh dst with
            | Some _ => Some (mkArch sh [])
            | None => None
            end
  end.
Proof.
  intros ND. unfold cf_archs.
  rewrite (find_arch_map (detach_f src) _ sh (detach_f_shape src)).
  rewrite (merge_find src _ _ sh ND).
  destruct (find_arch sh src) as [sa|] eqn:Es.
  - cbn [option_map]. unfold detach_f.
    rewrite (@find_arch_shape _ _ _ Es). rewrite Es. reflexivity.
  - destruct (find_arch sh dst) as [da|] eqn:Ed; cbn [option_map]; [|reflexivity].
    unfold detach_f. rewrite (@find_arch_shape _ _ _ Ed). rewrite Es. reflexivity.
Qed.

Lemma cf_rows_of dst src sh :
  NoDup (map a_shape src) ->
  rows_of sh (cf_archs dst src) = rows_of sh src.
Proof.
  intros ND. unfold rows_of. rewrite (cf_find dst src sh ND).
  destruct (find_arch sh src); [reflexivity|].
  destruct (find_arch sh dst); reflexivity.
Qed.

Lemma clone_from_unfold dst src w' evs :
  clone_from_world dst src = Some (w', evs) ->
  w' = mkWorld (w_n dst) (cf_archs (w_archs dst) (w_archs src))
               (union_tid (w_tid src) (w_tid dst))
               (w_slots src) (w_free src) (w_len src) (w_res src).
Proof.
  unfold clone_from_world, cf_archs.
  destruct (refs_resolve (w_archs src) (w_tid src) (w_slots src)); cbn [negb]; [|discriminate].
  destruct (merge_archs (w_archs src) (w_archs dst) []) as [archs0 evs0].
  unfold detach_others. cbn [fst]. intros H. inversion H. reflexivity.
Qed.

Theorem clone_from_safe : forall dst src, Inv src -> clone_from_world dst src <> None.
Proof.
  intros dst src H. unfold clone_from_world.
  rewrite (refs_resolve_inv src H). cbn [negb].
  destruct (merge_archs (w_archs src) (w_archs dst) []) as [archs0 evs0].
  unfold detach_others. discriminate.
Qed.

Theorem clone_from_inv : forall dst src w' evs, Inv dst -> Inv src -> w_n dst = w_n src ->
   clone_from_world dst src = Some (w', evs) -> Inv w'.
Proof.
  intros dst src w' evs Id Is Hn HC.
  apply clone_from_unfold in HC. subst w'.
  pose proof (@inv_nodup src Is) as NDs.
  pose proof (@inv_nodup dst Id) as NDd.
  pose proof (cf_nodup (w_archs dst) (w_archs src) NDd) as NDc.
  constructor; cbn [w_n w_archs w_tid w_slots w_free w_len w_res].
  - (* shapes *)
    intros a Ha.
    pose proof (In_find_arch _ a NDc Ha) as Hf.
    rewrite (cf_find (w_archs dst) (w_archs src) (a_shape a) NDs) in Hf.
    destruct (find_arch (a_shape a) (w_archs src)) as [sa|] eqn:Es.
    + inversion Hf; subst sa.
      destruct (@inv_shapes src Is a (@find_arch_In _ _ _ Es)) as [H1 H2].
      split; [rewrite Hn; exact H1 | exact H2].
    + destruct (find_arch (a_shape a) (w_archs dst)) as [da|] eqn:Ed; [|discriminate].
      inversion Hf as [Hf'].
      destruct (@inv_shapes dst Id da (@find_arch_In _ _ _ Ed)) as [H1 _].
      rewrite (@find_arch_shape _ _ _ Ed) in H1.
      split; [exact H1|].
      rewrite <- Hf'. cbn [a_rows]. intros rw [].
  - exact NDc.
  - (* fwd *)
    intros i g sh r Hs.
    destruct (@inv_fwd src Is i g sh r Hs) as [a [vals [Ha Hr]]].
    exists a, vals. split; [|exact Hr].
    rewrite (cf_find _ _ sh NDs). rewrite Ha. reflexivity.
  - (* bwd *)
    intros sh a r i g vals Hf Hr.
    rewrite (cf_find _ _ sh NDs) in Hf.
    destruct (find_arch sh (w_archs src)) as [sa|] eqn:Es.
    + inversion Hf; subst sa. exact (@inv_bwd src Is sh a r i g vals Es Hr).
    + destruct (find_arch sh (w_archs dst)); [|discriminate].
      inversion Hf; subst a. cbn [a_rows] in Hr. destruct r; discriminate.
  - exact (@inv_free_nodup src Is).
  - exact (@inv_free src Is).
  - rewrite (@inv_len src Is). symmetry.
    apply total_rows_ext; [exact NDc | exact NDs |].
    intros sh. apply cf_rows_of. exact NDs.
  - (* tid *)
    intros sh Hin. unfold union_tid in Hin. rewrite (cf_find _ _ sh NDs).
    apply in_app_or in Hin as [Hin|Hin].
    + destruct (@inv_tid dst Id sh Hin) as [da Hda]. rewrite Hda.
      destruct (find_arch sh (w_archs src)); eauto.
    + apply filter_In in Hin as [Hin _].
      destruct (@inv_tid src Is sh Hin) as [sa Hsa]. rewrite Hsa. eauto.
Qed.
