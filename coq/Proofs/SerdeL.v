(** Serialized content of a world: serialization is safe, deserialization
    inverts it, and every accepted input yields a world satisfying [Inv]. *)
From Brood Require Import Base World Multi BaseFacts Inv.

Set Implicit Arguments.

(** * Generic list facts *)

Lemma NoDup_app_intro A (l1 l2 : list A) :
  NoDup l1 -> NoDup l2 -> (forall x, In x l1 -> In x l2 -> False) -> NoDup (l1 ++ l2).
Proof.
  induction l1 as [|x t IH]; intros N1 N2 D; cbn [app]; [exact N2|].
  inversion N1 as [|? ? Hx N1']; subst.
  constructor.
  - intros Hin. apply in_app_or in Hin as [Hin|Hin].
    + contradiction.
    + apply (D x); [left; reflexivity | exact Hin].
  - apply IH; auto. intros y Hy1 Hy2. apply (D y); [right; exact Hy1 | exact Hy2].
Qed.

Lemma NoDup_app_elim A (l1 l2 : list A) :
  NoDup (l1 ++ l2) -> NoDup l1 /\ NoDup l2 /\ (forall x, In x l1 -> In x l2 -> False).
Proof.
  induction l1 as [|x t IH]; cbn [app]; intros N.
  - split; [constructor|]. split; [exact N|]. intros y [].
  - inversion N as [|? ? Hx N']; subst.
    destruct (IH N') as [N1 [N2 D]].
    split.
    + constructor; auto. intros Hin. apply Hx. apply in_or_app; left; exact Hin.
    + split; [exact N2|].
      intros y [->|Hy1] Hy2.
      * apply Hx. apply in_or_app; right; exact Hy2.
      * apply (D y); assumption.
Qed.

Lemma nth_error_ext_eq A : forall (l1 l2 : list A),
  (forall j, nth_error l1 j = nth_error l2 j) -> l1 = l2.
Proof.
  induction l1 as [|x t IH]; intros [|y u] H.
  - reflexivity.
  - specialize (H 0); discriminate.
  - specialize (H 0); discriminate.
  - f_equal.
    + specialize (H 0). cbn in H. congruence.
    + apply IH. intros j. exact (H (S j)).
Qed.

Lemma nth_error_repeat_inv A (x y : A) n j : nth_error (repeat x n) j = Some y -> y = x.
Proof. intros H. apply nth_error_In in H. apply repeat_spec in H. exact H. Qed.

(** * Forgetting the error code *)

Definition ok {E A} (x : E + A) : option A :=
  match x with inr a => Some a | inl _ => None end.

Lemma ok_inr E A (x : E + A) a : x = inr a <-> ok x = Some a.
Proof. destruct x; cbn; split; intros H; try discriminate; congruence. Qed.

(** * Placement as a fold over a list of (index, slot) items *)

Definition place_ok (i : nat) (s : slot) (v : list (option slot))
  : option (list (option slot)) :=
  match nth_error v i with
  | Some None => Some (upd i (fun _ => Some s) v)
  | _ => None
  end.

Fixpoint place_items (items : list (nat * slot)) (v : list (option slot))
  : option (list (option slot)) :=
  match items with
  | [] => Some v
  | (i, s) :: t =>
      match place_ok i s v with
      | Some v1 => place_items t v1
      | None => None
      end
  end.

Definition free_items (free : list eid) : list (nat * slot) :=
  map (fun e => (fst e, mkSlot (snd e) None)) free.

Fixpoint rows_items (sh : shape) (r : nat) (ids : list eid) : list (nat * slot) :=
  match ids with
  | [] => []
  | (i, g) :: t => (i, mkSlot g (Some (sh, r))) :: rows_items sh (S r) t
  end.

Definition archs_items (archs : list arch) : list (nat * slot) :=
  flat_map (fun a => rows_items (a_shape a) 0 (map fst (a_rows a))) archs.

Definition items_of (s : sworld) : list (nat * slot) :=
  free_items (sw_free s) ++ archs_items (sw_archs s).

Lemma ok_place i s e1 e2 v : ok (place i s e1 e2 v) = place_ok i s v.
Proof. unfold place, place_ok. destruct (nth_error v i) as [[x|]|]; reflexivity. Qed.

Lemma place_items_app a : forall b v,
  place_items (a ++ b) v =
  match place_items a v with Some v1 => place_items b v1 | None => None end.
Proof.
  induction a as [|[i s] t IH]; intros b v; cbn [app place_items]; [reflexivity|].
  destruct (place_ok i s v) as [v1|]; [apply IH | reflexivity].
Qed.

Lemma ok_place_free free : forall v,
  ok (place_free free v) = place_items (free_items free) v.
Proof.
  unfold free_items.
  induction free as [|[i g] t IH]; intros v; cbn [place_free map place_items fst snd];
    [reflexivity|].
  rewrite <- ok_place with (e1 := FreeOutOfBounds) (e2 := DupFree).
  destruct (place i (mkSlot g None) FreeOutOfBounds DupFree v) as [e|v1]; cbn [ok];
    [reflexivity | apply IH].
Qed.

Lemma ok_place_rows sh ids : forall r v,
  ok (place_rows sh r ids v) = place_items (rows_items sh r ids) v.
Proof.
  induction ids as [|[i g] t IH]; intros r v; cbn [place_rows rows_items place_items];
    [reflexivity|].
  rewrite <- ok_place with (e1 := ArchOutOfBounds) (e2 := DupArch).
  destruct (place i (mkSlot g (Some (sh, r))) ArchOutOfBounds DupArch v) as [e|v1]; cbn [ok];
    [reflexivity | apply IH].
Qed.

Lemma ok_place_archs archs : forall v,
  ok (place_archs archs v) = place_items (archs_items archs) v.
Proof.
  unfold archs_items.
  induction archs as [|a t IH]; intros v; cbn [place_archs flat_map place_items];
    [reflexivity|].
  rewrite place_items_app, <- ok_place_rows.
  destruct (place_rows (a_shape a) 0 (map fst (a_rows a)) v) as [e|v1]; cbn [ok];
    [reflexivity | apply IH].
Qed.

(** ** What a successful fold says *)

Lemma place_ok_Some i s v v1 :
  place_ok i s v = Some v1 <-> nth_error v i = Some None /\ v1 = upd i (fun _ => Some s) v.
Proof.
  unfold place_ok. destruct (nth_error v i) as [[x|]|]; split; intros H;
    try discriminate; try (exfalso; apply proj1 in H; discriminate).
  - inversion H; auto.
  - destruct H as [H0 H1]; rewrite H1; reflexivity.
Qed.

Lemma place_items_spec items : forall v v',
  place_items items v = Some v' ->
  length v' = length v /\
  NoDup (map fst items) /\
  (forall i s, In (i, s) items -> nth_error v i = Some None /\ nth_error v' i = Some (Some s)) /\
  (forall j, ~ In j (map fst items) -> nth_error v' j = nth_error v j).
Proof.
  induction items as [|[i s] t IH]; intros v v' H; cbn [place_items] in H.
  - inversion H; subst. split; [reflexivity|]. split; [constructor|].
    split; [intros i s []|]. intros j _; reflexivity.
  - destruct (place_ok i s v) as [v1|] eqn:E; [|discriminate].
    apply place_ok_Some in E as [Ei Ev1].
    destruct (IH v1 v' H) as [HL [HN [HI HO]]].
    assert (Hv1i : nth_error v1 i = Some (Some s)).
    { rewrite Ev1, nth_error_upd_same, Ei. reflexivity. }
    assert (Hnin : ~ In i (map fst t)).
    { intros Hin. apply in_map_iff in Hin as [[i' s'] [Efst Hin]]. cbn in Efst; subst i'.
      destruct (HI i s' Hin) as [Hnone _]. congruence. }
    cbn [map fst].
    split; [rewrite HL, Ev1; apply upd_length|].
    split; [constructor; assumption|].
    split.
    + intros i' s' [Heq|Hin].
      * inversion Heq; subst i' s'. split; [exact Ei|].
        rewrite (HO i Hnin). exact Hv1i.
      * destruct (HI i' s' Hin) as [Hnone Hsome]. split; [|exact Hsome].
        assert (Hne : i' <> i) by (intros ->; congruence).
        rewrite Ev1, nth_error_upd_other in Hnone by exact Hne. exact Hnone.
    + intros j Hj.
      assert (Hne : j <> i) by (intros ->; apply Hj; left; reflexivity).
      rewrite HO by (intros Hin; apply Hj; right; exact Hin).
      rewrite Ev1. apply nth_error_upd_other; exact Hne.
Qed.

Lemma place_items_ok items : forall v,
  NoDup (map fst items) ->
  (forall i, In i (map fst items) -> nth_error v i = Some None) ->
  exists v', place_items items v = Some v'.
Proof.
  induction items as [|[i s] t IH]; intros v N H; cbn [place_items].
  - eauto.
  - cbn [map fst] in N, H. inversion N as [|? ? Hnin N']; subst.
    assert (Ei : nth_error v i = Some None) by (apply H; left; reflexivity).
    unfold place_ok. rewrite Ei.
    apply IH; [exact N'|].
    intros j Hj.
    assert (Hne : j <> i) by (intros ->; contradiction).
    rewrite nth_error_upd_other by exact Hne. apply H; right; exact Hj.
Qed.

(** ** Folding over an empty vector and demanding every cell filled *)

Lemma all_some_map_fwd : forall v l, all_some v = Some l -> v = map Some l.
Proof.
  induction v as [|[s|] t IH]; intros l H; cbn [all_some] in H.
  - inversion H; reflexivity.
  - destruct (all_some t) as [r|] eqn:E; [|discriminate].
    inversion H; subst. cbn [map]. f_equal. apply IH; reflexivity.
  - discriminate.
Qed.

Lemma all_some_map_bwd : forall l, all_some (map Some l) = Some l.
Proof. induction l as [|s t IH]; cbn [map all_some]; [reflexivity | rewrite IH; reflexivity]. Qed.

Lemma nth_error_map_Some (v : list slot) j sl :
  nth_error (map Some v) j = Some (Some sl) <-> nth_error v j = Some sl.
Proof.
  rewrite nth_error_map. destruct (nth_error v j) as [x|]; cbn [option_map]; split; intros H;
    try discriminate; congruence.
Qed.

Lemma place_items_repeat items len v :
  place_items items (repeat None len) = Some (map Some v) ->
  length v = len /\
  NoDup (map fst items) /\
  (forall i sl, In (i, sl) items -> nth_error v i = Some sl) /\
  (forall i sl, nth_error v i = Some sl -> In (i, sl) items).
Proof.
  intros H. destruct (place_items_spec _ _ H) as [HL [HN [HI HO]]].
  rewrite map_length, repeat_length in HL.
  split; [exact HL|]. split; [exact HN|]. split.
  - intros i sl Hin. destruct (HI i sl Hin) as [_ Hs]. apply nth_error_map_Some; exact Hs.
  - intros i sl Hs.
    destruct (in_dec Nat.eq_dec i (map fst items)) as [Hin|Hnin].
    + apply in_map_iff in Hin as [[i' sl'] [Efst Hin]]. cbn in Efst; subst i'.
      destruct (HI i sl' Hin) as [_ Hs']. apply nth_error_map_Some in Hs'.
      assert (sl' = sl) by congruence. subst sl'. exact Hin.
    + exfalso. apply nth_error_map_Some in Hs. rewrite (HO i Hnin) in Hs.
      apply nth_error_repeat_inv in Hs. discriminate.
Qed.

Lemma place_items_repeat_ok items v :
  NoDup (map fst items) ->
  (forall i sl, In (i, sl) items -> nth_error v i = Some sl) ->
  (forall i sl, nth_error v i = Some sl -> In (i, sl) items) ->
  place_items items (repeat None (length v)) = Some (map Some v).
Proof.
  intros N Hf Hb.
  destruct (@place_items_ok items (repeat None (length v)) N) as [v' Hv'].
  { intros i Hin. apply in_map_iff in Hin as [[i' sl] [Efst Hin]]. cbn in Efst; subst i'.
    apply nth_error_repeat. apply nth_error_Some. rewrite (Hf i sl Hin). discriminate. }
  rewrite Hv'. f_equal.
  destruct (place_items_spec _ _ Hv') as [HL [_ [HI _]]].
  rewrite repeat_length in HL.
  apply nth_error_ext_eq. intros j.
  destruct (nth_error v j) as [sl|] eqn:E.
  - destruct (HI j sl (Hb j sl E)) as [_ Hs]. rewrite Hs. symmetry.
    apply nth_error_map_Some; exact E.
  - apply nth_error_None in E.
    assert (E1 : nth_error v' j = None) by (apply nth_error_None; lia).
    assert (E2 : nth_error (map Some v) j = None)
      by (apply nth_error_None; rewrite map_length; lia).
    congruence.
Qed.

(** * Membership in the item lists *)

Lemma In_free_items i s free :
  In (i, s) (free_items free) <-> exists g, In (i, g) free /\ s = mkSlot g None.
Proof.
  unfold free_items. rewrite in_map_iff. split.
  - intros [[i' g] [H1 H2]]. cbn [fst snd] in H1. inversion H1; subst. eauto.
  - intros [g [H1 ->]]. exists (i, g). auto.
Qed.

Lemma map_fst_free_items free : map fst (free_items free) = map fst free.
Proof. unfold free_items. rewrite map_map. apply map_ext. intros e; reflexivity. Qed.

Lemma In_rows_items sh i s : forall ids r0,
  In (i, s) (rows_items sh r0 ids) <->
  exists k g, nth_error ids k = Some (i, g) /\ s = mkSlot g (Some (sh, r0 + k)).
Proof.
  induction ids as [|[i' g'] t IH]; intros r0; cbn [rows_items In].
  - split; [tauto|]. intros [k [g [H _]]]. destruct k; discriminate.
  - rewrite IH. split.
    + intros [H|[k [g [H1 H2]]]].
      * inversion H; subst. exists 0, g'. split; [reflexivity|].
        rewrite Nat.add_0_r. reflexivity.
      * exists (S k), g. split; [exact H1|]. rewrite H2.
        replace (r0 + S k) with (S r0 + k) by lia. reflexivity.
    + intros [[|k] [g [H1 H2]]].
      * cbn [nth_error] in H1. inversion H1; subst. left.
        rewrite Nat.add_0_r. reflexivity.
      * right. exists k, g. split; [exact H1|]. rewrite H2.
        replace (r0 + S k) with (S r0 + k) by lia. reflexivity.
Qed.

Lemma nth_error_map_fst_rows (rows : list row) k i g :
  nth_error (map fst rows) k = Some (i, g) <->
  exists vals, nth_error rows k = Some ((i, g), vals).
Proof.
  rewrite nth_error_map. unfold row in *.
  destruct (nth_error rows k) as [[e vals]|]; cbn [option_map fst]; split.
  - intros H. inversion H; subst. eauto.
  - intros [vals' H]. inversion H; reflexivity.
  - discriminate.
  - intros [vals' H]; discriminate.
Qed.

Lemma In_archs_items i s archs :
  In (i, s) (archs_items archs) <->
  exists a r g vals, In a archs /\ nth_error (a_rows a) r = Some ((i, g), vals) /\
                     s = mkSlot g (Some (a_shape a, r)).
Proof.
  unfold archs_items. rewrite in_flat_map. split.
  - intros [a [Ha H]]. apply In_rows_items in H as [k [g [H1 H2]]].
    apply nth_error_map_fst_rows in H1 as [vals H1].
    exists a, k, g, vals. auto.
  - intros [a [r [g [vals [Ha [H1 H2]]]]]]. exists a. split; [exact Ha|].
    apply In_rows_items. exists r, g. split; [|exact H2].
    apply nth_error_map_fst_rows. eauto.
Qed.

(** * [insert_archs] *)

Lemma insert_archs_spec : forall archs acc r,
  NoDup (map a_shape acc) -> insert_archs archs acc = inr r ->
  r = acc ++ archs /\ NoDup (map a_shape (acc ++ archs)).
Proof.
  induction archs as [|a t IH]; intros acc r N H; cbn [insert_archs] in H.
  - inversion H; subst. rewrite app_nil_r. auto.
  - destruct (find_arch (a_shape a) acc) as [x|] eqn:E; [discriminate|].
    apply find_arch_None in E.
    assert (N1 : NoDup (map a_shape (acc ++ [a]))).
    { rewrite map_app. apply NoDup_app_intro; [exact N | cbn; constructor; [tauto|constructor] |].
      intros x Hx [<-|[]]. contradiction. }
    destruct (IH _ _ N1 H) as [Hr HN]. rewrite <- app_assoc in Hr, HN. auto.
Qed.

Lemma insert_archs_ok : forall archs acc,
  NoDup (map a_shape (acc ++ archs)) -> insert_archs archs acc = inr (acc ++ archs).
Proof.
  induction archs as [|a t IH]; intros acc N; cbn [insert_archs].
  - rewrite app_nil_r; reflexivity.
  - assert (E : find_arch (a_shape a) acc = None).
    { apply find_arch_None. rewrite map_app in N. apply NoDup_app_elim in N as [_ [_ D]].
      intros Hin. apply (D (a_shape a) Hin). left; reflexivity. }
    rewrite E.
    replace (acc ++ a :: t) with ((acc ++ [a]) ++ t) by (rewrite <- app_assoc; reflexivity).
    apply IH. rewrite <- app_assoc. exact N.
Qed.

(** * Characterisation of acceptance *)

Lemma de_world_inr n s w :
  de_world n s = inr w <->
  forallb (wf_sarch n) (sw_archs s) = true /\
  NoDup (map a_shape (sw_archs s)) /\
  exists v, place_items (items_of s) (repeat None (sw_length s)) = Some (map Some v) /\
            w = mkWorld n (sw_archs s) [] v (map fst (sw_free s))
                        (total_rows (sw_archs s)) (sw_res s).
Proof.
  unfold de_world, items_of. split.
  - intros H.
    destruct (forallb (wf_sarch n) (sw_archs s)) eqn:EW; cbn [negb] in H; [|discriminate].
    destruct (insert_archs (sw_archs s) []) as [e|archs] eqn:EI; [discriminate|].
    apply insert_archs_spec in EI as [EA HN]; [|constructor].
    cbn [app] in EA, HN. subst archs.
    destruct (place_free (sw_free s) (repeat None (sw_length s))) as [e|s1] eqn:E1;
      [discriminate|].
    destruct (place_archs (sw_archs s) s1) as [e|s2] eqn:E2; [discriminate|].
    destruct (all_some s2) as [slots|] eqn:E3; [|discriminate].
    inversion H; subst w.
    apply ok_inr in E1. rewrite ok_place_free in E1.
    apply ok_inr in E2. rewrite ok_place_archs in E2.
    apply all_some_map_fwd in E3. subst s2.
    split; [reflexivity|]. split; [exact HN|].
    exists slots. split; [|reflexivity].
    rewrite place_items_app, E1. exact E2.
  - intros [EW [HN [v [HP ->]]]].
    rewrite EW. cbn [negb].
    rewrite (@insert_archs_ok (sw_archs s) []) by exact HN. cbn [app].
    rewrite place_items_app in HP.
    destruct (place_items (free_items (sw_free s)) (repeat None (sw_length s))) as [s1|] eqn:E1;
      [|discriminate].
    rewrite <- ok_place_free in E1. apply ok_inr in E1. rewrite E1.
    rewrite <- ok_place_archs in HP. apply ok_inr in HP. rewrite HP.
    rewrite all_some_map_bwd. reflexivity.
Qed.

(** * Robustness *)

Theorem de_world_fields : forall n s w, de_world n s = inr w ->
  w_n w = n /\ w_res w = sw_res s /\ w_tid w = [] /\ w_free w = map fst (sw_free s) /\
  length (w_slots w) = sw_length s.
Proof.
  intros n s w H. apply de_world_inr in H as [_ [_ [v [HP ->]]]].
  apply place_items_repeat in HP as [HL _]. cbn. auto.
Qed.

Theorem de_world_inv : forall n s w, de_world n s = inr w -> Inv w.
Proof.
  intros n s w H. apply de_world_inr in H as [EW [HN [v [HP ->]]]].
  apply place_items_repeat in HP as [HL [HND [Hf Hb]]].
  unfold items_of in *.
  constructor; cbn [w_n w_archs w_tid w_slots w_free w_len w_res].
  - (* shapes *)
    intros a Ha. rewrite forallb_forall in EW. specialize (EW a Ha).
    unfold wf_sarch in EW. apply andb_true_iff in EW as [E1 E2].
    apply Nat.eqb_eq in E1. split; [exact E1|].
    intros rw Hrw. rewrite forallb_forall in E2. specialize (E2 rw Hrw).
    apply Nat.eqb_eq in E2. exact E2.
  - exact HN.
  - (* fwd *)
    intros i g sh r Hs. apply Hb in Hs. apply in_app_or in Hs as [Hs|Hs].
    + apply In_free_items in Hs as [g' [_ Hs]]. discriminate.
    + apply In_archs_items in Hs as [a [r' [g' [vals [Ha [Hr Hs]]]]]].
      inversion Hs; subst g' sh r'.
      exists a, vals. split; [|exact Hr]. apply In_find_arch; assumption.
  - (* bwd *)
    intros sh a r i g vals Hfa Hr. apply Hf. apply in_or_app; right.
    apply In_archs_items. exists a, r, g, vals.
    split; [eapply find_arch_In; exact Hfa|]. split; [exact Hr|].
    rewrite (find_arch_shape _ _ Hfa). reflexivity.
  - (* free nodup *)
    rewrite map_app in HND. apply NoDup_app_elim in HND as [N1 _].
    rewrite map_fst_free_items in N1. exact N1.
  - (* free *)
    intros i. split.
    + intros Hin. apply in_map_iff in Hin as [[i' g] [Efst Hin]]. cbn in Efst; subst i'.
      exists g. apply Hf. apply in_or_app; left. apply In_free_items. eauto.
    + intros [g Hs]. apply Hb in Hs. apply in_app_or in Hs as [Hs|Hs].
      * apply In_free_items in Hs as [g' [Hin _]].
        apply in_map_iff. exists (i, g'). auto.
      * apply In_archs_items in Hs as [a [r' [g' [vals [_ [_ Hs]]]]]]. discriminate.
  - reflexivity.
  - intros sh [].
Qed.

(** * Serialization of a world satisfying the invariant *)

Lemma ser_free_ok slots : forall free,
  (forall i, In i free -> exists s, nth_error slots i = Some s) ->
  exists fr, ser_free slots free = Some fr.
Proof.
  induction free as [|i t IH]; intros H; cbn [ser_free].
  - eauto.
  - destruct (H i) as [s Hs]; [left; reflexivity|]. rewrite Hs. cbn [obind].
    destruct IH as [fr Hfr]; [intros j Hj; apply H; right; exact Hj|].
    rewrite Hfr. cbn [obind]. eauto.
Qed.

Lemma ser_free_spec slots : forall free fr,
  ser_free slots free = Some fr ->
  map fst fr = free /\
  forall i g, In (i, g) fr -> exists s, nth_error slots i = Some s /\ s_gen s = g.
Proof.
  induction free as [|i t IH]; intros fr H; cbn [ser_free] in H.
  - inversion H; subst. split; [reflexivity|]. intros i g [].
  - destruct (nth_error slots i) as [s|] eqn:Es; cbn [obind] in H; [|discriminate].
    destruct (ser_free slots t) as [r|] eqn:Er; cbn [obind] in H; [|discriminate].
    inversion H; subst fr. destruct (IH r eq_refl) as [Hm Hg].
    split; [cbn [map fst]; rewrite Hm; reflexivity|].
    intros j g [Heq|Hin].
    + inversion Heq; subst. eauto.
    + apply Hg; exact Hin.
Qed.

Theorem ser_world_safe : forall w, Inv w -> ser_world w <> None.
Proof.
  intros w I. unfold ser_world.
  destruct (@ser_free_ok (w_slots w) (w_free w)) as [fr Hfr].
  { intros i Hi. apply (inv_free I) in Hi as [g Hg]. eauto. }
  rewrite Hfr. cbn [obind]. discriminate.
Qed.

(** * Distinctness of the row identifiers of a valid world *)

Lemma NoDup_rows_items (slots : list slot) sh : forall ids r0,
  (forall k i g, nth_error ids k = Some (i, g) ->
                 nth_error slots i = Some (mkSlot g (Some (sh, r0 + k)))) ->
  NoDup (map fst (rows_items sh r0 ids)).
Proof.
  induction ids as [|[i g] t IH]; intros r0 H; cbn [rows_items map fst].
  - constructor.
  - constructor.
    + intros Hin. apply in_map_iff in Hin as [[i' sl] [Efst Hin]]. cbn in Efst; subst i'.
      apply In_rows_items in Hin as [k [g' [H1 _]]].
      pose proof (H (S k) i g' H1) as A.
      pose proof (H 0 i g eq_refl) as B.
      rewrite A in B. inversion B. lia.
    + apply IH. intros k i' g' Hk.
      replace (S r0 + k) with (r0 + S k) by lia. apply H. exact Hk.
Qed.

Lemma NoDup_archs_items (slots : list slot) : forall archs,
  NoDup (map a_shape archs) ->
  (forall a r i g vals, In a archs -> nth_error (a_rows a) r = Some ((i, g), vals) ->
                        nth_error slots i = Some (mkSlot g (Some (a_shape a, r)))) ->
  NoDup (map fst (archs_items archs)).
Proof.
  induction archs as [|a t IH]; intros N H.
  - constructor.
  - cbn [map] in N. inversion N as [|? ? Hnin N']; subst.
    unfold archs_items. cbn [flat_map]. fold (archs_items t).
    rewrite map_app. apply NoDup_app_intro.
    + apply NoDup_rows_items with (slots := slots). intros k i g Hk.
      apply nth_error_map_fst_rows in Hk as [vals Hk].
      cbn [Nat.add]. eapply H; [left; reflexivity | exact Hk].
    + apply IH; [exact N'|]. intros a' r i g vals Ha'. apply H. right; exact Ha'.
    + intros x Hx1 Hx2.
      apply in_map_iff in Hx1 as [[i1 sl1] [E1 Hx1]]. cbn in E1; subst i1.
      apply in_map_iff in Hx2 as [[i2 sl2] [E2 Hx2]]. cbn in E2; subst i2.
      apply In_rows_items in Hx1 as [k [g [Hk _]]].
      apply nth_error_map_fst_rows in Hk as [vals Hk].
      apply In_archs_items in Hx2 as [a' [r' [g' [vals' [Ha' [Hr' _]]]]]].
      pose proof (H a k x g vals (or_introl eq_refl) Hk) as A.
      pose proof (H a' r' x g' vals' (or_intror Ha') Hr') as B.
      rewrite A in B. inversion B as [[Eg Esh Er]].
      apply Hnin. rewrite Esh. apply in_map; exact Ha'.
Qed.

(** * Round trip *)

Theorem de_ser_roundtrip : forall w s, Inv w -> ser_world w = Some s ->
  de_world (w_n w) s =
  inr (mkWorld (w_n w) (w_archs w) [] (w_slots w) (w_free w) (w_len w) (w_res w)).
Proof.
  intros w s I Hser. unfold ser_world in Hser.
  destruct (ser_free (w_slots w) (w_free w)) as [fr|] eqn:Efr; cbn [obind] in Hser;
    [|discriminate].
  inversion Hser; subst s. clear Hser.
  destruct (ser_free_spec _ _ Efr) as [Hmf Hgen].
  (* every item is the slot of the world at its index *)
  assert (Hfree_fwd : forall i sl, In (i, sl) (free_items fr) ->
                                   nth_error (w_slots w) i = Some sl).
  { intros i sl Hin. apply In_free_items in Hin as [g [Hin ->]].
    destruct (Hgen i g Hin) as [s0 [Hs0 Hg0]].
    assert (Hif : In i (w_free w)).
    { rewrite <- Hmf. apply in_map_iff. exists (i, g). auto. }
    apply (inv_free I) in Hif as [g' Hg'].
    rewrite Hg' in Hs0. inversion Hs0; subst s0. cbn [s_gen] in Hg0. subst g'. exact Hg'. }
  assert (Harch_fwd : forall a r i g vals, In a (w_archs w) ->
             nth_error (a_rows a) r = Some ((i, g), vals) ->
             nth_error (w_slots w) i = Some (mkSlot g (Some (a_shape a, r)))).
  { intros a r i g vals Ha Hr.
    eapply (inv_bwd I); [|exact Hr]. apply In_find_arch; [exact (inv_nodup I) | exact Ha]. }
  apply de_world_inr. cbn [sw_archs sw_length sw_free sw_res].
  split; [|split].
  - (* well-formed shapes *)
    apply forallb_forall. intros a Ha. destruct (inv_shapes I a Ha) as [HL HR].
    unfold wf_sarch. apply andb_true_iff. split; [apply Nat.eqb_eq; exact HL|].
    apply forallb_forall. intros rw Hrw. apply Nat.eqb_eq. apply HR; exact Hrw.
  - exact (inv_nodup I).
  - exists (w_slots w). split.
    + unfold items_of. cbn [sw_archs sw_free].
      apply place_items_repeat_ok.
      * (* distinct indices *)
        rewrite map_app. apply NoDup_app_intro.
        -- rewrite map_fst_free_items, Hmf. exact (inv_free_nodup I).
        -- apply NoDup_archs_items with (slots := w_slots w);
             [exact (inv_nodup I) | exact Harch_fwd].
        -- intros x Hx1 Hx2.
           apply in_map_iff in Hx1 as [[i1 sl1] [E1 Hx1]]. cbn in E1; subst i1.
           apply in_map_iff in Hx2 as [[i2 sl2] [E2 Hx2]]. cbn in E2; subst i2.
           pose proof (Hfree_fwd x sl1 Hx1) as A.
           apply In_free_items in Hx1 as [g1 [_ ->]].
           apply In_archs_items in Hx2 as [a [r [g [vals [Ha [Hr ->]]]]]].
           pose proof (Harch_fwd a r x g vals Ha Hr) as B.
           rewrite A in B. discriminate.
      * (* items are slots *)
        intros i sl Hin. apply in_app_or in Hin as [Hin|Hin].
        -- apply Hfree_fwd; exact Hin.
        -- apply In_archs_items in Hin as [a [r [g [vals [Ha [Hr ->]]]]]].
           eapply Harch_fwd; eassumption.
      * (* slots are items *)
        intros i [g [[sh r]|]] Hs; apply in_or_app.
        -- right. destruct (inv_fwd I _ Hs) as [a [vals [Hfa Hr]]].
           apply In_archs_items. exists a, r, g, vals.
           split; [eapply find_arch_In; exact Hfa|]. split; [exact Hr|].
           rewrite (find_arch_shape _ _ Hfa). reflexivity.
        -- left. assert (Hif : In i (w_free w)) by (apply (inv_free I); eauto).
           rewrite <- Hmf in Hif. apply in_map_iff in Hif as [[i' g'] [Efst Hin]].
           cbn in Efst; subst i'.
           destruct (Hgen i g' Hin) as [s0 [Hs0 Hg0]].
           rewrite Hs in Hs0. inversion Hs0; subst s0. cbn [s_gen] in Hg0. subst g'.
           apply In_free_items. eauto.
    + rewrite Hmf, <- (inv_len I). reflexivity.
Qed.

Print Assumptions ser_world_safe.
Print Assumptions de_ser_roundtrip.
Print Assumptions de_world_inv.
Print Assumptions de_world_fields.
