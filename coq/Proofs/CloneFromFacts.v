(** Proofs about [Archetype::clone_from] at the cell level (C17, C10). *)
From Brood Require Import Base World Multi Phys BaseFacts StepInvAlloc PhysFacts CloneFromM.

Definition all_owned (cells : list cell) : Prop := forall x, In x cells -> exists v, x = Owned v.

Lemma kdrop_cells_clean : forall c cells f, all_owned cells ->
  double_drops (fst (fst (kdrop_cells c cells f))) = [].
Proof.
  induction cells as [|x t IH]; intros f H; cbn [kdrop_cells]; [reflexivity|].
  destruct (ktick CbDrop f) as [f' panics]. specialize (IH f' (fun y Hy => H y (or_intror Hy))).
  destruct (kdrop_cells c t f') as [[evs f''] p]. cbn [fst] in *.
  destruct (H x (or_introl eq_refl)) as [v ->]. cbn. exact IH.
Qed.

Lemma assign_prefix_clean : forall c dst src f, all_owned dst ->
  double_drops (snd (fst (fst (assign_prefix c dst src f)))) = [].
Proof.
  induction dst as [|x dst IH]; intros src f H; cbn [assign_prefix]; [reflexivity|].
  destruct src as [|v src]; [reflexivity|].
  destruct (ktick CbClone f) as [f1 pc]. destruct pc; [reflexivity|].
  destruct (ktick CbDrop f1) as [f2 pd].
  destruct (H x (or_introl eq_refl)) as [v0 ->].
  destruct pd; [reflexivity|].
  specialize (IH src f2 (fun y Hy => H y (or_intror Hy))).
  destruct (assign_prefix c dst src f2) as [[[r evs] f3] p]. cbn [fst snd] in *. exact IH.
Qed.

Lemma assign_prefix_ok : forall c dst src f r evs f' , length dst = length src ->
  assign_prefix c dst src f = (r, evs, f', false) -> r = map Owned src.
Proof.
  induction dst as [|x dst IH]; intros src f r evs f' L H; destruct src as [|v src]; try discriminate.
  - cbn in H. inversion H. reflexivity.
  - cbn [assign_prefix] in H. destruct (ktick CbClone f) as [f1 pc]. destruct pc; [inversion H|].
    destruct (ktick CbDrop f1) as [f2 pd]. destruct pd; [inversion H|].
    destruct (assign_prefix c dst src f2) as [[[r' evs'] f3] p] eqn:E. inversion H; subst.
    cbn [map]. f_equal. eapply IH; [|exact E]. cbn in L. lia.
Qed.

Lemma push_clones_ok : forall src f pushed f', push_clones src f = (pushed, f', false) -> pushed = map Owned src.
Proof.
  induction src as [|v src IH]; intros f pushed f' H; cbn [push_clones] in H; [inversion H; reflexivity|].
  destruct (ktick CbClone f) as [f1 pc]. destruct pc; [inversion H|].
  destruct (push_clones src f1) as [[r f2] p] eqn:E. inversion H; subst. cbn [map]. f_equal. eapply IH. exact E.
Qed.

Lemma col_clean_length la col : col_clean la col -> la <= length col.
Proof.
  intros H. destruct la as [|n]; [lia|]. destruct (H n ltac:(lia)) as [v Hv].
  assert (n < length col) by (apply nth_error_Some; congruence). lia.
Qed.

Lemma nth_error_skipn {A} : forall (l : list A) k r, nth_error (skipn k l) r = nth_error l (k + r).
Proof. induction l as [|x t IH]; intros [|k] r; cbn; auto. destruct r; reflexivity. Qed.

Lemma tail_owned la keep col : col_clean la col -> keep <= la ->
  all_owned (firstn (la - keep) (skipn keep col)).
Proof.
  intros H Hk. unfold all_owned. apply (firstn_clean (la - keep) (skipn keep col)).
  intros r Hr. rewrite nth_error_skipn. apply H. lia.
Qed.

Lemma head_owned la keep col : col_clean la col -> keep <= la -> all_owned (firstn keep col).
Proof. intros H Hk. unfold all_owned. apply (firstn_clean keep col). intros r Hr. apply H. lia. Qed.

Lemma firstn_app_exact {A} (a b : list A) n : length a = n -> firstn n (a ++ b) = a.
Proof. intros <-. rewrite firstn_app, Nat.sub_diag, firstn_all. cbn. apply app_nil_r. Qed.

Lemma Forall2_nth_l {A B} (P : A -> B -> Prop) : forall l m j x, Forall2 P l m -> nth_error l j = Some x ->
  exists y, nth_error m j = Some y /\ P x y.
Proof.
  intros l m j x F. revert j. induction F as [|a b l m Hab F IH]; intros [|j] H; cbn in *; try discriminate.
  - inversion H; subst. eauto.
  - exact (IH j H).
Qed.

(** * One column *)
Lemma vec_clone_from_events_clean c col la src f : col_clean la col ->
  double_drops (snd (fst (fst (vec_clone_from c col la src f)))) = [].
Proof.
  intros HC. unfold vec_clone_from.
  set (keep := Nat.min la (length src)).
  assert (Hk : keep <= la) by (unfold keep; lia).
  pose proof (col_clean_length la col HC) as HL.
  pose proof (kdrop_cells_clean c (firstn (la - keep) (skipn keep col)) f (tail_owned la keep col HC Hk)) as D1.
  destruct (kdrop_cells c (firstn (la - keep) (skipn keep col)) f) as [[evs1 f1] p1]. cbn [fst snd] in D1.
  destruct p1; [exact D1|].
  rewrite (firstn_app_exact (firstn keep col) _ keep) by (rewrite firstn_length; lia).
  pose proof (assign_prefix_clean c (firstn keep col) (firstn keep src) f1 (head_owned la keep col HC Hk)) as D2.
  destruct (assign_prefix c (firstn keep col) (firstn keep src) f1) as [[[pre evs2] f2] p2]. cbn [fst snd] in D2.
  destruct p2; cbn [fst snd].
  - unfold double_drops in *. rewrite flat_map_app, D1, D2. reflexivity.
  - destruct (push_clones (skipn keep src) f2) as [[pushed f3] p3]. cbn [fst snd].
    unfold double_drops in *. rewrite flat_map_app, D1, D2. reflexivity.
Qed.

Lemma vec_clone_from_ok c col la src f col' n evs f' : col_clean la col ->
  vec_clone_from c col la src f = (col', n, evs, f', false) ->
  n = length src /\ firstn (length src) col' = map Owned src.
Proof.
  intros HC H. unfold vec_clone_from in H.
  set (keep := Nat.min la (length src)) in *.
  assert (Hk : keep <= la) by (unfold keep; lia).
  assert (Hkb : keep <= length src) by (unfold keep; lia).
  pose proof (col_clean_length la col HC) as HL.
  destruct (kdrop_cells c (firstn (la - keep) (skipn keep col)) f) as [[evs1 f1] p1].
  destruct p1; [inversion H|].
  rewrite (firstn_app_exact (firstn keep col) _ keep) in H by (rewrite firstn_length; lia).
  destruct (assign_prefix c (firstn keep col) (firstn keep src) f1) as [[[pre evs2] f2] p2] eqn:EA.
  destruct p2; [inversion H|].
  assert (Hpre : pre = map Owned (firstn keep src)).
  { eapply assign_prefix_ok; [|exact EA]. rewrite !firstn_length. lia. }
  assert (Lpre : length pre = keep) by (rewrite Hpre, map_length, firstn_length; lia).
  destruct (push_clones (skipn keep src) f2) as [[pushed f3] p3] eqn:EP.
  inversion H; subst col' n evs f' p3. clear H.
  pose proof (push_clones_ok _ _ _ _ EP) as Hpush.
  assert (Lpush : length pushed = length src - keep) by (rewrite Hpush, map_length, skipn_length; reflexivity).
  split; [lia|].
  rewrite (firstn_app_exact pre _ keep Lpre).
  rewrite app_assoc. rewrite (firstn_app_exact (pre ++ pushed) _ (length src)) by (rewrite app_length; lia).
  rewrite Hpre, Hpush, <- map_app, firstn_skipn. reflexivity.
Qed.

(** * All columns *)
Lemma clone_from_cols_events_clean : forall comps cols la src f,
  (forall col, In col cols -> col_clean la col) ->
  double_drops (snd (fst (clone_from_cols comps cols la src f))) = [].
Proof.
  induction comps as [|c comps IH]; intros cols la src f HC; cbn [clone_from_cols]; [reflexivity|].
  destruct cols as [|col cols]; [reflexivity|]. destruct src as [|s src]; [reflexivity|].
  pose proof (vec_clone_from_events_clean c col la s f (HC col (or_introl eq_refl))) as D.
  destruct (vec_clone_from c col la s f) as [[[[col' n] evs] f'] p]. cbn [fst snd] in D.
  destruct p; [exact D|].
  specialize (IH cols la src f' (fun x Hx => HC x (or_intror Hx))).
  destruct (clone_from_cols comps cols la src f') as [[r evs'] p']. cbn [fst snd] in *.
  unfold double_drops in *. rewrite flat_map_app, D, IH. reflexivity.
Qed.

Lemma clone_from_cols_ok : forall comps cols la src f r evs lb,
  (forall col, In col cols -> col_clean la col) ->
  length cols = length comps -> length src = length comps -> (forall s, In s src -> length s = lb) ->
  clone_from_cols comps cols la src f = (r, evs, false) ->
  length r = length cols /\ Forall2 (fun col' s => firstn lb col' = map Owned s) r src.
Proof.
  induction comps as [|c comps IH]; intros cols la src f r evs lb HC L1 L2 HS H.
  - destruct cols; [|discriminate]. destruct src; [|discriminate]. cbn in H. inversion H. auto.
  - destruct cols as [|col cols]; [discriminate|]. destruct src as [|s src]; [discriminate|].
    cbn [clone_from_cols] in H.
    destruct (vec_clone_from c col la s f) as [[[[col' n] evs1] f'] p] eqn:EV.
    destruct p; [inversion H|].
    destruct (clone_from_cols comps cols la src f') as [[r' evs'] p'] eqn:ER. inversion H; subst r evs p'. clear H.
    destruct (vec_clone_from_ok _ _ _ _ _ _ _ _ _ (HC col (or_introl eq_refl)) EV) as [_ Hc].
    rewrite (HS s (or_introl eq_refl)) in Hc.
    destruct (IH cols la src f' r' evs' lb (fun x Hx => HC x (or_intror Hx)) ltac:(cbn in L1; lia) ltac:(cbn in L2; lia)
                (fun x Hx => HS x (or_intror Hx)) ER) as [Lr F].
    split; [cbn; lia|]. constructor; assumption.
Qed.

Lemma free_nothing a f : pa_len a = 0 -> double_drops (fst (p_drop_arch a f)) = [].
Proof.
  intros H0. unfold p_drop_arch. apply free_cols_clean. intros col _ r Hr. rewrite H0 in Hr. lia.
Qed.

(** * The archetype holds no rows while its columns are replaced: whatever callback panics, nothing is
      dropped twice, then or when the world is dropped; and a call that returns leaves a clean archetype
      holding exactly the source's values. *)
Theorem clone_from_safe : forall a src lb f f', Clean a ->
  length src = count_true (pa_shape a) -> (forall s, In s src -> length s = lb) ->
  let '(a', evs, unwound) := p_clone_from_gen true a src lb f in
  double_drops evs = [] /\ double_drops (fst (p_drop_arch a' f')) = [] /\
  (unwound = true -> pa_len a' = 0) /\
  (unwound = false -> Clean a' /\ pa_len a' = lb /\
                      Forall2 (fun col' s => firstn lb col' = map Owned s) (pa_cols a') src).
Proof.
  intros a src lb f f' [HL HC] LS HS. unfold p_clone_from_gen.
  pose proof (clone_from_cols_events_clean (bits_on (pa_shape a)) (pa_cols a) (pa_len a) src f HC) as D.
  destruct (clone_from_cols (bits_on (pa_shape a)) (pa_cols a) (pa_len a) src f) as [[cols evs] unwound] eqn:E.
  cbn [fst snd] in D. split; [exact D|].
  destruct unwound.
  - split; [apply free_nothing; reflexivity|]. split; [reflexivity|discriminate].
  - assert (Lb : length (bits_on (pa_shape a)) = count_true (pa_shape a)) by apply bits_on_length.
    assert (L1 : length (pa_cols a) = length (bits_on (pa_shape a))) by lia.
    assert (L2 : length src = length (bits_on (pa_shape a))) by lia.
    destruct (clone_from_cols_ok _ _ _ _ _ _ _ lb HC L1 L2 HS E) as [Lr F].
    assert (HC' : Clean (mkPArch (pa_shape a) cols lb)).
    { split; cbn [pa_cols pa_shape pa_len]; [lia|].
      intros col Hin r Hr.
      destruct (In_nth_error _ _ Hin) as [j Hj].
      destruct (Forall2_nth_l _ _ _ j col F Hj) as (s & Hs & Hf).
      assert (Hn : nth_error (firstn lb col) r = nth_error col r) by (apply nth_error_firstn_lt; exact Hr).
      rewrite Hf in Hn. rewrite <- Hn.
      assert (Ls : length s = lb) by (apply HS; eapply nth_error_In; exact Hs).
      destruct (nth_error s r) as [v|] eqn:Ev.
      - erewrite map_nth_error by exact Ev. eauto.
      - apply nth_error_None in Ev. lia. }
    split; [exact (drop_clean_no_double _ f' HC')|]. split; [discriminate|].
    intros _. split; [exact HC'|]. split; [reflexivity|exact F].
Qed.

Lemma fact_hides : fact_clone_from_hides_rows_first = true.
Proof. reflexivity. Qed.

Theorem clone_from_safe_src : forall a src lb f f', Clean a ->
  length src = count_true (pa_shape a) -> (forall s, In s src -> length s = lb) ->
  let '(a', evs, unwound) := p_clone_from a src lb f in
  double_drops evs = [] /\ double_drops (fst (p_drop_arch a' f')) = [] /\
  (unwound = true -> pa_len a' = 0) /\
  (unwound = false -> Clean a' /\ pa_len a' = lb /\
                      Forall2 (fun col' s => firstn lb col' = map Owned s) (pa_cols a') src).
Proof. intros a src lb f f' H1 H2 H3. unfold p_clone_from. rewrite fact_hides. exact (clone_from_safe a src lb f f' H1 H2 H3). Qed.

(** * As it was before the repair of F8c: the old length over columns already truncated *)
Definition d_arch : parch := mkPArch [true; true] [[Owned 11; Owned 21; Owned 31]%N; [Owned 12; Owned 22; Owned 32]%N] 3.

Lemma clone_from_old_length_double_drop :
  let '(a', _, unwound) := p_clone_from_gen false d_arch [[91]%N; [92]%N] 1 (Some (CbClone, 1)) in
  unwound = true /\ double_drops (fst (p_drop_arch a' None)) = [(0, 21%N); (0, 31%N); (1, 22%N); (1, 32%N)].
Proof. vm_compute. auto. Qed.
