"""Per-property checks."""
import json
import os
import sys
import time
from collections import Counter

import common
from common import (EVIDENCE, REPLAYS, TRUSTED_BASE, VERIF, Infra, check_props, load_known, write_evidence,
                    write_replay)

# --------------------------------------------------------------------- world-history family

WH = {
    # pid: (views compared with the model, compare ret, compare events, op filter, description)
    "C01": (["content"], True, False, None),
    "C02": (["content", "alloc"], True, False, None),
    "C04": ([], False, True, None),
    "C06": (["content", "alloc", "res"], True, False, None),
    "C10": (["content", "alloc", "res", "struct"], True, True, None),
    "C13": (["content", "alloc", "struct"], True, False, None),
    "C15": (["res"], False, False, None),
    "C16": ([], True, False, lambda op: op.startswith("eq ")),
}

WH_RULE = ("histories generated from one SplitMix64 state (VERIF_SEED): insert/extend in two textual component "
           "orders, remove/Entry::add/Entry::remove/write on live, stale and never-issued identifiers, clear, "
           "shrink_to_fit, reserve, resource writes, clone, clone_from, serde round trips (both encodings), ==, "
           "world drop, on up to 3 worlds over a 5-component registry (8-byte, zero-sized, 32-aligned, "
           "heap-owning, 4-byte). A case is non-trivial if it hits at least one corner from {slot reuse, "
           "swap-remove of a non-last row, stale-identifier remove, batch </=/> free list, shape change, shrink, "
           "clone, clone_from, serde}; distinct = distinct op sequences among those.")


def wh_check(pid, tier, seed, t0):
    import wh
    proof = check_props(pid)
    eng = wh.engine(seed, tier)
    views, with_ret, with_ev, opf = WH[pid]
    known = [k for k in load_known() if k["property"] == pid and k["status"] == "known"]
    known_classes = {k.get("class") for k in known}
    diverged = []
    viol = []
    known_hits = Counter()
    nontrivial = set()
    corners = Counter()
    steps_total = 0
    for idx, (ic, orc) in enumerate(zip(eng["impl"], eng["oracle"])):
        steps_total += len(ic["steps"])
        mc = eng["model"][idx] if idx < len(eng["model"]) else {"steps": []}
        d = wh.first_divergence(ic, mc, views, with_ret, with_ev, opf)
        if d is not None:
            diverged.append((idx, d))
        for (si, p, msg) in orc["fails"]:
            if p == pid or p == "*":
                viol.append((idx, si, msg))
                break
        for (si, cls) in orc["known"]:
            if cls in known_classes:
                known_hits[cls] += 1
        if orc["corners"]:
            nontrivial.add(tuple(eng["cases"][idx]) if idx < len(eng["cases"]) else idx)
        for c in orc["corners"]:
            corners[c] += 1
    crashed = [s for s in eng["shards"] if s["rc"] != 0]
    n_impl = len(eng["impl"])
    incomplete = n_impl < len(eng["cases"]) or any(
        len(ic["steps"]) < len(eng["cases"][i]) for i, ic in enumerate(eng["impl"]) if i < len(eng["cases"]))
    rc = 0
    replay_path = None
    if viol:
        idx, si, msg = viol[0]
        ops = eng["cases"][idx]
        small = shrink_wh(ops, pid, msg)
        replay_path = write_replay(pid, seed, {
            "property": pid, "kind": "failing-history", "message": msg, "case_index": idx, "failing_step": si,
            "ops": ops[:si + 2], "shrunk_ops": small,
            "how_to_replay": "./check %s --replay %s" % (pid, os.path.join("replays", "%s-%s.json" % (pid, seed)))})
        print("VIOLATION property=%s replay=%s" % (pid, replay_path))
        print("  " + msg)
        rc = 1
    elif not proof["ok"] or diverged or crashed or incomplete:
        what = []
        if not proof["ok"]:
            what.append({"theorem_or_file": proof["failed_theorem"], "log": proof["log"][-1500:]})
        if diverged:
            idx, d = diverged[0]
            what.append({"correspondence": "model vs implementation trace, views=%s" % views, "case_index": idx,
                         "step": d, "ops": eng["cases"][idx][:d + 2],
                         "impl": eng["impl"][idx]["steps"][d]["raw"] if d < len(eng["impl"][idx]["steps"]) else None,
                         "model": eng["model"][idx]["steps"][d]["raw"]
                         if idx < len(eng["model"]) and d < len(eng["model"][idx]["steps"]) else None})
        if crashed or incomplete:
            what.append({"harness": "implementation run crashed or produced an incomplete trace",
                         "stderr": [s["err"] for s in crashed][:2]})
        replay_path = write_replay(pid, seed, {"property": pid, "kind": "no-failing-input-found",
                                               "no_longer_checks": what})
        print("VIOLATION property=%s replay=%s no-failing-input-found" % (pid, replay_path))
        rc = 1
    for k in known:
        if known_hits[k["class"]] > 0:
            print("KNOWN-FINDING: property=%s %s (%s; reproduced %d times this run, witness %s)"
                  % (pid, k["what"], k["id"], known_hits[k["class"]], k.get("witness", "-")))
    samples = [{"case": i, "ops": eng["cases"][i][:12]} for i in range(min(2, len(eng["cases"])))]
    cov = {
        "obligations": proof["obligations"], "discharged": proof["discharged"],
        "checker_cmd": "make -C coq Props/%s.vo && coqc -Q coq Brood coq/Props/%s.v (Print Assumptions parsed)" % (pid, pid),
        "trusted_base": TRUSTED_BASE,
        "theorems": proof["theorems"], "print_assumptions_closed": proof.get("closed", 0), "axioms": proof["axioms"],
        "evaluations": len(eng["cases"]), "distinct_nontrivial": len(nontrivial), "rule": WH_RULE,
        "samples": samples, "traces_validated_against_impl": n_impl - len(diverged),
        "steps_compared": steps_total, "corpus_cases": eng["ncorpus"], "op_kinds": eng["opkinds"],
        "history_length": {"min": min(eng["lens"] or [0]), "max": max(eng["lens"] or [0]),
                           "mean": round(sum(eng["lens"]) / max(1, len(eng["lens"])), 1)},
        "corners_hit_cases": dict(corners), "views_compared": views, "engine_cached": eng["cached"],
        "known_finding_hits": dict(known_hits),
        "explanation": "theorems over the Gallina model (coq/Props/%s.v) + op-by-op correspondence of the "
                       "extracted model with the real library + spec-side oracles on the implementation trace" % pid,
    }
    write_evidence(pid, tier, seed, "proof", cov,
                   ["model tied to /repo by differential execution only (hand-written model)",
                    "archetype table order and Vec capacities are oracle inputs (clear order read from the implementation)"],
                   time.time() - t0, 1 if rc else 0)
    return rc


def shrink_wh(ops, pid, msg, budget=120):
    """Delta-debug the op list against the implementation-side oracle for `pid`."""
    import wh
    workdir = os.path.join(common.BUILD, "run", "shrink-%s" % pid)

    def fails(cand):
        sh = wh.run_cases([cand], workdir, shards=1, tag="s")
        if not sh or not os.path.exists(sh[0]["impl"]):
            return False
        impl = wh.parse_trace(sh[0]["impl"])
        if not impl:
            return False
        return any(p in (pid, "*") for (_, p, _) in wh.safe_oracle_case(impl[0])["fails"])

    cur = list(ops)
    try:
        if not fails(cur):
            return cur
        n = 2
        runs = 0
        while len(cur) >= 2 and runs < budget:
            chunk = max(1, len(cur) // n)
            reduced = False
            for i in range(0, len(cur), chunk):
                cand = cur[:i] + cur[i + chunk:]
                if not cand or not cand[0].startswith("new"):
                    continue
                runs += 1
                if fails(cand):
                    cur = cand
                    n = max(n - 1, 2)
                    reduced = True
                    break
            if not reduced:
                if chunk == 1:
                    break
                n = min(len(cur), n * 2)
    except Exception:
        pass
    return cur


def replay_wh(pid, path):
    import wh
    r = json.load(open(path))
    ops = r.get("shrunk_ops") or r.get("ops")
    if not ops:
        print("replay file names no history: %s" % json.dumps(r.get("no_longer_checks"))[:2000])
        return 1
    common.build_extract()
    err = common.build_harness(["wh"])
    if err:
        raise Infra(err[-2000:])
    sh = wh.run_cases([ops], os.path.join(common.BUILD, "run", "replay-%s" % pid), shards=1, tag="r")
    impl = wh.parse_trace(sh[0]["impl"])
    o = wh.safe_oracle_case(impl[0])
    bad = [(i, p, m) for (i, p, m) in o["fails"] if p in (pid, "*")]
    for l in ops:
        print("  " + l)
    if bad:
        print("VIOLATION property=%s replay=%s" % (pid, path))
        print("  step %d: %s" % (bad[0][0], bad[0][2]))
        return 1
    print("replay passes")
    return 0


# --------------------------------------------------------------------- dispatch

def run_check(pid, tier, seed, t0):
    if pid in WH:
        return wh_check(pid, tier, seed, t0)
    raise Infra("no check registered for %s" % pid)


def replay(pid, path):
    if pid in WH:
        return replay_wh(pid, path)
    raise Infra("no replay for %s" % pid)
