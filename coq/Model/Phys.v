(** Physical layer, cell level: the column store as the unsafe code sees it
    ([registry/sealed/storage.rs], [archetype/mod.rs], [archetype/impl_drop.rs]).
    A column is a [Vec<C>] kept as raw parts; the archetype keeps ONE length for
    all its columns and writes it back only when an operation has finished.
    Every cell of a column's allocation is [Owned v] (holds a live value) or
    [Stale v] (a bitwise copy of v was moved out of it or v was dropped in
    place: the bytes are still there).  User callbacks ([Drop]) are the fault
    points: [fault = Some k] makes the k-th Drop callback of the operation
    panic; the operation then stops where the code would be unwound, leaving
    the raw parts and the shared length as they were at that moment.
    Definitions only. *)
From Brood Require Export World Multi.
From Brood Require Export Facts.

Inductive cell := Owned (v : val) | Stale (v : val).

Record parch := mkPArch {
  pa_shape : shape;
  pa_cols : list (list cell);     (* one allocation per set bit, registry order; cells beyond the length included *)
  pa_len : nat                    (* Archetype::length *)
}.

Inductive pevent := PDropped (c : nat) (v : val) | PDoubleDrop (c : nat) (v : val).

(** the running fault counter: [Some 0] = the next Drop callback panics *)
Definition fault := option nat.
Definition tick (f : fault) : fault * bool :=     (* new counter, does this callback panic? *)
  match f with
  | None => (None, false)
  | Some 0 => (None, true)
  | Some (S k) => (Some k, false)
  end.

(** dropping the value held by a cell: a stale cell is a second drop of that value *)
Definition drop_cell (c : nat) (x : cell) : pevent :=
  match x with Owned v => PDropped c v | Stale v => PDoubleDrop c v end.
Definition stale (x : cell) : cell := match x with Owned v | Stale v => Stale v end.

(** [Vec::swap_remove(i)] on the first [len] cells: the value of cell i is
    moved out (returned), the last cell is copied over it and becomes stale. *)
Definition col_swap_remove (i len : nat) (col : list cell) : option (cell * list cell) :=
  match nth_error col i, nth_error col (len - 1) with
  | Some x, Some lastc =>
      if Nat.ltb i len then
        Some (x, upd (len - 1) stale (if Nat.eqb i (len - 1) then col else upd i (fun _ => lastc) col))
      else None
  | _, _ => None
  end.

(** [remove_component_row] as it was before the repair of finding F8a: column by column,
    [v.swap_remove(index)] whose result is dropped at once.  Returns the columns, the events, and
    whether the operation was unwound. *)
Fixpoint remove_cols (comps : list nat) (i len : nat) (cols : list (list cell)) (f : fault)
  : option (list (list cell) * list pevent * bool) :=
  match comps, cols with
  | [], [] => Some ([], [], false)
  | c :: comps', col :: cols' =>
      match col_swap_remove i len col with
      | None => None
      | Some (x, col') =>
          let '(f', panics) := tick f in
          if panics then Some (col' :: cols', [drop_cell c x], true)
          else match remove_cols comps' i len cols' f' with
               | Some (r, evs, p) => Some (col' :: r, drop_cell c x :: evs, p)
               | None => None
               end
      end
  | _, _ => None
  end.

(** [remove_component_row] with the removed value kept in a local until the recursive call on the
    remaining columns has returned: the row leaves EVERY column before any [Drop] runs.  The values
    are then dropped innermost frame first (last column first); a panic in one of them unwinds
    through the outer frames, whose locals are still dropped. *)
Fixpoint take_cols (comps : list nat) (i len : nat) (cols : list (list cell))
  : option (list (list cell) * list (nat * cell)) :=
  match comps, cols with
  | [], [] => Some ([], [])
  | c :: comps', col :: cols' =>
      match col_swap_remove i len col with
      | None => None
      | Some (x, col') =>
          match take_cols comps' i len cols' with
          | Some (r, taken) => Some (col' :: r, (c, x) :: taken)
          | None => None
          end
      end
  | _, _ => None
  end.

Fixpoint drop_taken (taken : list (nat * cell)) (f : fault) : list pevent * bool :=
  match taken with
  | [] => ([], false)
  | (c, x) :: t =>
      let '(f', panics) := tick f in
      let '(evs, p) := drop_taken t f' in
      (drop_cell c x :: evs, panics || p)
  end.

Definition remove_cols_deferred (comps : list nat) (i len : nat) (cols : list (list cell)) (f : fault)
  : option (list (list cell) * list pevent * bool) :=
  match take_cols comps i len cols with
  | Some (r, taken) => let '(evs, p) := drop_taken (rev taken) f in Some (r, evs, p)
  | None => None
  end.

(** [Archetype::remove_row_unchecked] (the identifier column has no Drop).  Two things are read off
    the source (Gen/Facts.v): whether the removed values are dropped only after every column has
    been shortened ([fact_remove_defers_drops]) and whether the shared length is decremented before
    the components are touched ([fact_remove_decrements_length_first]); otherwise an unwound
    removal leaves the old length. *)
Definition p_remove_row_gen (deferred len_first : bool) (a : parch) (i : nat) (f : fault)
  : option (parch * list pevent * bool) :=
  match (if deferred then remove_cols_deferred else remove_cols)
          (bits_on (pa_shape a)) i (pa_len a) (pa_cols a) f with
  | Some (cols, evs, unwound) =>
      Some (mkPArch (pa_shape a) cols (if unwound && negb len_first then pa_len a else pa_len a - 1), evs, unwound)
  | None => None
  end.
Definition p_remove_row (a : parch) (i : nat) (f : fault) : option (parch * list pevent * bool) :=
  p_remove_row_gen fact_remove_defers_drops fact_remove_decrements_length_first a i f.

(** [Vec::clear] = truncate(0): the length of the local Vec is set to 0 first, then every
    element is dropped in place; the slice drop glue goes on after ONE panic (a second one aborts:
    not modelled, the fault is single). *)
Fixpoint drop_cells (c : nat) (cells : list cell) (f : fault) : list pevent * fault * bool :=
  match cells with
  | [] => ([], f, false)
  | x :: t =>
      let '(f', panics) := tick f in
      let '(evs, f'', p) := drop_cells c t f' in
      (drop_cell c x :: evs, f'', panics || p)
  end.

Definition stale_prefix (len : nat) (col : list cell) : list cell :=
  map stale (firstn len col) ++ skipn len col.

(** [clear_components]: column by column [v.clear()]; a panic propagates after that column
    has been emptied, before the next column is touched. *)
Fixpoint clear_cols (comps : list nat) (len : nat) (cols : list (list cell)) (f : fault)
  : list (list cell) * list pevent * bool :=
  match comps, cols with
  | c :: comps', col :: cols' =>
      let '(evs, f', panicked) := drop_cells c (firstn len col) f in
      if panicked then (stale_prefix len col :: cols', evs, true)
      else let '(r, evs', p) := clear_cols comps' len cols' f' in
           (stale_prefix len col :: r, evs ++ evs', p)
  | _, _ => (cols, [], false)
  end.

(** [Archetype::clear] / [clear_detached].  Whether the shared length is set to 0 BEFORE the components
    are dropped (then an unwound clear leaves an empty archetype whose remaining values are leaked) or
    only at the very end (then an unwound clear leaves the old length over columns already emptied) is
    read off the source: [fact_clear_sets_length_first] (Gen/Facts.v). *)
Definition p_clear_gen (len_first : bool) (a : parch) (f : fault) : parch * list pevent * bool :=
  let '(cols, evs, unwound) := clear_cols (bits_on (pa_shape a)) (pa_len a) (pa_cols a) f in
  (mkPArch (pa_shape a) cols (if unwound && negb len_first then pa_len a else 0), evs, unwound).
Definition p_clear (a : parch) (f : fault) : parch * list pevent * bool :=
  p_clear_gen fact_clear_sets_length_first a f.

(** [set_component_unchecked]: [*slot = value] is drop-and-replace: if the old value's Drop
    panics the new value is still written on the unwind path. *)
Definition p_set (a : parch) (r c : nat) (v : val) (f : fault) : option (parch * list pevent * bool) :=
  let j := rank c (pa_shape a) in
  match nth_error (pa_cols a) j with
  | None => None
  | Some col =>
      match nth_error col r with
      | None => None
      | Some old =>
          if Nat.ltb r (pa_len a) then
            let '(_, panics) := tick f in
            Some (mkPArch (pa_shape a) (upd j (upd r (fun _ => Owned v)) (pa_cols a)) (pa_len a),
                  [drop_cell c old], panics)
          else None
      end
  end.

(** [impl Drop for Archetype] -> [free_components]: column by column,
    [drop(Vec::from_raw_parts(ptr, length, cap))]; if a Drop panics, the rest of that
    column is still dropped, the remaining columns are leaked. *)
Fixpoint free_cols (comps : list nat) (len : nat) (cols : list (list cell)) (f : fault) : list pevent * bool :=
  match comps, cols with
  | c :: comps', col :: cols' =>
      let '(evs, f', panicked) := drop_cells c (firstn len col) f in
      if panicked then (evs, true)
      else let '(evs', p) := free_cols comps' len cols' f' in (evs ++ evs', p)
  | _, _ => ([], false)
  end.

Definition p_drop_arch (a : parch) (f : fault) : list pevent * bool :=
  free_cols (bits_on (pa_shape a)) (pa_len a) (pa_cols a) f.

(** * Relation to the logical layer *)

(** the cells an archetype of the logical layer occupies when nothing is stale;
    [spare] is the unused capacity of every column (any stale bytes) *)
Definition col_of (a : arch) (j : nat) : list cell :=
  map (fun rw => Owned (nth j (snd rw) 0%N)) (a_rows a).

Definition parch_of (a : arch) (spare : list cell) : parch :=
  mkPArch (a_shape a) (map (fun j => col_of a j ++ spare) (seq 0 (count_true (a_shape a)))) (length (a_rows a)).

Definition double_drops (evs : list pevent) : list (nat * val) :=
  flat_map (fun e => match e with PDoubleDrop c v => [(c, v)] | PDropped _ _ => [] end) evs.

Definition pdropped (evs : list pevent) : list (nat * val) :=
  flat_map (fun e => match e with PDropped c v => [(c, v)] | PDoubleDrop _ _ => [] end) evs.
