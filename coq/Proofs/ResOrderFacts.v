(** Proofs about which orders of resource views type-check (C15). *)
From Brood Require Import Base ResOrder.
From Coq Require Import Permutation.

Lemma index_of_some : forall x l, In x l -> exists i, index_of x l = Some i.
Proof.
  induction l as [|y t IH]; intros H; [contradiction|]. cbn [index_of].
  destruct (Nat.eqb x y) eqn:E; [eauto|].
  destruct H as [H|H]; [subst; rewrite Nat.eqb_refl in E; discriminate|].
  destruct (IH H) as [i ->]. cbn. eauto.
Qed.

Lemma index_of_in : forall x l i, index_of x l = Some i -> In x l.
Proof.
  induction l as [|y t IH]; intros i H; cbn [index_of] in H; [discriminate|].
  destruct (Nat.eqb x y) eqn:E; [apply Nat.eqb_eq in E; subst; left; reflexivity|].
  destruct (index_of x t) as [j|]; [|discriminate]. right. eapply IH. reflexivity.
Qed.

(** removing the element found by [index_of] from a duplicate-free list removes exactly that value *)
Lemma remove_nth_index_of : forall x l i, NoDup l -> index_of x l = Some i ->
  NoDup (remove_nth i l) /\ forall y, In y (remove_nth i l) <-> In y l /\ y <> x.
Proof.
  induction l as [|z t IH]; intros i ND H; cbn [index_of] in H; [discriminate|].
  inversion ND as [|? ? Hz NDt]; subst.
  destruct (Nat.eqb x z) eqn:E.
  - apply Nat.eqb_eq in E; subst z. inversion H; subst i. cbn [remove_nth]. split; [exact NDt|].
    intros y; split.
    + intros Hy. split; [right; exact Hy|]. intros ->. contradiction.
    + intros [[->|Hy] Hne]; [contradiction|exact Hy].
  - destruct (index_of x t) as [j|] eqn:Ej; [|discriminate]. inversion H; subst i. cbn [remove_nth].
    destruct (IH j NDt eq_refl) as [ND' Hin]. apply Nat.eqb_neq in E. split.
    + constructor; [|exact ND']. intros Hc. apply Hin in Hc. tauto.
    + intros y; split.
      * intros [->|Hy]; [split; [left; reflexivity|congruence]|]. apply Hin in Hy. split; [right; tauto|tauto].
      * intros [[->|Hy] Hne]; [left; reflexivity|right; apply Hin; tauto].
Qed.

(** a duplicate-free list reshapes into any duplicate-free list with the same elements *)
Lemma reshape_idx_total : forall target l, NoDup target -> NoDup l -> (forall y, In y target <-> In y l) ->
  exists idx, reshape_idx target l = Some idx.
Proof.
  induction target as [|x t IH]; intros l NDt NDl Hs; cbn [reshape_idx].
  - destruct l as [|y l']; [eauto|]. exfalso. apply (proj2 (Hs y)). left; reflexivity.
  - inversion NDt as [|? ? Hx NDt']; subst.
    destruct (index_of_some x l (proj1 (Hs x) (or_introl eq_refl))) as [i Ei]. rewrite Ei.
    destruct (remove_nth_index_of x l i NDl Ei) as [ND' Hin].
    destruct (IH (remove_nth i l) NDt' ND') as [idx ->]; [|cbn; eauto].
    intros y; split.
    + intros Hy. apply Hin. split; [apply Hs; right; exact Hy|]. intros ->. contradiction.
    + intros Hy. apply Hin in Hy as [Hy Hne]. apply Hs in Hy as [->|Hy]; [congruence|exact Hy].
Qed.

Lemma wanted_iff vs r : wanted vs r = true <-> In r vs.
Proof.
  unfold wanted. rewrite existsb_exists. split.
  - intros (x & Hx & E). apply Nat.eqb_eq in E. subst. exact Hx.
  - intros H. exists r. split; [exact H|apply Nat.eqb_refl].
Qed.

Lemma remove_first_spec : forall x l, NoDup l -> In x l ->
  NoDup (remove_first x l) /\ forall y, In y (remove_first x l) <-> In y l /\ y <> x.
Proof.
  induction l as [|z t IH]; intros ND H; [contradiction|]. inversion ND as [|? ? Hz NDt]; subst. cbn [remove_first].
  destruct (Nat.eqb x z) eqn:E.
  - apply Nat.eqb_eq in E; subst z. split; [exact NDt|]. intros y; split.
    + intros Hy. split; [right; exact Hy|]. intros ->. contradiction.
    + intros [[->|Hy] Hne]; [contradiction|exact Hy].
  - apply Nat.eqb_neq in E. destruct H as [->|H]; [congruence|]. destruct (IH NDt H) as [ND' Hin]. split.
    + constructor; [|exact ND']. intros Hc. apply Hin in Hc. tauto.
    + intros y; split.
      * intros [->|Hy]; [split; [left; reflexivity|congruence]|]. apply Hin in Hy. split; [right; tauto|tauto].
      * intros [[->|Hy] Hne]; [left; reflexivity|right; apply Hin; tauto].
Qed.

Lemma canonical_order_spec rs vs : NoDup rs ->
  NoDup (canonical_order rs vs) /\ forall y, In y (canonical_order rs vs) <-> In y rs /\ In y vs.
Proof.
  intros ND. unfold canonical_order. split; [apply NoDup_filter; exact ND|].
  intros y. rewrite filter_In, wanted_iff. tauto.
Qed.

(** * With a witness per level, every duplicate-free request of resources of the list, in whatever
      order, type-checks *)
Theorem expanded_complete : forall rs vs, NoDup rs -> NoDup vs -> incl vs rs -> expanded true rs vs = true.
Proof.
  induction rs as [|r rs' IH]; intros vs NDr NDv Hinc; cbn [expanded].
  - destruct vs as [|v vs']; [reflexivity|]. destruct (Hinc v (or_introl eq_refl)).
  - inversion NDr as [|? ? Hr NDr']; subst.
    destruct (wanted vs r) eqn:W.
    + apply wanted_iff in W. destruct (remove_first_spec r vs NDv W) as [NDv' Hv'].
      assert (Hinc' : incl (remove_first r vs) rs').
      { intros y Hy. apply Hv' in Hy as [Hy Hne]. destruct (Hinc y Hy) as [->|H]; [congruence|exact H]. }
      rewrite (IH _ NDr' NDv' Hinc'). cbn [andb].
      destruct (canonical_order_spec rs' (remove_first r vs) NDr') as [NDc Hc].
      destruct (reshape_idx_total vs (r :: canonical_order rs' (remove_first r vs)) NDv) as [idx ->]; [| |reflexivity].
      * constructor; [|exact NDc]. intros Hin. apply Hc in Hin. tauto.
      * intros y; split.
        -- intros Hy. destruct (Nat.eq_dec y r) as [->|Hne]; [left; reflexivity|].
           right. apply Hc. split; [|apply Hv'; tauto].
           destruct (Hinc y Hy) as [->|H]; [congruence|exact H].
        -- intros [<-|Hy]; [exact W|]. apply Hc in Hy as [_ Hy]. apply Hv' in Hy. tauto.
    + apply IH; [exact NDr'|exact NDv|].
      intros y Hy. destruct (Hinc y Hy) as [->|H]; [|exact H].
      apply wanted_iff in Hy. congruence.
Qed.

(** * What type-checks requests resources of the list only, whichever form the bound has *)
Theorem expanded_sound : forall b rs vs, expanded b rs vs = true -> incl vs rs.
Proof.
  induction rs as [|r rs' IH]; intros vs H; cbn [expanded] in H.
  - destruct vs; [intros y []|discriminate].
  - destruct (wanted vs r) eqn:W.
    + apply andb_true_iff in H as [H1 H2]. specialize (IH _ H1).
      intros y Hy. destruct (Nat.eq_dec y r) as [->|Hne]; [left; reflexivity|]. right. apply IH.
      clear - Hy Hne. induction vs as [|z t IHt]; [contradiction|]. cbn [remove_first].
      destruct (Nat.eqb r z) eqn:E.
      * apply Nat.eqb_eq in E; subst z. destruct Hy as [->|Hy]; [congruence|exact Hy].
      * destruct Hy as [->|Hy]; [left; reflexivity|right; apply IHt; exact Hy].
    + intros y Hy. right. apply (IH _ H). exact Hy.
Qed.

(** * The tied witness (before the repair of F15): rotations of three views are rejected *)
Fixpoint perms_of (l : list nat) (fuel : nat) : list (list nat) :=
  match fuel with
  | 0 => [[]]
  | S f =>
      match l with
      | [] => [[]]
      | _ => flat_map (fun x => map (cons x) (perms_of (remove_first x l) f)) l
      end
  end.

Lemma tied_witness_rejects_rotation :
  expanded false [0; 1; 2] [1; 2; 0] = false /\ expanded false [0; 1; 2] [2; 0; 1] = false /\
  expanded false [0; 1; 2] [2; 1; 0] = true /\
  length (filter (expanded false [0; 1; 2; 3]) (perms_of [0; 1; 2; 3] 4)) = 8 /\
  length (filter (expanded true [0; 1; 2; 3]) (perms_of [0; 1; 2; 3] 4)) = 24.
Proof. vm_compute. auto. Qed.
