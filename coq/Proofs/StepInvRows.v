(** Preservation of [Inv] and UB-freedom for the row-moving operations:
    [do_remove], [do_entry_add], [do_entry_remove], [do_write], [do_clear]. *)
From Brood Require Import Base World BaseFacts Inv.

(** * Generic list facts *)

Lemma NoDup_app_intro (A : Type) (l1 l2 : list A) :
  NoDup l1 -> NoDup l2 -> (forall x, In x l1 -> In x l2 -> False) -> NoDup (l1 ++ l2).
Proof.
  induction l1 as [|a t IH]; intros N1 N2 D; cbn; auto.
  inversion N1 as [|? ? Hnin N1']; subst.
  constructor.
  - intros HI. apply in_app_or in HI as [HI|HI]; [contradiction|].
    apply (D a); cbn; auto.
  - apply IH; auto. intros x H1 H2. apply (D x); cbn; auto.
Qed.

Lemma insert_at_length (A : Type) (k : nat) (x : A) (l : list A) :
  length (insert_at k x l) = S (length l).
Proof.
  revert l; induction k as [|k IH]; intros l.
  - reflexivity.
  - destruct l as [|y t]; cbn [insert_at length]; auto.
Qed.

Lemma remove_at_length (A : Type) (k : nat) (l : list A) :
  k < length l -> length (remove_at k l) = length l - 1.
Proof.
  revert l; induction k as [|k IH]; intros l H.
  - destruct l; cbn in *; lia.
  - destruct l as [|y t]; cbn [remove_at length] in *; [lia|].
    rewrite IH by lia. lia.
Qed.

Lemma In_swap_remove (A : Type) (i : nat) (l : list A) (x : A) :
  i < length l -> In x (swap_remove i l) -> In x l.
Proof.
  intros Hi HI. apply In_nth_error in HI as [j Hj].
  rewrite (nth_error_swap_remove j l Hi) in Hj.
  destruct (Nat.ltb j (length l - 1)); [|discriminate].
  destruct (Nat.eqb j i); eapply nth_error_In; eauto.
Qed.

(** * Shapes: popcount and rank *)

Lemma count_true_cons (b : bool) (s : shape) :
  count_true (b :: s) = (if b then 1 else 0) + count_true s.
Proof. unfold count_true. destruct b; reflexivity. Qed.

Lemma count_true_set_true : forall (sh : shape) (c : nat),
  c < length sh -> get_bit c sh = false ->
  count_true (set_bit c true sh) = S (count_true sh).
Proof.
  induction sh as [|b s IH]; intros c Hc Hb.
  - cbn in Hc; lia.
  - destruct c as [|c].
    + unfold get_bit in Hb; cbn in Hb; subst b.
      unfold set_bit; cbn [upd]. rewrite !count_true_cons. lia.
    + unfold get_bit in Hb; cbn [nth] in Hb.
      unfold set_bit; cbn [upd]. fold (set_bit c true s).
      rewrite !count_true_cons. rewrite IH; auto. cbn in Hc; lia.
Qed.

Lemma count_true_set_false : forall (sh : shape) (c : nat),
  get_bit c sh = true ->
  S (count_true (set_bit c false sh)) = count_true sh.
Proof.
  induction sh as [|b s IH]; intros c Hb.
  - unfold get_bit in Hb. destruct c; discriminate.
  - destruct c as [|c].
    + unfold get_bit in Hb; cbn in Hb; subst b.
      unfold set_bit; cbn [upd]. rewrite !count_true_cons. lia.
    + unfold get_bit in Hb; cbn [nth] in Hb.
      unfold set_bit; cbn [upd]. fold (set_bit c false s).
      rewrite !count_true_cons. rewrite <- (IH c Hb). lia.
Qed.

Lemma rank_le : forall (sh : shape) (c : nat), rank c sh <= count_true sh.
Proof.
  unfold rank. induction sh as [|b s IH]; intros c.
  - destruct c; cbn; lia.
  - destruct c as [|c]; cbn [firstn].
    + unfold count_true at 1; cbn. lia.
    + rewrite !count_true_cons. specialize (IH c). lia.
Qed.

Lemma rank_lt : forall (sh : shape) (c : nat),
  get_bit c sh = true -> rank c sh < count_true sh.
Proof.
  unfold rank. induction sh as [|b s IH]; intros c Hb.
  - unfold get_bit in Hb. destruct c; discriminate.
  - destruct c as [|c]; cbn [firstn].
    + unfold get_bit in Hb; cbn in Hb; subst b.
      rewrite count_true_cons. unfold count_true at 1; cbn. lia.
    + unfold get_bit in Hb; cbn [nth] in Hb.
      rewrite !count_true_cons. specialize (IH c Hb). lia.
Qed.

Lemma get_bit_true_lt (c : nat) (sh : shape) : get_bit c sh = true -> c < length sh.
Proof.
  unfold get_bit. intros H.
  destruct (Nat.ltb_spec c (length sh)) as [|Hge]; auto.
  rewrite nth_overflow in H by lia. discriminate.
Qed.

(** * Slots and the archetype table *)

Lemma get_loc_slot w e sh r :
  get_loc w e = Some (sh, r) ->
  nth_error (w_slots w) (fst e) = Some (mkSlot (snd e) (Some (sh, r))).
Proof.
  unfold get_loc. destruct (nth_error (w_slots w) (fst e)) as [s|]; [|discriminate].
  destruct (N.eqb_spec (s_gen s) (snd e)) as [Hg|]; [|discriminate].
  intros H. destruct s as [g l]; cbn in *. subst. reflexivity.
Qed.

Lemma find_arch_unique archs a0 a :
  NoDup (map a_shape archs) -> In a0 archs ->
  find_arch (a_shape a0) archs = Some a -> a0 = a.
Proof.
  intros ND HI HF. rewrite (In_find_arch archs a0 ND HI) in HF. congruence.
Qed.

(** * The state between [take_row] and the closing step

    [Inv] holds except that slot [i] (generation [g]) is still active but
    points nowhere: no stored row carries index [i], and [w_len] counts one
    more row than is stored. *)
Record InvExcept (i : nat) (g : N) (w : world) : Prop := mkInvExcept {
  ie_shapes : forall a, In a (w_archs w) ->
      length (a_shape a) = w_n w /\
      forall rw, In rw (a_rows a) -> length (snd rw) = count_true (a_shape a);
  ie_nodup : NoDup (map a_shape (w_archs w));
  ie_fwd : forall j g' sh r, j <> i ->
      nth_error (w_slots w) j = Some (mkSlot g' (Some (sh, r))) ->
      exists a vals, find_arch sh (w_archs w) = Some a /\
                     nth_error (a_rows a) r = Some ((j, g'), vals);
  ie_bwd : forall sh a r j g' vals,
      find_arch sh (w_archs w) = Some a ->
      nth_error (a_rows a) r = Some ((j, g'), vals) ->
      j <> i /\ nth_error (w_slots w) j = Some (mkSlot g' (Some (sh, r)));
  ie_slot : exists loc, nth_error (w_slots w) i = Some (mkSlot g (Some loc));
  ie_free_nodup : NoDup (w_free w);
  ie_free : forall j, In j (w_free w) <->
                      exists g', nth_error (w_slots w) j = Some (mkSlot g' None);
  ie_len : w_len w = S (total_rows (w_archs w));
  ie_tid : forall sh, In sh (w_tid w) -> exists a, find_arch sh (w_archs w) = Some a
}.

Arguments ie_shapes [i g w] _ a _.
Arguments ie_nodup [i g w] _.
Arguments ie_fwd [i g w] _ j [g' sh r] _ _.
Arguments ie_bwd [i g w] _ sh [a] r [j g' vals] _ _.
Arguments ie_slot [i g w] _.
Arguments ie_free_nodup [i g w] _.
Arguments ie_free [i g w] _ j.
Arguments ie_len [i g w] _.
Arguments ie_tid [i g w] _ sh _.

(** Characterisation of [take_row] under [Inv]. *)
Lemma take_row_spec w i g sh r :
  Inv w ->
  nth_error (w_slots w) i = Some (mkSlot g (Some (sh, r))) ->
  exists archs1 slots1 vals,
    take_row sh r (w_archs w) (w_slots w) = Some (archs1, slots1, ((i, g), vals)) /\
    length vals = count_true sh /\ length sh = w_n w /\
    InvExcept i g (with_store w archs1 (w_tid w) slots1 (w_free w) (w_len w)).
Proof.
  intros HI Hs.
  destruct (@inv_fwd w HI i g sh r Hs) as (a & vals & Ha & Hr).
  pose proof (find_arch_shape _ _ Ha) as Hsh.
  pose proof (find_arch_In _ _ Ha) as Hin.
  destruct (@inv_shapes w HI a Hin) as [Hlen Hrows].
  assert (HrL : r < length (a_rows a)).
  { apply nth_error_Some. rewrite Hr. discriminate. }
  destruct (nth_error (a_rows a) (length (a_rows a) - 1)) as [[[li lg] lvals]|] eqn:Hlast.
  2:{ apply nth_error_None in Hlast. lia. }
  assert (Hls : nth_error (w_slots w) li =
                Some (mkSlot lg (Some (sh, length (a_rows a) - 1)))).
  { apply (@inv_bwd w HI sh a (length (a_rows a) - 1) li lg lvals Ha Hlast). }
  assert (Hli : r < length (a_rows a) - 1 -> li <> i).
  { intros Hlt ->. rewrite Hs in Hls. inversion Hls. lia. }
  exists (upd_arch sh (swap_remove r) (w_archs w)).
  exists (if Nat.ltb r (length (a_rows a) - 1)
          then upd li (fun s => mkSlot (s_gen s) (Some (sh, r))) (w_slots w)
          else w_slots w).
  exists vals.
  split.
  { unfold take_row. rewrite Ha. cbn [obind]. rewrite Hr. cbn [obind].
    unfold last_opt. rewrite Hlast. cbn [obind fst].
    destruct (Nat.ltb r (length (a_rows a) - 1)).
    - unfold set_loc_index. rewrite Hls. cbn [obind s_loc]. reflexivity.
    - cbn [obind]. reflexivity. }
  split. { rewrite <- Hsh. apply (Hrows _ (nth_error_In _ _ Hr)). }
  split. { rewrite <- Hsh. exact Hlen. }
  set (rows := a_rows a) in *.
  set (L := length rows) in *.
  set (moved := Nat.ltb r (L - 1)) in *.
  set (slots1 := if moved then upd li (fun s => mkSlot (s_gen s) (Some (sh, r))) (w_slots w)
                 else w_slots w).
  assert (Hslots1 : forall j, nth_error slots1 j =
            if moved && Nat.eqb j li then Some (mkSlot lg (Some (sh, r)))
            else nth_error (w_slots w) j).
  { intros j. unfold slots1. destruct moved; cbn [andb]; auto.
    rewrite nth_error_upd. destruct (Nat.eqb_spec j li) as [->|]; auto.
    rewrite Hls. reflexivity. }
  assert (HR : forall j, nth_error (swap_remove r rows) j =
            if Nat.ltb j (L - 1)
            then (if Nat.eqb j r then Some ((li, lg), lvals) else nth_error rows j)
            else None).
  { intros j. rewrite (nth_error_swap_remove j rows HrL). fold L. rewrite Hlast. reflexivity. }
  assert (Hfind1 : forall sh0, find_arch sh0 (upd_arch sh (swap_remove r) (w_archs w)) =
            if shape_eqb sh0 sh then Some (mkArch sh (swap_remove r rows))
            else find_arch sh0 (w_archs w)).
  { intros sh0. rewrite find_upd_arch, Ha. cbn [option_map]. rewrite Hsh. reflexivity. }
  clearbody slots1.
  constructor; unfold with_store; cbn [w_n w_archs w_tid w_slots w_free w_len w_res].
  - (* shapes *)
    intros b Hb. apply In_upd_arch in Hb as (a0 & Ha0 & ->).
    destruct (@inv_shapes w HI a0 Ha0) as [Hl0 Hr0].
    destruct (shape_eqb (a_shape a0) sh) eqn:E; [|split; auto].
    apply shape_eqb_eq in E. cbn [a_shape a_rows]. split; auto.
    intros rw Hrw. apply Hr0.
    assert (a0 = a).
    { apply (find_arch_unique (w_archs w)); auto. apply (inv_nodup HI). rewrite E. exact Ha. }
    subst a0. eapply In_swap_remove; eauto.
  - (* nodup *)
    rewrite map_shape_upd_arch. apply (inv_nodup HI).
  - (* fwd *)
    intros j g' sh0 r0 Hji Hj. rewrite Hslots1 in Hj.
    destruct (moved && Nat.eqb j li) eqn:Em.
    + apply andb_true_iff in Em as [Em1 Em2]. apply Nat.eqb_eq in Em2. subst j.
      inversion Hj; subst g' sh0 r0.
      exists (mkArch sh (swap_remove r rows)), lvals. split.
      * rewrite Hfind1, shape_eqb_refl. reflexivity.
      * cbn [a_rows]. rewrite HR. unfold moved in Em1. rewrite Em1, Nat.eqb_refl. reflexivity.
    + destruct (@inv_fwd w HI j g' sh0 r0 Hj) as (a0 & vals0 & Ha0 & Hr0).
      destruct (shape_eqb sh0 sh) eqn:E.
      * apply shape_eqb_eq in E. subst sh0. rewrite Ha in Ha0. inversion Ha0; subst a0.
        exists (mkArch sh (swap_remove r rows)), vals0. split.
        { rewrite Hfind1, shape_eqb_refl. reflexivity. }
        cbn [a_rows]. rewrite HR. fold rows in Hr0.
        assert (Hne : r0 <> r). { intros ->. rewrite Hr in Hr0. inversion Hr0. congruence. }
        assert (Hlt : r0 < L). { apply nth_error_Some. rewrite Hr0. discriminate. }
        assert (Hnl : r0 <> L - 1).
        { intros ->. rewrite Hlast in Hr0. inversion Hr0; subst.
          apply andb_false_iff in Em as [Em|Em].
          - unfold moved in Em. apply Nat.ltb_ge in Em. lia.
          - rewrite Nat.eqb_refl in Em. discriminate. }
        destruct (Nat.ltb_spec r0 (L - 1)); [|lia].
        destruct (Nat.eqb_spec r0 r); [contradiction|]. exact Hr0.
      * exists a0, vals0. split; auto. rewrite Hfind1, E. exact Ha0.
  - (* bwd *)
    intros sh0 a1 r0 j g' vals0 Ha1 Hr1. rewrite Hfind1 in Ha1. rewrite Hslots1.
    destruct (shape_eqb sh0 sh) eqn:E.
    + apply shape_eqb_eq in E. subst sh0. inversion Ha1; subst a1. cbn [a_rows] in Hr1.
      rewrite HR in Hr1. destruct (Nat.ltb_spec r0 (L - 1)) as [Hlt|]; [|discriminate].
      destruct (Nat.eqb_spec r0 r) as [->|Hne].
      * inversion Hr1; subst j g' vals0.
        assert (Hm : moved = true) by (apply Nat.ltb_lt; exact Hlt).
        split; [apply Hli; exact Hlt|]. rewrite Hm, Nat.eqb_refl. reflexivity.
      * pose proof (@inv_bwd w HI sh a r0 j g' vals0 Ha Hr1) as Hsj.
        assert (Hjl : j <> li). { intros ->. rewrite Hls in Hsj. inversion Hsj. lia. }
        assert (Hji : j <> i). { intros ->. rewrite Hs in Hsj. inversion Hsj. lia. }
        split; auto. destruct (Nat.eqb_spec j li); [contradiction|].
        rewrite andb_false_r. exact Hsj.
    + apply shape_eqb_neq in E.
      pose proof (@inv_bwd w HI sh0 a1 r0 j g' vals0 Ha1 Hr1) as Hsj.
      assert (Hjl : j <> li). { intros ->. rewrite Hls in Hsj. inversion Hsj. congruence. }
      assert (Hji : j <> i). { intros ->. rewrite Hs in Hsj. inversion Hsj. congruence. }
      split; auto. destruct (Nat.eqb_spec j li); [contradiction|].
      rewrite andb_false_r. exact Hsj.
  - (* slot *)
    exists (sh, r). rewrite Hslots1. destruct moved eqn:Em; cbn [andb]; auto.
    destruct (Nat.eqb_spec i li) as [Heq|]; auto.
    exfalso. apply Hli; auto. apply Nat.ltb_lt. exact Em.
  - apply (inv_free_nodup HI).
  - (* free *)
    intros j. rewrite (inv_free HI j). rewrite Hslots1.
    destruct (moved && Nat.eqb j li) eqn:Em; [|reflexivity].
    apply andb_true_iff in Em as [_ Em]. apply Nat.eqb_eq in Em. subst j.
    split; intros [g' Hg'].
    + rewrite Hls in Hg'. discriminate.
    + discriminate.
  - (* len *)
    rewrite (inv_len HI).
    pose proof (total_rows_upd_arch sh (swap_remove r) (w_archs w) (inv_nodup HI) Ha) as T.
    fold rows in T. rewrite (swap_remove_length rows HrL) in T. fold L in T. lia.
  - (* tid *)
    intros sh0 Hsh0. destruct (inv_tid HI sh0 Hsh0) as [a0 Ha0].
    rewrite Hfind1. destruct (shape_eqb sh0 sh); eauto.
Qed.

(** * Closing step 1: free the dangling slot ([do_remove]) *)
Lemma free_close w i g :
  InvExcept i g w ->
  exists slots2 free2,
    free_slot i (w_slots w) (w_free w) = Some (slots2, free2) /\
    Inv (with_store w (w_archs w) (w_tid w) slots2 free2 (w_len w - 1)).
Proof.
  intros HE. destruct (ie_slot HE) as [loc Hs].
  exists (upd i (fun s => mkSlot (s_gen s) None) (w_slots w)), (w_free w ++ [i]).
  split.
  { unfold free_slot. rewrite Hs. cbn [obind]. reflexivity. }
  assert (Hsl : forall j, nth_error (upd i (fun s => mkSlot (s_gen s) None) (w_slots w)) j =
                  if Nat.eqb j i then Some (mkSlot g None) else nth_error (w_slots w) j).
  { intros j. rewrite nth_error_upd. destruct (Nat.eqb_spec j i) as [->|]; auto.
    rewrite Hs. reflexivity. }
  constructor; unfold with_store; cbn [w_n w_archs w_tid w_slots w_free w_len w_res].
  - apply (ie_shapes HE).
  - apply (ie_nodup HE).
  - intros j g' sh r Hj. rewrite Hsl in Hj.
    destruct (Nat.eqb_spec j i) as [->|Hne]; [discriminate|].
    apply (ie_fwd HE j Hne Hj).
  - intros sh a r j g' vals Ha Hr.
    destruct (ie_bwd HE sh r Ha Hr) as [Hne Hj].
    rewrite Hsl. destruct (Nat.eqb_spec j i); [contradiction|]. exact Hj.
  - apply NoDup_app_intro.
    + apply (ie_free_nodup HE).
    + constructor; [intros []|constructor].
    + intros x Hx [<-|[]]. apply (ie_free HE) in Hx as [g' Hg']. rewrite Hs in Hg'. discriminate.
  - intros j. rewrite Hsl. split.
    + intros Hj. apply in_app_or in Hj as [Hj|[<-|[]]].
      * destruct (Nat.eqb_spec j i); eauto. apply (ie_free HE). exact Hj.
      * rewrite Nat.eqb_refl. eauto.
    + intros [g' Hg']. apply in_or_app.
      destruct (Nat.eqb_spec j i) as [->|Hne]; [right; left; reflexivity|].
      left. apply (ie_free HE). eauto.
  - rewrite (ie_len HE). lia.
  - apply (ie_tid HE).
Qed.

(** * Closing step 2: push the row into another archetype ([Entry] add/remove) *)
Lemma move_close w i g sh' vals' :
  InvExcept i g w ->
  length sh' = w_n w ->
  length vals' = count_true sh' ->
  exists archs2 slots2,
    move_row sh' (i, g) vals' (w_archs w) (w_slots w) = Some (archs2, slots2) /\
    Inv (with_store w archs2 (w_tid w) slots2 (w_free w) (w_len w)).
Proof.
  intros HE Hshl Hvl. destruct (ie_slot HE) as [loc Hs].
  pose proof (ie_nodup HE) as ND.
  set (rows' := match find_arch sh' (w_archs w) with Some a => a_rows a | None => [] end).
  assert (Hens : find_arch sh' (ensure_arch sh' (w_archs w)) = Some (mkArch sh' rows')).
  { rewrite find_ensure_arch. unfold rows'.
    destruct (find_arch sh' (w_archs w)) as [a|] eqn:E.
    - rewrite <- (find_arch_shape _ _ E). destruct a; reflexivity.
    - rewrite shape_eqb_refl. reflexivity. }
  set (new := ((i, g), vals') : row).
  set (archs2 := upd_arch sh' (fun rows => rows ++ [new]) (ensure_arch sh' (w_archs w))).
  set (slots2 := upd i (fun s => mkSlot (s_gen s) (Some (sh', length rows'))) (w_slots w)).
  exists archs2, slots2.
  split.
  { unfold move_row. rewrite Hens. cbn [obind a_rows fst].
    unfold set_loc. rewrite Hs. cbn [obind]. reflexivity. }
  assert (Hsl : forall j, nth_error slots2 j =
                  if Nat.eqb j i then Some (mkSlot g (Some (sh', length rows')))
                  else nth_error (w_slots w) j).
  { intros j. unfold slots2. rewrite nth_error_upd. destruct (Nat.eqb_spec j i) as [->|]; auto.
    rewrite Hs. reflexivity. }
  assert (Hfind2 : forall sh0, find_arch sh0 archs2 =
            if shape_eqb sh0 sh' then Some (mkArch sh' (rows' ++ [new]))
            else find_arch sh0 (w_archs w)).
  { intros sh0. unfold archs2. rewrite find_upd_arch, Hens. cbn [option_map a_shape a_rows].
    destruct (shape_eqb sh0 sh') eqn:E; auto.
    rewrite find_ensure_arch. destruct (find_arch sh0 (w_archs w)); auto.
    rewrite shape_eqb_sym, E. reflexivity. }
  assert (Hold : forall r x, nth_error rows' r = Some x ->
            exists a, find_arch sh' (w_archs w) = Some a /\ nth_error (a_rows a) r = Some x).
  { intros r x Hx. unfold rows' in Hx. destruct (find_arch sh' (w_archs w)) as [a|]; eauto.
    destruct r; discriminate. }
  clearbody slots2.
  constructor; unfold with_store; cbn [w_n w_archs w_tid w_slots w_free w_len w_res].
  - (* shapes *)
    intros b Hb. unfold archs2 in Hb. apply In_upd_arch in Hb as (a0 & Ha0 & ->).
    assert (H0 : length (a_shape a0) = w_n w /\
                 forall rw, In rw (a_rows a0) -> length (snd rw) = count_true (a_shape a0)).
    { apply In_ensure_arch in Ha0 as [Ha0| ->].
      - apply (ie_shapes HE a0 Ha0).
      - cbn [a_shape a_rows]. split; auto. intros rw []. }
    destruct H0 as [Hl0 Hr0].
    destruct (shape_eqb (a_shape a0) sh') eqn:E; [|split; auto].
    apply shape_eqb_eq in E. cbn [a_shape a_rows]. split; auto.
    intros rw Hrw. apply in_app_or in Hrw as [Hrw|[<-|[]]]; auto.
    unfold new. cbn [snd]. rewrite E. exact Hvl.
  - (* nodup *)
    unfold archs2. rewrite map_shape_upd_arch. apply ensure_arch_nodup. exact ND.
  - (* fwd *)
    intros j g' sh0 r0 Hj. rewrite Hsl in Hj.
    destruct (Nat.eqb_spec j i) as [->|Hne].
    + inversion Hj; subst g' sh0 r0.
      exists (mkArch sh' (rows' ++ [new])), vals'. split.
      * rewrite Hfind2, shape_eqb_refl. reflexivity.
      * cbn [a_rows]. apply nth_error_app_last.
    + destruct (ie_fwd HE j Hne Hj) as (a0 & vals0 & Ha0 & Hr0).
      destruct (shape_eqb sh0 sh') eqn:E.
      * apply shape_eqb_eq in E. subst sh0.
        exists (mkArch sh' (rows' ++ [new])), vals0. split.
        { rewrite Hfind2, shape_eqb_refl. reflexivity. }
        cbn [a_rows]. unfold rows'. rewrite Ha0.
        rewrite nth_error_app1; auto. apply nth_error_Some. rewrite Hr0. discriminate.
      * exists a0, vals0. split; auto. rewrite Hfind2, E. exact Ha0.
  - (* bwd *)
    intros sh0 a1 r0 j g' vals0 Ha1 Hr1. rewrite Hfind2 in Ha1. rewrite Hsl.
    destruct (shape_eqb sh0 sh') eqn:E.
    + apply shape_eqb_eq in E. subst sh0. inversion Ha1; subst a1. cbn [a_rows] in Hr1.
      rewrite nth_error_snoc in Hr1.
      destruct (Nat.ltb_spec r0 (length rows')) as [Hlt|Hge].
      * destruct (Hold _ _ Hr1) as (a0 & Ha0 & Hr0).
        destruct (ie_bwd HE sh' r0 Ha0 Hr0) as [Hne Hj].
        destruct (Nat.eqb_spec j i); [contradiction|]. exact Hj.
      * destruct (Nat.eqb_spec r0 (length rows')) as [->|]; [|discriminate].
        unfold new in Hr1. inversion Hr1; subst j g' vals0.
        rewrite Nat.eqb_refl. reflexivity.
    + destruct (ie_bwd HE sh0 r0 Ha1 Hr1) as [Hne Hj].
      destruct (Nat.eqb_spec j i); [contradiction|]. exact Hj.
  - apply (ie_free_nodup HE).
  - (* free *)
    intros j. rewrite (ie_free HE j). rewrite Hsl.
    destruct (Nat.eqb_spec j i) as [->|]; [|reflexivity].
    split; intros [g' Hg'].
    + rewrite Hs in Hg'. discriminate.
    + discriminate.
  - (* len *)
    rewrite (ie_len HE).
    pose proof (total_rows_upd_arch sh' (fun rows => rows ++ [new]) (ensure_arch sh' (w_archs w))
                  (ensure_arch_nodup sh' _ ND) Hens) as T.
    fold archs2 in T. cbn [a_rows] in T. rewrite app_length in T. cbn [length] in T.
    rewrite total_rows_ensure_arch in T. lia.
  - (* tid *)
    intros sh0 Hsh0. destruct (ie_tid HE sh0 Hsh0) as [a0 Ha0].
    rewrite Hfind2. destruct (shape_eqb sh0 sh'); eauto.
Qed.
