(** Every operation preserves the invariant and never reaches an unchecked
    failure: assembly of the per-operation results. *)
From Brood Require Import Base World BaseFacts Inv StepInvAlloc StepInvRows.

Theorem step_inv : forall w o w' r evs, Inv w -> step w o = Some (w', r, evs) -> Inv w'.
Proof.
  intros w o w' r evs HI H. destruct o; cbn [step] in H.
  - eapply do_insert_inv; eassumption.
  - eapply do_extend_inv; eassumption.
  - eapply do_remove_inv; eassumption.
  - eapply do_clear_inv; eassumption.
  - eapply do_entry_add_inv; eassumption.
  - eapply do_entry_remove_inv; eassumption.
  - eapply do_write_inv; eassumption.
  - eapply do_reserve_inv; eassumption.
  - eapply do_shrink_inv; eassumption.
  - eapply do_res_set_inv; eassumption.
Qed.

Theorem step_safe : forall w o, Inv w -> step w o <> None.
Proof.
  intros w o HI. destruct o; cbn [step].
  - apply do_insert_safe; assumption.
  - apply do_extend_safe; assumption.
  - apply do_remove_safe; assumption.
  - apply do_clear_safe; assumption.
  - apply do_entry_add_safe; assumption.
  - apply do_entry_remove_safe; assumption.
  - apply do_write_safe; assumption.
  - apply do_reserve_safe; assumption.
  - unfold do_shrink. discriminate.
  - unfold do_res_set. destruct (nth_error (w_res w) i); discriminate.
Qed.

Theorem step_n : forall w o w' r evs, Inv w -> step w o = Some (w', r, evs) -> w_n w' = w_n w.
Proof.
  intros w o w' r evs HI H. destruct o; cbn [step] in H.
  - eapply do_insert_n; eassumption.
  - eapply do_extend_n; eassumption.
  - eapply do_remove_n; eassumption.
  - eapply do_clear_n; eassumption.
  - eapply do_entry_add_n; eassumption.
  - eapply do_entry_remove_n; eassumption.
  - eapply do_write_n; eassumption.
  - eapply do_reserve_n; eassumption.
  - eapply do_shrink_n; eassumption.
  - eapply do_res_set_n; eassumption.
Qed.

(** Every reachable state: induction over the history. *)
Theorem run_inv : forall ops w w', Inv w -> run w ops = Some w' -> Inv w'.
Proof.
  induction ops as [|o t IH]; intros w w' HI H; cbn [run] in H.
  - inversion H; subst; exact HI.
  - destruct (step w o) as [[[w1 r] evs]|] eqn:E; cbn [obind] in H; [|discriminate].
    eapply IH; [|exact H]. eapply step_inv; eassumption.
Qed.

Theorem run_safe : forall ops w, Inv w -> run w ops <> None.
Proof.
  induction ops as [|o t IH]; intros w HI; cbn [run]; [discriminate|].
  destruct (step w o) as [[[w1 r] evs]|] eqn:E; cbn [obind].
  - apply IH. eapply step_inv; eassumption.
  - exfalso. exact (step_safe w o HI E).
Qed.

Theorem run_n : forall ops w w', Inv w -> run w ops = Some w' -> w_n w' = w_n w.
Proof.
  induction ops as [|o t IH]; intros w w' HI H; cbn [run] in H.
  - inversion H; reflexivity.
  - destruct (step w o) as [[[w1 r] evs]|] eqn:E; cbn [obind] in H; [|discriminate].
    rewrite (IH w1 w'); [eapply step_n; eassumption | eapply step_inv; eassumption | exact H].
Qed.
