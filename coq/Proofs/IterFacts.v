(** C03: however a query's iterator is consumed — [next] any number of times, then a fold-based
    consumer — every to_come result is seen exactly once, in order. *)
From Brood Require Import Base Facts IterM BaseFacts.

Section IterFacts.
  Variable item : Type.
  Notation iter := (iter item).

  Lemma advance_spec rest : match advance item rest with
    | (Some x, it') => rest_items item rest = x :: to_come item it'
    | (None, it') => rest_items item rest = [] /\ to_come item it' = []
    end.
  Proof.
    induction rest as [|[m rows] r IH]; cbn [advance]; [split; reflexivity|].
    destruct m.
    - destruct rows as [|x t].
      + cbn [rest_items flat_map fst snd app]. exact IH.
      + cbn [rest_items flat_map fst snd]. unfold to_come. cbn [it_cur it_rest]. reflexivity.
    - cbn [rest_items flat_map fst snd app]. exact IH.
  Qed.

  Lemma next_spec (it : iter) : match next item it with
    | (Some x, it') => to_come item it = x :: to_come item it'
    | (None, it') => to_come item it = [] /\ to_come item it' = []
    end.
  Proof.
    unfold next. destruct it as [cur rest]. cbn [it_cur it_rest].
    destruct cur as [[|x t]|].
    - pose proof (advance_spec rest) as H. destruct (advance item rest) as [[y|] it']; unfold to_come at 1; cbn [it_cur it_rest app]; exact H.
    - unfold to_come. cbn [it_cur it_rest]. reflexivity.
    - pose proof (advance_spec rest) as H. destruct (advance item rest) as [[y|] it']; unfold to_come at 1; cbn [it_cur it_rest app]; exact H.
  Qed.

  (** any number of [next] calls, then a fold: together they see exactly what was to come *)
  Theorem nexts_then_fold n : forall (it : iter),
    let '(xs, it') := nexts item n it in xs ++ fold_items item true it' = to_come item it.
  Proof.
    induction n as [|n IH]; intros it; cbn [nexts].
    - reflexivity.
    - pose proof (next_spec it) as H. destruct (next item it) as [[x|] it'].
      + specialize (IH it'). destruct (nexts item n it') as [xs it'']. cbn [app]. rewrite IH. symmetry. exact H.
      + destruct H as [H1 H2]. cbn [app]. unfold fold_items. fold (to_come item it'). rewrite H1, H2. reflexivity.
  Qed.

  Theorem nexts_then_fold_src n (it : iter) :
    let '(xs, it') := nexts item n it in xs ++ fold_src item it' = to_come item it.
  Proof. unfold fold_src. change fact_iter_fold_folds_current_first with true. apply nexts_then_fold. Qed.
End IterFacts.

(** without folding the current archetype first, what was left of it is lost *)
Lemma fold_skipping_current_loses :
  let it0 := mkIter nat None [(true, [1; 2; 3]); (false, [9]); (true, [4])] in
  let '(xs, it') := nexts nat 1 it0 in
  xs = [1] /\ fold_items nat false it' = [4] /\ fold_items nat true it' = [2; 3; 4].
Proof. vm_compute. auto. Qed.

(** * The iterator of a world's query *)
From Brood Require Import World Spec Kinds Tables Sched Query Inv StepInv Refine QueryFacts.

Lemma iter_of_archs vs f : forall archs ps, mapM (pending_of vs f) archs = Some ps ->
  query_archs vs f archs = Some (rest_items (list qitem) ps).
Proof.
  induction archs as [|a t IH]; intros ps H; cbn [mapM] in H.
  - inversion H. reflexivity.
  - destruct (pending_of vs f a) as [p|] eqn:Ep; [|discriminate].
    destruct (mapM (pending_of vs f) t) as [pt|] eqn:Et; [|discriminate]. inversion H; subst ps. clear H.
    cbn [query_archs]. rewrite (IH pt eq_refl). unfold pending_of in Ep. unfold query_arch.
    destruct (filter_eval (query_filter vs f) (a_shape a)).
    + destruct (mapM (view_row (a_shape a) vs) (a_rows a)) as [rs|]; [|discriminate]. inversion Ep; subst p.
      cbn [rest_items flat_map fst snd]. reflexivity.
    + inversion Ep; subst p. cbn [rest_items flat_map fst snd app]. reflexivity.
Qed.

Lemma mapM_some_iff {A B} (f : A -> option B) l : (forall x, In x l -> f x <> None) -> mapM f l <> None.
Proof.
  induction l as [|x t IH]; intros H; cbn [mapM]; [discriminate|].
  destruct (f x) eqn:E; [|exfalso; apply (H x (or_introl eq_refl)); exact E].
  destruct (mapM f t) eqn:Et; [discriminate|]. exfalso. apply IH; [|reflexivity]. intros y Hy. apply H. right. exact Hy.
Qed.

(** however it is consumed — [n] calls of [next], then a fold — the iterator of a query yields exactly the
    specified results: one per matching live entity *)
Theorem world_iter_consumed w vs f n : Inv w -> wf_views (w_n w) vs ->
  exists it, iter_of_world w vs f = Some it /\
    let '(xs, it') := nexts (list qitem) n it in
    xs ++ fold_src (list qitem) it' = query_spec (abs w) vs f.
Proof.
  intros HI WF. pose proof (query_impl_spec w vs f HI WF) as HQ.
  unfold iter_of_world. destruct (mapM (pending_of vs f) (w_archs w)) as [ps|] eqn:E.
  - eexists. split; [reflexivity|].
    pose proof (nexts_then_fold_src (list qitem) n (@mkIter (list qitem) None ps)) as H.
    destruct (nexts (list qitem) n (@mkIter (list qitem) None ps)) as [xs it']. rewrite H.
    unfold to_come. cbn [it_cur it_rest app].
    unfold query_impl in HQ. rewrite (iter_of_archs vs f (w_archs w) ps E) in HQ. inversion HQ. reflexivity.
  - exfalso. revert E. apply mapM_some_iff. intros a Ha. unfold pending_of.
    destruct (filter_eval (query_filter vs f) (a_shape a)) eqn:EF; [|discriminate].
    assert (Q : query_arch vs f a <> None).
    { unfold query_impl in HQ. clear - HQ Ha. revert HQ. generalize (query_spec (abs w) vs f) as rows.
      induction (w_archs w) as [|b t IH]; intros rows HQ; [destruct Ha|].
      cbn [query_archs] in HQ. destruct (query_arch vs f b) eqn:Eb; [|discriminate].
      destruct (query_archs vs f t) eqn:Et; [|discriminate]. destruct Ha as [->|Ha]; [congruence|]. eapply IH; eauto. }
    unfold query_arch in Q. rewrite EF in Q. destruct (mapM (view_row (a_shape a) vs) (a_rows a)); [discriminate|congruence].
Qed.
