(** The structural invariant of C13 and the archetype-table lemmas every
    preservation proof uses. *)
From Brood Require Import Base World BaseFacts.

Set Implicit Arguments.

(** * The invariant *)
Record Inv (w : world) : Prop := mkInv {
  (* every archetype has a registry-length shape and one value per set bit in each row *)
  inv_shapes : forall a, In a (w_archs w) ->
      length (a_shape a) = w_n w /\
      forall rw, In rw (a_rows a) -> length (snd rw) = count_true (a_shape a);
  (* one table per component set *)
  inv_nodup : NoDup (map a_shape (w_archs w));
  (* an active slot points at the row that holds its identifier *)
  inv_fwd : forall i g sh r,
      nth_error (w_slots w) i = Some (mkSlot g (Some (sh, r))) ->
      exists a vals, find_arch sh (w_archs w) = Some a /\
                     nth_error (a_rows a) r = Some ((i, g), vals);
  (* every stored row is pointed at by the slot of its identifier *)
  inv_bwd : forall sh a r i g vals,
      find_arch sh (w_archs w) = Some a ->
      nth_error (a_rows a) r = Some ((i, g), vals) ->
      nth_error (w_slots w) i = Some (mkSlot g (Some (sh, r)));
  (* the free queue holds exactly the inactive slots, once each *)
  inv_free_nodup : NoDup (w_free w);
  inv_free : forall i, In i (w_free w) <->
                       exists g, nth_error (w_slots w) i = Some (mkSlot g None);
  (* len() counts the stored rows *)
  inv_len : w_len w = total_rows (w_archs w);
  (* type-id lookup targets exist *)
  inv_tid : forall sh, In sh (w_tid w) -> exists a, find_arch sh (w_archs w) = Some a
}.

(** * Archetype table as a finite map keyed by shape *)

Lemma find_arch_shape sh archs a : find_arch sh archs = Some a -> a_shape a = sh.
Proof.
  unfold find_arch. intros H. apply find_some in H as [_ H]. apply shape_eqb_eq; auto.
Qed.

Lemma find_arch_In sh archs a : find_arch sh archs = Some a -> In a archs.
Proof. unfold find_arch. intros H. apply find_some in H as [H _]; auto. Qed.

Lemma find_arch_None sh archs :
  find_arch sh archs = None <-> ~ In sh (map a_shape archs).
Proof.
  unfold find_arch. induction archs as [|a t IH]; cbn.
  - tauto.
  - destruct (shape_eqb (a_shape a) sh) eqn:E.
    + apply shape_eqb_eq in E. split; [discriminate | intros H; exfalso; apply H; auto].
    + apply shape_eqb_neq in E. rewrite IH. tauto.
Qed.

Lemma In_find_arch archs a :
  NoDup (map a_shape archs) -> In a archs -> find_arch (a_shape a) archs = Some a.
Proof.
  unfold find_arch. induction archs as [|b t IH]; cbn; intros ND HI; [tauto|].
  inversion ND as [|? ? Hnin ND']; subst.
  destruct HI as [->|HI].
  - rewrite shape_eqb_refl; reflexivity.
  - destruct (shape_eqb (a_shape b) (a_shape a)) eqn:E.
    + apply shape_eqb_eq in E. exfalso; apply Hnin. rewrite E. apply in_map; auto.
    + apply IH; auto.
Qed.

Lemma map_shape_upd_arch sh f archs :
  map a_shape (upd_arch sh f archs) = map a_shape archs.
Proof.
  unfold upd_arch. rewrite map_map. apply map_ext. intros a.
  destruct (shape_eqb (a_shape a) sh); reflexivity.
Qed.

Lemma find_upd_arch sh sh' f archs :
  find_arch sh' (upd_arch sh f archs) =
  if shape_eqb sh' sh
  then option_map (fun a => mkArch (a_shape a) (f (a_rows a))) (find_arch sh archs)
  else find_arch sh' archs.
Proof.
  unfold find_arch, upd_arch. induction archs as [|a t IH]; cbn.
  - destruct (shape_eqb sh' sh); reflexivity.
  - destruct (shape_eqb (a_shape a) sh) eqn:E1; cbn.
    + apply shape_eqb_eq in E1. subst sh.
      destruct (shape_eqb (a_shape a) sh') eqn:E2.
      * rewrite shape_eqb_sym, E2. reflexivity.
      * rewrite IH. rewrite shape_eqb_sym in E2. rewrite E2. reflexivity.
    + destruct (shape_eqb (a_shape a) sh') eqn:E2.
      * apply shape_eqb_eq in E2. subst sh'. rewrite E1. reflexivity.
      * apply IH.
Qed.

Lemma find_upd_arch_same sh f archs :
  find_arch sh (upd_arch sh f archs) =
  option_map (fun a => mkArch (a_shape a) (f (a_rows a))) (find_arch sh archs).
Proof. rewrite find_upd_arch, shape_eqb_refl; reflexivity. Qed.

Lemma find_upd_arch_other sh sh' f archs :
  sh' <> sh -> find_arch sh' (upd_arch sh f archs) = find_arch sh' archs.
Proof. intros H. rewrite find_upd_arch. apply shape_eqb_neq in H. rewrite H. reflexivity. Qed.

Lemma In_upd_arch sh f archs b :
  In b (upd_arch sh f archs) ->
  exists a, In a archs /\
            b = if shape_eqb (a_shape a) sh then mkArch (a_shape a) (f (a_rows a)) else a.
Proof. unfold upd_arch. intros H. apply in_map_iff in H as [a [H1 H2]]. eauto. Qed.

Lemma total_rows_cons a t : total_rows (a :: t) = length (a_rows a) + total_rows t.
Proof. reflexivity. Qed.

Lemma total_rows_upd_arch sh f archs a :
  NoDup (map a_shape archs) -> find_arch sh archs = Some a ->
  total_rows (upd_arch sh f archs) + length (a_rows a) =
  total_rows archs + length (f (a_rows a)).
Proof.
  induction archs as [|b t IH]; intros ND H; [discriminate|].
  cbn [map] in ND. inversion ND as [|? ? Hnin ND']; subst.
  unfold find_arch in H. cbn [find] in H.
  unfold upd_arch. cbn [map]. fold (upd_arch sh f t).
  rewrite !total_rows_cons.
  destruct (shape_eqb (a_shape b) sh) eqn:E.
  - inversion H; subst b. cbn [a_rows].
    assert (Hmap : upd_arch sh f t = t).
    { apply shape_eqb_eq in E. subst sh. unfold upd_arch.
      rewrite <- (map_id t) at 2. apply map_ext_in. intros c Hc.
      destruct (shape_eqb (a_shape c) (a_shape a)) eqn:E2; auto.
      apply shape_eqb_eq in E2. exfalso. apply Hnin. rewrite <- E2. apply in_map; auto. }
    rewrite Hmap. lia.
  - specialize (IH ND' H). lia.
Qed.

Lemma total_rows_app a b : total_rows (a ++ b) = total_rows a + total_rows b.
Proof. unfold total_rows. induction a as [|x t IH]; cbn; auto. rewrite IH; lia. Qed.

Lemma find_arch_app sh a b :
  find_arch sh (a ++ b) = match find_arch sh a with Some x => Some x | None => find_arch sh b end.
Proof.
  unfold find_arch. induction a as [|x t IH]; cbn; auto.
  destruct (shape_eqb (a_shape x) sh); auto.
Qed.

(** [ensure_arch] *)
Lemma find_ensure_arch sh sh' archs :
  find_arch sh' (ensure_arch sh archs) =
  match find_arch sh' archs with
  | Some a => Some a
  | None => if shape_eqb sh sh' then Some (mkArch sh []) else None
  end.
Proof.
  unfold ensure_arch. destruct (find_arch sh archs) eqn:E.
  - destruct (find_arch sh' archs) eqn:E2; auto.
    destruct (shape_eqb sh sh') eqn:E3; auto.
    apply shape_eqb_eq in E3; subst. congruence.
  - rewrite find_arch_app. destruct (find_arch sh' archs); auto.
Qed.

Lemma ensure_arch_nodup sh archs :
  NoDup (map a_shape archs) -> NoDup (map a_shape (ensure_arch sh archs)).
Proof.
  intros ND. unfold ensure_arch. destruct (find_arch sh archs) eqn:E; auto.
  rewrite map_app. cbn. apply find_arch_None in E.
  rewrite <- (app_nil_r (map a_shape archs ++ [sh])).
  rewrite <- app_assoc. cbn. apply NoDup_Add with (a := sh) (l := map a_shape archs).
  - rewrite <- (app_nil_r (map a_shape archs)) at 1. apply Add_app.
  - constructor; auto.
Qed.

Lemma total_rows_ensure_arch sh archs : total_rows (ensure_arch sh archs) = total_rows archs.
Proof.
  unfold ensure_arch. destruct (find_arch sh archs); auto.
  rewrite total_rows_app. cbn. lia.
Qed.

Lemma In_ensure_arch sh archs a :
  In a (ensure_arch sh archs) -> In a archs \/ a = mkArch sh [].
Proof.
  unfold ensure_arch. destruct (find_arch sh archs); auto.
  intros H. apply in_app_or in H as [H|[H|[]]]; auto.
Qed.

Lemma empty_world_inv n res : Inv (empty_world n res).
Proof.
  constructor; cbn.
  - tauto.
  - constructor.
  - intros i g sh r H. destruct i; discriminate.
  - intros sh a r i g vals H. discriminate.
  - constructor.
  - intros i. split; [tauto|]. intros [g H]. destruct i; discriminate.
  - reflexivity.
  - tauto.
Qed.
