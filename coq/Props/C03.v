(** C03 — Queries return exactly the matching entities with the right values.
    Property theorems only; proofs are in Proofs/QueryFacts.v (and Proofs/Refine.v).
    [query_impl] (Model/Query.v) is the query as the code performs it: archetype
    filter [And<Views, Filter>] evaluated on the identifier bits through the
    regenerated tables, column selection by walking the identifier bits alongside
    the registry, reshape to the written view order.  [query_spec] is a
    comprehension over the map identifier -> component vector ([abs w]). *)
From Coq Require Import Permutation.
From Brood Require Import Base World Spec Kinds Tables Sched Query Subset SubsetM IterM Facts Advance BaseFacts Inv StepInv Refine QueryFacts SubsetFacts IterFacts AdvanceFacts.

(** For any views (any kinds, any order, with or without the identifier, empty),
    any filter and every reachable world — empty archetypes and zero-sized
    components included — the query never reads a column it should not
    ([Some]: no unchecked access fails) and yields exactly one result per live
    entity that satisfies the filter and has every non-optional viewed
    component, carrying that entity's identifier and values; optional views are
    None exactly when the component is absent. *)
Theorem C03_query : forall w vs f, Inv w -> wf_views (w_n w) vs ->
  query_impl w vs f = Some (query_spec (abs w) vs f).
Proof. exact query_impl_spec. Qed.
Check (C03_query : forall w vs f, Inv w -> wf_views (w_n w) vs ->
  query_impl w vs f = Some (query_spec (abs w) vs f)).
Print Assumptions C03_query.

(** Single-entity queries through World::entry. *)
Theorem C03_entry : forall w e vs f, Inv w -> wf_views (w_n w) vs ->
  entry_query w e vs f =
  Some (match absf w e with
        | Some cv => if matches cv vs f then Some (map (spec_item e cv) vs) else None
        | None => None
        end).
Proof. exact entry_query_spec. Qed.
Check (C03_entry : forall w e vs f, Inv w -> wf_views (w_n w) vs ->
  entry_query w e vs f =
  Some (match absf w e with
        | Some cv => if matches cv vs f then Some (map (spec_item e cv) vs) else None
        | None => None
        end)).
Print Assumptions C03_entry.

(** A write through a mutable view changes that component of that entity only
    (every other identifier, and every other component, keeps its value). *)
Theorem C03_write_mut : forall w e c v w' r evs, Inv w ->
  step w (WriteMut e c v) = Some (w', r, evs) ->
  spec_step (w_n w) (absf w) (WriteMut e c v) r (absf w').
Proof. intros w e c v w' r evs HI H. exact (step_refines w (WriteMut e c v) w' r evs HI H). Qed.
Check (C03_write_mut : forall w e c v w' r evs, Inv w ->
  step w (WriteMut e c v) = Some (w', r, evs) ->
  spec_step (w_n w) (absf w) (WriteMut e c v) r (absf w')).
Print Assumptions C03_write_mut.

(** The column read for component k of an archetype is the (number of set bits
    below k)-th: the lemma the index arithmetic of the bit walk rests on. *)
Theorem C03_walk : forall sh vals vs, length vals = count_true sh ->
  (forall j kd, kind_of j vs = Some kd -> is_opt_kind kd = false -> j < length sh -> get_bit j sh = true) ->
  walk 0 sh vals vs = Some (expect 0 sh sh vals vs).
Proof.
  intros sh vals vs HL HB. exact (walk_expect sh vals vs HL HB sh 0 eq_refl).
Qed.
Check (C03_walk : forall sh vals vs, length vals = count_true sh ->
  (forall j kd, kind_of j vs = Some kd -> is_opt_kind kd = false -> j < length sh -> get_bit j sh = true) ->
  walk 0 sh vals vs = Some (expect 0 sh sh vals vs)).
Print Assumptions C03_walk.

(** size_hint always brackets the true remaining count. *)
Theorem C03_size_hint : forall vs f cur rest,
  let '(low, high) := size_hint cur rest in
  low <= remaining vs f cur rest /\ match high with Some h => remaining vs f cur rest <= h | None => True end.
Proof. exact size_hint_brackets. Qed.
Print Assumptions C03_size_hint.

(** Non-vacuity: three archetypes ({0}, {0,2}, {1}), views written out of
    registry order with an optional view and the identifier, a Not filter. *)
Example C03_example :
  match run (empty_world 3 []) [Insert [(0, 5%N)]; Insert [(2, 7%N); (0, 6%N)]; Insert [(1, 8%N)]] with
  | Some w =>
      query_impl w [VComp KOptRef 2; VIdent; VComp KRef 0] (FNot (FHas 1))
      = Some [[QOpt None; QId (0, 0%N); QVal 5%N]; [QOpt (Some 7%N); QId (1, 0%N); QVal 6%N]]
  | None => False
  end.
Proof. vm_compute. reflexivity. Qed.


(** Query-time [Entries] (systems): the row is viewed through the declared entry views first — a
    non-optional view of an absent component leaves an uninitialised slot — and each requested
    sub-view is then taken out of the matching slot by the operation the source uses for that pair
    of kinds (table regenerated from query/view/subset.rs); the filter [And<Filter, SubViews>] is decided item by
    item against the entry views, again through a regenerated table (query/view/contains/filter.rs).  For every subset the type system
    accepts, no uninitialised slot is ever read and the result is what [World::entry(e).query]
    returns for the same views. *)
Theorem C03_entries_subviews : forall w e supers subs f, Inv w ->
  wf_views (w_n w) supers -> wf_views (w_n w) subs -> subset_ok supers subs -> filter_covered supers f ->
  entries_entry_query w e supers subs f = entry_query w e subs f.
Proof. exact entries_entry_query_eq. Qed.
Check (C03_entries_subviews : forall w e supers subs f, Inv w ->
  wf_views (w_n w) supers -> wf_views (w_n w) subs -> subset_ok supers subs -> filter_covered supers f ->
  entries_entry_query w e supers subs f = entry_query w e subs f).
Print Assumptions C03_entries_subviews.

Theorem C03_entries_row : forall n sh supers subs f id vals,
  wf_views n supers -> wf_views n subs -> subset_ok supers subs ->
  length sh = n -> length vals = count_true sh ->
  filter_eval (query_filter subs f) sh = true ->
  entries_view sh supers subs (id, vals) = Some (map (spec_item id (row_abs sh vals)) subs).
Proof. exact entries_view_spec. Qed.
Print Assumptions C03_entries_row.

Example C03_entries_example :
  entries_view [true; false; true] [VComp KMut 0; VComp KRef 1; VComp KOptMut 2; VIdent]
                                   [VComp KOptRef 1; VComp KRef 2; VIdent; VComp KRef 0] ((7, 0%N), [11%N; 13%N])
  = Some [QOpt None; QVal 13%N; QId (7, 0%N); QVal 11%N].
Proof. vm_compute. reflexivity. Qed.


(** The result iterator ([query/result/iter.rs]): however it is consumed — any number of [next] calls (also
    [nth], [find], [peek], the loop of a [for]) and then a fold-based consumer ([for_each], [count], [sum],
    [last], [extend], [collect]) — every specified result is seen exactly once, in order.  That [fold] starts
    with what is left of the archetype being drained is read off the source. *)
Theorem C03_iterator_consumed : forall w vs f n, Inv w -> wf_views (w_n w) vs ->
  exists it, iter_of_world w vs f = Some it /\
    let '(xs, it') := nexts (list qitem) n it in
    xs ++ fold_src (list qitem) it' = query_spec (abs w) vs f.
Proof. exact world_iter_consumed. Qed.
Check (C03_iterator_consumed : forall w vs f n, Inv w -> wf_views (w_n w) vs ->
  exists it, iter_of_world w vs f = Some it /\
    let '(xs, it') := nexts (list qitem) n it in
    xs ++ fold_src (list qitem) it' = query_spec (abs w) vs f).
Print Assumptions C03_iterator_consumed.

Theorem C03_fold_must_start_with_the_current_archetype :
  let it0 := mkIter nat None [(true, [1; 2; 3]); (false, [9]); (true, [4])] in
  let '(xs, it') := nexts nat 1 it0 in
  xs = [1] /\ fold_items nat false it' = [4] /\ fold_items nat true it' = [2; 3; 4].
Proof. exact fold_skipping_current_loses. Qed.


(** The column walk with the advance of the column pointer as the source performs it — one column consumed for
    every component the archetype has, viewed or not, in each of the 20 (impl, function) sites of
    registry/sealed/view.rs and par_view.rs, read off the source — is the walk all the theorems above are about;
    without the advance the same column reaches two views. *)
Theorem C03_walk_as_in_the_source : forall k bits cols vs, walk_src k bits cols vs = walk k bits cols vs.
Proof. exact walk_src_is_walk. Qed.
Check (C03_walk_as_in_the_source : forall k bits cols vs, walk_src k bits cols vs = walk k bits cols vs).
Print Assumptions C03_walk_as_in_the_source.

Theorem C03_walk_must_advance :
  walk_adv false 0 [true; true] [11%N; 22%N] [VComp KOptMut 0; VComp KRef 1] = Some [(0, QOpt (Some 11%N)); (1, QVal 11%N)] /\
  walk_adv true 0 [true; true] [11%N; 22%N] [VComp KOptMut 0; VComp KRef 1] = Some [(0, QOpt (Some 11%N)); (1, QVal 22%N)].
Proof. exact walk_without_advance_aliases. Qed.
