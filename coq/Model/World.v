(** Layer L: the logical world.  Values, rows, slots; no addresses.

    Every function mirrors one code path of /repo/src (named in the comment
    above it).  Every [get_unchecked], [unwrap_unchecked] and
    [unreachable_unchecked] of the real code is a *checked* access here that
    returns [None] (the distinguished UB outcome) when its precondition fails.
    Definitions only. *)
From Brood Require Export Base.
From Brood Require Export Facts.

Set Implicit Arguments.

(** * State *)

(** A row is the entity identifier plus the values of the components whose bit
    is set, in registry order (the column order of [Archetype::components]). *)
Definition row := (eid * list val)%type.

Record arch := mkArch { a_shape : shape; a_rows : list row }.

(** [Slot]: generation and [Option<Location>]; a location is the archetype
    (identified by its shape: [IdentifierRef] compares by address of the unique
    identifier buffer) and a row index. *)
Record slot := mkSlot { s_gen : N; s_loc : option (shape * nat) }.

Record world := mkWorld {
  w_n     : nat;              (* Registry::LEN *)
  w_archs : list arch;        (* archetype table; order is arbitrary in the code *)
  w_tid   : list shape;       (* targets of type_id_lookup *)
  w_slots : list slot;        (* Allocator::slots *)
  w_free  : list nat;         (* Allocator::free, front first *)
  w_len   : nat;              (* World::len *)
  w_res   : list val          (* resources *)
}.

Definition empty_world (n : nat) (res : list val) : world :=
  mkWorld n [] [] [] [] 0 res.

(** * Events: callbacks into user code, in the order performed *)
Inductive event :=
| Dropped (c : nat) (v : val)
| Cloned (c : nat) (v : val)
| ResDropped (i : nat) (v : val)
| ResCloned (i : nat) (v : val).

Inductive out :=
| ONone
| OId (e : eid)
| OIds (l : list eid)
| OBool (b : bool)
| ORejected.     (* a call the type system does not admit (not a behaviour) *)

(** * Operations *)
Inductive op :=
| Insert (ent : list (nat * val))                      (* entity!(…) in any textual order *)
| Extend (comps : list nat) (rows : list (list val))  (* entities!(…), columns in textual order *)
| Remove (e : eid)
| Clear (visit : list shape)                          (* oracle: table iteration order *)
| EntryAdd (e : eid) (c : nat) (v : val)
| EntryRemove (e : eid) (c : nat)
| WriteMut (e : eid) (c : nat) (v : val)              (* write through a &mut view *)
| Reserve (comps : list nat)
| ShrinkToFit
| ResSet (i : nat) (v : val).

(** * Archetype table helpers *)
Definition find_arch (sh : shape) (archs : list arch) : option arch :=
  find (fun a => shape_eqb (a_shape a) sh) archs.

Definition upd_arch (sh : shape) (f : list row -> list row) (archs : list arch) : list arch :=
  map (fun a => if shape_eqb (a_shape a) sh then mkArch (a_shape a) (f (a_rows a)) else a) archs.

(** [Archetypes::get_mut_or_insert_new]: look up by identifier bytes, else
    insert an empty archetype. *)
Definition ensure_arch (sh : shape) (archs : list arch) : list arch :=
  match find_arch sh archs with
  | Some _ => archs
  | None => archs ++ [mkArch sh []]
  end.

(** [Archetypes::get_mut_or_insert_new_for_entity]: first by TypeId (a hit
    whose archetype is missing is [unreachable_unchecked]), else by bytes,
    else insert; the TypeId entry is recorded. *)
Definition ensure_for_entity (sh : shape) (archs : list arch) (tid : list shape)
  : option (list arch * list shape) :=
  if mem_shape sh tid then
    match find_arch sh archs with
    | Some _ => Some (archs, tid)
    | None => None
    end
  else Some (ensure_arch sh archs, sh :: tid).

(** * Entities: canonical form ([registry/sealed/canonical.rs]) *)
Definition has_comp (k : nat) (cs : list nat) : bool := existsb (Nat.eqb k) cs.

Definition shape_of (n : nat) (cs : list nat) : shape :=
  map (fun k => has_comp k cs) (seq 0 n).

Fixpoint nodupb (l : list nat) : bool :=
  match l with
  | [] => true
  | x :: t => negb (has_comp x t) && nodupb t
  end.

(** What [ContainsEntity]/[ContainsEntities] demand of the component list. *)
Definition wf_comps (n : nat) (cs : list nat) : bool :=
  nodupb cs && forallb (fun k => Nat.ltb k n) cs.

Fixpoint lookup (k : nat) (ent : list (nat * val)) : val :=
  match ent with
  | [] => 0%N
  | (k', v) :: t => if Nat.eqb k k' then v else lookup k t
  end.

Definition bits_on (s : shape) : list nat :=
  filter (fun k => get_bit k s) (seq 0 (length s)).

(** Values in registry order: what [Registry::canonical] produces. *)
Definition canon_vals (sh : shape) (ent : list (nat * val)) : list val :=
  map (fun k => lookup k ent) (bits_on sh).

(** * Allocator ([entity/allocator/mod.rs], [slot.rs]) *)

Definition get_loc (w : world) (e : eid) : option (shape * nat) :=
  match nth_error (w_slots w) (fst e) with
  | Some s => if N.eqb (s_gen s) (snd e) then s_loc s else None
  | None => None
  end.

Definition is_active (w : world) (e : eid) : bool :=
  match nth_error (w_slots w) (fst e) with
  | Some s => match s_loc s with Some _ => N.eqb (s_gen s) (snd e) | None => false end
  | None => false
  end.

(** [Allocator::allocate] *)
Definition alloc_one (slots : list slot) (free : list nat) (loc : shape * nat)
  : option (list slot * list nat * eid) :=
  match free with
  | i :: fr =>
      s <- nth_error slots i ;;
      let g := gen_next (s_gen s) in
      Some (upd i (fun _ => mkSlot g (Some loc)) slots, fr, (i, g))
  | [] => Some (slots ++ [mkSlot 0 (Some loc)], [], (length slots, 0%N))
  end.

(** [Allocator::allocate_batch] for rows [start .. start+count) of archetype [sh]. *)
Fixpoint alloc_batch (sh : shape) (start count : nat) (slots : list slot) (free : list nat)
  : option (list slot * list nat * list eid) :=
  match count with
  | 0 => Some (slots, free, [])
  | S c =>
      match free with
      | i :: fr =>
          s <- nth_error slots i ;;
          let g := gen_next (s_gen s) in
          '(sl, fr', ids) <- alloc_batch sh (S start) c
                               (upd i (fun _ => mkSlot g (Some (sh, start))) slots) fr ;;
          Some (sl, fr', (i, g) :: ids)
      | [] =>
          Some (slots ++ map (fun k => mkSlot 0 (Some (sh, start + k))) (seq 0 count),
                [],
                map (fun k => (length slots + k, 0%N)) (seq 0 count))
      end
  end.

(** [Allocator::free_unchecked] *)
Definition free_slot (i : nat) (slots : list slot) (free : list nat)
  : option (list slot * list nat) :=
  s <- nth_error slots i ;;
  Some (upd i (fun s => mkSlot (s_gen s) None) slots, free ++ [i]).

(** [Allocator::modify_location_index_unchecked] *)
Definition set_loc_index (i r : nat) (slots : list slot) : option (list slot) :=
  s <- nth_error slots i ;;
  match s_loc s with
  | Some (sh, _) => Some (upd i (fun s => mkSlot (s_gen s) (Some (sh, r))) slots)
  | None => None
  end.

(** [Allocator::modify_location_unchecked] *)
Definition set_loc (i : nat) (loc : shape * nat) (slots : list slot) : option (list slot) :=
  s <- nth_error slots i ;;
  Some (upd i (fun s => mkSlot (s_gen s) (Some loc)) slots).

(** * Archetype row removal ([remove_row_unchecked] / [pop_row_unchecked]) *)
Definition take_row (sh : shape) (r : nat) (archs : list arch) (slots : list slot)
  : option (list arch * list slot * row) :=
  a <- find_arch sh archs ;;
  rw <- nth_error (a_rows a) r ;;
  lastrow <- last_opt (a_rows a) ;;
  slots1 <- (if Nat.ltb r (length (a_rows a) - 1)
             then set_loc_index (fst (fst lastrow)) r slots
             else Some slots) ;;
  Some (upd_arch sh (swap_remove r) archs, slots1, rw).

Definition drops (sh : shape) (vals : list val) : list event :=
  map (fun p => Dropped (fst p) (snd p)) (combine (bits_on sh) vals).

Definition clones (sh : shape) (vals : list val) : list event :=
  map (fun p => Cloned (fst p) (snd p)) (combine (bits_on sh) vals).

Definition arch_drops (a : arch) : list event :=
  flat_map (fun rw => drops (a_shape a) (snd rw)) (a_rows a).

Definition arch_clones (a : arch) : list event :=
  flat_map (fun rw => clones (a_shape a) (snd rw)) (a_rows a).

(** * World operations ([world/mod.rs], [world/entry.rs]) *)

Definition result := option (world * out * list event).

Definition with_store (w : world) archs tid slots free len : world :=
  mkWorld (w_n w) archs tid slots free len (w_res w).

(** [World::insert] *)
Definition do_insert (w : world) (ent : list (nat * val)) : result :=
  let cs := map fst ent in
  if negb (wf_comps (w_n w) cs) then Some (w, ORejected, []) else
  let sh := shape_of (w_n w) cs in
  '(archs1, tid1) <- ensure_for_entity sh (w_archs w) (w_tid w) ;;
  a <- find_arch sh archs1 ;;
  '(slots1, free1, id) <- alloc_one (w_slots w) (w_free w) (sh, length (a_rows a)) ;;
  let archs2 := upd_arch sh (fun rows => rows ++ [(id, canon_vals sh ent)]) archs1 in
  Some (with_store w archs2 tid1 slots1 free1 (S (w_len w)), OId id, []).

(** [World::extend].  The number of entities of a batch is kept in the batch.  Whether it is the number of
    rows written also for a batch WITHOUT columns ([entities!((); n)], [entities!((), (), ())]) — or is read
    off the first column, hence 0 for such a batch (finding F5, before its repair) — is read off the
    source: [fact_batch_carries_row_count]. *)
Definition batch_rows_gen (carries : bool) (comps : list nat) (rows : list (list val)) : list (list val) :=
  if carries then rows else match comps with [] => [] | _ => rows end.
Definition batch_rows (comps : list nat) (rows : list (list val)) : list (list val) :=
  batch_rows_gen fact_batch_carries_row_count comps rows.
Arguments batch_rows : simpl never.

Definition do_extend (w : world) (comps : list nat) (rows0 : list (list val)) : result :=
  if negb (wf_comps (w_n w) comps
           && forallb (fun r => Nat.eqb (length r) (length comps)) rows0)
  then Some (w, ORejected, []) else
  let rows := batch_rows comps rows0 in
  let sh := shape_of (w_n w) comps in
  '(archs1, tid1) <- ensure_for_entity sh (w_archs w) (w_tid w) ;;
  a <- find_arch sh archs1 ;;
  '(slots1, free1, ids) <- alloc_batch sh (length (a_rows a)) (length rows)
                              (w_slots w) (w_free w) ;;
  let newrows := map (fun p => (fst p, canon_vals sh (combine comps (snd p))))
                     (combine ids rows) in
  let archs2 := upd_arch sh (fun old => old ++ newrows) archs1 in
  Some (with_store w archs2 tid1 slots1 free1 (w_len w + length rows), OIds ids, []).

(** [World::remove] *)
Definition do_remove (w : world) (e : eid) : result :=
  match get_loc w e with
  | None => Some (w, ONone, [])
  | Some (sh, r) =>
      '(archs1, slots1, rw) <- take_row sh r (w_archs w) (w_slots w) ;;
      '(slots2, free2) <- free_slot (fst e) slots1 (w_free w) ;;
      Some (with_store w archs1 (w_tid w) slots2 free2 (w_len w - 1), ONone,
            drops sh (snd rw))
  end.

(** [Archetype::clear]: drop every column, free every identifier in row order. *)
Fixpoint free_all (ids : list nat) (slots : list slot) (free : list nat)
  : option (list slot * list nat) :=
  match ids with
  | [] => Some (slots, free)
  | i :: t => '(s1, f1) <- free_slot i slots free ;; free_all t s1 f1
  end.

Definition clear_arch (sh : shape) (st : list arch * list slot * list nat * list event)
  : option (list arch * list slot * list nat * list event) :=
  let '(archs, slots, free, evs) := st in
  match find_arch sh archs with
  | None => Some st
  | Some a =>
      '(s1, f1) <- free_all (map (fun rw => fst (fst rw)) (a_rows a)) slots free ;;
      Some (upd_arch sh (fun _ => []) archs, s1, f1, evs ++ arch_drops a)
  end.

Fixpoint clear_archs (order : list shape) (st : list arch * list slot * list nat * list event)
  : option (list arch * list slot * list nat * list event) :=
  match order with
  | [] => Some st
  | sh :: t => st1 <- clear_arch sh st ;; clear_archs t st1
  end.

(** [World::clear].  [visit] is the oracle's table order; archetypes it does not
    name are visited afterwards in model order (visiting an archetype twice or
    naming an unknown shape has no effect). *)
(** The order in which [Archetypes::clear] visits the archetypes decides the order in which the identifiers
    become available for reuse.  Whether it is the order of the identifiers' bytes (the same for a world and
    for its copies; finding F6 repaired) or the order of the address-keyed table (an oracle input, read off
    the implementation) is read off the source: [fact_clear_visits_in_identifier_order]. *)
Fixpoint bytes_leb (a b : list N) : bool :=
  match a, b with
  | [], _ => true
  | _ :: _, [] => false
  | x :: a', y :: b' => if N.ltb x y then true else if N.ltb y x then false else bytes_leb a' b'
  end.

Fixpoint insert_shape (sh : shape) (l : list shape) : list shape :=
  match l with
  | [] => [sh]
  | h :: t => if bytes_leb (bytes_of_shape sh) (bytes_of_shape h) then sh :: l else h :: insert_shape sh t
  end.

Definition sort_shapes (l : list shape) : list shape := fold_right insert_shape [] l.

Definition clear_order (visit : list shape) : list shape :=
  if fact_clear_visits_in_identifier_order then sort_shapes visit else visit.

Definition do_clear (w : world) (visit : list shape) : result :=
  '(archs1, slots1, free1, evs) <-
     clear_archs (visit ++ map a_shape (w_archs w)) (w_archs w, w_slots w, w_free w, []) ;;
  Some (with_store w archs1 (w_tid w) slots1 free1 0, ONone, evs).

(** [Archetype::set_component_unchecked] *)
Definition set_value (sh : shape) (r c : nat) (v : val) (archs : list arch)
  : option (list arch * val) :=
  a <- find_arch sh archs ;;
  rw <- nth_error (a_rows a) r ;;
  old <- nth_error (snd rw) (rank c sh) ;;
  Some (upd_arch sh (upd r (fun rw => (fst rw, upd (rank c sh) (fun _ => v) (snd rw)))) archs,
        old).

(** Push a row that arrives through the packed buffer into archetype [sh']
    ([push_from_buffer_*]) and record the new location. *)
Definition move_row (sh' : shape) (id : eid) (vals : list val)
           (archs : list arch) (slots : list slot)
  : option (list arch * list slot) :=
  let archs2 := ensure_arch sh' archs in
  a' <- find_arch sh' archs2 ;;
  let idx := length (a_rows a') in
  slots2 <- set_loc (fst id) (sh', idx) slots ;;
  Some (upd_arch sh' (fun rows => rows ++ [(id, vals)]) archs2, slots2).

(** [Entry::add] (entry obtained by [World::entry(e)]) *)
Definition do_entry_add (w : world) (e : eid) (c : nat) (v : val) : result :=
  if negb (Nat.ltb c (w_n w)) then Some (w, ORejected, []) else
  match get_loc w e with
  | None => Some (w, OBool false, [])
  | Some (sh, r) =>
      if get_bit c sh then
        '(archs1, old) <- set_value sh r c v (w_archs w) ;;
        Some (with_store w archs1 (w_tid w) (w_slots w) (w_free w) (w_len w),
              OBool true, [Dropped c old])
      else
        '(archs1, slots1, rw) <- take_row sh r (w_archs w) (w_slots w) ;;
        let sh' := set_bit c true sh in
        '(archs2, slots2) <- move_row sh' (fst rw) (insert_at (rank c sh') v (snd rw))
                                archs1 slots1 ;;
        Some (with_store w archs2 (w_tid w) slots2 (w_free w) (w_len w), OBool true, [])
  end.

(** [Entry::remove] *)
Definition do_entry_remove (w : world) (e : eid) (c : nat) : result :=
  if negb (Nat.ltb c (w_n w)) then Some (w, ORejected, []) else
  match get_loc w e with
  | None => Some (w, OBool false, [])
  | Some (sh, r) =>
      if get_bit c sh then
        '(archs1, slots1, rw) <- take_row sh r (w_archs w) (w_slots w) ;;
        old <- nth_error (snd rw) (rank c sh) ;;
        let sh' := set_bit c false sh in
        '(archs2, slots2) <- move_row sh' (fst rw) (remove_at (rank c sh) (snd rw))
                                archs1 slots1 ;;
        Some (with_store w archs2 (w_tid w) slots2 (w_free w) (w_len w),
              OBool true, [Dropped c old])
      else Some (w, OBool true, [])
  end.

(** A write through a [&mut C] view obtained from [World::entry(e).query(..)]. *)
Definition do_write (w : world) (e : eid) (c : nat) (v : val) : result :=
  if negb (Nat.ltb c (w_n w)) then Some (w, ORejected, []) else
  match get_loc w e with
  | None => Some (w, OBool false, [])
  | Some (sh, r) =>
      if get_bit c sh then
        '(archs1, old) <- set_value sh r c v (w_archs w) ;;
        Some (with_store w archs1 (w_tid w) (w_slots w) (w_free w) (w_len w),
              OBool true, [Dropped c old])
      else Some (w, OBool false, [])
  end.

(** [World::reserve]: creates the archetype (and its TypeId entry) if absent. *)
Definition do_reserve (w : world) (comps : list nat) : result :=
  if negb (wf_comps (w_n w) comps) then Some (w, ORejected, []) else
  let sh := shape_of (w_n w) comps in
  '(archs1, tid1) <- ensure_for_entity sh (w_archs w) (w_tid w) ;;
  Some (with_store w archs1 tid1 (w_slots w) (w_free w) (w_len w), ONone, []).

(** [World::shrink_to_fit]: erase empty archetypes and the lookup entries that
    point at them. *)
Definition is_nil {A} (l : list A) : bool := match l with [] => true | _ => false end.

Definition do_shrink (w : world) : result :=
  let erased := map a_shape (filter (fun a => is_nil (a_rows a)) (w_archs w)) in
  let archs1 := filter (fun a => negb (is_nil (a_rows a))) (w_archs w) in
  let tid1 := filter (fun sh => negb (mem_shape sh erased)) (w_tid w) in
  Some (with_store w archs1 tid1 (w_slots w) (w_free w) (w_len w), ONone, []).

(** [*world.get_mut::<Ri>() = …] *)
Definition do_res_set (w : world) (i : nat) (v : val) : result :=
  match nth_error (w_res w) i with
  | None => Some (w, ORejected, [])
  | Some old =>
      Some (mkWorld (w_n w) (w_archs w) (w_tid w) (w_slots w) (w_free w) (w_len w)
                    (upd i (fun _ => v) (w_res w)), ONone, [ResDropped i old])
  end.

Definition step (w : world) (o : op) : result :=
  match o with
  | Insert ent => do_insert w ent
  | Extend comps rows => do_extend w comps rows
  | Remove e => do_remove w e
  | Clear visit => do_clear w (clear_order visit)
  | EntryAdd e c v => do_entry_add w e c v
  | EntryRemove e c => do_entry_remove w e c
  | WriteMut e c v => do_write w e c v
  | Reserve comps => do_reserve w comps
  | ShrinkToFit => do_shrink w
  | ResSet i v => do_res_set w i v
  end.

(** Run a history; [None] as soon as any step is UB. *)
Fixpoint run (w : world) (ops : list op) : option world :=
  match ops with
  | [] => Some w
  | o :: t => '(w1, _, _) <- step w o ;; run w1 t
  end.

(** * Queries on the state used by specifications *)

(** Component vector of a row: position k holds [Some v] iff bit k is set. *)
Definition row_abs (sh : shape) (vals : list val) : list (option val) :=
  map (fun k => if get_bit k sh then nth_error vals (rank k sh) else None)
      (seq 0 (length sh)).

(** The world as an association list identifier ↦ component vector. *)
Definition abs (w : world) : list (eid * list (option val)) :=
  flat_map (fun a => map (fun rw => (fst rw, row_abs (a_shape a) (snd rw))) (a_rows a))
           (w_archs w).

Definition total_rows (archs : list arch) : nat :=
  fold_right (fun a acc => length (a_rows a) + acc) 0 archs.
