//! World-history driver over the 5-component registry R5.
use brood::entity;
#[path = "../gen_r5.rs"]
mod gen;
use gen::*;
include!("../wh_main.rs");
