(** C05, allocation level, whole store: any history of column operations on any number of
    columns sharing one heap — for every answer of the growth oracle — never reaches the UB
    outcome, never lets two columns share a block and never leaves a block without an owner. *)
From Brood Require Import Base Facts Heap BaseFacts HeapFacts.

Lemma cinit_inv : CInv cinit.
Proof.
  split; [split; [constructor|intros a b []]|]. split; [intros i c H; destruct i; discriminate|].
  split; [intros i j ci cj _ H; destruct i; discriminate|]. intros a H. cbn in H. congruence.
Qed.

Lemma rebuild_frame2 h h' zst elem r len :
  (allocated zst r = true -> hfind (fst r) (hp_blocks h') = hfind (fst r) (hp_blocks h)) ->
  rebuild h' zst elem r len = rebuild h zst elem r len.
Proof.
  intros H. unfold rebuild. destruct zst; [reflexivity|]. destruct (Nat.eqb (snd r) 0) eqn:E; [reflexivity|].
  rewrite H; [reflexivity|]. unfold allocated. rewrite E. reflexivity.
Qed.

(** the general step: a column operation satisfying the three postconditions keeps the invariant *)
Lemma with_col_inv s i c h' r' len' :
  CInv s -> nth_error (snd s) i = Some c ->
  heap_wf h' -> col_ok h' (c_zst c) (c_elem c) r' len' ->
  framed (c_zst c) (c_raw c) (fst s) h' ->
  blocks_post (c_zst c) (c_raw c) r' (fst s) h' ->
  (allocated (c_zst c) r' = true -> fst r' = fst (c_raw c) /\ c_alloc c = true \/ hp_next (fst s) <= fst r') ->
  CInv (h', upd i (fun _ => mkCol (c_zst c) (c_elem c) r' len') (snd s)).
Proof.
  intros (WF & COs & DJ & OW) Hc WF' CO' [FR LE] BP NEW.
  destruct s as [h cols]. cbn [fst snd] in *.
  assert (Hi : i < length cols) by (apply nth_error_Some; congruence).
  split; [exact WF'|]. cbn [fst snd]. split; [|split].
  - intros j cj Hj. destruct (Nat.eq_dec j i) as [->|Hne].
    + rewrite nth_error_upd_same, Hc in Hj. cbn [option_map] in Hj. inversion Hj; subst cj. cbn. exact CO'.
    + rewrite nth_error_upd_other in Hj by congruence.
      destruct (COs j cj Hj) as [HR Hlt]. split.
      * assert (R : rebuild h' (c_zst cj) (c_elem cj) (c_raw cj) (c_len cj) = rebuild h (c_zst cj) (c_elem cj) (c_raw cj) (c_len cj)).
        { apply rebuild_frame2. intros EAj. apply FR.
          - apply Hlt. exact EAj.
          - intros EAi. exact (DJ j i cj c Hne Hj Hc EAj EAi). }
        rewrite R. exact HR.
      * intros EA. specialize (Hlt EA). lia.
  - intros j k cj ck Hjk Hj Hk Aj Ak.
    destruct (Nat.eq_dec j i) as [->|Hji]; destruct (Nat.eq_dec k i) as [->|Hki]; [congruence| | |].
    + rewrite nth_error_upd_same, Hc in Hj. cbn [option_map] in Hj. inversion Hj; subst cj. cbn [c_raw] in *.
      rewrite nth_error_upd_other in Hk by congruence.
      unfold c_alloc in Aj. cbn [c_zst c_raw] in Aj.
      destruct (NEW Aj) as [[E Ai]|G].
      * rewrite E. exact (DJ i k c ck Hjk Hc Hk Ai Ak).
      * destruct (COs k ck Hk) as [_ Hlt]. specialize (Hlt Ak). lia.
    + rewrite nth_error_upd_same, Hc in Hk. cbn [option_map] in Hk. inversion Hk; subst ck. cbn [c_raw] in *.
      rewrite nth_error_upd_other in Hj by congruence.
      unfold c_alloc in Ak. cbn [c_zst c_raw] in Ak.
      destruct (NEW Ak) as [[E Ai]|G].
      * rewrite E. exact (DJ j i cj c Hjk Hj Hc Aj Ai).
      * destruct (COs j cj Hj) as [_ Hlt]. specialize (Hlt Aj). lia.
    + rewrite nth_error_upd_other in Hj by congruence. rewrite nth_error_upd_other in Hk by congruence.
      exact (DJ j k cj ck Hjk Hj Hk Aj Ak).
  - intros a Hf. destruct (BP a Hf) as [[EA Ea]|[Hfo Hno]].
    + exists i, (mkCol (c_zst c) (c_elem c) r' len'). split; [rewrite nth_error_upd_same, Hc; reflexivity|].
      split; [exact EA|]. cbn. auto.
    + destruct (OW a Hfo) as (j & cj & Hj & Aj & Ea). exists j, cj.
      assert (Hne : j <> i).
      { intros ->. rewrite Hc in Hj. inversion Hj; subst cj. apply Hno. split; [exact Aj|auto]. }
      split; [rewrite nth_error_upd_other by congruence; exact Hj|]. split; [exact Aj|exact Ea].
Qed.

Lemma col_ok_le h zst elem r len m : m <= len -> col_ok h zst elem r len -> col_ok h zst elem r m.
Proof.
  intros L [HR Hlt]. split; [|exact Hlt]. unfold rebuild in *. destruct zst; [discriminate|].
  destruct (Nat.eqb (snd r) 0).
  - destruct (Nat.eqb len 0) eqn:E; [|congruence]. apply Nat.eqb_eq in E. assert (m = 0) by lia. subst m. discriminate.
  - destruct (hfind (fst r) (hp_blocks h)) as [b|]; [|congruence].
    destruct (Nat.eqb (bk_elem b) elem && Nat.eqb (bk_cap b) (snd r) && Nat.leb len (snd r) && _) eqn:C; [|congruence].
    apply andb_true_iff in C as [C C4]. apply andb_true_iff in C as [C C3]. rewrite C.
    apply Nat.leb_le in C3. assert (C3' : Nat.leb m (snd r) = true) by (apply Nat.leb_le; lia). rewrite C3'.
    fold (inits len (bk_cells b)) in C4. pose proof (inits_le len m _ L C4) as I. unfold inits in I. rewrite I. discriminate.
Qed.

Lemma framed_refl zst r h : framed zst r h h.
Proof. split; [reflexivity|lia]. Qed.

Lemma blocks_post_refl zst r h : blocks_post zst r r h h.
Proof.
  intros a2 Hf. destruct (allocated zst r) eqn:EA; [|right; split; [exact Hf|intros [X _]; discriminate]].
  destruct (Nat.eq_dec a2 (fst r)); [left; auto|right; split; [exact Hf|intros [_ X]; congruence]].
Qed.

Lemma cnew_inv s zst elem : CInv s -> CInv (fst s, snd s ++ [mkCol zst elem (0, 0) 0]).
Proof.
  intros (WF & COs & DJ & OW). destruct s as [h cols]. cbn [fst snd] in *.
  assert (NA : c_alloc (mkCol zst elem (0, 0) 0) = false).
  { unfold c_alloc, allocated. cbn. destruct zst; reflexivity. }
  assert (Last : forall i c, nth_error (cols ++ [mkCol zst elem (0, 0) 0]) i = Some c ->
                 nth_error cols i = Some c \/ c = mkCol zst elem (0, 0) 0).
  { intros i c H. destruct (Nat.lt_ge_cases i (length cols)) as [L|L].
    - rewrite nth_error_app1 in H by exact L. auto.
    - rewrite nth_error_app2 in H by exact L. destruct (i - length cols) as [|k]; cbn in H; [inversion H; auto|destruct k; discriminate]. }
  split; [exact WF|]. split; [|split].
  - intros i c H. destruct (Last i c H) as [H'| ->]; [exact (COs i c H')|].
    split; [|intros X; cbn [c_zst c_raw] in X; unfold c_alloc in NA; cbn [c_zst c_raw] in NA; rewrite NA in X; discriminate]. cbn. unfold rebuild. destruct zst; cbn; discriminate.
  - intros i j ci cj Hne Hi Hj Ai Aj.
    destruct (Last i ci Hi) as [Hi'| ->]; [|congruence]. destruct (Last j cj Hj) as [Hj'| ->]; [|congruence].
    exact (DJ i j ci cj Hne Hi' Hj' Ai Aj).
  - intros a Hf. destruct (OW a Hf) as (i & c & Hi & A & E). exists i, c. split; [|auto]. cbn [snd].
    rewrite nth_error_app1; [exact Hi|]. apply nth_error_Some. congruence.
Qed.

(** * One step, with the write-back the source performs *)
Theorem cstep_inv s o : CInv s -> exists s', cstep true true true s o = Some s' /\ CInv s'.
Proof.
  intros HI. pose proof HI as (WF & COs & DJ & OW).
  destruct o as [zst elem|i x want|i add want|i|i n|i]; cbn [cstep].
  - eexists. split; [reflexivity|]. apply cnew_inv. exact HI.
  - unfold with_col. destruct (nth_error (snd s) i) as [c|] eqn:Hc; [|exists s; split; [reflexivity|exact HI]].
    destruct (col_push_ok (fst s) (c_zst c) (c_elem c) (c_raw c) (c_len c) x want WF (COs i c Hc)) as (h' & r' & E & WF' & CO' & FR & NEW).
    rewrite E. eexists. split; [reflexivity|]. apply with_col_inv; try assumption.
    + apply framed_intro; [exact FR|]. intros EA. eapply col_push_unalloc; eassumption.
    + eapply col_push_blocks; eassumption.
    + intros EA. destruct (NEW EA) as [X|X]; [|right; exact X].
      destruct (c_alloc c) eqn:Ac; [left; auto|]. right.
      (* the column owned nothing: its new block is fresh *)
      unfold col_push in E. destruct (COs i c Hc) as [HR _].
      destruct (rebuild (fst s) (c_zst c) (c_elem c) (c_raw c) (c_len c)); [|congruence].
      unfold c_alloc in Ac. destruct (c_zst c); [unfold allocated in EA; discriminate|].
      assert (E0 : snd (c_raw c) = 0).
      { unfold allocated in Ac. cbn [negb andb] in Ac. apply negb_false_iff in Ac. apply Nat.eqb_eq in Ac. exact Ac. }
      rewrite E0 in E. cbn [Nat.ltb Nat.leb] in E.
      destruct (hresize (fst s) false (c_elem c) (c_raw c) (c_len c) (Nat.max want (S (c_len c)))) as [[h1 r1]|] eqn:E1; [|discriminate].
      destruct (hfind (fst r1) (hp_blocks h1)); [|discriminate]. inversion E; subst. cbn [stored].
      rewrite (hresize_unalloc_addr _ _ _ _ (Nat.max want (S (c_len c))) _ _ Ac ltac:(lia) E1). lia.
  - unfold with_col. destruct (nth_error (snd s) i) as [c|] eqn:Hc; [|exists s; split; [reflexivity|exact HI]].
    destruct (col_reserve_ok (fst s) (c_zst c) (c_elem c) (c_raw c) (c_len c) add want WF (COs i c Hc)) as (h' & r' & E & WF' & CO' & FR & _ & NEW).
    rewrite E. eexists. split; [reflexivity|]. apply with_col_inv; try assumption.
    + apply framed_intro; [exact FR|]. intros EA. eapply col_reserve_unalloc; eassumption.
    + eapply col_reserve_blocks; eassumption.
    + intros EA. destruct (NEW EA) as [X|X]; [|right; exact X].
      destruct (c_alloc c) eqn:Ac; [left; auto|]. right.
      unfold col_reserve in E. destruct (COs i c Hc) as [HR _].
      destruct (rebuild (fst s) (c_zst c) (c_elem c) (c_raw c) (c_len c)); [|congruence].
      unfold c_alloc in Ac. destruct (c_zst c); [unfold allocated in EA; discriminate|].
      destruct (Nat.leb (c_len c + add) (snd (c_raw c))); [inversion E; subst; congruence|].
      destruct (hresize (fst s) false (c_elem c) (c_raw c) (c_len c) (Nat.max want (c_len c + add))) as [[h1 r1]|] eqn:E1; [|discriminate].
      inversion E; subst. cbn [stored] in *.
      destruct (Nat.eq_dec (Nat.max want (c_len c + add)) 0) as [Z|NZ].
      * exfalso. unfold hresize in E1. destruct (rebuild (fst s) false (c_elem c) (c_raw c) (c_len c)); [|discriminate].
        rewrite Z in E1. cbn [Nat.eqb] in E1. destruct (hdealloc (fst s) false (c_elem c) (c_raw c)); [|discriminate].
        inversion E1; subst. unfold allocated in EA. cbn in EA. discriminate.
      * rewrite (hresize_unalloc_addr _ _ _ _ _ _ _ Ac NZ E1). lia.
  - unfold with_col. destruct (nth_error (snd s) i) as [c|] eqn:Hc; [|exists s; split; [reflexivity|exact HI]].
    destruct (col_shrink_ok (fst s) (c_zst c) (c_elem c) (c_raw c) (c_len c) WF (COs i c Hc)) as (h' & r' & E & WF' & CO' & FR & _ & NEW).
    rewrite E. eexists. split; [reflexivity|]. apply with_col_inv; try assumption.
    + apply framed_intro; [exact FR|]. intros EA. eapply col_shrink_unalloc; eassumption.
    + eapply col_shrink_blocks; eassumption.
    + intros EA. destruct (NEW EA) as [X|X]; [|right; exact X].
      destruct (c_alloc c) eqn:Ac; [left; auto|]. right.
      unfold col_shrink in E. destruct (COs i c Hc) as [HR _].
      destruct (rebuild (fst s) (c_zst c) (c_elem c) (c_raw c) (c_len c)); [|congruence].
      unfold c_alloc in Ac. destruct (c_zst c); [unfold allocated in EA; discriminate|].
      destruct (Nat.eqb (snd (c_raw c)) (c_len c)); [inversion E; subst; congruence|].
      destruct (hresize (fst s) false (c_elem c) (c_raw c) (c_len c) (c_len c)) as [[h1 r1]|] eqn:E1; [|discriminate].
      inversion E; subst. cbn [stored] in *.
      destruct (Nat.eq_dec (c_len c) 0) as [Z|NZ].
      * exfalso. unfold hresize in E1. destruct (rebuild (fst s) false (c_elem c) (c_raw c) (c_len c)); [|discriminate].
        rewrite Z in E1. cbn [Nat.eqb] in E1. destruct (hdealloc (fst s) false (c_elem c) (c_raw c)); [|discriminate].
        inversion E1; subst. unfold allocated in EA. cbn in EA. discriminate.
      * rewrite (hresize_unalloc_addr _ _ _ _ _ _ _ Ac NZ E1). lia.
  - unfold with_col. destruct (nth_error (snd s) i) as [c|] eqn:Hc; [|exists s; split; [reflexivity|exact HI]].
    eexists. split; [reflexivity|]. apply with_col_inv; try assumption.
    + apply col_ok_le with (len := c_len c); [lia|exact (COs i c Hc)].
    + apply framed_refl.
    + apply blocks_post_refl.
    + intros EA. left. split; [reflexivity|exact EA].
  - unfold with_col. destruct (nth_error (snd s) i) as [c|] eqn:Hc; [|exists s; split; [reflexivity|exact HI]].
    destruct (col_free_ok (fst s) (c_zst c) (c_elem c) (c_raw c) (c_len c) WF (COs i c Hc)) as (h' & E & WF' & FR & _).
    rewrite E. eexists. split; [reflexivity|].
    assert (NA : allocated (c_zst c) (0, 0) = false) by (unfold allocated; cbn; destruct (c_zst c); reflexivity).
    apply with_col_inv; try assumption.
    + split; [|rewrite NA; discriminate]. unfold rebuild. destruct (c_zst c); cbn; discriminate.
    + apply framed_intro; [exact FR|]. intros EA a2 _. unfold col_free in E.
      destruct (rebuild (fst s) (c_zst c) (c_elem c) (c_raw c) (c_len c)); [|discriminate].
      unfold hdealloc in E. rewrite EA in E. inversion E. reflexivity.
    + intros a2 Hf. right. unfold col_free in E.
      destruct (rebuild (fst s) (c_zst c) (c_elem c) (c_raw c) (c_len c)); [|discriminate].
      destruct WF as [ND _]. eapply hdealloc_blocks; eassumption.
    + rewrite NA. discriminate.
Qed.

Theorem crun_inv ops : forall s, CInv s -> exists s', crun true true true s ops = Some s' /\ CInv s'.
Proof.
  induction ops as [|o t IH]; intros s HI; cbn [crun]; [exists s; auto|].
  destruct (cstep_inv s o HI) as (s1 & E & HI1). rewrite E. exact (IH s1 HI1).
Qed.

(** * All memory is returned: once every column has been released the heap is empty *)
Lemma no_owner_no_block s : CInv s -> (forall i c, nth_error (snd s) i = Some c -> c_alloc c = false) ->
  hp_blocks (fst s) = [].
Proof.
  intros (_ & _ & _ & OW) NA. destruct (hp_blocks (fst s)) as [|[a b] t] eqn:E; [reflexivity|]. exfalso.
  destruct (OW a) as (i & c & Hi & A & _).
  - cbn [hfind]. rewrite Nat.eqb_refl. discriminate.
  - rewrite (NA i c Hi) in A. discriminate.
Qed.

Lemma cfree_cols s i s' : cstep true true true s (CFree i) = Some s' ->
  snd s' = match nth_error (snd s) i with
           | Some c => upd i (fun _ => mkCol (c_zst c) (c_elem c) (0, 0) 0) (snd s)
           | None => snd s end.
Proof.
  cbn [cstep]. unfold with_col. destruct (nth_error (snd s) i) as [c|]; [|intros H; inversion H; reflexivity].
  destruct (col_free (fst s) (c_zst c) (c_elem c) (c_raw c) (c_len c)); [|discriminate]. intros H; inversion H. reflexivity.
Qed.

Lemma unalloc_reset zst elem : c_alloc (mkCol zst elem (0, 0) 0) = false.
Proof. unfold c_alloc, allocated. cbn. destruct zst; reflexivity. Qed.

Lemma free_list_unalloc idxs : forall s s', crun true true true s (map CFree idxs) = Some s' ->
  length (snd s') = length (snd s) /\
  forall i c, nth_error (snd s') i = Some c ->
    (In i idxs -> c_alloc c = false) /\ (~ In i idxs -> nth_error (snd s) i = Some c).
Proof.
  induction idxs as [|j t IH]; intros s s' H; cbn [map crun] in H.
  - inversion H; subst. split; [reflexivity|]. intros i c Hi. split; [intros []|auto].
  - destruct (cstep true true true s (CFree j)) as [s1|] eqn:E1; [|discriminate].
    pose proof (cfree_cols s j s1 E1) as C1. destruct (IH s1 s' H) as [L IH'].
    assert (L1 : length (snd s1) = length (snd s)).
    { rewrite C1. destruct (nth_error (snd s) j); [apply upd_length|reflexivity]. }
    split; [congruence|]. intros i c Hi. destruct (IH' i c Hi) as [A B]. split.
    + intros [->|Hin]; [|exact (A Hin)].
      destruct (in_dec Nat.eq_dec i t) as [Hin|Hnin]; [exact (A Hin)|].
      specialize (B Hnin). rewrite C1 in B. destruct (nth_error (snd s) i) as [c0|] eqn:E0.
      * rewrite nth_error_upd_same, E0 in B. cbn in B. inversion B. apply unalloc_reset.
      * rewrite E0 in B. discriminate.
    + intros Hn. assert (Hnt : ~ In i t) by (intros X; apply Hn; right; exact X).
      assert (Hne : i <> j) by (intros X; apply Hn; left; auto).
      specialize (B Hnt). rewrite C1 in B. destruct (nth_error (snd s) j); [|exact B].
      rewrite nth_error_upd_other in B by exact Hne. exact B.
Qed.

Definition free_all (s : cstate) : option cstate :=
  crun true true true s (map CFree (seq 0 (length (snd s)))).

Theorem free_all_returns_everything s : CInv s ->
  exists s', free_all s = Some s' /\ hp_blocks (fst s') = [].
Proof.
  intros HI. unfold free_all. destruct (crun_inv (map CFree (seq 0 (length (snd s)))) s HI) as (s' & E & HI').
  exists s'. split; [exact E|]. apply no_owner_no_block; [exact HI'|].
  destruct (free_list_unalloc _ _ _ E) as [L U]. intros i c Hi. apply (U i c Hi).
  apply in_seq. assert (i < length (snd s')) by (apply nth_error_Some; congruence). lia.
Qed.

(** * The tie to the source: the write-back facts, regenerated from the code on every run *)
Lemma wb_facts : wb_push = true /\ wb_reserve = true /\ wb_shrink = true.
Proof. vm_compute. repeat split. Qed.

Theorem columns_safe_src ops : exists s', crun wb_push wb_reserve wb_shrink cinit ops = Some s' /\ CInv s'.
Proof.
  destruct wb_facts as (-> & -> & ->). exact (crun_inv ops cinit cinit_inv).
Qed.

(** * ... and every one of them is needed: without it a short history reaches UB *)
Definition stale_push : list cop := [CNew false 0; CPush 0 1%N 4; CPush 0 2%N 4].
Definition stale_reserve : list cop := [CNew false 0; CPush 0 1%N 1; CReserve 0 5 0; CPush 0 2%N 0].
Definition stale_shrink : list cop := [CNew false 0; CReserve 0 2 4; CPush 0 1%N 4; CShrink 0; CFree 0].

Lemma wb_push_needed : crun false true true cinit stale_push = None.
Proof. vm_compute. reflexivity. Qed.
Lemma wb_reserve_needed : crun true false true cinit stale_reserve = None.
Proof. vm_compute. reflexivity. Qed.
Lemma wb_shrink_needed : crun true true false cinit stale_shrink = None.
Proof. vm_compute. reflexivity. Qed.

(** * A growth interrupted by a panic (clone_from): with the write-back on unwind the store stays sound *)
Theorem cgrow_unwound_inv s i add want : CInv s -> exists s', cgrow_unwound true s i add want = Some s' /\ CInv s'.
Proof.
  intros H. unfold cgrow_unwound.
  destruct (@cstep_inv s (CReserve i add want) H) as (s1 & -> & H1).
  exact (@cstep_inv s1 (CSetLen i 0) H1).
Qed.

Lemma fact_wb_unwind : fact_clone_from_writes_back_on_unwind = true.
Proof. reflexivity. Qed.

Theorem cgrow_unwound_src_inv s i add want : CInv s -> exists s', cgrow_unwound_src s i add want = Some s' /\ CInv s'.
Proof. unfold cgrow_unwound_src. rewrite fact_wb_unwind. apply cgrow_unwound_inv. Qed.

(** ... and without it the column keeps the raw parts of the released block: freeing it later is UB *)
Lemma wb_unwind_needed :
  match crun true true true cinit [CNew false 0; CPush 0 1%N 1] with
  | Some s => match cgrow_unwound false s 0 5 0 with
              | Some s1 => cstep true true true s1 (CFree 0) = None
              | None => False
              end
  | None => False
  end.
Proof. vm_compute. reflexivity. Qed.

(** non-vacuity: a history that grows, shrinks, mixes a zero-sized column in and ends non-empty *)
Example cols_example :
  match crun true true true cinit
    [CNew false 0; CNew true 1; CNew false 2; CPush 0 5%N 1; CPush 0 6%N 1; CPush 1 0%N 0; CPush 2 7%N 8;
     CReserve 0 10 0; CSetLen 0 1; CShrink 0; CShrink 2; CFree 2; CPush 2 9%N 0] with
  | Some (h, cols) => (length (hp_blocks h), map c_len cols, map (fun c => snd (c_raw c)) cols)
  | None => (0, [], [])
  end = (2, [1; 1; 1], [1; 0; 1]).
Proof. vm_compute. reflexivity. Qed.

(** * Batch adoption *)
Lemma inits_map_some (vals : list val) k : inits (length vals) (map Some vals ++ repeat None k).
Proof.
  unfold inits. rewrite firstn_app, map_length, Nat.sub_diag. cbn [firstn]. rewrite app_nil_r.
  rewrite <- (map_length (@Some val) vals) at 1. rewrite firstn_all.
  induction vals as [|x t IH]; cbn; [reflexivity|exact IH].
Qed.

Theorem cadopt_inv s i vals spare : CInv s ->
  (forall c, nth_error (snd s) i = Some c -> c_zst c = false -> c_len c = 0 /\ snd (c_raw c) = 0) ->
  exists s', cadopt s i vals spare = Some s' /\ CInv s'.
Proof.
  intros HI G. pose proof HI as (WF & COs & DJ & OW). unfold cadopt, with_col.
  destruct (nth_error (snd s) i) as [c|] eqn:Hc; [|exists s; split; [reflexivity|exact HI]].
  destruct (c_zst c) eqn:Z.
  - eexists. split; [reflexivity|].
    replace (mkCol true (c_elem c) (c_raw c) (length vals)) with (mkCol (c_zst c) (c_elem c) (c_raw c) (length vals)) by (rewrite Z; reflexivity).
    apply with_col_inv; try assumption.
    + rewrite Z. split; [unfold rebuild; discriminate|unfold allocated; cbn; discriminate].
    + apply framed_refl.
    + apply blocks_post_refl.
    + rewrite Z. unfold allocated. cbn. discriminate.
  - destruct (G c eq_refl Z) as [L0 C0].
    assert (NA : allocated (c_zst c) (c_raw c) = false).
    { unfold allocated. rewrite Z, C0. reflexivity. }
    destruct (Nat.eqb (length vals + spare) 0) eqn:E0.
    + eexists. split; [reflexivity|].
      replace (mkCol false (c_elem c) (0, 0) 0) with (mkCol (c_zst c) (c_elem c) (0, 0) 0) by (rewrite Z; reflexivity).
      apply with_col_inv; try assumption.
      * rewrite Z. split; [unfold rebuild; cbn; discriminate|unfold allocated; cbn; discriminate].
      * apply framed_refl.
      * intros a2 Hf. right. split; [exact Hf|]. intros [X _]. rewrite NA in X. discriminate.
      * rewrite Z. unfold allocated. cbn. discriminate.
    + apply Nat.eqb_neq in E0. eexists. split; [reflexivity|].
      set (h := fst s) in *. set (a := hp_next h).
      set (nb := mkBlock (c_elem c) (length vals + spare) (map Some vals ++ repeat None spare)).
      replace (mkCol false (c_elem c) (a, length vals + spare) (length vals))
        with (mkCol (c_zst c) (c_elem c) (a, length vals + spare) (length vals)) by (rewrite Z; reflexivity).
      destruct WF as [ND WFb].
      assert (Hfresh : ~ In a (map fst (hp_blocks h))).
      { intros X. apply in_map_iff in X as ([a' b'] & Ea & Hin). cbn in Ea. subst a'. destruct (WFb a b' Hin) as [L _]. unfold a in L. lia. }
      apply with_col_inv; try assumption.
      * split; cbn [hp_blocks hp_next]; [cbn; constructor; [exact Hfresh|exact ND]|].
        intros x y [Hin|Hin].
        -- inversion Hin; subst x y. split; [unfold a; lia|]. cbn [nb bk_cells bk_cap]. rewrite app_length, map_length, repeat_length. reflexivity.
        -- destruct (WFb x y Hin). split; [unfold a in *; lia|assumption].
      * rewrite Z. split; [|intros _; cbn [fst hp_next]; unfold a; lia].
        assert (F : hfind a (hp_blocks (mkHeap ((a, nb) :: hp_blocks h) (S a))) = Some nb) by (cbn [hp_blocks hfind]; rewrite Nat.eqb_refl; reflexivity).
        rewrite (rebuild_intro _ (c_elem c) a (length vals + spare) (length vals) nb F eq_refl eq_refl E0 ltac:(lia)); [discriminate|].
        cbn [nb bk_cells]. apply inits_map_some.
      * split; cbn [hp_blocks hp_next]; [|unfold a, h; lia]. intros a2 Hl _. cbn [hfind].
        assert (E : Nat.eqb a a2 = false) by (apply Nat.eqb_neq; unfold a, h in *; lia). rewrite E. reflexivity.
      * intros a2 Hf. cbn [hp_blocks hfind] in Hf. destruct (Nat.eqb a a2) eqn:E.
        -- left. apply Nat.eqb_eq in E. split; [rewrite Z; unfold allocated; cbn [negb andb snd]; apply negb_true_iff, Nat.eqb_neq; exact E0|cbn; auto].
        -- right. split; [exact Hf|]. intros [X _]. rewrite NA in X. discriminate.
      * intros _. right. cbn [fst]. unfold a, h. lia.
Qed.

Theorem cextend_inv s i vals spare want : CInv s -> exists s', cextend true s i vals spare want = Some s' /\ CInv s'.
Proof.
  intros HI. unfold cextend. destruct (nth_error (snd s) i) as [c|] eqn:Hc; [|exists s; auto].
  destruct (Nat.eqb (c_len c) 0 && (negb true || Nat.eqb (snd (c_raw c)) 0) && negb (c_zst c)) eqn:E.
  - apply andb_true_iff in E as [E Ez]. apply andb_true_iff in E as [El Ec]. cbn [negb orb] in Ec.
    apply Nat.eqb_eq in El, Ec. apply cadopt_inv; [exact HI|].
    intros c' Hc' _. rewrite Hc in Hc'. inversion Hc'; subst c'. auto.
  - apply crun_inv. exact HI.
Qed.

(** without the capacity test: an emptied column that kept its allocation loses it *)
Definition adopt_leak_history : list cop := [CNew false 0; CPush 0 1%N 4; CSetLen 0 0].
Lemma adopt_without_guard_leaks :
  match crun true true true cinit adopt_leak_history with
  | Some s => match cextend false s 0 [7%N] 0 0 with
              | Some s' => match free_all s' with Some s'' => length (hp_blocks (fst s'')) | None => 99 end
              | None => 99 end
  | None => 99
  end = 1.
Proof. vm_compute. reflexivity. Qed.
Lemma adopt_with_guard_returns_everything :
  match crun true true true cinit adopt_leak_history with
  | Some s => match cextend true s 0 [7%N] 0 0 with
              | Some s' => match free_all s' with Some s'' => length (hp_blocks (fst s'')) | None => 99 end
              | None => 99 end
  | None => 99
  end = 0.
Proof. vm_compute. reflexivity. Qed.

Theorem cextend_src_inv s i vals spare want : CInv s -> exists s', cextend_src s i vals spare want = Some s' /\ CInv s'.
Proof.
  unfold cextend_src. assert (E : fact_adopt_requires_no_allocation = true) by reflexivity. rewrite E. apply cextend_inv.
Qed.
