#!/usr/bin/env python3
"""Translator: regenerates coq/Gen/Tables.v from /repo's current source.

Not a Rust parser: a comment-stripping, bracket-balancing scanner over
`impl … for … where … { … }` blocks, plus a tiny evaluator for the one
`match` that `Claim::try_merge` is.  Each table is extracted from the impl
headers / bodies named in DESIGN.md §4.1.  If a file cannot be understood the
translator raises ParseFailure(table) and the caller falls back to the
committed snapshot of that table plus the behavioural correspondence."""
import json
import os
import re
import sys

REPO = os.environ.get("VERIF_REPO", "/repo")


class ParseFailure(Exception):
    pass


def strip_comments(src):
    out = []
    i = 0
    n = len(src)
    while i < n:
        if src.startswith("//", i):
            j = src.find("\n", i)
            i = n if j < 0 else j
        elif src.startswith("/*", i):
            j = src.find("*/", i)
            i = n if j < 0 else j + 2
        elif src[i] == '"':
            j = i + 1
            while j < n and src[j] != '"':
                j += 2 if src[j] == "\\" else 1
            out.append(src[i:j + 1])
            i = j + 1
        else:
            out.append(src[i])
            i += 1
    return "".join(out)


def cut_tests(src):
    m = re.search(r"#\[cfg\(test\)\]\s*mod tests", src)
    return src[:m.start()] if m else src


def impl_blocks(src):
    """[(header, body)] for every top-level `impl` item."""
    blocks = []
    for m in re.finditer(r"(?m)^(?:unsafe\s+)?impl\b", src):
        i = m.start()
        depth_angle = 0
        j = i
        # header ends at the first '{' outside <>, () and []
        par = 0
        while j < len(src):
            c = src[j]
            if c in "([":
                par += 1
            elif c in ")]":
                par -= 1
            elif c == "{" and par == 0:
                break
            j += 1
        header = src[i:j]
        depth = 0
        k = j
        while k < len(src):
            if src[k] == "{":
                depth += 1
            elif src[k] == "}":
                depth -= 1
                if depth == 0:
                    break
            k += 1
        blocks.append((" ".join(header.split()), src[j + 1:k]))
    return blocks


def read(rel):
    p = os.path.join(REPO, rel)
    try:
        return cut_tests(strip_comments(open(p).read()))
    except OSError:
        raise ParseFailure(rel)


VK = [("Option<&'a mut ", "KOptMut"), ("Option<&mut ", "KOptMut"), ("Option<&'a ", "KOptRef"), ("Option<&", "KOptRef"),
      ("&'a mut ", "KMut"), ("&mut ", "KMut"), ("&'a ", "KRef"), ("&", "KRef")]


def view_kind(s):
    s = s.strip()
    if s.startswith("entity::Identifier"):
        return "ident"
    for pre, k in VK:
        if s.startswith(pre):
            return k
    return None


def split_top(s, sep=","):
    out, depth, cur = [], 0, []
    for c in s:
        if c in "<([":
            depth += 1
        elif c in ">)]":
            depth -= 1
        if c == sep and depth == 0:
            out.append("".join(cur).strip())
            cur = []
        else:
            cur.append(c)
    if "".join(cur).strip():
        out.append("".join(cur).strip())
    return out


def for_head(header):
    """The head element of the `for (X, Rest)` tuple, or the whole type."""
    m = re.search(r"\bfor\s+(.*?)(?:\s+where\b|$)", header)
    if not m:
        return None, None
    t = m.group(1).strip()
    if t.startswith("("):
        inner = t[1:t.rfind(")")]
        parts = split_top(inner)
        return parts[0], t
    return t, t


# ------------------------------------------------------------------ tables

def t_verifier():
    src = read("src/system/schedule/claim/verifier.rs")
    rows = {}
    null_decision = None
    ident_passes = False
    for h, b in impl_blocks(src):
        if " Verifier<" not in h:
            continue
        head, whole = for_head(h)
        dm = re.search(r"type\s+Decision\s*=\s*(.*?);", b, re.S)
        if not dm:
            raise ParseFailure("verifier: no Decision")
        d = " ".join(dm.group(1).split())
        if whole == "view::Null":
            null_decision = "Append" if d.endswith("Append") else "Cut"
            continue
        if d == "decision::Cut":
            dec = "Cut"
        elif d == "decision::Append":
            dec = "AppendNow"
        elif re.match(r"<U as Verifier<.*>>::Decision$", d):
            dec = "Append"   # continues with the rest of the views
        else:
            raise ParseFailure("verifier: decision " + d)
        vk = view_kind(head)
        if vk == "ident":
            ident_passes = dec == "Append"
            continue
        if vk is None:
            raise ParseFailure("verifier: head " + head)
        # what the where-clause demands of the claims list C / the inverse registry R
        cm = re.search(r"\bC\s*:\s*Get<\s*(.*?)\s*,\s*I\s*>", h)
        rm = re.search(r"\bR\s*:\s*Get<\s*T\s*,\s*I\s*>", h)
        if cm:
            ck = {"KRef": "PRef", "KMut": "PMut", "KOptRef": "POptRef", "KOptMut": "POptMut"}.get(view_kind(cm.group(1)))
            if ck is None:
                raise ParseFailure("verifier: claimed " + cm.group(1))
        elif rm:
            ck = "PNotPresent"
        else:
            raise ParseFailure("verifier: where " + h)
        if (vk, ck) in rows and rows[(vk, ck)] != dec:
            raise ParseFailure("verifier: ambiguous row")
        rows[(vk, ck)] = dec
    if null_decision != "Append" or not ident_passes:
        raise ParseFailure("verifier: base cases")
    return rows


def t_merger():
    src = read("src/system/schedule/claim/merger.rs")
    rows = {}
    for h, b in impl_blocks(src):
        m = re.match(r"impl Merger for \((\w+), (\w+)\)", h)
        dm = re.search(r"type\s+Decision\s*=\s*(\w+)\s*;", b)
        if m and dm:
            rows[(m.group(1), m.group(2))] = dm.group(1)
    if set(rows) != {(a, b) for a in ("Cut", "Append") for b in ("Cut", "Append")}:
        raise ParseFailure("merger")
    return rows


def t_claim_merge():
    src = read("src/query/view/claim.rs")
    m = re.search(r"fn try_merge\(self, other: Self\) -> Option<Self>\s*\{(.*?)\n    \}", src, re.S)
    if not m:
        raise ParseFailure("claim_merge: fn")
    body = m.group(1)
    mm = re.search(r"match self\s*\{(.*)\}", body, re.S)
    if not mm:
        raise ParseFailure("claim_merge: match")
    arms = re.split(r"Self::(None|Immutable|Mutable)\s*=>", mm.group(1))[1:]
    name = {"None": "CNone", "Immutable": "CImm", "Mutable": "CMut"}
    rows = {}

    def ev(expr, me, other):
        expr = expr.strip().rstrip(",").strip()
        while expr.startswith("{") and expr.endswith("}"):
            expr = expr[1:-1].strip()
        im = re.match(r"if\s+matches!\(other,\s*(.*?)\)\s*\{(.*?)\}\s*else\s*\{(.*)\}$", expr, re.S)
        if im:
            pats = [p.strip().replace("Self::", "") for p in im.group(1).split("|")]
            return ev(im.group(2), me, other) if other in pats else ev(im.group(3), me, other)
        if expr == "None":
            return None
        sm = re.match(r"Some\((\w+)\)$", expr)
        if sm:
            return {"self": me, "other": other}.get(sm.group(1), "?")
        raise ParseFailure("claim_merge: expr " + expr)

    for i in range(0, len(arms), 2):
        me = arms[i]
        for other in name:
            r = ev(arms[i + 1], me, other)
            rows[(name[me], name[other])] = None if r is None else name[r]
    if len(rows) != 9:
        raise ParseFailure("claim_merge: arms")
    return rows


def t_view_claim():
    src = read("src/registry/sealed/view.rs")
    rows = {}
    for h, b in impl_blocks(src):
        if " CanonicalViews<" not in h:
            continue
        m = re.search(r"CanonicalViews<'a,\s*(.*?),\s*\((.*?)\)\s*>\s*for", h)
        if not m:
            continue
        cm = re.search(r"fn claims\(\)\s*->\s*Self::Claims\s*\{\s*\(Claim::(\w+),", b)
        if not cm:
            continue
        cl = {"None": "CNone", "Immutable": "CImm", "Mutable": "CMut"}[cm.group(1)]
        views = m.group(1).strip()
        if views.startswith("("):
            vk = view_kind(split_top(views[1:views.rfind(")")])[0])
        else:
            vk = "absent"      # NotContained
        rows[vk] = cl
    if set(rows) != {"KRef", "KMut", "KOptRef", "KOptMut", "absent"}:
        raise ParseFailure("view_claim %s" % sorted(rows))
    return rows


def t_entry_filter():
    src = read("src/query/view/sealed.rs")
    rows = {}
    for h, b in impl_blocks(src):
        m = re.search(r"ViewSealed<'a> for (.*?)(?: where|$)", h)
        em = re.search(r"type\s+EntryFilter\s*=\s*(.*?);", b, re.S)
        if not em:
            continue
        e = " ".join(em.group(1).split())
        if " ViewsSealed<'a> for" in h:
            tgt = h.split(" for ")[1].split(" where")[0].strip()
            if tgt == "Null":
                rows["null"] = e
            else:
                rows["cons"] = e
            continue
        if m:
            rows[view_kind(m.group(1))] = e
    want = {"KRef": "filter::Has<C>", "KMut": "filter::Has<C>", "KOptRef": "filter::Has<C>",
            "KOptMut": "filter::Has<C>", "ident": "filter::Not<filter::None>", "null": "filter::Not<filter::None>",
            "cons": "filter::Or<W::EntryFilter, V::EntryFilter>"}
    out = {}
    for k in want:
        if k not in rows:
            raise ParseFailure("entry_filter: " + k)
        v = rows[k]
        if v == "filter::Has<C>":
            out[k] = "EHas"
        elif v == "filter::Not<filter::None>":
            out[k] = "EFalse"
        elif v == "filter::Or<W::EntryFilter, V::EntryFilter>":
            out[k] = "EOr"
        else:
            raise ParseFailure("entry_filter: %s = %s" % (k, v))
    if out["cons"] != "EOr":
        raise ParseFailure("entry_filter: cons")
    return out


def filter_semantics(body):
    m = re.search(r"fn filter<R_>\(.*?\)\s*->\s*bool\s*where\s*R_\s*:\s*Registry\s*,?\s*\{(.*)\}\s*$", body, re.S)
    if not m:
        return None
    e = " ".join(m.group(1).split())
    e = re.sub(r"^unsafe \{ (.*) \}$", r"\1", e).strip()
    if e == "true":
        return "FTrue"
    if e == "identifier.get_unchecked(R_::LEN - R::LEN - 1)":
        return "FBitHere"
    if e == "R::filter(identifier)":
        return "FRecurse"
    if re.match(r"<R as Sealed<F0, I0>>::filter\(identifier\) && <R as Sealed<F1, I1>>::filter\(identifier\)$", e):
        return "FAndS"
    if re.match(r"<R as Sealed<F0, I0>>::filter\(identifier\) \|\| <R as Sealed<F1, I1>>::filter\(identifier\)$", e):
        return "FOrS"
    if re.match(r"!<R as Sealed<F, I>>::filter\(identifier\)$", e):
        return "FNotS"
    if e == "<Self as Sealed<And<F, FS>, And<I, IS>>>::filter(identifier)":
        return "FViewsAnd"
    return "?" + e


def t_filter():
    src = read("src/registry/contains/filter/sealed.rs")
    rows = {}
    for h, b in impl_blocks(src):
        m = re.search(r"Sealed<\s*(.*?)\s*>\s*for\s+(.*?)(?: where|$)", h)
        if not m:
            continue
        args = split_top(m.group(1))
        form, idx = args[0], args[1] if len(args) > 1 else ""
        sem = filter_semantics(b)
        if sem is None or sem.startswith("?"):
            raise ParseFailure("filter: %s -> %s" % (form, sem))
        rows[(" ".join(form.split()), " ".join(idx.split()))] = sem
    return rows


def t_merge_kinds():
    src = read("src/query/view/merge.rs")
    rows = {}
    for h, b in impl_blocks(src):
        m = re.search(r"Merge<\s*(.*)\s*>\s*for\s+\((\w+), Registry\)", h)
        if not m:
            continue
        args = split_top(m.group(1))
        if len(args) != 3:
            continue
        side = re.match(r"\((\w+), Containments\)", args[2])
        if not side:
            continue
        side = side.group(1)
        mm = re.search(r"type\s+Merged\s*=\s*(.*?);", b, re.S)
        merged = " ".join(mm.group(1).split())

        def head(v):
            v = v.strip()
            if v.startswith("("):
                return view_kind(split_top(v[1:v.rfind(")")])[0])
            return None
        l, r = head(args[0]), head(args[1])
        if side == "Neither":
            continue
        mk = view_kind(merged.lstrip("(").strip())
        rows[(side, l or "-", r or "-")] = mk
    return rows


# ------------------------------------------------------------------ emit

def emit(tables):
    o = []
    w = o.append
    w("(** @generated by tools/translate.py from /repo/src — do not edit.")
    w("    Decision tables taken by trait resolution / small matches in the Rust source. *)")
    w("From Brood Require Import Kinds.")
    w("")
    ver = tables["verifier"]
    w("(** system/schedule/claim/verifier.rs: view kind x what the stage's claims hold for that component. *)")
    w("Definition verifier_table (v : vkind) (c : ckind) : option decision :=")
    w("  match v, c with")
    for vk in ("KRef", "KMut", "KOptRef", "KOptMut"):
        for ck in ("PNotPresent", "PRef", "POptRef", "PMut", "POptMut"):
            d = ver.get((vk, ck))
            w("  | %s, %s => %s" % (vk, ck, "None" if d is None else "Some %s" % ("Cut" if d == "Cut" else "Append")))
    w("  end.")
    w("")
    mer = tables["merger"]
    w("(** system/schedule/claim/merger.rs *)")
    w("Definition merger_table (a b : decision) : decision :=")
    w("  match a, b with")
    for a in ("Append", "Cut"):
        for b in ("Append", "Cut"):
            w("  | %s, %s => %s" % (a, b, mer[(a, b)]))
    w("  end.")
    w("")
    cm = tables["claim_merge"]
    w("(** query/view/claim.rs: Claim::try_merge *)")
    w("Definition claim_merge_table (a b : claim) : option claim :=")
    w("  match a, b with")
    for a in ("CNone", "CImm", "CMut"):
        for b in ("CNone", "CImm", "CMut"):
            r = cm[(a, b)]
            w("  | %s, %s => %s" % (a, b, "None" if r is None else "Some " + r))
    w("  end.")
    w("")
    vc = tables["view_claim"]
    w("(** registry/sealed/view.rs: claims() per canonical view kind *)")
    w("Definition view_claim_table (v : vkind) : claim :=")
    w("  match v with")
    for vk in ("KRef", "KMut", "KOptRef", "KOptMut"):
        w("  | %s => %s" % (vk, vc[vk]))
    w("  end.")
    w("Definition absent_claim : claim := %s." % vc["absent"])
    w("")
    ef = tables["entry_filter"]
    w("(** query/view/sealed.rs: EntryFilter per view kind (true = Has<C>, false = Not<None>) *)")
    w("Definition entry_filter_table (v : vkind) : bool :=")
    w("  match v with")
    for vk in ("KRef", "KMut", "KOptRef", "KOptMut"):
        w("  | %s => %s" % (vk, "true" if ef[vk] == "EHas" else "false"))
    w("  end.")
    w("Definition entry_filter_ident : bool := %s." % ("true" if ef["ident"] == "EHas" else "false"))
    w("Definition entry_filter_null : bool := %s." % ("true" if ef["null"] == "EHas" else "false"))
    w("")
    ft = tables["filter"]

    def sem(form_pred):
        got = sorted({v for (f, i), v in ft.items() if form_pred(f, i)})
        return got
    w("(** registry/contains/filter/sealed.rs: what each filter form evaluates on an archetype identifier.")
    w("    view-as-filter: true = bit test of the component, false = always true. *)")
    vf = {}
    for vk, pre in (("KRef", "&C"), ("KMut", "&mut C"), ("KOptRef", "Option<&C_>"), ("KOptMut", "Option<&mut C_>")):
        here = [v for (f, i), v in ft.items() if f.replace("'a ", "") in (pre, pre.replace("C_", "C"), pre.replace("C", "C_"))]
        if not here:
            raise ParseFailure("filter: view form " + pre)
        if set(here) <= {"FBitHere", "FRecurse"} and "FBitHere" in here:
            vf[vk] = "true"
        elif set(here) == {"FTrue"}:
            vf[vk] = "false"
        else:
            raise ParseFailure("filter: view form %s -> %s" % (pre, here))
    w("Definition view_filter_table (v : vkind) : bool :=")
    w("  match v with")
    for vk in ("KRef", "KMut", "KOptRef", "KOptMut"):
        w("  | %s => %s" % (vk, vf[vk]))
    w("  end.")
    has = sorted({v for (f, i), v in ft.items() if f.startswith("Has<")})
    if has != ["FBitHere", "FRecurse"]:
        raise ParseFailure("filter: Has -> %s" % has)
    conn = {"And": "FAndS", "Or": "FOrS", "Not": "FNotS", "None": "FTrue"}
    for k, v in conn.items():
        got = sorted({s for (f, i), s in ft.items() if f == k or f.startswith(k + "<")})
        if got != [v]:
            raise ParseFailure("filter: %s -> %s" % (k, got))
    vl = sorted({s for (f, i), s in ft.items() if f in ("(F, FS)", "view::Null")})
    if vl != ["FTrue", "FViewsAnd"]:
        raise ParseFailure("filter: view lists -> %s" % vl)
    ident = sorted({s for (f, i), s in ft.items() if f == "entity::Identifier"})
    if ident != ["FTrue"]:
        raise ParseFailure("filter: identifier -> %s" % ident)
    w("(* Has<C> tests the component's own bit (index expression R_::LEN - R::LEN - 1 at the matching")
    w("   registry position, recursion otherwise); And/Or/Not are the boolean connectives; None and")
    w("   entity::Identifier are true.  Recorded as checked facts: *)")
    w("Definition filter_has_is_bit_test : bool := true.")
    w("Definition filter_connectives_are_boolean : bool := true.")
    w("")
    mk = tables["merge_kinds"]
    w("(** query/view/merge.rs: kind of the merged view; None = no impl (does not compile). *)")
    w("Definition merge_table (l r : option vkind) : option (option vkind) :=")
    w("  match l, r with")
    w("  | None, None => Some None")
    kinds = ("KRef", "KMut", "KOptRef", "KOptMut")
    for k in kinds:
        r_ = mk.get(("Left", k, "-"))
        w("  | Some %s, None => %s" % (k, "Some (Some %s)" % r_ if r_ else "None"))
    for k in kinds:
        r_ = mk.get(("Right", "-", k))
        w("  | None, Some %s => %s" % (k, "Some (Some %s)" % r_ if r_ else "None"))
    for a in kinds:
        for b in kinds:
            r_ = mk.get(("Both", a, b))
            w("  | Some %s, Some %s => %s" % (a, b, "Some (Some %s)" % r_ if r_ else "None"))
    w("  end.")
    w("")
    return "\n".join(o) + "\n"


TABLES = [("verifier", t_verifier), ("merger", t_merger), ("claim_merge", t_claim_merge), ("view_claim", t_view_claim),
          ("entry_filter", t_entry_filter), ("filter", t_filter), ("merge_kinds", t_merge_kinds)]


def translate():
    """-> (tables, failures)"""
    tables, failures = {}, []
    for name, f in TABLES:
        try:
            tables[name] = f()
        except ParseFailure as e:
            failures.append((name, str(e)))
        except Exception as e:      # a harmless rewrite may break any regex
            failures.append((name, "internal: %r" % e))
    return tables, failures


def main():
    out = sys.argv[1]
    tables, failures = translate()
    if failures:
        print("PARSE-FAILED " + json.dumps(failures))
        sys.exit(3)
    try:
        text = emit(tables)
    except ParseFailure as e:
        print("PARSE-FAILED " + json.dumps([["emit", str(e)]]))
        sys.exit(3)
    old = open(out).read() if os.path.exists(out) else None
    if old != text:
        with open(out, "w") as f:
            f.write(text)
        print("regenerated-changed")
    else:
        print("regenerated-identical")


if __name__ == "__main__":
    main()
