(** C11 / C04: a failed row-wise deserialization drops every value it created exactly once. *)
From Coq Require Import Permutation.
From Brood Require Import Base Facts DeRows BaseFacts.

Lemma made_app a b : made (a ++ b) = made a ++ made b.
Proof. unfold made. apply flat_map_app. Qed.
Lemma gone_app a b : gone (a ++ b) = gone a ++ gone b.
Proof. unfold gone. apply flat_map_app. Qed.

Lemma made_free n cols : made (free_evs n cols) = [].
Proof.
  unfold free_evs. induction cols as [|c t IH]; cbn [flat_map]; [reflexivity|]. rewrite made_app, IH, app_nil_r.
  induction (firstn n c) as [|x l IHl]; cbn; [reflexivity|exact IHl].
Qed.

Lemma gone_map_Gone l : gone (map Gone l) = l.
Proof. induction l as [|x l IH]; cbn; [reflexivity|]. f_equal. exact IH. Qed.

Lemma gone_free n cols : Forall (fun c => length c = n) cols -> gone (free_evs n cols) = concat cols.
Proof.
  unfold free_evs. induction 1 as [|c t Hc _ IH]; cbn [flat_map concat]; [reflexivity|].
  rewrite gone_app, IH, gone_map_Gone. f_equal. rewrite <- Hc. apply firstn_all.
Qed.

Lemma de_cells_ok cols : forall cells n, Forall (fun c => length c = n) cols ->
  match de_cells true cols cells with
  | (cols', true, evs) => gone evs = [] /\ Forall (fun c => length c = S n) cols' /\
                          Permutation (concat cols ++ made evs) (concat cols') /\ length cols <= length cells
  | (cols', false, evs) => cols' = cols /\ Permutation (made evs) (gone evs)
  end.
Proof.
  induction cols as [|col rest IH]; intros cells n HF; cbn [de_cells].
  - repeat split; [constructor|cbn; constructor|cbn; lia].
  - pose proof (Forall_inv HF) as Hc. pose proof (Forall_inv_tail HF) as HFr. cbn beta in Hc.
    destruct cells as [|[v|] cells']; [split; [reflexivity|constructor]| |split; [reflexivity|constructor]].
    specialize (IH cells' n HFr). destruct (de_cells true rest cells') as [[rest' ok] evs]. destruct ok.
    + destruct IH as (G & F' & P & L). cbn [gone flat_map made concat length]. fold (gone evs) (made evs).
      split; [exact G|]. split; [constructor; [rewrite app_length; cbn; lia|exact F']|]. split; [|lia].
      cbn [app]. rewrite <- !app_assoc. apply Permutation_app_head. cbn [app].
      apply Permutation_trans with (v :: concat rest ++ made evs); [apply Permutation_sym, Permutation_middle|].
      constructor. exact P.
    + destruct IH as (-> & P). split; [reflexivity|].
      cbn [made gone flat_map]. fold (made (evs ++ [Gone v])) (gone (evs ++ [Gone v])).
      rewrite made_app, gone_app. cbn. rewrite app_nil_r.
      apply Permutation_trans with (v :: gone evs); [constructor; exact P|]. apply Permutation_cons_append.
Qed.

Theorem de_rows_balanced len : forall rows cols n, Forall (fun c => length c = n) cols ->
  match de_rows true true len rows cols n with
  | (None, evs) => Permutation (concat cols ++ made evs) (gone evs)
  | (Some cols', evs) => gone evs = [] /\ Permutation (concat cols ++ made evs) (concat cols') /\
                         Forall (fun c => length c = n + len) cols'
  end.
Proof.
  induction len as [|len IH]; intros rows cols n HF; cbn [de_rows].
  - split; [reflexivity|]. split; [cbn; rewrite app_nil_r; apply Permutation_refl|].
    eapply Forall_impl; [|exact HF]. cbn. intros c Hc. lia.
  - destruct rows as [|r rows'].
    + rewrite made_free, app_nil_r, (gone_free n cols HF). apply Permutation_refl.
    + pose proof (de_cells_ok cols r n HF) as HC. destruct (de_cells true cols r) as [[cols' ok] evs]. destruct ok.
      * destruct HC as (G & F' & P & L).
        destruct (Nat.ltb (length cols) (length r)).
        -- rewrite made_app, gone_app, made_free, app_nil_r, G, (gone_free (S n) cols' F'). cbn [app]. exact P.
        -- specialize (IH rows' cols' (S n) F'). destruct (de_rows true true len rows' cols' (S n)) as [[res|] evs'].
           ++ destruct IH as (G' & P' & F''). rewrite made_app, gone_app, G, G'. split; [reflexivity|].
              split; [|eapply Forall_impl; [|exact F'']; cbn; intros c Hc; lia].
              rewrite app_assoc. eapply Permutation_trans; [apply Permutation_app_tail; exact P|exact P'].
           ++ rewrite made_app, gone_app, G. cbn [app]. rewrite app_assoc.
              eapply Permutation_trans; [apply Permutation_app_tail; exact P|exact IH].
      * destruct HC as (-> & P). rewrite made_app, gone_app, made_free, app_nil_r, (gone_free n cols HF).
        apply Permutation_trans with (made evs ++ concat cols); [apply Permutation_app_comm|].
        apply Permutation_app_tail. exact P.
Qed.

Theorem de_table_conserves ncols len rows :
  match de_table true true ncols len rows with
  | (None, evs) => Permutation (made evs) (gone evs)
  | (Some cols', evs) => gone evs = [] /\ Permutation (made evs) (concat cols') /\ Forall (fun c => length c = len) cols'
  end.
Proof.
  unfold de_table.
  assert (HC : concat (repeat (@nil val) ncols) = []).
  { induction ncols as [|k IHk]; cbn; [reflexivity|exact IHk]. }
  assert (HF : Forall (fun c : list val => length c = 0) (repeat [] ncols)).
  { clear HC. induction ncols as [|k IHk]; cbn; constructor; [reflexivity|exact IHk]. }
  pose proof (de_rows_balanced len rows (repeat [] ncols) 0 HF) as H.
  destruct (de_rows true true len rows (repeat [] ncols) 0) as [[res|] evs]; rewrite HC in H; cbn [app] in H; exact H.
Qed.

(** each of the two is needed *)
Lemma no_pop_leaks : let '(res, evs) := de_table false true 2 1 [[Some 1%N; None]] in
  res = None /\ made evs = [1%N] /\ gone evs = [].
Proof. vm_compute. auto. Qed.
Lemma no_flag_leaks : let '(res, evs) := de_table true false 2 1 [[Some 1%N; Some 2%N; Some 3%N]] in
  res = None /\ made evs = [1%N; 2%N] /\ gone evs = [].
Proof. vm_compute. auto. Qed.
Example de_table_example : de_table true true 2 2 [[Some 1%N; Some 2%N]; [Some 3%N; Some 4%N]]
  = (Some [[1%N; 3%N]; [2%N; 4%N]], [Made 1%N; Made 2%N; Made 3%N; Made 4%N]).
Proof. vm_compute. reflexivity. Qed.

(** the tie to the source *)
Lemma de_row_facts : fact_de_row_pops = true /\ fact_de_row_complete_flag = true.
Proof. vm_compute. split; reflexivity. Qed.

Theorem de_table_src_conserves ncols len rows :
  match de_table_src ncols len rows with
  | (None, evs) => Permutation (made evs) (gone evs)
  | (Some cols', evs) => gone evs = [] /\ Permutation (made evs) (concat cols') /\ Forall (fun c => length c = len) cols'
  end.
Proof. unfold de_table_src. destruct de_row_facts as [-> ->]. apply de_table_conserves. Qed.
