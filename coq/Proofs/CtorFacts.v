(** Proofs for C18. *)
From Brood Require Import Base Facts Ctor.

Lemma existsb_eqb_in c l : existsb (Nat.eqb c) l = true <-> In c l.
Proof.
  rewrite existsb_exists. split.
  - intros (x & Hx & E). apply Nat.eqb_eq in E. subst. exact Hx.
  - intros H. exists c. split; [exact H|apply Nat.eqb_refl].
Qed.

Lemma assert_no_dup_spec : forall tys seen,
  assert_no_dup tys seen = true <-> (NoDup tys /\ forall x, In x tys -> ~ In x seen).
Proof.
  induction tys as [|c r IH]; intros seen; cbn [assert_no_dup].
  - split; [intros _; split; [constructor|intros x []]|reflexivity].
  - change fact_assert_cons_inserts_then_recurses with true. cbv iota.
    destruct (existsb (Nat.eqb c) seen) eqn:E.
    + split; [discriminate|]. intros [_ H]. exfalso. apply (H c (or_introl eq_refl)). apply existsb_eqb_in. exact E.
    + rewrite IH. split.
      * intros [ND H]. split.
        -- constructor; [|exact ND]. intros Hin. apply (H c Hin). left. reflexivity.
        -- intros x [<-|Hx]; [intros X; apply existsb_eqb_in in X; congruence|].
           intros X. apply (H x Hx). right. exact X.
      * intros [ND H]. inversion ND as [|? ? Hn ND']; subst. split; [exact ND'|].
        intros x Hx [<-|X]; [contradiction|]. apply (H x (or_intror Hx) X).
Qed.

Lemma from_raw_parts_spec reg : from_raw_parts reg = Returned <-> NoDup reg.
Proof.
  unfold from_raw_parts.
  change (fact_from_raw_parts_asserts_first && fact_assert_starts_from_empty_set && fact_assert_null_is_noop) with true.
  cbv iota. destruct (assert_no_dup reg []) eqn:E.
  - apply assert_no_dup_spec in E as [ND _]. tauto.
  - split; [discriminate|]. intros ND. exfalso.
    assert (X : assert_no_dup reg [] = true) by (apply assert_no_dup_spec; split; [exact ND|intros x _ []]).
    congruence.
Qed.

Lemma construct_spec k reg : construct k reg = Returned <-> NoDup reg.
Proof.
  unfold construct, with_resources.
  change fact_only_from_raw_parts_and_clone_build with true.
  change fact_new_calls_with_resources with true.
  change fact_with_resources_calls_from_raw_parts with true.
  change fact_default_calls_checked_ctor with true.
  change fact_deserialize_calls_from_raw_parts with true.
  cbn [negb]. cbv iota. destruct k; apply from_raw_parts_spec.
Qed.

Lemma check_len_against_spec : forall cols len,
  check_len_against cols len = true <-> forall c, In c cols -> c = len.
Proof.
  induction cols as [|c r IH]; intros len; cbn [check_len_against].
  - split; [intros _ c []|reflexivity].
  - change fact_len_cons with true. cbv iota. rewrite andb_true_iff, Nat.eqb_eq, IH. split.
    + intros [-> H] x [<-|Hx]; auto.
    + intros H. split; [apply H; left; reflexivity|intros x Hx; apply H; right; exact Hx].
Qed.

Lemma check_len_spec cols : check_len cols = true <-> forall a b, In a cols -> In b cols -> a = b.
Proof.
  destruct cols as [|c r]; cbn [check_len].
  - split; [intros _ a b []|reflexivity].
  - change (fact_len_cons && fact_len_null) with true. cbv iota. rewrite check_len_against_spec. split.
    + intros H a b Ha Hb.
      assert (Ea : a = c) by (destruct Ha as [<-|Ha]; [reflexivity|apply H; exact Ha]).
      assert (Eb : b = c) by (destruct Hb as [<-|Hb]; [reflexivity|apply H; exact Hb]).
      congruence.
    + intros H x Hx. apply H; [right; exact Hx|left; reflexivity].
Qed.

Lemma batch_new_spec cols : match batch_new cols with
  | Some l => (forall c, In c cols -> c = l) /\ l = component_len cols
  | None => exists a b, In a cols /\ In b cols /\ a <> b
  end.
Proof.
  unfold batch_new. change fact_batch_new_asserts_check_len_first with true. cbv iota.
  destruct (check_len cols) eqn:E.
  - split; [|reflexivity]. pose proof (proj1 (check_len_spec cols) E) as H.
    intros c Hc. destruct cols as [|c0 r]; [contradiction|]. cbn [component_len]. apply H; [exact Hc|left; reflexivity].
  - (* some two columns differ: by decidability on the finite list *)
    assert (D : forall l : list nat, (forall a b, In a l -> In b l -> a = b) \/ exists a b, In a l /\ In b l /\ a <> b).
    { induction l as [|x l IHl]; [left; intros a b []|].
      destruct IHl as [Hall|(a & b & Ha & Hb & Hne)].
      - destruct l as [|y l'].
        + left. intros a b [<-|[]] [<-|[]]. reflexivity.
        + destruct (Nat.eq_dec x y) as [->|Hne].
          * left. intros a b Ha Hb.
            assert (Ea : a = y) by (destruct Ha as [<-|Ha]; [reflexivity|apply Hall; [exact Ha|left; reflexivity]]).
            assert (Eb : b = y) by (destruct Hb as [<-|Hb]; [reflexivity|apply Hall; [exact Hb|left; reflexivity]]).
            congruence.
          * right. exists x, y. split; [left; reflexivity|]. split; [right; left; reflexivity|exact Hne].
      - right. exists a, b. split; [right; exact Ha|]. split; [right; exact Hb|exact Hne]. }
    destruct (D cols) as [Hall|Hex]; [|exact Hex].
    apply check_len_spec in Hall. congruence.
Qed.

(** the cloning arm of [entities!]: rectangular whatever the size expression does *)
Theorem macro_cloned_rectangular k evals : check_len (macro_cloned k evals) = true.
Proof.
  unfold macro_cloned. change fact_entities_macro_evaluates_size_once with true. cbn [macro_cloned_cols].
  apply check_len_spec. intros a b Ha Hb. apply repeat_spec in Ha, Hb. congruence.
Qed.

Theorem macro_cloned_is_a_batch k evals : batch_new (macro_cloned k evals) = Some (component_len (macro_cloned k evals)).
Proof.
  unfold batch_new. change fact_batch_new_asserts_check_len_first with true. cbv iota.
  rewrite macro_cloned_rectangular. reflexivity.
Qed.

(** finding F10 as it was: the size expression evaluated once per column *)
Lemma macro_cloned_ragged_before : check_len (macro_cloned_cols false 2 [4; 1]) = false.
Proof. reflexivity. Qed.
