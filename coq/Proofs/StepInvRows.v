(** Preservation of [Inv] and UB-freedom for the row-moving operations:
    [do_remove], [do_entry_add], [do_entry_remove], [do_write], [do_clear]. *)
From Brood Require Import Base World BaseFacts Inv.

(** * Generic list facts *)

Lemma NoDup_app_intro (A : Type) (l1 l2 : list A) :
  NoDup l1 -> NoDup l2 -> (forall x, In x l1 -> In x l2 -> False) -> NoDup (l1 ++ l2).
Proof.
  induction l1 as [|a t IH]; intros N1 N2 D; cbn; auto.
  inversion N1 as [|? ? Hnin N1']; subst.
  constructor.
  - intros HI. apply in_app_or in HI as [HI|HI]; [contradiction|].
    apply (D a); cbn; auto.
  - apply IH; auto. intros x H1 H2. apply (D x); cbn; auto.
Qed.

Lemma insert_at_length (A : Type) (k : nat) (x : A) (l : list A) :
  length (insert_at k x l) = S (length l).
Proof.
  revert l; induction k as [|k IH]; intros l.
  - reflexivity.
  - destruct l as [|y t]; cbn [insert_at length]; auto.
Qed.

Lemma remove_at_length (A : Type) (k : nat) (l : list A) :
  k < length l -> length (remove_at k l) = length l - 1.
Proof.
  revert l; induction k as [|k IH]; intros l H.
  - destruct l; cbn in *; lia.
  - destruct l as [|y t]; cbn [remove_at length] in *; [lia|].
    rewrite IH by lia. lia.
Qed.

Lemma In_swap_remove (A : Type) (i : nat) (l : list A) (x : A) :
  i < length l -> In x (swap_remove i l) -> In x l.
Proof.
  intros Hi HI. apply In_nth_error in HI as [j Hj].
  rewrite (nth_error_swap_remove j l Hi) in Hj.
  destruct (Nat.ltb j (length l - 1)); [|discriminate].
  destruct (Nat.eqb j i); eapply nth_error_In; eauto.
Qed.

(** * Shapes: popcount and rank *)

Lemma count_true_cons (b : bool) (s : shape) :
  count_true (b :: s) = (if b then 1 else 0) + count_true s.
Proof. unfold count_true. destruct b; reflexivity. Qed.

Lemma count_true_set_true : forall (sh : shape) (c : nat),
  c < length sh -> get_bit c sh = false ->
  count_true (set_bit c true sh) = S (count_true sh).
Proof.
  induction sh as [|b s IH]; intros c Hc Hb.
  - cbn in Hc; lia.
  - destruct c as [|c].
    + unfold get_bit in Hb; cbn in Hb; subst b.
      unfold set_bit; cbn [upd]. rewrite !count_true_cons. lia.
    + unfold get_bit in Hb; cbn [nth] in Hb.
      unfold set_bit; cbn [upd]. fold (set_bit c true s).
      rewrite !count_true_cons. rewrite IH; auto. cbn in Hc; lia.
Qed.

Lemma count_true_set_false : forall (sh : shape) (c : nat),
  get_bit c sh = true ->
  S (count_true (set_bit c false sh)) = count_true sh.
Proof.
  induction sh as [|b s IH]; intros c Hb.
  - unfold get_bit in Hb. destruct c; discriminate.
  - destruct c as [|c].
    + unfold get_bit in Hb; cbn in Hb; subst b.
      unfold set_bit; cbn [upd]. rewrite !count_true_cons. lia.
    + unfold get_bit in Hb; cbn [nth] in Hb.
      unfold set_bit; cbn [upd]. fold (set_bit c false s).
      rewrite !count_true_cons. rewrite <- (IH c Hb). lia.
Qed.

Lemma rank_le : forall (sh : shape) (c : nat), rank c sh <= count_true sh.
Proof.
  unfold rank. induction sh as [|b s IH]; intros c.
  - destruct c; cbn; lia.
  - destruct c as [|c]; cbn [firstn].
    + unfold count_true at 1; cbn. lia.
    + rewrite !count_true_cons. specialize (IH c). lia.
Qed.

Lemma rank_lt : forall (sh : shape) (c : nat),
  get_bit c sh = true -> rank c sh < count_true sh.
Proof.
  unfold rank. induction sh as [|b s IH]; intros c Hb.
  - unfold get_bit in Hb. destruct c; discriminate.
  - destruct c as [|c]; cbn [firstn].
    + unfold get_bit in Hb; cbn in Hb; subst b.
      rewrite count_true_cons. unfold count_true at 1; cbn. lia.
    + unfold get_bit in Hb; cbn [nth] in Hb.
      rewrite !count_true_cons. specialize (IH c Hb). lia.
Qed.

Lemma get_bit_true_lt (c : nat) (sh : shape) : get_bit c sh = true -> c < length sh.
Proof.
  unfold get_bit. intros H.
  destruct (Nat.ltb_spec c (length sh)) as [|Hge]; auto.
  rewrite nth_overflow in H by lia. discriminate.
Qed.

(** * Slots and the archetype table *)

Lemma get_loc_slot w e sh r :
  get_loc w e = Some (sh, r) ->
  nth_error (w_slots w) (fst e) = Some (mkSlot (snd e) (Some (sh, r))).
Proof.
  unfold get_loc. destruct (nth_error (w_slots w) (fst e)) as [s|]; [|discriminate].
  destruct (N.eqb_spec (s_gen s) (snd e)) as [Hg|]; [|discriminate].
  intros H. destruct s as [g l]; cbn in *. subst. reflexivity.
Qed.

Lemma find_arch_unique archs a0 a :
  NoDup (map a_shape archs) -> In a0 archs ->
  find_arch (a_shape a0) archs = Some a -> a0 = a.
Proof.
  intros ND HI HF. rewrite (In_find_arch archs a0 ND HI) in HF. congruence.
Qed.

(** * The state between [take_row] and the closing step

    [Inv] holds except that slot [i] (generation [g]) is still active but
    points nowhere: no stored row carries index [i], and [w_len] counts one
    more row than is stored. *)
Record InvExcept (i : nat) (g : N) (w : world) : Prop := mkInvExcept {
  ie_shapes : forall a, In a (w_archs w) ->
      length (a_shape a) = w_n w /\
      forall rw, In rw (a_rows a) -> length (snd rw) = count_true (a_shape a);
  ie_nodup : NoDup (map a_shape (w_archs w));
  ie_fwd : forall j g' sh r, j <> i ->
      nth_error (w_slots w) j = Some (mkSlot g' (Some (sh, r))) ->
      exists a vals, find_arch sh (w_archs w) = Some a /\
                     nth_error (a_rows a) r = Some ((j, g'), vals);
  ie_bwd : forall sh a r j g' vals,
      find_arch sh (w_archs w) = Some a ->
      nth_error (a_rows a) r = Some ((j, g'), vals) ->
      j <> i /\ nth_error (w_slots w) j = Some (mkSlot g' (Some (sh, r)));
  ie_slot : exists loc, nth_error (w_slots w) i = Some (mkSlot g (Some loc));
  ie_free_nodup : NoDup (w_free w);
  ie_free : forall j, In j (w_free w) <->
                      exists g', nth_error (w_slots w) j = Some (mkSlot g' None);
  ie_len : w_len w = S (total_rows (w_archs w));
  ie_tid : forall sh, In sh (w_tid w) -> exists a, find_arch sh (w_archs w) = Some a
}.

Arguments ie_shapes [i g w] _ a _.
Arguments ie_nodup [i g w] _.
Arguments ie_fwd [i g w] _ j [g' sh r] _ _.
Arguments ie_bwd [i g w] _ sh [a] r [j g' vals] _ _.
Arguments ie_slot [i g w] _.
Arguments ie_free_nodup [i g w] _.
Arguments ie_free [i g w] _ j.
Arguments ie_len [i g w] _.
Arguments ie_tid [i g w] _ sh _.

(** Characterisation of [take_row] under [Inv]. *)
Lemma take_row_spec w i g sh r :
  Inv w ->
  nth_error (w_slots w) i = Some (mkSlot g (Some (sh, r))) ->
  exists archs1 slots1 vals,
    take_row sh r (w_archs w) (w_slots w) = Some (archs1, slots1, ((i, g), vals)) /\
    length vals = count_true sh /\ length sh = w_n w /\
    InvExcept i g (with_store w archs1 (w_tid w) slots1 (w_free w) (w_len w)).
Proof.
  intros HI Hs.
  destruct (@inv_fwd w HI i g sh r Hs) as (a & vals & Ha & Hr).
  pose proof (find_arch_shape _ _ Ha) as Hsh.
  pose proof (find_arch_In _ _ Ha) as Hin.
  destruct (@inv_shapes w HI a Hin) as [Hlen Hrows].
  assert (HrL : r < length (a_rows a)).
  { apply nth_error_Some. rewrite Hr. discriminate. }
  destruct (nth_error (a_rows a) (length (a_rows a) - 1)) as [[[li lg] lvals]|] eqn:Hlast.
  2:{ apply nth_error_None in Hlast. lia. }
  assert (Hls : nth_error (w_slots w) li =
                Some (mkSlot lg (Some (sh, length (a_rows a) - 1)))).
  { apply (@inv_bwd w HI sh a (length (a_rows a) - 1) li lg lvals Ha Hlast). }
  assert (Hli : r < length (a_rows a) - 1 -> li <> i).
  { intros Hlt ->. rewrite Hs in Hls. inversion Hls. lia. }
  exists (upd_arch sh (swap_remove r) (w_archs w)).
  exists (if Nat.ltb r (length (a_rows a) - 1)
          then upd li (fun s => mkSlot (s_gen s) (Some (sh, r))) (w_slots w)
          else w_slots w).
  exists vals.
  split.
  { unfold take_row. rewrite Ha. cbn [obind]. rewrite Hr. cbn [obind].
    unfold last_opt. rewrite Hlast. cbn [obind fst].
    destruct (Nat.ltb r (length (a_rows a) - 1)).
    - unfold set_loc_index. rewrite Hls. cbn [obind s_loc]. reflexivity.
    - cbn [obind]. reflexivity. }
  split. { rewrite <- Hsh. apply (Hrows _ (nth_error_In _ _ Hr)). }
  split. { rewrite <- Hsh. exact Hlen. }
  set (rows := a_rows a) in *.
  set (L := length rows) in *.
  set (moved := Nat.ltb r (L - 1)) in *.
  set (slots1 := if moved then upd li (fun s => mkSlot (s_gen s) (Some (sh, r))) (w_slots w)
                 else w_slots w).
  assert (Hslots1 : forall j, nth_error slots1 j =
            if moved && Nat.eqb j li then Some (mkSlot lg (Some (sh, r)))
            else nth_error (w_slots w) j).
  { intros j. unfold slots1. destruct moved; cbn [andb]; auto.
    rewrite nth_error_upd. destruct (Nat.eqb_spec j li) as [->|]; auto.
    rewrite Hls. reflexivity. }
  assert (HR : forall j, nth_error (swap_remove r rows) j =
            if Nat.ltb j (L - 1)
            then (if Nat.eqb j r then Some ((li, lg), lvals) else nth_error rows j)
            else None).
  { intros j. rewrite (nth_error_swap_remove j rows HrL). fold L. rewrite Hlast. reflexivity. }
  assert (Hfind1 : forall sh0, find_arch sh0 (upd_arch sh (swap_remove r) (w_archs w)) =
            if shape_eqb sh0 sh then Some (mkArch sh (swap_remove r rows))
            else find_arch sh0 (w_archs w)).
  { intros sh0. rewrite find_upd_arch, Ha. cbn [option_map]. rewrite Hsh. reflexivity. }
  clearbody slots1.
  constructor; unfold with_store; cbn [w_n w_archs w_tid w_slots w_free w_len w_res].
  - (* shapes *)
    intros b Hb. apply In_upd_arch in Hb as (a0 & Ha0 & ->).
    destruct (@inv_shapes w HI a0 Ha0) as [Hl0 Hr0].
    destruct (shape_eqb (a_shape a0) sh) eqn:E; [|split; auto].
    apply shape_eqb_eq in E. cbn [a_shape a_rows]. split; auto.
    intros rw Hrw. apply Hr0.
    assert (a0 = a).
    { apply (find_arch_unique (w_archs w)); auto. apply (inv_nodup HI). rewrite E. exact Ha. }
    subst a0. eapply In_swap_remove; eauto.
  - (* nodup *)
    rewrite map_shape_upd_arch. apply (inv_nodup HI).
  - (* fwd *)
    intros j g' sh0 r0 Hji Hj. rewrite Hslots1 in Hj.
    destruct (moved && Nat.eqb j li) eqn:Em.
    + apply andb_true_iff in Em as [Em1 Em2]. apply Nat.eqb_eq in Em2. subst j.
      inversion Hj; subst g' sh0 r0.
      exists (mkArch sh (swap_remove r rows)), lvals. split.
      * rewrite Hfind1, shape_eqb_refl. reflexivity.
      * cbn [a_rows]. rewrite HR. unfold moved in Em1. rewrite Em1, Nat.eqb_refl. reflexivity.
    + destruct (@inv_fwd w HI j g' sh0 r0 Hj) as (a0 & vals0 & Ha0 & Hr0).
      destruct (shape_eqb sh0 sh) eqn:E.
      * apply shape_eqb_eq in E. subst sh0. rewrite Ha in Ha0. inversion Ha0; subst a0.
        exists (mkArch sh (swap_remove r rows)), vals0. split.
        { rewrite Hfind1, shape_eqb_refl. reflexivity. }
        cbn [a_rows]. rewrite HR. fold rows in Hr0.
        assert (Hne : r0 <> r). { intros ->. rewrite Hr in Hr0. inversion Hr0. congruence. }
        assert (Hlt : r0 < L). { apply nth_error_Some. rewrite Hr0. discriminate. }
        assert (Hnl : r0 <> L - 1).
        { intros ->. rewrite Hlast in Hr0. inversion Hr0; subst.
          apply andb_false_iff in Em as [Em|Em].
          - unfold moved in Em. apply Nat.ltb_ge in Em. lia.
          - rewrite Nat.eqb_refl in Em. discriminate. }
        destruct (Nat.ltb_spec r0 (L - 1)); [|lia].
        destruct (Nat.eqb_spec r0 r); [contradiction|]. exact Hr0.
      * exists a0, vals0. split; auto. rewrite Hfind1, E. exact Ha0.
  - (* bwd *)
    intros sh0 a1 r0 j g' vals0 Ha1 Hr1. rewrite Hfind1 in Ha1. rewrite Hslots1.
    destruct (shape_eqb sh0 sh) eqn:E.
    + apply shape_eqb_eq in E. subst sh0. inversion Ha1; subst a1. cbn [a_rows] in Hr1.
      rewrite HR in Hr1. destruct (Nat.ltb_spec r0 (L - 1)) as [Hlt|]; [|discriminate].
      destruct (Nat.eqb_spec r0 r) as [->|Hne].
      * inversion Hr1; subst j g' vals0.
        assert (Hm : moved = true) by (apply Nat.ltb_lt; exact Hlt).
        split; [apply Hli; exact Hlt|]. rewrite Hm, Nat.eqb_refl. reflexivity.
      * pose proof (@inv_bwd w HI sh a r0 j g' vals0 Ha Hr1) as Hsj.
        assert (Hjl : j <> li). { intros ->. rewrite Hls in Hsj. inversion Hsj. lia. }
        assert (Hji : j <> i). { intros ->. rewrite Hs in Hsj. inversion Hsj. lia. }
        split; auto. destruct (Nat.eqb_spec j li); [contradiction|].
        rewrite andb_false_r. exact Hsj.
    + apply shape_eqb_neq in E.
      pose proof (@inv_bwd w HI sh0 a1 r0 j g' vals0 Ha1 Hr1) as Hsj.
      assert (Hjl : j <> li). { intros ->. rewrite Hls in Hsj. inversion Hsj. congruence. }
      assert (Hji : j <> i). { intros ->. rewrite Hs in Hsj. inversion Hsj. congruence. }
      split; auto. destruct (Nat.eqb_spec j li); [contradiction|].
      rewrite andb_false_r. exact Hsj.
  - (* slot *)
    exists (sh, r). rewrite Hslots1. destruct moved eqn:Em; cbn [andb]; auto.
    destruct (Nat.eqb_spec i li) as [Heq|]; auto.
    exfalso. apply Hli; auto. apply Nat.ltb_lt. exact Em.
  - apply (inv_free_nodup HI).
  - (* free *)
    intros j. rewrite (inv_free HI j). rewrite Hslots1.
    destruct (moved && Nat.eqb j li) eqn:Em; [|reflexivity].
    apply andb_true_iff in Em as [_ Em]. apply Nat.eqb_eq in Em. subst j.
    split; intros [g' Hg'].
    + rewrite Hls in Hg'. discriminate.
    + discriminate.
  - (* len *)
    rewrite (inv_len HI).
    pose proof (total_rows_upd_arch sh (swap_remove r) (w_archs w) (inv_nodup HI) Ha) as T.
    fold rows in T. rewrite (swap_remove_length rows HrL) in T. fold L in T. lia.
  - (* tid *)
    intros sh0 Hsh0. destruct (inv_tid HI sh0 Hsh0) as [a0 Ha0].
    rewrite Hfind1. destruct (shape_eqb sh0 sh); eauto.
Qed.

(** * Closing step 1: free the dangling slot ([do_remove]) *)
Lemma free_close w i g :
  InvExcept i g w ->
  exists slots2 free2,
    free_slot i (w_slots w) (w_free w) = Some (slots2, free2) /\
    Inv (with_store w (w_archs w) (w_tid w) slots2 free2 (w_len w - 1)).
Proof.
  intros HE. destruct (ie_slot HE) as [loc Hs].
  exists (upd i (fun s => mkSlot (s_gen s) None) (w_slots w)), (w_free w ++ [i]).
  split.
  { unfold free_slot. rewrite Hs. cbn [obind]. reflexivity. }
  assert (Hsl : forall j, nth_error (upd i (fun s => mkSlot (s_gen s) None) (w_slots w)) j =
                  if Nat.eqb j i then Some (mkSlot g None) else nth_error (w_slots w) j).
  { intros j. rewrite nth_error_upd. destruct (Nat.eqb_spec j i) as [->|]; auto.
    rewrite Hs. reflexivity. }
  constructor; unfold with_store; cbn [w_n w_archs w_tid w_slots w_free w_len w_res].
  - apply (ie_shapes HE).
  - apply (ie_nodup HE).
  - intros j g' sh r Hj. rewrite Hsl in Hj.
    destruct (Nat.eqb_spec j i) as [->|Hne]; [discriminate|].
    apply (ie_fwd HE j Hne Hj).
  - intros sh a r j g' vals Ha Hr.
    destruct (ie_bwd HE sh r Ha Hr) as [Hne Hj].
    rewrite Hsl. destruct (Nat.eqb_spec j i); [contradiction|]. exact Hj.
  - apply NoDup_app_intro.
    + apply (ie_free_nodup HE).
    + constructor; [intros []|constructor].
    + intros x Hx [<-|[]]. apply (ie_free HE) in Hx as [g' Hg']. rewrite Hs in Hg'. discriminate.
  - intros j. rewrite Hsl. split.
    + intros Hj. apply in_app_or in Hj as [Hj|[<-|[]]].
      * destruct (Nat.eqb_spec j i); eauto. apply (ie_free HE). exact Hj.
      * rewrite Nat.eqb_refl. eauto.
    + intros [g' Hg']. apply in_or_app.
      destruct (Nat.eqb_spec j i) as [->|Hne]; [right; left; reflexivity|].
      left. apply (ie_free HE). eauto.
  - rewrite (ie_len HE). lia.
  - apply (ie_tid HE).
Qed.

(** * Closing step 2: push the row into another archetype ([Entry] add/remove) *)
Lemma move_close w i g sh' vals' :
  InvExcept i g w ->
  length sh' = w_n w ->
  length vals' = count_true sh' ->
  exists archs2 slots2,
    move_row sh' (i, g) vals' (w_archs w) (w_slots w) = Some (archs2, slots2) /\
    Inv (with_store w archs2 (w_tid w) slots2 (w_free w) (w_len w)).
Proof.
  intros HE Hshl Hvl. destruct (ie_slot HE) as [loc Hs].
  pose proof (ie_nodup HE) as ND.
  set (rows' := match find_arch sh' (w_archs w) with Some a => a_rows a | None => [] end).
  assert (Hens : find_arch sh' (ensure_arch sh' (w_archs w)) = Some (mkArch sh' rows')).
  { rewrite find_ensure_arch. unfold rows'.
    destruct (find_arch sh' (w_archs w)) as [a|] eqn:E.
    - rewrite <- (find_arch_shape _ _ E). destruct a; reflexivity.
    - rewrite shape_eqb_refl. reflexivity. }
  set (new := ((i, g), vals') : row).
  set (archs2 := upd_arch sh' (fun rows => rows ++ [new]) (ensure_arch sh' (w_archs w))).
  set (slots2 := upd i (fun s => mkSlot (s_gen s) (Some (sh', length rows'))) (w_slots w)).
  exists archs2, slots2.
  split.
  { unfold move_row. rewrite Hens. cbn [obind a_rows fst].
    unfold set_loc. rewrite Hs. cbn [obind]. reflexivity. }
  assert (Hsl : forall j, nth_error slots2 j =
                  if Nat.eqb j i then Some (mkSlot g (Some (sh', length rows')))
                  else nth_error (w_slots w) j).
  { intros j. unfold slots2. rewrite nth_error_upd. destruct (Nat.eqb_spec j i) as [->|]; auto.
    rewrite Hs. reflexivity. }
  assert (Hfind2 : forall sh0, find_arch sh0 archs2 =
            if shape_eqb sh0 sh' then Some (mkArch sh' (rows' ++ [new]))
            else find_arch sh0 (w_archs w)).
  { intros sh0. unfold archs2. rewrite find_upd_arch, Hens. cbn [option_map a_shape a_rows].
    destruct (shape_eqb sh0 sh') eqn:E; auto.
    rewrite find_ensure_arch. destruct (find_arch sh0 (w_archs w)); auto.
    rewrite shape_eqb_sym, E. reflexivity. }
  assert (Hold : forall r x, nth_error rows' r = Some x ->
            exists a, find_arch sh' (w_archs w) = Some a /\ nth_error (a_rows a) r = Some x).
  { intros r x Hx. unfold rows' in Hx. destruct (find_arch sh' (w_archs w)) as [a|]; eauto.
    destruct r; discriminate. }
  clearbody slots2.
  constructor; unfold with_store; cbn [w_n w_archs w_tid w_slots w_free w_len w_res].
  - (* shapes *)
    intros b Hb. unfold archs2 in Hb. apply In_upd_arch in Hb as (a0 & Ha0 & ->).
    assert (H0 : length (a_shape a0) = w_n w /\
                 forall rw, In rw (a_rows a0) -> length (snd rw) = count_true (a_shape a0)).
    { apply In_ensure_arch in Ha0 as [Ha0| ->].
      - apply (ie_shapes HE a0 Ha0).
      - cbn [a_shape a_rows]. split; auto. intros rw []. }
    destruct H0 as [Hl0 Hr0].
    destruct (shape_eqb (a_shape a0) sh') eqn:E; [|split; auto].
    apply shape_eqb_eq in E. cbn [a_shape a_rows]. split; auto.
    intros rw Hrw. apply in_app_or in Hrw as [Hrw|[<-|[]]]; auto.
    unfold new. cbn [snd]. rewrite E. exact Hvl.
  - (* nodup *)
    unfold archs2. rewrite map_shape_upd_arch. apply ensure_arch_nodup. exact ND.
  - (* fwd *)
    intros j g' sh0 r0 Hj. rewrite Hsl in Hj.
    destruct (Nat.eqb_spec j i) as [->|Hne].
    + inversion Hj; subst g' sh0 r0.
      exists (mkArch sh' (rows' ++ [new])), vals'. split.
      * rewrite Hfind2, shape_eqb_refl. reflexivity.
      * cbn [a_rows]. apply nth_error_app_last.
    + destruct (ie_fwd HE j Hne Hj) as (a0 & vals0 & Ha0 & Hr0).
      destruct (shape_eqb sh0 sh') eqn:E.
      * apply shape_eqb_eq in E. subst sh0.
        exists (mkArch sh' (rows' ++ [new])), vals0. split.
        { rewrite Hfind2, shape_eqb_refl. reflexivity. }
        cbn [a_rows]. unfold rows'. rewrite Ha0.
        rewrite nth_error_app1; auto. apply nth_error_Some. rewrite Hr0. discriminate.
      * exists a0, vals0. split; auto. rewrite Hfind2, E. exact Ha0.
  - (* bwd *)
    intros sh0 a1 r0 j g' vals0 Ha1 Hr1. rewrite Hfind2 in Ha1. rewrite Hsl.
    destruct (shape_eqb sh0 sh') eqn:E.
    + apply shape_eqb_eq in E. subst sh0. inversion Ha1; subst a1. cbn [a_rows] in Hr1.
      rewrite nth_error_snoc in Hr1.
      destruct (Nat.ltb_spec r0 (length rows')) as [Hlt|Hge].
      * destruct (Hold _ _ Hr1) as (a0 & Ha0 & Hr0).
        destruct (ie_bwd HE sh' r0 Ha0 Hr0) as [Hne Hj].
        destruct (Nat.eqb_spec j i); [contradiction|]. exact Hj.
      * destruct (Nat.eqb_spec r0 (length rows')) as [->|]; [|discriminate].
        unfold new in Hr1. inversion Hr1; subst j g' vals0.
        rewrite Nat.eqb_refl. reflexivity.
    + destruct (ie_bwd HE sh0 r0 Ha1 Hr1) as [Hne Hj].
      destruct (Nat.eqb_spec j i); [contradiction|]. exact Hj.
  - apply (ie_free_nodup HE).
  - (* free *)
    intros j. rewrite (ie_free HE j). rewrite Hsl.
    destruct (Nat.eqb_spec j i) as [->|]; [|reflexivity].
    split; intros [g' Hg'].
    + rewrite Hs in Hg'. discriminate.
    + discriminate.
  - (* len *)
    rewrite (ie_len HE).
    pose proof (total_rows_upd_arch sh' (fun rows => rows ++ [new]) (ensure_arch sh' (w_archs w))
                  (ensure_arch_nodup sh' _ ND) Hens) as T.
    fold archs2 in T. cbn [a_rows] in T. rewrite app_length in T. cbn [length] in T.
    rewrite total_rows_ensure_arch in T. lia.
  - (* tid *)
    intros sh0 Hsh0. destruct (ie_tid HE sh0 Hsh0) as [a0 Ha0].
    rewrite Hfind2. destruct (shape_eqb sh0 sh'); eauto.
Qed.

(** * In-place write of one component ([set_value]) *)
Lemma set_value_spec w i g sh r c v :
  Inv w ->
  nth_error (w_slots w) i = Some (mkSlot g (Some (sh, r))) ->
  get_bit c sh = true ->
  exists archs1 old,
    set_value sh r c v (w_archs w) = Some (archs1, old) /\
    Inv (with_store w archs1 (w_tid w) (w_slots w) (w_free w) (w_len w)).
Proof.
  intros HI Hs Hb.
  destruct (@inv_fwd w HI i g sh r Hs) as (a & vals & Ha & Hr).
  pose proof (find_arch_shape _ _ Ha) as Hsh.
  pose proof (find_arch_In _ _ Ha) as Hin.
  destruct (@inv_shapes w HI a Hin) as [Hlen Hrows].
  assert (Hvl : length vals = count_true sh).
  { rewrite <- Hsh. apply (Hrows _ (nth_error_In _ _ Hr)). }
  destruct (nth_error vals (rank c sh)) as [old|] eqn:Hold.
  2:{ apply nth_error_None in Hold. pose proof (rank_lt sh c Hb). lia. }
  set (f := fun rw : row => (fst rw, upd (rank c sh) (fun _ => v) (snd rw))).
  exists (upd_arch sh (upd r f) (w_archs w)), old.
  split.
  { unfold set_value. rewrite Ha. cbn [obind]. rewrite Hr. cbn [obind snd].
    rewrite Hold. cbn [obind]. reflexivity. }
  assert (Hfind1 : forall sh0, find_arch sh0 (upd_arch sh (upd r f) (w_archs w)) =
            if shape_eqb sh0 sh then Some (mkArch sh (upd r f (a_rows a)))
            else find_arch sh0 (w_archs w)).
  { intros sh0. rewrite find_upd_arch, Ha. cbn [option_map]. rewrite Hsh. reflexivity. }
  assert (Hrow1 : forall j id vals0, nth_error (upd r f (a_rows a)) j = Some (id, vals0) ->
            exists vals1, nth_error (a_rows a) j = Some (id, vals1)).
  { intros j id vals0 H. rewrite nth_error_upd in H.
    destruct (Nat.eqb j r); eauto.
    destruct (nth_error (a_rows a) j) as [[id1 v1]|]; cbn in H; inversion H; eauto. }
  assert (Hrow2 : forall j id vals0, nth_error (a_rows a) j = Some (id, vals0) ->
            exists vals1, nth_error (upd r f (a_rows a)) j = Some (id, vals1)).
  { intros j id vals0 H. rewrite nth_error_upd, H.
    destruct (Nat.eqb j r); unfold f; cbn; eauto. }
  constructor; unfold with_store; cbn [w_n w_archs w_tid w_slots w_free w_len w_res].
  - (* shapes *)
    intros b Hb0. apply In_upd_arch in Hb0 as (a0 & Ha0 & ->).
    destruct (@inv_shapes w HI a0 Ha0) as [Hl0 Hr0].
    destruct (shape_eqb (a_shape a0) sh) eqn:E; [|split; auto].
    apply shape_eqb_eq in E. cbn [a_shape a_rows]. split; auto.
    intros rw Hrw. apply In_nth_error in Hrw as [j Hj].
    rewrite nth_error_upd in Hj.
    destruct (Nat.eqb j r).
    + destruct (nth_error (a_rows a0) j) as [rw0|] eqn:Ej; cbn in Hj; inversion Hj; subst rw.
      unfold f; cbn [snd]. rewrite upd_length. apply Hr0. eapply nth_error_In; eauto.
    + apply Hr0. eapply nth_error_In; eauto.
  - rewrite map_shape_upd_arch. apply (inv_nodup HI).
  - (* fwd *)
    intros j g' sh0 r0 Hj.
    destruct (@inv_fwd w HI j g' sh0 r0 Hj) as (a0 & vals0 & Ha0 & Hr0).
    destruct (shape_eqb sh0 sh) eqn:E.
    + apply shape_eqb_eq in E. subst sh0. rewrite Ha in Ha0. inversion Ha0; subst a0.
      destruct (Hrow2 _ _ _ Hr0) as [vals1 H1].
      exists (mkArch sh (upd r f (a_rows a))), vals1. split; auto.
      rewrite Hfind1, shape_eqb_refl. reflexivity.
    + exists a0, vals0. split; auto. rewrite Hfind1, E. exact Ha0.
  - (* bwd *)
    intros sh0 a1 r0 j g' vals0 Ha1 Hr1. rewrite Hfind1 in Ha1.
    destruct (shape_eqb sh0 sh) eqn:E.
    + apply shape_eqb_eq in E. subst sh0. inversion Ha1; subst a1. cbn [a_rows] in Hr1.
      destruct (Hrow1 _ _ _ Hr1) as [vals1 H1].
      apply (@inv_bwd w HI sh a r0 j g' vals1 Ha H1).
    + apply (@inv_bwd w HI sh0 a1 r0 j g' vals0 Ha1 Hr1).
  - apply (inv_free_nodup HI).
  - apply (inv_free HI).
  - rewrite (inv_len HI).
    pose proof (total_rows_upd_arch sh (upd r f) (w_archs w) (inv_nodup HI) Ha) as T.
    rewrite upd_length in T. lia.
  - intros sh0 Hsh0. destruct (inv_tid HI sh0 Hsh0) as [a0 Ha0].
    rewrite Hfind1. destruct (shape_eqb sh0 sh); eauto.
Qed.

(** * The operations: combined statements *)

Definition good (w : world) (res : result) : Prop :=
  exists w' r evs, res = Some (w', r, evs) /\ Inv w' /\ w_n w' = w_n w.

Lemma good_inv w res w' r evs : good w res -> res = Some (w', r, evs) -> Inv w'.
Proof.
  intros (w1 & r1 & e1 & H1 & HI & Hn) H. rewrite H1 in H. inversion H; subst; auto.
Qed.

Lemma good_n w res w' r evs : good w res -> res = Some (w', r, evs) -> w_n w' = w_n w.
Proof.
  intros (w1 & r1 & e1 & H1 & HI & Hn) H. rewrite H1 in H. inversion H; subst; auto.
Qed.

Lemma good_safe w res : good w res -> res <> None.
Proof. intros (w1 & r1 & e1 & H1 & _) H. rewrite H1 in H. discriminate. Qed.

Lemma good_same w r evs : Inv w -> good w (Some (w, r, evs)).
Proof. intros HI. exists w, r, evs. auto. Qed.

Lemma do_remove_good w e : Inv w -> good w (do_remove w e).
Proof.
  intros HI. unfold do_remove. destruct e as [i g].
  destruct (get_loc w (i, g)) as [[sh r]|] eqn:G.
  2:{ apply good_same; auto. }
  apply get_loc_slot in G. cbn [fst snd] in G.
  destruct (take_row_spec w i g sh r HI G) as (archs1 & slots1 & vals & Htr & Hvl & Hshl & HE).
  rewrite Htr. cbn [obind fst snd].
  destruct (free_close _ _ _ HE) as (slots2 & free2 & Hfs & HI').
  unfold with_store in Hfs; cbn [w_slots w_free] in Hfs. rewrite Hfs. cbn [obind].
  do 3 eexists. split; [reflexivity|]. split; [exact HI'|reflexivity].
Qed.

Lemma do_write_good w e c v : Inv w -> good w (do_write w e c v).
Proof.
  intros HI. unfold do_write.
  destruct (Nat.ltb c (w_n w)); cbn [negb].
  2:{ apply good_same; auto. }
  destruct e as [i g].
  destruct (get_loc w (i, g)) as [[sh r]|] eqn:G.
  2:{ apply good_same; auto. }
  apply get_loc_slot in G. cbn [fst snd] in G.
  destruct (get_bit c sh) eqn:Hb.
  2:{ apply good_same; auto. }
  destruct (set_value_spec w i g sh r c v HI G Hb) as (archs1 & old & Hsv & HI').
  rewrite Hsv. cbn [obind].
  do 3 eexists. split; [reflexivity|]. split; [exact HI'|reflexivity].
Qed.

Lemma do_entry_add_good w e c v : Inv w -> good w (do_entry_add w e c v).
Proof.
  intros HI. unfold do_entry_add.
  destruct (Nat.ltb_spec c (w_n w)) as [Hc|Hc]; cbn [negb].
  2:{ apply good_same; auto. }
  destruct e as [i g].
  destruct (get_loc w (i, g)) as [[sh r]|] eqn:G.
  2:{ apply good_same; auto. }
  apply get_loc_slot in G. cbn [fst snd] in G.
  destruct (get_bit c sh) eqn:Hb.
  - destruct (set_value_spec w i g sh r c v HI G Hb) as (archs1 & old & Hsv & HI').
    rewrite Hsv. cbn [obind].
    do 3 eexists. split; [reflexivity|]. split; [exact HI'|reflexivity].
  - destruct (take_row_spec w i g sh r HI G) as (archs1 & slots1 & vals & Htr & Hvl & Hshl & HE).
    rewrite Htr. cbn [obind fst snd].
    destruct (move_close _ i g (set_bit c true sh)
                (insert_at (rank c (set_bit c true sh)) v vals) HE)
      as (archs2 & slots2 & Hmv & HI').
    + rewrite set_bit_length. exact Hshl.
    + rewrite insert_at_length, Hvl. symmetry. apply count_true_set_true; auto. lia.
    + unfold with_store in Hmv; cbn [w_archs w_slots] in Hmv. rewrite Hmv. cbn [obind].
      do 3 eexists. split; [reflexivity|]. split; [exact HI'|reflexivity].
Qed.

Lemma do_entry_remove_good w e c : Inv w -> good w (do_entry_remove w e c).
Proof.
  intros HI. unfold do_entry_remove.
  destruct (Nat.ltb_spec c (w_n w)) as [Hc|Hc]; cbn [negb].
  2:{ apply good_same; auto. }
  destruct e as [i g].
  destruct (get_loc w (i, g)) as [[sh r]|] eqn:G.
  2:{ apply good_same; auto. }
  apply get_loc_slot in G. cbn [fst snd] in G.
  destruct (get_bit c sh) eqn:Hb.
  2:{ apply good_same; auto. }
  destruct (take_row_spec w i g sh r HI G) as (archs1 & slots1 & vals & Htr & Hvl & Hshl & HE).
  rewrite Htr. cbn [obind fst snd].
  pose proof (rank_lt sh c Hb) as Hrk.
  destruct (nth_error vals (rank c sh)) as [old|] eqn:Hold.
  2:{ apply nth_error_None in Hold. lia. }
  cbn [obind].
  destruct (move_close _ i g (set_bit c false sh) (remove_at (rank c sh) vals) HE)
    as (archs2 & slots2 & Hmv & HI').
  - rewrite set_bit_length. exact Hshl.
  - rewrite remove_at_length by lia. pose proof (count_true_set_false sh c Hb). lia.
  - unfold with_store in Hmv; cbn [w_archs w_slots] in Hmv. rewrite Hmv. cbn [obind].
    do 3 eexists. split; [reflexivity|]. split; [exact HI'|reflexivity].
Qed.

(** * [do_clear] *)

(** [Inv] with the [w_len] clause made vacuous: the loop state of [clear_archs]. *)
Definition StInv (w : world) (archs : list arch) (slots : list slot) (free : list nat) : Prop :=
  Inv (with_store w archs (w_tid w) slots free (total_rows archs)).

Lemma StInv_init w : Inv w -> StInv w (w_archs w) (w_slots w) (w_free w).
Proof. intros HI. unfold StInv. rewrite <- (inv_len HI). destruct w; exact HI. Qed.

Definition deact (s : slot) : slot := mkSlot (s_gen s) None.

Lemma ids_nodup_of_bwd (slots : list slot) (sh : shape) (rows : list row) :
  (forall r i g vals, nth_error rows r = Some ((i, g), vals) ->
                      nth_error slots i = Some (mkSlot g (Some (sh, r)))) ->
  NoDup (map (fun rw : row => fst (fst rw)) rows).
Proof.
  intros Hb. apply NoDup_nth_error. intros j1 j2 Hlt Heq.
  rewrite map_length in Hlt. rewrite !nth_error_map in Heq.
  destruct (nth_error rows j1) as [[[i1 g1] v1]|] eqn:E1.
  2:{ apply nth_error_None in E1. lia. }
  destruct (nth_error rows j2) as [[[i2 g2] v2]|] eqn:E2; cbn in Heq; [|discriminate].
  inversion Heq; subst i2.
  pose proof (Hb _ _ _ _ E1) as S1.
  pose proof (Hb _ _ _ _ E2) as S2.
  rewrite S1 in S2. inversion S2. reflexivity.
Qed.

Lemma free_all_spec : forall ids slots free,
  (forall i, In i ids -> i < length slots) ->
  exists slots',
    free_all ids slots free = Some (slots', free ++ ids) /\
    (forall j, In j ids -> nth_error slots' j = option_map deact (nth_error slots j)) /\
    (forall j, ~ In j ids -> nth_error slots' j = nth_error slots j).
Proof.
  induction ids as [|i t IH]; intros slots free Hb.
  - exists slots. cbn [free_all]. rewrite app_nil_r. split; auto. split; [intros j []|auto].
  - assert (Hi : i < length slots) by (apply Hb; left; reflexivity).
    destruct (nth_error slots i) as [s|] eqn:Es.
    2:{ apply nth_error_None in Es. lia. }
    destruct (IH (upd i deact slots) (free ++ [i])) as (slots' & Hfa & Hin & Hout).
    { intros k Hk. rewrite upd_length. apply Hb. right; exact Hk. }
    exists slots'. split.
    { cbn [free_all]. unfold free_slot. rewrite Es. cbn [obind].
      rewrite <- app_assoc in Hfa. exact Hfa. }
    split.
    + intros j Hj. destruct (in_dec Nat.eq_dec j t) as [Hjt|Hjt].
      * rewrite (Hin j Hjt). rewrite nth_error_upd.
        destruct (Nat.eqb_spec j i); [|reflexivity].
        destruct (nth_error slots j); reflexivity.
      * rewrite (Hout j Hjt). destruct Hj as [<-|Hj]; [|contradiction].
        rewrite nth_error_upd_same. reflexivity.
    + intros j Hj. rewrite Hout by (intros H; apply Hj; right; exact H).
      apply nth_error_upd_other. intros ->. apply Hj; left; reflexivity.
Qed.

Definition emptied (sh : shape) (archs : list arch) : Prop :=
  forall a, find_arch sh archs = Some a -> a_rows a = [].

Lemma clear_arch_spec w sh archs slots free evs :
  StInv w archs slots free ->
  exists archs' slots' free' evs',
    clear_arch sh (archs, slots, free, evs) = Some (archs', slots', free', evs') /\
    StInv w archs' slots' free' /\
    map a_shape archs' = map a_shape archs /\
    emptied sh archs' /\
    (forall sh0, emptied sh0 archs -> emptied sh0 archs').
Proof.
  intros HI. unfold clear_arch.
  destruct (find_arch sh archs) as [a|] eqn:Ha.
  2:{ exists archs, slots, free, evs. split; [reflexivity|]. split; [exact HI|].
      split; [reflexivity|]. split; [|auto].
      intros a Ha'. rewrite Ha in Ha'. discriminate. }
  unfold StInv in HI.
  destruct HI as [Ishapes Inodup Ifwd Ibwd Ifn Ifree Ilen Itid].
  unfold with_store in *. cbn [w_n w_archs w_tid w_slots w_free w_len w_res] in *.
  set (ids := map (fun rw : row => fst (fst rw)) (a_rows a)).
  assert (Hact : forall j, In j ids ->
            exists g r, nth_error slots j = Some (mkSlot g (Some (sh, r)))).
  { intros j Hj. unfold ids in Hj. apply in_map_iff in Hj as ([[j' g'] vals'] & <- & Hrw).
    apply In_nth_error in Hrw as [r Hr]. cbn [fst]. exists g', r.
    apply (Ibwd sh a r j' g' vals' Ha Hr). }
  assert (Hnd : NoDup ids).
  { unfold ids. apply (ids_nodup_of_bwd slots sh). intros r i g vals Hr.
    apply (Ibwd sh a r i g vals Ha Hr). }
  destruct (free_all_spec ids slots free) as (slots' & Hfa & Hin' & Hout').
  { intros i Hi. destruct (Hact i Hi) as (g & r & Hs). apply nth_error_Some. rewrite Hs. discriminate. }
  exists (upd_arch sh (fun _ => []) archs), slots', (free ++ ids), (evs ++ arch_drops a).
  split.
  { match goal with |- context [free_all ?x slots free] => change x with ids end.
    rewrite Hfa. cbn [obind]. reflexivity. }
  assert (Hfind' : forall sh0, find_arch sh0 (upd_arch sh (fun _ => []) archs) =
            if shape_eqb sh0 sh then Some (mkArch sh []) else find_arch sh0 archs).
  { intros sh0. rewrite find_upd_arch, Ha. cbn [option_map].
    rewrite (find_arch_shape _ _ Ha). reflexivity. }
  split; [|split; [|split]].
  - unfold StInv.
    constructor; unfold with_store; cbn [w_n w_archs w_tid w_slots w_free w_len w_res].
    + (* shapes *)
      intros b Hb. apply In_upd_arch in Hb as (a0 & Ha0 & ->).
      destruct (Ishapes a0 Ha0) as [Hl0 Hr0].
      destruct (shape_eqb (a_shape a0) sh); [|split; auto].
      cbn [a_shape a_rows]. split; auto. intros rw [].
    + rewrite map_shape_upd_arch. exact Inodup.
    + (* fwd *)
      intros j g' sh0 r0 Hj.
      destruct (in_dec Nat.eq_dec j ids) as [Hjin|Hjout].
      * rewrite (Hin' j Hjin) in Hj.
        destruct (nth_error slots j); cbn in Hj; inversion Hj.
      * rewrite (Hout' j Hjout) in Hj.
        destruct (Ifwd j g' sh0 r0 Hj) as (a0 & vals0 & Ha0 & Hr0).
        destruct (shape_eqb sh0 sh) eqn:E.
        { apply shape_eqb_eq in E. subst sh0. rewrite Ha in Ha0. inversion Ha0; subst a0.
          exfalso. apply Hjout. unfold ids. apply in_map_iff.
          exists ((j, g'), vals0). split; [reflexivity|]. eapply nth_error_In; eauto. }
        exists a0, vals0. split; auto. rewrite Hfind', E. exact Ha0.
    + (* bwd *)
      intros sh0 a1 r0 j g' vals0 Ha1 Hr1. rewrite Hfind' in Ha1.
      destruct (shape_eqb sh0 sh) eqn:E.
      { inversion Ha1; subst a1. cbn [a_rows] in Hr1. destruct r0; discriminate. }
      pose proof (Ibwd sh0 a1 r0 j g' vals0 Ha1 Hr1) as Hsj.
      assert (Hjout : ~ In j ids).
      { intros Hjin. destruct (Hact j Hjin) as (g2 & r2 & H2).
        rewrite Hsj in H2. inversion H2; subst.
        rewrite shape_eqb_refl in E. discriminate. }
      rewrite (Hout' j Hjout). exact Hsj.
    + (* free nodup *)
      apply NoDup_app_intro; auto.
      intros x Hx1 Hx2. apply Ifree in Hx1 as [g1 H1].
      destruct (Hact x Hx2) as (g2 & r2 & H2). rewrite H1 in H2. discriminate.
    + (* free *)
      intros j. split.
      * intros Hj. destruct (in_dec Nat.eq_dec j ids) as [Hjin|Hjout].
        { rewrite (Hin' j Hjin). destruct (Hact j Hjin) as (g2 & r2 & H2).
          rewrite H2. exists g2. reflexivity. }
        { rewrite (Hout' j Hjout). apply Ifree.
          apply in_app_or in Hj as [Hj|Hj]; [exact Hj|contradiction]. }
      * intros [g' Hg']. apply in_or_app.
        destruct (in_dec Nat.eq_dec j ids) as [Hjin|Hjout]; [right; exact Hjin|].
        left. apply Ifree. rewrite (Hout' j Hjout) in Hg'. eauto.
    + reflexivity.
    + intros sh0 Hsh0. destruct (Itid sh0 Hsh0) as [a0 Ha0].
      rewrite Hfind'. destruct (shape_eqb sh0 sh); eauto.
  - apply map_shape_upd_arch.
  - intros a1 H1. rewrite Hfind', shape_eqb_refl in H1. inversion H1; reflexivity.
  - intros sh0 He a1 H1. rewrite Hfind' in H1.
    destruct (shape_eqb sh0 sh); [inversion H1; reflexivity|]. apply He; exact H1.
Qed.

Lemma clear_archs_spec w : forall order archs slots free evs,
  StInv w archs slots free ->
  exists archs' slots' free' evs',
    clear_archs order (archs, slots, free, evs) = Some (archs', slots', free', evs') /\
    StInv w archs' slots' free' /\
    map a_shape archs' = map a_shape archs /\
    (forall sh0, emptied sh0 archs -> emptied sh0 archs') /\
    (forall sh0, In sh0 order -> emptied sh0 archs').
Proof.
  induction order as [|sh t IH]; intros archs slots free evs HI.
  - exists archs, slots, free, evs. cbn [clear_archs].
    split; [reflexivity|]. split; [exact HI|]. split; [reflexivity|]. split; [auto|].
    intros sh0 [].
  - destruct (clear_arch_spec w sh archs slots free evs HI)
      as (a1 & s1 & f1 & e1 & H1 & HI1 & Hm1 & He1 & Hp1).
    destruct (IH a1 s1 f1 e1 HI1) as (a2 & s2 & f2 & e2 & H2 & HI2 & Hm2 & Hp2 & Ho2).
    exists a2, s2, f2, e2. cbn [clear_archs]. rewrite H1. cbn [obind].
    split; [exact H2|]. split; [exact HI2|]. split; [congruence|]. split; [auto|].
    intros sh0 [<-|Hin]; auto.
Qed.

Lemma total_rows_all_empty (archs : list arch) :
  (forall a, In a archs -> a_rows a = []) -> total_rows archs = 0.
Proof.
  induction archs as [|a t IH]; intros H; [reflexivity|].
  rewrite total_rows_cons. rewrite (H a) by (left; reflexivity).
  rewrite IH; [reflexivity|]. intros b Hb. apply H. right; exact Hb.
Qed.

Lemma do_clear_good w visit : Inv w -> good w (do_clear w visit).
Proof.
  intros HI. unfold do_clear.
  destruct (clear_archs_spec w (visit ++ map a_shape (w_archs w))
              (w_archs w) (w_slots w) (w_free w) [] (StInv_init w HI))
    as (a2 & s2 & f2 & e2 & H2 & HI2 & Hm2 & _ & Ho2).
  rewrite H2. cbn [obind].
  do 3 eexists. split; [reflexivity|]. split; [|reflexivity].
  assert (T : total_rows a2 = 0).
  { apply total_rows_all_empty. intros a Ha.
    apply (Ho2 (a_shape a)).
    - apply in_or_app. right. rewrite <- Hm2. apply in_map. exact Ha.
    - apply In_find_arch; auto. apply (inv_nodup HI2). }
  unfold StInv in HI2. rewrite T in HI2. exact HI2.
Qed.

(** * The theorems *)

Theorem do_remove_inv : forall w e w' r evs,
  Inv w -> do_remove w e = Some (w', r, evs) -> Inv w'.
Proof. intros w e w' r evs HI H. exact (good_inv w _ w' r evs (do_remove_good w e HI) H). Qed.

Theorem do_remove_n : forall w e w' r evs,
  Inv w -> do_remove w e = Some (w', r, evs) -> w_n w' = w_n w.
Proof. intros w e w' r evs HI H. exact (good_n w _ w' r evs (do_remove_good w e HI) H). Qed.

Theorem do_remove_safe : forall w e, Inv w -> do_remove w e <> None.
Proof. intros w e HI. exact (good_safe w _ (do_remove_good w e HI)). Qed.

Theorem do_entry_add_inv : forall w e c v w' r evs,
  Inv w -> do_entry_add w e c v = Some (w', r, evs) -> Inv w'.
Proof.
  intros w e c v w' r evs HI H. exact (good_inv w _ w' r evs (do_entry_add_good w e c v HI) H).
Qed.

Theorem do_entry_add_n : forall w e c v w' r evs,
  Inv w -> do_entry_add w e c v = Some (w', r, evs) -> w_n w' = w_n w.
Proof.
  intros w e c v w' r evs HI H. exact (good_n w _ w' r evs (do_entry_add_good w e c v HI) H).
Qed.

Theorem do_entry_add_safe : forall w e c v, Inv w -> do_entry_add w e c v <> None.
Proof. intros w e c v HI. exact (good_safe w _ (do_entry_add_good w e c v HI)). Qed.

Theorem do_entry_remove_inv : forall w e c w' r evs,
  Inv w -> do_entry_remove w e c = Some (w', r, evs) -> Inv w'.
Proof.
  intros w e c w' r evs HI H. exact (good_inv w _ w' r evs (do_entry_remove_good w e c HI) H).
Qed.

Theorem do_entry_remove_n : forall w e c w' r evs,
  Inv w -> do_entry_remove w e c = Some (w', r, evs) -> w_n w' = w_n w.
Proof.
  intros w e c w' r evs HI H. exact (good_n w _ w' r evs (do_entry_remove_good w e c HI) H).
Qed.

Theorem do_entry_remove_safe : forall w e c, Inv w -> do_entry_remove w e c <> None.
Proof. intros w e c HI. exact (good_safe w _ (do_entry_remove_good w e c HI)). Qed.

Theorem do_write_inv : forall w e c v w' r evs,
  Inv w -> do_write w e c v = Some (w', r, evs) -> Inv w'.
Proof.
  intros w e c v w' r evs HI H. exact (good_inv w _ w' r evs (do_write_good w e c v HI) H).
Qed.

Theorem do_write_n : forall w e c v w' r evs,
  Inv w -> do_write w e c v = Some (w', r, evs) -> w_n w' = w_n w.
Proof.
  intros w e c v w' r evs HI H. exact (good_n w _ w' r evs (do_write_good w e c v HI) H).
Qed.

Theorem do_write_safe : forall w e c v, Inv w -> do_write w e c v <> None.
Proof. intros w e c v HI. exact (good_safe w _ (do_write_good w e c v HI)). Qed.

Theorem do_clear_inv : forall w visit w' r evs,
  Inv w -> do_clear w visit = Some (w', r, evs) -> Inv w'.
Proof.
  intros w visit w' r evs HI H. exact (good_inv w _ w' r evs (do_clear_good w visit HI) H).
Qed.

Theorem do_clear_n : forall w visit w' r evs,
  Inv w -> do_clear w visit = Some (w', r, evs) -> w_n w' = w_n w.
Proof.
  intros w visit w' r evs HI H. exact (good_n w _ w' r evs (do_clear_good w visit HI) H).
Qed.

Theorem do_clear_safe : forall w visit, Inv w -> do_clear w visit <> None.
Proof. intros w visit HI. exact (good_safe w _ (do_clear_good w visit HI)). Qed.

Print Assumptions do_remove_inv.
Print Assumptions do_remove_safe.
Print Assumptions do_entry_add_inv.
Print Assumptions do_entry_add_safe.
Print Assumptions do_entry_remove_inv.
Print Assumptions do_entry_remove_safe.
Print Assumptions do_write_inv.
Print Assumptions do_write_safe.
Print Assumptions do_clear_inv.
Print Assumptions do_clear_safe.
Print Assumptions do_remove_n.
Print Assumptions do_entry_add_n.
Print Assumptions do_entry_remove_n.
Print Assumptions do_write_n.
Print Assumptions do_clear_n.
