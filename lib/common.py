"""Shared infrastructure of the check driver: builds, hashing, evidence,
violation reports, known findings.  Python stdlib only."""
import fcntl
import hashlib
import json
import os
import re
import subprocess
import sys
import time

VERIF = os.path.dirname(os.path.dirname(os.path.abspath(__file__)))
REPO = os.environ.get("VERIF_REPO", "/repo")
BUILD = os.path.join(VERIF, "build")
COQ = os.path.join(VERIF, "coq")
TARGET = os.path.join(BUILD, "target")
EXTRACT = os.path.join(BUILD, "extract")
REPLAYS = os.path.join(VERIF, "replays")
EVIDENCE = os.path.join(VERIF, "evidence")
RUSTFLAGS = "--cfg brood_verif -Awarnings"

TRUSTED_BASE = [
    "Coq 8.16.1 kernel via coqc (vm_compute used in finite-table proofs and _refuted witnesses; no native_compute)",
    "no Axiom/Parameter/Admitted in the development (grep + Print Assumptions on every run)",
    "extraction: ExtrOcamlBasic only (bool/option/list/prod/unit/sumbool mapped to OCaml's), OCaml 4.13.1, extract/*.ml drivers",
    "correspondence: Rust harness built from /repo with --cfg brood_verif (hooks H1 verif_dump, H2 rayon shim), canonicalisation in lib/*.py",
    "tools/translate.py (decision tables), tools/translate_facts.py (structural facts), tools/translate_bytes.py (identifier-byte arithmetic), tools/translate_subset.py (Entries sub-view table): coq/Gen/*.v regenerated from /repo/src on every run",
    "modelled by contract, not verified: Vec/VecDeque, hashbrown tables (arbitrary iteration order), rayon join/bridge, serde & serde_assert/serde_json, TypeId injectivity, rustc",
]


class Infra(Exception):
    """Infrastructure failure: never a violation."""


def env():
    e = dict(os.environ)
    e["RUSTFLAGS"] = RUSTFLAGS
    e["CARGO_TARGET_DIR"] = TARGET
    e["CARGO_NET_OFFLINE"] = "true"
    return e


def run(cmd, cwd=None, timeout=3600, check=True, env_=None, input_=None):
    p = subprocess.run(cmd, cwd=cwd, timeout=timeout, env=env_ or env(), input=input_,
                       stdout=subprocess.PIPE, stderr=subprocess.STDOUT, text=True)
    if check and p.returncode != 0:
        raise Infra("command failed (%d): %s\n%s" % (p.returncode, " ".join(cmd), p.stdout[-4000:]))
    return p


class Lock:
    def __init__(self, name):
        os.makedirs(BUILD, exist_ok=True)
        self.path = os.path.join(BUILD, "." + name + ".lock")

    def __enter__(self):
        self.f = open(self.path, "w")
        fcntl.flock(self.f, fcntl.LOCK_EX)
        return self

    def __exit__(self, *a):
        fcntl.flock(self.f, fcntl.LOCK_UN)
        self.f.close()


def tree_hash(paths, exts=None):
    h = hashlib.sha256()
    for root in paths:
        if os.path.isfile(root):
            files = [root]
        else:
            files = []
            for d, dn, fn in os.walk(root):
                dn[:] = sorted(x for x in dn if x not in ("target", ".git", "build"))
                for f in sorted(fn):
                    if exts is None or os.path.splitext(f)[1] in exts:
                        files.append(os.path.join(d, f))
        for f in files:
            h.update(f.encode())
            try:
                with open(f, "rb") as fh:
                    h.update(fh.read())
            except OSError:
                pass
    return h.hexdigest()


def repo_hash():
    return tree_hash([os.path.join(REPO, "src"), os.path.join(REPO, "Cargo.toml")], {".rs", ".toml"})


def verif_hash():
    return tree_hash([os.path.join(VERIF, "coq", "Model"), os.path.join(VERIF, "harness", "src"),
                      os.path.join(VERIF, "harness", "Cargo.toml"), os.path.join(VERIF, "extract"),
                      os.path.join(VERIF, "lib"), os.path.join(VERIF, "tools")],
                     {".v", ".rs", ".ml", ".py", ".toml"})


# ---------------------------------------------------------------- builds

def build_harness(bins=None):
    """cargo build of the harness against /repo's current working tree."""
    with Lock("cargo"):
        lock_src = os.path.join(REPO, "Cargo.lock")
        lock_dst = os.path.join(VERIF, "harness", "Cargo.lock")
        if os.path.exists(lock_src) and not os.path.exists(lock_dst):
            with open(lock_src) as a, open(lock_dst, "w") as b:
                b.write(a.read())
        run([sys.executable, os.path.join(VERIF, "tools", "gen_harness.py"), os.path.join(VERIF, "harness", "src")])
        run([sys.executable, os.path.join(VERIF, "tools", "gen_ctor.py"), os.path.join(VERIF, "harness", "src", "bin")])
        cmd = ["cargo", "build", "--offline", "--quiet"]
        for b in bins or []:
            cmd += ["--bin", b]
        p = run(cmd, cwd=os.path.join(VERIF, "harness"), timeout=1800, check=False)
        if p.returncode != 0:
            return p.stdout
    return None


def coq_makefile():
    mk = os.path.join(COQ, "Makefile")
    cp = os.path.join(COQ, "_CoqProject")
    if not os.path.exists(mk) or os.path.getmtime(mk) < os.path.getmtime(cp):
        run(["coq_makefile", "-f", "_CoqProject", "-o", "Makefile"], cwd=COQ)


def build_coq(targets, timeout=1500):
    """Full .vo build of the given targets (dependency cone only). Returns (ok, log)."""
    with Lock("coq"):
        coq_makefile()
        p = run(["timeout", str(timeout), "make", "-j16"] + targets, cwd=COQ, timeout=timeout + 60, check=False)
        return p.returncode == 0, p.stdout


def build_extract():
    """Extract the model and build the OCaml drivers when stale."""
    with Lock("coq"):
        coq_makefile()
        p = run(["timeout", "900", "make", "-j16", "Model/World.vo", "Model/Multi.vo", "Model/Query.vo", "Model/SerdeC.vo", "Model/Phys.vo", "Model/SubsetM.vo"], cwd=COQ, check=False)
        if p.returncode != 0:
            raise Infra("model does not compile:\n" + p.stdout[-3000:])
        os.makedirs(EXTRACT, exist_ok=True)
        key = tree_hash([os.path.join(COQ, "Model"), os.path.join(COQ, "Gen"), os.path.join(VERIF, "extract")], {".v", ".ml"})
        stamp = os.path.join(EXTRACT, "stamp")
        if os.path.exists(stamp) and open(stamp).read() == key and os.path.exists(os.path.join(EXTRACT, "wh_model")):
            return
        run(["coqc", "-Q", COQ, "Brood", os.path.join(COQ, "Model", "Extract.v"),
             "-o", os.path.join(EXTRACT, "Extract.vo")], cwd=EXTRACT, timeout=600)
        for drv in sorted(os.listdir(os.path.join(VERIF, "extract"))):
            if not drv.endswith(".ml"):
                continue
            src = os.path.join(VERIF, "extract", drv)
            dst = os.path.join(EXTRACT, drv)
            with open(src) as a, open(dst, "w") as b:
                b.write(a.read())
            exe = {"wh_driver.ml": "wh_model"}.get(drv, drv[:-3])
            run(["ocamlfind", "ocamlopt", "-O2", "-w", "-a", "model.mli", "model.ml", drv, "-o", exe],
                cwd=EXTRACT, timeout=600)
        with open(stamp, "w") as f:
            f.write(key)


FORBIDDEN = re.compile(r"\b(Admitted|admit|Axiom|Axioms|Parameter|Parameters|Conjecture|Hypothesis|Variable|Variables|Hypotheses)\b|Unset Guard|bypass_check|type-in-type|impredicative-set|Admit Obligations")


def project_files():
    out = []
    for line in open(os.path.join(COQ, "_CoqProject")):
        line = line.strip()
        if line.endswith(".v"):
            out.append(os.path.join(COQ, line))
    return out


def grep_forbidden():
    """Admitted/Axiom/… anywhere in the development (Variable/Hypothesis allowed only inside a Section)."""
    bad = []
    for path in project_files():
        depth = 0
        text = open(path).read()
        # strip comments (nested)
        out = []
        lvl = 0
        i = 0
        while i < len(text):
            if text.startswith("(*", i):
                lvl += 1
                i += 2
            elif text.startswith("*)", i) and lvl > 0:
                lvl -= 1
                i += 2
            else:
                if lvl == 0 or text[i] == "\n":
                    out.append(text[i])
                i += 1
        for ln, code in enumerate("".join(out).split("\n"), 1):
            if re.match(r"\s*Section\b", code):
                depth += 1
            if re.match(r"\s*End\b", code) and depth > 0:
                depth -= 1
            m = FORBIDDEN.search(code)
            if m:
                w = m.group(0)
                if w in ("Variable", "Variables", "Hypothesis", "Hypotheses") and depth > 0:
                    continue
                bad.append("%s:%d: %s" % (os.path.relpath(path, VERIF), ln, w))
    return bad


ALLOWED_AXIOMS = set()   # the development is expected to be closed under the global context


def check_props(pid, extra_targets=()):
    """Build Props/<pid>.vo's dependency cone, then re-run coqc on the property
    file itself to read Print Assumptions.  Returns a dict describing the
    proof side: ok, obligations, discharged, theorems, assumptions, log."""
    res = {"ok": False, "obligations": 0, "discharged": 0, "theorems": [], "axioms": [], "log": "",
           "failed_theorem": None}
    pf = os.path.join(COQ, "Props", pid + ".v")
    src = open(pf).read()
    thms = re.findall(r"^\s*(?:Theorem|Lemma|Corollary|Example)\s+(\w+)", src, re.M)
    pins = re.findall(r"^\s*Check\s+\(?(\w+)", src, re.M)
    res["theorems"] = thms
    res["obligations"] = len(thms) + len(pins)
    bad = grep_forbidden()
    if bad:
        res["log"] = "forbidden constructs: " + "; ".join(bad)
        res["failed_theorem"] = "forbidden:" + bad[0]
        return res
    ok, log = build_coq(["Props/%s.vo" % pid] + list(extra_targets))
    if not ok:
        res["log"] = log[-6000:]
        m = re.findall(r'File "([^"]+)", line (\d+)', log)
        res["failed_theorem"] = (m[-1][0] + ":" + m[-1][1]) if m else "build"
        return res
    with Lock("coq"):
        p = run(["timeout", "600", "coqc", "-Q", ".", "Brood", "Props/%s.v" % pid], cwd=COQ, check=False)
    if p.returncode != 0:
        res["log"] = p.stdout[-6000:]
        res["failed_theorem"] = "Props/%s.v" % pid
        return res
    out = p.stdout
    closed = len(re.findall(r"Closed under the global context", out))
    axioms = re.findall(r"^Axioms:\s*\n((?:.+\n)+?)(?=\n|\Z)", out, re.M)
    res["axioms"] = [a.strip() for a in axioms]
    res["closed"] = closed
    if axioms:
        names = set(re.findall(r"^(\S+)\s*:", "\n".join(axioms), re.M))
        if not names <= ALLOWED_AXIOMS:
            res["log"] = "unexpected axioms: %s" % sorted(names - ALLOWED_AXIOMS)
            res["failed_theorem"] = "Print Assumptions"
            return res
    if os.environ.get("VERIF_TIER_EFFECTIVE") == "thorough":
        # independent re-check of the compiled property file and everything it depends on
        with Lock("coq"):
            p = run(["timeout", "1500", "coqchk", "-o", "-silent", "-Q", ".", "Brood", "Brood.Props.%s" % pid], cwd=COQ, check=False,
                    timeout=1600)
        res["coqchk"] = p.stdout[-1500:]
        if p.returncode != 0:
            res["log"] = "coqchk failed: " + p.stdout[-3000:]
            res["failed_theorem"] = "coqchk Props/%s" % pid
            return res
        m = re.search(r"Axioms:\s*(.*)", p.stdout, re.S)
        ax = m.group(1).strip() if m else ""
        res["coqchk_axioms"] = ax[:500]
        if ax and not ax.startswith("<none>"):
            res["log"] = "coqchk reports axioms: " + ax[:1000]
            res["failed_theorem"] = "coqchk axioms"
            return res
    res["ok"] = True
    res["discharged"] = res["obligations"]
    res["log"] = out[-2000:]
    return res


# ---------------------------------------------------------------- reporting

def load_known():
    p = os.path.join(VERIF, "known_findings.json")
    if not os.path.exists(p):
        return []
    return json.load(open(p))["findings"]


def write_replay(pid, seed, payload):
    os.makedirs(REPLAYS, exist_ok=True)
    path = os.path.join(REPLAYS, "%s-%s.json" % (pid, seed))
    with open(path, "w") as f:
        json.dump(payload, f, indent=1)
    return path


def write_evidence(pid, tier, seed, level, coverage, assumptions, wall, violations):
    os.makedirs(EVIDENCE, exist_ok=True)
    ev = {"property_id": pid, "tier": tier, "seed": int(seed), "level": level, "coverage": coverage,
          "assumptions": assumptions, "wall_s": round(wall, 2), "violations": violations}
    with open(os.path.join(EVIDENCE, pid + ".json"), "w") as f:
        json.dump(ev, f, indent=1)


class SplitMix:
    def __init__(self, seed):
        self.s = seed & 0xFFFFFFFFFFFFFFFF

    def next(self):
        self.s = (self.s + 0x9E3779B97F4A7C15) & 0xFFFFFFFFFFFFFFFF
        z = self.s
        z = ((z ^ (z >> 30)) * 0xBF58476D1CE4E5B9) & 0xFFFFFFFFFFFFFFFF
        z = ((z ^ (z >> 27)) * 0x94D049BB133111EB) & 0xFFFFFFFFFFFFFFFF
        return z ^ (z >> 31)

    def below(self, n):
        return self.next() % n if n > 0 else 0

    def chance(self, num, den):
        return self.below(den) < num

    def choice(self, xs):
        return xs[self.below(len(xs))]

    def weighted(self, pairs):
        tot = sum(w for _, w in pairs)
        r = self.below(tot)
        for x, w in pairs:
            if r < w:
                return x
            r -= w
        return pairs[-1][0]

    def fork(self):
        return SplitMix(self.next())
