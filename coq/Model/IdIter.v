(** [archetype::identifier::Iter] ([archetype/identifier/iter.rs]): the bit iterator that drives every
    column walk ([bits_on] in the rest of the model).  Its state is a pointer into the identifier's bytes,
    the current byte shifted right by the bits already returned, and the bit position.  When it ends, which
    bit it returns, when it moves on to the next byte and how it shifts are REGENERATED from the source
    (Gen/Bytes.v: [iter_end], [iter_result], [iter_reload], [iter_shift]); moving the pointer past the last
    byte of the allocation is undefined behaviour ([None]).  Definitions only. *)
From Brood Require Export Base SerdeC.
From Brood Require Export Bytes.

(** [bytes]: the allocation from the pointer on (its head is [*pointer]) *)
Fixpoint iter_run_from (fuel : nat) (len : N) (bytes : list N) (cur pos : N) : option (list bool) :=
  match fuel with
  | 0 => None
  | S f =>
      if iter_end pos len then Some []
      else
        let r := iter_result cur in
        let pos' := (pos + 1)%N in
        if iter_reload pos' len then
          match bytes with
          | _ :: ((b :: _) as bytes') => option_map (cons r) (iter_run_from f len bytes' b pos')
          | _ => None
          end
        else option_map (cons r) (iter_run_from f len bytes (iter_shift cur) pos')
  end.

(** [identifier.iter()] collected: [Iter::new] reads the first byte when the registry is not empty *)
Definition iter_run (n : nat) (bytes : list N) : option (list bool) :=
  iter_run_from (S n) (N.of_nat n) bytes
    (if fact_iter_new_reads_first_byte then (if Nat.ltb 0 n then hd 0%N bytes else 0%N) else 0%N) 0%N.
