(** C01/C02, refinement: the world, seen as a finite map from identifiers to
    component vectors, does exactly what the reference map of Model/Spec.v
    does.  Only [Inv] of the pre-state is assumed. *)
From Brood Require Import Base World Spec BaseFacts Inv.
Require Import Permutation.

(** * Generic list facts *)

Lemma rf_nth_error_ext (A : Type) (l l' : list A) :
  (forall k, nth_error l k = nth_error l' k) -> l = l'.
Proof.
  revert l'; induction l as [|x t IH]; intros [|y t'] H.
  - reflexivity.
  - specialize (H 0); discriminate.
  - specialize (H 0); discriminate.
  - f_equal.
    + specialize (H 0); cbn in H; congruence.
    + apply IH; intros k; apply (H (S k)).
Qed.

Lemma rf_nth_error_seq_map (A : Type) (f : nat -> A) n k :
  nth_error (map f (seq 0 n)) k = if Nat.ltb k n then Some (f k) else None.
Proof.
  destruct (Nat.ltb_spec k n) as [H|H].
  - rewrite nth_error_map.
    rewrite (nth_error_nth' _ 0) by (rewrite seq_length; lia).
    rewrite seq_nth by lia. reflexivity.
  - apply nth_error_None. rewrite map_length, seq_length; lia.
Qed.

Lemma rf_NoDup_app (A : Type) (l1 l2 : list A) :
  NoDup l1 -> NoDup l2 -> (forall x, In x l1 -> In x l2 -> False) -> NoDup (l1 ++ l2).
Proof.
  induction l1 as [|a t IH]; intros N1 N2 D; cbn; auto.
  inversion N1 as [|? ? Hnin N1']; subst.
  constructor.
  - intros HI. apply in_app_or in HI as [HI|HI]; [contradiction|].
    apply (D a); cbn; auto.
  - apply IH; auto. intros x H1 H2. apply (D x); cbn; auto.
Qed.

Lemma rf_nth_insert_at (A : Type) p (x : A) l j :
  p <= length l ->
  nth_error (insert_at p x l) j =
  if Nat.ltb j p then nth_error l j
  else if Nat.eqb j p then Some x else nth_error l (j - 1).
Proof.
  revert l j; induction p as [|p IH]; intros l j H.
  - cbn [insert_at]. destruct j as [|j]; cbn; [reflexivity|].
    rewrite Nat.sub_0_r; reflexivity.
  - destruct l as [|y t]; cbn [length] in H; [lia|].
    cbn [insert_at]. destruct j as [|j]; [reflexivity|].
    cbn [nth_error]. rewrite IH by lia.
    change (Nat.ltb (S j) (S p)) with (Nat.ltb j p).
    change (Nat.eqb (S j) (S p)) with (Nat.eqb j p).
    destruct (Nat.ltb_spec j p); [reflexivity|].
    destruct (Nat.eqb_spec j p); [reflexivity|].
    destruct j as [|j]; [lia|]. cbn. rewrite Nat.sub_0_r; reflexivity.
Qed.

Lemma rf_nth_remove_at (A : Type) p (l : list A) j :
  nth_error (remove_at p l) j = if Nat.ltb j p then nth_error l j else nth_error l (S j).
Proof.
  revert l j; induction p as [|p IH]; intros l j.
  - destruct l as [|y t]; cbn; [destruct j; reflexivity|reflexivity].
  - destruct l as [|y t]; cbn [remove_at].
    + destruct (Nat.ltb j (S p)); destruct j; reflexivity.
    + destruct j as [|j]; [reflexivity|].
      cbn [nth_error]. rewrite IH.
      change (Nat.ltb (S j) (S p)) with (Nat.ltb j p). reflexivity.
Qed.

Lemma rf_upd_same (A : Type) c (x : A) l : nth_error l c = Some x -> upd c (fun _ => x) l = l.
Proof.
  revert c; induction l as [|y t IH]; intros [|c] H; cbn in *; try discriminate.
  - congruence.
  - f_equal; auto.
Qed.

Lemma rf_In_upd (A : Type) (x : A) r f l :
  In x (upd r f l) <->
  exists j y, nth_error l j = Some y /\ x = if Nat.eqb j r then f y else y.
Proof.
  split.
  - intros H. apply In_nth_error in H as [j Hj]. rewrite nth_error_upd in Hj.
    destruct (nth_error l j) as [y|] eqn:E.
    + exists j, y. split; auto. destruct (Nat.eqb j r); cbn in Hj; congruence.
    + destruct (Nat.eqb j r); cbn in Hj; discriminate.
  - intros [j [y [Hj ->]]]. apply nth_error_In with (n := j).
    rewrite nth_error_upd, Hj. destruct (Nat.eqb j r); reflexivity.
Qed.

Lemma rf_In_swap_remove (A : Type) (x : A) r l :
  r < length l ->
  (In x (swap_remove r l) <-> exists j, j <> r /\ nth_error l j = Some x).
Proof.
  intros Hr. split.
  - intros H. apply In_nth_error in H as [j Hj].
    rewrite (nth_error_swap_remove j l Hr) in Hj.
    destruct (Nat.ltb_spec j (length l - 1)) as [Hlt|]; [|discriminate].
    destruct (Nat.eqb_spec j r) as [Heq|Hne].
    + subst j. exists (length l - 1). split; auto. lia.
    + exists j; auto.
  - intros [j [Hne Hj]].
    assert (Hjl : j < length l) by (apply nth_error_Some; congruence).
    destruct (Nat.eq_dec j (length l - 1)) as [->|Hnl].
    + apply nth_error_In with (n := r).
      rewrite (nth_error_swap_remove r l Hr).
      destruct (Nat.ltb_spec r (length l - 1)); [|lia].
      rewrite Nat.eqb_refl. auto.
    + apply nth_error_In with (n := j).
      rewrite (nth_error_swap_remove j l Hr).
      destruct (Nat.ltb_spec j (length l - 1)); [|lia].
      destruct (Nat.eqb_spec j r); [contradiction|auto].
Qed.

Lemma rf_map_fst_combine (A B : Type) (l : list A) (l' : list B) :
  length l = length l' -> map fst (combine l l') = l.
Proof.
  revert l'; induction l as [|x t IH]; intros [|y t'] H; cbn in *; try lia; auto.
  f_equal; apply IH; lia.
Qed.

Lemma rf_combine_map_r (A B C : Type) (g : B -> C) (l : list A) (l' : list B) :
  combine l (map g l') = map (fun p => (fst p, g (snd p))) (combine l l').
Proof.
  revert l'; induction l as [|x t IH]; intros [|y t']; cbn; auto.
  f_equal; apply IH.
Qed.

Lemma rf_map_add_seq a c : map (fun k => a + k) (seq 0 c) = seq a c.
Proof.
  revert a; induction c as [|c IH]; intros a; cbn [seq map]; [reflexivity|].
  f_equal; [lia|].
  rewrite <- seq_shift, map_map. rewrite <- (IH (S a)).
  apply map_ext. intros k. lia.
Qed.

(** * Identifiers *)

Lemma rf_eid_eqb_refl e : eid_eqb e e = true.
Proof. apply eid_eqb_eq; reflexivity. Qed.

Lemma rf_eid_eqb_neq a b : eid_eqb a b = false <-> a <> b.
Proof.
  split; intros H.
  - intros ->. rewrite rf_eid_eqb_refl in H; discriminate.
  - destruct (eid_eqb a b) eqn:E; auto. apply eid_eqb_eq in E; contradiction.
Qed.

Lemma rf_eid_dec (a b : eid) : {a = b} + {a <> b}.
Proof. decide equality; [apply N.eq_dec | apply Nat.eq_dec]. Qed.

(** * Shapes: popcount, rank, bit positions *)

Lemma rf_count_true_cons (b : bool) (s : shape) :
  count_true (b :: s) = (if b then 1 else 0) + count_true s.
Proof. unfold count_true. destruct b; reflexivity. Qed.

Lemma rf_get_bit_lt k s : get_bit k s = true -> k < length s.
Proof.
  unfold get_bit. intros H.
  destruct (Nat.ltb_spec k (length s)) as [|Hge]; auto.
  rewrite nth_overflow in H by lia. discriminate.
Qed.

Lemma rf_rank_S k s :
  k < length s -> rank (S k) s = rank k s + (if get_bit k s then 1 else 0).
Proof.
  revert k; induction s as [|b t IH]; intros k H; cbn [length] in H; [lia|].
  destruct k as [|k].
  - unfold rank, get_bit. cbn [firstn nth]. rewrite rf_count_true_cons.
    unfold count_true; cbn. lia.
  - unfold rank in *. change (get_bit (S k) (b :: t)) with (get_bit k t).
    change (firstn (S (S k)) (b :: t)) with (b :: firstn (S k) t).
    change (firstn (S k) (b :: t)) with (b :: firstn k t).
    rewrite !rf_count_true_cons. rewrite IH by lia. lia.
Qed.

Lemma rf_rank_all k s : length s <= k -> rank k s = count_true s.
Proof. intros H; unfold rank; rewrite firstn_all2; auto. Qed.

Lemma rf_rank_mono_S k s : rank k s <= rank (S k) s.
Proof.
  destruct (Nat.lt_ge_cases k (length s)).
  - rewrite rf_rank_S by auto; lia.
  - rewrite !rf_rank_all by lia; lia.
Qed.

Lemma rf_rank_mono j k s : j <= k -> rank j s <= rank k s.
Proof.
  induction 1 as [|k Hle IH]; [lia|].
  pose proof (rf_rank_mono_S k s). lia.
Qed.

Lemma rf_rank_lt j k s : j < k -> get_bit j s = true -> rank j s < rank k s.
Proof.
  intros Hlt Hb. pose proof (rf_get_bit_lt _ _ Hb) as Hl.
  pose proof (rf_rank_S j s Hl) as HS. rewrite Hb in HS.
  pose proof (rf_rank_mono (S j) k s Hlt). lia.
Qed.

Lemma rf_rank_le_count k s : rank k s <= count_true s.
Proof.
  destruct (Nat.lt_ge_cases k (length s)).
  - rewrite <- (rf_rank_all (length s) s) by lia. apply rf_rank_mono; lia.
  - rewrite rf_rank_all by lia; lia.
Qed.

Lemma rf_rank_lt_count k s : get_bit k s = true -> rank k s < count_true s.
Proof.
  intros Hb. pose proof (rf_get_bit_lt _ _ Hb) as Hl.
  rewrite <- (rf_rank_all (length s) s) by lia. apply rf_rank_lt; auto.
Qed.

Lemma rf_rank_inj j k s :
  get_bit j s = true -> get_bit k s = true -> rank j s = rank k s -> j = k.
Proof.
  intros Hj Hk Heq.
  destruct (Nat.lt_trichotomy j k) as [H|[H|H]]; auto.
  - pose proof (rf_rank_lt j k s H Hj). lia.
  - pose proof (rf_rank_lt k j s H Hk). lia.
Qed.

Lemma rf_rank_set_bit_le c b s k : k <= c -> rank k (set_bit c b s) = rank k s.
Proof.
  destruct (Nat.lt_ge_cases c (length s)) as [Hc|Hc].
  2:{ intros _. unfold set_bit. rewrite upd_oob by lia. reflexivity. }
  induction k as [|k IH]; intros Hk; [reflexivity|].
  rewrite !rf_rank_S by (rewrite ?set_bit_length; lia).
  rewrite get_bit_set_bit by lia.
  destruct (Nat.eqb_spec k c); [lia|]. rewrite IH by lia. reflexivity.
Qed.

Lemma rf_rank_set_bit_gt c b s k :
  c < length s -> c < k ->
  rank k (set_bit c b s) + (if get_bit c s then 1 else 0) =
  rank k s + (if b then 1 else 0).
Proof.
  intros Hc. induction k as [|k IH]; intros Hk; [lia|].
  destruct (Nat.eq_dec k c) as [->|Hne].
  - rewrite !rf_rank_S by (rewrite ?set_bit_length; lia).
    rewrite get_bit_set_bit by lia. rewrite Nat.eqb_refl.
    rewrite rf_rank_set_bit_le by lia. lia.
  - destruct (Nat.lt_ge_cases k (length s)) as [Hkl|Hkl].
    + rewrite !rf_rank_S by (rewrite ?set_bit_length; lia).
      rewrite get_bit_set_bit by lia.
      destruct (Nat.eqb_spec k c); [lia|].
      assert (c < k) by lia. specialize (IH H). lia.
    + assert (c < k) by lia. specialize (IH H).
      rewrite (rf_rank_all (S k)) by (rewrite set_bit_length; lia).
      rewrite (rf_rank_all (S k) s) by lia.
      rewrite (rf_rank_all k) in IH by (rewrite set_bit_length; lia).
      rewrite (rf_rank_all k s) in IH by lia. exact IH.
Qed.

Lemma rf_filter_seq_rank s k :
  k <= length s -> length (filter (fun j => get_bit j s) (seq 0 k)) = rank k s.
Proof.
  induction k as [|k IH]; intros Hk; [reflexivity|].
  rewrite seq_S, filter_app, app_length, IH by lia.
  rewrite rf_rank_S by lia. cbn [filter Nat.add].
  destruct (get_bit k s); reflexivity.
Qed.

Lemma rf_bits_on_rank s k :
  get_bit k s = true -> nth_error (bits_on s) (rank k s) = Some k.
Proof.
  intros Hb. pose proof (rf_get_bit_lt _ _ Hb) as Hl. unfold bits_on.
  replace (length s) with (k + S (length s - S k)) by lia.
  rewrite seq_app, filter_app.
  rewrite <- (rf_filter_seq_rank s k) by lia.
  rewrite nth_error_app2 by lia. rewrite Nat.sub_diag.
  cbn [seq filter Nat.add]. rewrite Hb. reflexivity.
Qed.

(** * Component vectors of rows *)

Lemma rf_nth_row_abs sh vals k :
  nth_error (row_abs sh vals) k =
  if Nat.ltb k (length sh)
  then Some (if get_bit k sh then nth_error vals (rank k sh) else None)
  else None.
Proof. unfold row_abs. apply rf_nth_error_seq_map. Qed.

Lemma rf_row_abs_length sh vals : length (row_abs sh vals) = length sh.
Proof. unfold row_abs. rewrite map_length, seq_length. reflexivity. Qed.

(** Overwrite of a component that is present. *)
Lemma rf_row_abs_overwrite sh vals c v :
  get_bit c sh = true -> length vals = count_true sh ->
  row_abs sh (upd (rank c sh) (fun _ => v) vals) =
  upd c (fun _ => Some v) (row_abs sh vals).
Proof.
  intros Hb Hlen. apply rf_nth_error_ext. intros k.
  rewrite nth_error_upd, !rf_nth_row_abs.
  pose proof (rf_get_bit_lt _ _ Hb) as Hc.
  pose proof (rf_rank_lt_count _ _ Hb) as Hr.
  destruct (Nat.ltb_spec k (length sh)) as [Hk|Hk].
  - destruct (Nat.eqb_spec k c) as [->|Hne].
    + rewrite Hb. rewrite nth_error_upd_same.
      destruct (nth_error vals (rank c sh)) eqn:E; [reflexivity|].
      apply nth_error_None in E. lia.
    + destruct (get_bit k sh) eqn:Hbk; [|reflexivity].
      rewrite nth_error_upd_other; [reflexivity|].
      intros Heq. apply Hne. eapply rf_rank_inj; eauto.
  - destruct (Nat.eqb_spec k c); [lia|reflexivity].
Qed.

(** A component is added: its value is inserted at its rank. *)
Lemma rf_row_abs_insert sh vals c v :
  c < length sh -> get_bit c sh = false -> length vals = count_true sh ->
  row_abs (set_bit c true sh) (insert_at (rank c (set_bit c true sh)) v vals) =
  upd c (fun _ => Some v) (row_abs sh vals).
Proof.
  intros Hc Hb Hlen. apply rf_nth_error_ext. intros k.
  rewrite nth_error_upd, !rf_nth_row_abs, set_bit_length.
  rewrite (rf_rank_set_bit_le c true sh c) by lia.
  pose proof (rf_rank_le_count c sh) as Hrc.
  destruct (Nat.ltb_spec k (length sh)) as [Hk|Hk].
  2:{ destruct (Nat.eqb_spec k c); [lia|reflexivity]. }
  rewrite get_bit_set_bit by lia.
  destruct (Nat.eqb_spec k c) as [->|Hne].
  - cbn [option_map]. rewrite (rf_rank_set_bit_le c true sh c) by lia.
    rewrite rf_nth_insert_at by lia.
    rewrite Nat.ltb_irrefl, Nat.eqb_refl. reflexivity.
  - destruct (get_bit k sh) eqn:Hbk; [|reflexivity].
    rewrite rf_nth_insert_at by lia.
    destruct (Nat.lt_ge_cases k c) as [Hlt|Hge].
    + rewrite rf_rank_set_bit_le by lia.
      pose proof (rf_rank_lt k c sh Hlt Hbk) as Hr.
      destruct (Nat.ltb_spec (rank k sh) (rank c sh)); [reflexivity|lia].
    + assert (Hgt : c < k) by lia.
      pose proof (rf_rank_set_bit_gt c true sh k Hc Hgt) as Hr. rewrite Hb in Hr.
      pose proof (rf_rank_mono c k sh Hge) as Hm.
      destruct (Nat.ltb_spec (rank k (set_bit c true sh)) (rank c sh)); [lia|].
      destruct (Nat.eqb_spec (rank k (set_bit c true sh)) (rank c sh)); [lia|].
      f_equal. f_equal. lia.
Qed.

(** A component is removed: its value is taken out at its rank. *)
Lemma rf_row_abs_remove sh vals c :
  get_bit c sh = true ->
  row_abs (set_bit c false sh) (remove_at (rank c sh) vals) =
  upd c (fun _ => None) (row_abs sh vals).
Proof.
  intros Hb. pose proof (rf_get_bit_lt _ _ Hb) as Hc.
  apply rf_nth_error_ext. intros k.
  rewrite nth_error_upd, !rf_nth_row_abs, set_bit_length.
  destruct (Nat.ltb_spec k (length sh)) as [Hk|Hk].
  2:{ destruct (Nat.eqb_spec k c); [lia|reflexivity]. }
  rewrite get_bit_set_bit by lia.
  destruct (Nat.eqb_spec k c) as [->|Hne]; [reflexivity|].
  destruct (get_bit k sh) eqn:Hbk; [|reflexivity].
  rewrite rf_nth_remove_at.
  destruct (Nat.lt_ge_cases k c) as [Hlt|Hge].
  - rewrite rf_rank_set_bit_le by lia.
    pose proof (rf_rank_lt k c sh Hlt Hbk) as Hr.
    destruct (Nat.ltb_spec (rank k sh) (rank c sh)); [reflexivity|lia].
  - assert (Hgt : c < k) by lia.
    pose proof (rf_rank_set_bit_gt c false sh k Hc Hgt) as Hr. rewrite Hb in Hr.
    pose proof (rf_rank_lt c k sh Hgt Hb) as Hm.
    destruct (Nat.ltb_spec (rank k (set_bit c false sh)) (rank c sh)); [lia|].
    f_equal. f_equal. lia.
Qed.

(** Shapes built from a component list. *)
Lemma rf_shape_of_length n cs : length (shape_of n cs) = n.
Proof. unfold shape_of. rewrite map_length, seq_length. reflexivity. Qed.

Lemma rf_get_bit_shape_of n cs k :
  get_bit k (shape_of n cs) = if Nat.ltb k n then has_comp k cs else false.
Proof.
  unfold get_bit.
  pose proof (rf_nth_error_seq_map _ (fun k => has_comp k cs) n k) as H.
  fold (shape_of n cs) in H.
  destruct (Nat.ltb_spec k n).
  - eapply nth_error_nth; eauto.
  - apply nth_overflow. rewrite rf_shape_of_length; lia.
Qed.

(** Canonical form: values are stored in registry order whatever the textual order. *)
Lemma rf_row_abs_canon n ent :
  row_abs (shape_of n (map fst ent)) (canon_vals (shape_of n (map fst ent)) ent) =
  cvec_of n ent.
Proof.
  apply rf_nth_error_ext. intros k.
  rewrite rf_nth_row_abs, rf_shape_of_length. unfold cvec_of.
  rewrite rf_nth_error_seq_map.
  destruct (Nat.ltb_spec k n) as [Hk|Hk]; [|reflexivity].
  f_equal. rewrite rf_get_bit_shape_of.
  destruct (Nat.ltb_spec k n) as [_|]; [|lia].
  destruct (has_comp k (map fst ent)) eqn:Hh; [|reflexivity].
  unfold canon_vals. rewrite nth_error_map.
  rewrite rf_bits_on_rank; [reflexivity|].
  rewrite rf_get_bit_shape_of.
  destruct (Nat.ltb_spec k n); [auto|lia].
Qed.

(** * Rows of the archetype table as a relation *)

(** [rf_R archs sh e vals]: some archetype of shape [sh] stores a row [(e, vals)]. *)
Definition rf_R (archs : list arch) (sh : shape) (e : eid) (vals : list val) : Prop :=
  exists a, In a archs /\ a_shape a = sh /\ In (e, vals) (a_rows a).

Lemma rf_in_abs w e cv :
  In (e, cv) (abs w) <->
  exists sh vals, rf_R (w_archs w) sh e vals /\ cv = row_abs sh vals.
Proof.
  unfold abs. rewrite in_flat_map. split.
  - intros [a [Ha Hin]]. apply in_map_iff in Hin as [[e' vals] [Heq Hin]].
    cbn [fst snd] in Heq. inversion Heq; subst.
    exists (a_shape a), vals. split; [exists a; auto|reflexivity].
  - intros [sh [vals [[a [Ha [Hs Hin]]] Hcv]]]. exists a. split; auto.
    apply in_map_iff. exists (e, vals). subst sh cv. split; auto.
Qed.

Lemma rf_find_R archs sh a r e vals :
  find_arch sh archs = Some a -> nth_error (a_rows a) r = Some (e, vals) ->
  rf_R archs sh e vals.
Proof.
  intros Hf Hr. exists a. split; [eapply find_arch_In; eauto|].
  split; [eapply find_arch_shape; eauto|]. eapply nth_error_In; eauto.
Qed.

Lemma rf_absf_some_in w e cv : absf w e = Some cv -> In (e, cv) (abs w).
Proof.
  unfold absf. destruct (find (fun p => eid_eqb (fst p) e) (abs w)) as [p|] eqn:E; [|discriminate].
  intros H; inversion H; subst. apply find_some in E as [E1 E2].
  apply eid_eqb_eq in E2. destruct p as [e' cv']; cbn [fst snd] in *. subst; auto.
Qed.

Lemma rf_absf_none w e : absf w e = None <-> forall cv, ~ In (e, cv) (abs w).
Proof.
  unfold absf. destruct (find (fun p => eid_eqb (fst p) e) (abs w)) as [p|] eqn:E.
  - split; [discriminate|]. intros H. exfalso.
    apply find_some in E as [E1 E2]. apply eid_eqb_eq in E2.
    destruct p as [e' cv']; cbn [fst snd] in *. subst. eapply H; eauto.
  - split; auto. intros _ cv Hin.
    pose proof (find_none _ _ E _ Hin) as Hn. cbn [fst] in Hn.
    rewrite rf_eid_eqb_refl in Hn. discriminate.
Qed.

(** * Consequences of the invariant *)

Lemma rf_get_loc_slot w e sh r :
  get_loc w e = Some (sh, r) ->
  nth_error (w_slots w) (fst e) = Some (mkSlot (snd e) (Some (sh, r))).
Proof.
  unfold get_loc. destruct (nth_error (w_slots w) (fst e)) as [s|]; [|discriminate].
  destruct (N.eqb_spec (s_gen s) (snd e)) as [Hg|]; [|discriminate].
  intros H. destruct s as [g l]; cbn [s_gen s_loc] in *. subst. reflexivity.
Qed.

Lemma rf_R_slot w sh e vals :
  Inv w -> rf_R (w_archs w) sh e vals ->
  exists a r, find_arch sh (w_archs w) = Some a /\
              nth_error (a_rows a) r = Some (e, vals) /\
              nth_error (w_slots w) (fst e) = Some (mkSlot (snd e) (Some (sh, r))).
Proof.
  intros HI [a [Ha [Hs Hin]]]. apply In_nth_error in Hin as [r Hr].
  exists a, r.
  assert (Hf : find_arch sh (w_archs w) = Some a).
  { subst sh. apply In_find_arch; auto. apply (inv_nodup HI). }
  split; auto. split; auto. destruct e as [i g]. cbn [fst snd].
  eapply inv_bwd; eauto.
Qed.

Lemma rf_R_fun w sh sh' e vals vals' :
  Inv w -> rf_R (w_archs w) sh e vals -> rf_R (w_archs w) sh' e vals' ->
  sh = sh' /\ vals = vals'.
Proof.
  intros HI H1 H2.
  destruct (rf_R_slot _ _ _ _ HI H1) as [a [r [Hf [Hr Hs]]]].
  destruct (rf_R_slot _ _ _ _ HI H2) as [a' [r' [Hf' [Hr' Hs']]]].
  rewrite Hs in Hs'. inversion Hs'; subst sh' r'.
  rewrite Hf in Hf'. inversion Hf'; subst a'.
  rewrite Hr in Hr'. inversion Hr'; auto.
Qed.

Lemma rf_row_unique w sh a r r' e v v' :
  Inv w -> find_arch sh (w_archs w) = Some a ->
  nth_error (a_rows a) r = Some (e, v) -> nth_error (a_rows a) r' = Some (e, v') -> r = r'.
Proof.
  intros HI Hf H1 H2. destruct e as [i g].
  pose proof (inv_bwd HI _ _ Hf H1) as S1.
  pose proof (inv_bwd HI _ _ Hf H2) as S2.
  rewrite S1 in S2. inversion S2; auto.
Qed.

Lemma rf_arch_unique archs sh a a0 :
  NoDup (map a_shape archs) -> find_arch sh archs = Some a0 ->
  In a archs -> a_shape a = sh -> a = a0.
Proof.
  intros ND Hf Ha Hs. subst sh. rewrite In_find_arch in Hf; auto. congruence.
Qed.

Lemma rf_in_abs_fun w e cv cv' :
  Inv w -> In (e, cv) (abs w) -> In (e, cv') (abs w) -> cv = cv'.
Proof.
  intros HI H1 H2.
  apply rf_in_abs in H1 as [sh [vals [R1 ->]]].
  apply rf_in_abs in H2 as [sh' [vals' [R2 ->]]].
  destruct (rf_R_fun _ _ _ _ _ _ HI R1 R2) as [-> ->]. reflexivity.
Qed.

Lemma rf_absf_in w e cv : Inv w -> (absf w e = Some cv <-> In (e, cv) (abs w)).
Proof.
  intros HI. split; [apply rf_absf_some_in|].
  intros Hin. destruct (absf w e) as [cv'|] eqn:E.
  - apply rf_absf_some_in in E. f_equal. eapply rf_in_abs_fun; eauto.
  - rewrite rf_absf_none in E. exfalso; eapply E; eauto.
Qed.

Lemma rf_absf_R w e sh vals :
  Inv w -> rf_R (w_archs w) sh e vals -> absf w e = Some (row_abs sh vals).
Proof.
  intros HI HR. apply rf_absf_in; auto. apply rf_in_abs. eauto.
Qed.

(** The characterisation of [absf] used everywhere below. *)
Lemma absf_spec w e cv :
  Inv w ->
  (absf w e = Some cv <->
   exists a r vals, In a (w_archs w) /\ nth_error (a_rows a) r = Some (e, vals) /\
                    cv = row_abs (a_shape a) vals).
Proof.
  intros HI. rewrite rf_absf_in by auto. rewrite rf_in_abs. split.
  - intros [sh [vals [[a [Ha [Hs Hin]]] Hcv]]]. apply In_nth_error in Hin as [r Hr].
    exists a, r, vals. subst sh. auto.
  - intros [a [r [vals [Ha [Hr Hcv]]]]]. exists (a_shape a), vals. split; auto.
    exists a. split; auto. split; auto. eapply nth_error_In; eauto.
Qed.

Lemma absf_spec_none w e :
  absf w e = None <->
  forall a r vals, In a (w_archs w) -> nth_error (a_rows a) r <> Some (e, vals).
Proof.
  rewrite rf_absf_none. split.
  - intros H a r vals Ha Hr. apply (H (row_abs (a_shape a) vals)).
    apply rf_in_abs. exists (a_shape a), vals. split; auto.
    exists a. split; auto. split; auto. eapply nth_error_In; eauto.
  - intros H cv Hin. apply rf_in_abs in Hin as [sh [vals [[a [Ha [Hs Hin]]] Hcv]]].
    apply In_nth_error in Hin as [r Hr]. eapply H; eauto.
Qed.

Theorem active_get_loc : forall w e, is_active w e = true <-> get_loc w e <> None.
Proof.
  intros w e. unfold is_active, get_loc.
  destruct (nth_error (w_slots w) (fst e)) as [[g l]|]; cbn [s_gen s_loc].
  - destruct l as [p|]; destruct (N.eqb g (snd e)); split; intros H; congruence.
  - split; intros H; congruence.
Qed.

Theorem absf_active : forall w e, Inv w -> (absf w e <> None <-> is_active w e = true).
Proof.
  intros w e HI. split.
  - intros H. destruct (absf w e) as [cv|] eqn:E; [|congruence].
    apply rf_absf_some_in in E. apply rf_in_abs in E as [sh [vals [HR _]]].
    destruct (rf_R_slot _ _ _ _ HI HR) as [a [r [_ [_ Hs]]]].
    unfold is_active. rewrite Hs. cbn [s_loc s_gen]. apply N.eqb_refl.
  - intros H. unfold is_active in H.
    destruct (nth_error (w_slots w) (fst e)) as [[g l]|] eqn:Es; [|discriminate].
    cbn [s_loc s_gen] in H. destruct l as [[sh r]|]; [|discriminate].
    apply N.eqb_eq in H.
    destruct (inv_fwd HI _ Es) as [a [vals [Hf Hr]]].
    assert (He : (fst e, g) = e) by (destruct e; cbn [fst snd] in *; subst; reflexivity).
    rewrite He in Hr.
    rewrite (rf_absf_R _ _ _ _ HI (rf_find_R _ _ _ _ _ _ Hf Hr)). discriminate.
Qed.

Lemma rf_inactive_absf w e : Inv w -> is_active w e = false -> absf w e = None.
Proof.
  intros HI H. destruct (absf w e) eqn:E; auto.
  assert (Hn : absf w e <> None) by congruence.
  apply absf_active in Hn; auto. congruence.
Qed.

(** * Keys are unique; [len] counts them *)

Lemma rf_keys_abs w :
  map fst (abs w) = flat_map (fun a => map fst (a_rows a)) (w_archs w).
Proof.
  unfold abs. induction (w_archs w) as [|a t IH]; cbn [flat_map map]; auto.
  rewrite map_app, IH, map_map. reflexivity.
Qed.

Lemma rf_keys_nodup_gen archs :
  (forall a, In a archs -> NoDup (map fst (a_rows a))) ->
  NoDup (map a_shape archs) ->
  (forall a b e, In a archs -> In b archs ->
                 In e (map fst (a_rows a)) -> In e (map fst (a_rows b)) ->
                 a_shape a = a_shape b) ->
  NoDup (flat_map (fun a => map fst (a_rows a)) archs).
Proof.
  induction archs as [|a t IH]; intros H1 H2 H3; cbn [flat_map]; [constructor|].
  cbn [map] in H2. inversion H2 as [|? ? Hnin ND]; subst.
  apply rf_NoDup_app.
  - apply H1; cbn; auto.
  - apply IH; auto.
    + intros b Hb; apply H1; cbn; auto.
    + intros b c e Hb Hc; apply H3; cbn; auto.
  - intros e He1 He2. apply in_flat_map in He2 as [b [Hb He2]].
    apply Hnin. rewrite (H3 a b e); cbn; auto. apply in_map; auto.
Qed.

Theorem abs_keys_nodup : forall w, Inv w -> NoDup (map fst (abs w)).
Proof.
  intros w HI. rewrite rf_keys_abs. apply rf_keys_nodup_gen.
  - intros a Ha. apply NoDup_nth_error. intros i j Hi Heq.
    rewrite map_length in Hi. rewrite !nth_error_map in Heq.
    destruct (@nth_error (eid * list val) (a_rows a) i) as [[e v]|] eqn:Ei.
    2:{ apply nth_error_None in Ei. exfalso. apply (Nat.lt_irrefl i).
        eapply Nat.lt_le_trans; eauto. }
    destruct (@nth_error (eid * list val) (a_rows a) j) as [[e' v']|] eqn:Ej;
      cbn [option_map fst] in Heq; [|discriminate].
    inversion Heq; subst e'.
    eapply rf_row_unique; eauto.
    apply In_find_arch; auto. apply (inv_nodup HI).
  - apply (inv_nodup HI).
  - intros a b e Ha Hb Hea Heb.
    apply in_map_iff in Hea as [[e1 v1] [E1 Hin1]].
    apply in_map_iff in Heb as [[e2 v2] [E2 Hin2]].
    cbn [fst] in *. subst e1 e2.
    assert (R1 : rf_R (w_archs w) (a_shape a) e v1) by (exists a; auto).
    assert (R2 : rf_R (w_archs w) (a_shape b) e v2) by (exists b; auto).
    destruct (rf_R_fun _ _ _ _ _ _ HI R1 R2); auto.
Qed.

Lemma rf_abs_length w : length (abs w) = total_rows (w_archs w).
Proof.
  unfold abs. induction (w_archs w) as [|a t IH]; [reflexivity|].
  cbn [flat_map]. rewrite app_length, map_length, IH. reflexivity.
Qed.

Theorem len_is_count : forall w, Inv w -> w_len w = length (abs w).
Proof. intros w HI. rewrite rf_abs_length. apply (inv_len HI). Qed.

(** * The textual order of components is irrelevant *)

Lemma rf_has_comp_In k cs : has_comp k cs = true <-> In k cs.
Proof.
  unfold has_comp. rewrite existsb_exists. split.
  - intros [x [Hx He]]. apply Nat.eqb_eq in He. subst; auto.
  - intros H. exists k. split; auto. apply Nat.eqb_refl.
Qed.

Lemma rf_has_comp_perm k cs cs' : Permutation cs cs' -> has_comp k cs = has_comp k cs'.
Proof.
  intros P. destruct (has_comp k cs) eqn:E1, (has_comp k cs') eqn:E2; auto.
  - apply rf_has_comp_In in E1. apply (Permutation_in _ P) in E1.
    apply rf_has_comp_In in E1. congruence.
  - apply rf_has_comp_In in E2. apply (Permutation_in _ (Permutation_sym P)) in E2.
    apply rf_has_comp_In in E2. congruence.
Qed.

Lemma rf_lookup_in ent k v : NoDup (map fst ent) -> In (k, v) ent -> lookup k ent = v.
Proof.
  induction ent as [|[k' v'] t IH]; intros ND Hin; [destruct Hin|].
  cbn [map fst] in ND. inversion ND as [|? ? Hnin ND']; subst.
  cbn [lookup]. destruct Hin as [Heq|Hin].
  - inversion Heq; subst. rewrite Nat.eqb_refl. reflexivity.
  - destruct (Nat.eqb_spec k k') as [->|Hne].
    + exfalso. apply Hnin. apply in_map_iff. exists (k', v). auto.
    + apply IH; auto.
Qed.

Theorem cvec_of_perm : forall n ent ent',
  NoDup (map fst ent) -> Permutation ent ent' -> cvec_of n ent = cvec_of n ent'.
Proof.
  intros n ent ent' ND P. unfold cvec_of. apply map_ext. intros k.
  assert (Pk : Permutation (map fst ent) (map fst ent')) by (apply Permutation_map; auto).
  rewrite <- (rf_has_comp_perm k _ _ Pk).
  destruct (has_comp k (map fst ent)) eqn:Hh; [|reflexivity].
  apply rf_has_comp_In in Hh. apply in_map_iff in Hh as [[k' v] [Hk Hin]].
  cbn [fst] in Hk. subst k'.
  rewrite (rf_lookup_in ent k v ND Hin).
  rewrite (rf_lookup_in ent' k v); auto.
  - eapply Permutation_NoDup; eauto.
  - eapply Permutation_in; eauto.
Qed.
