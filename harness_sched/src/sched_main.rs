// Schedule driver: runs a generated schedule on a generated world through the
// fork/join shim and prints the recorded structure, the access log, the final
// state and the sequential reference.


use std::fmt::Write as _;
use std::io::{BufRead, Write};
use brood::verif::rayon_shim::{self, Event};

fn dump(w: &mut WS) -> String {
    let mut rows: Vec<String> = Vec::new();
    for result!(id, a, b, c, d) in w
        .query(Query::<Views!(entity::Identifier, Option<&S0>, Option<&S1>, Option<&S2>, Option<&S3>), filter::None>::new())
        .iter
    {
        rows.push(format!(
            "{:?}:{:?},{:?},{:?},{:?}",
            id,
            a.map(|x| x.0),
            b.map(|x| x.0),
            c.map(|x| x.0),
            d.map(|x| x.0)
        ).replace(' ', ""));
    }
    rows.sort();
    format!("{} res={},{}", rows.join(";"), w.get::<RA, _>().0, w.get::<RB, _>().0)
}

fn main() {
    let args: Vec<String> = std::env::args().collect();
    let threads: usize = std::env::var("VERIF_POOL").ok().and_then(|s| s.parse().ok()).unwrap_or(4);
    rayon::ThreadPoolBuilder::new().num_threads(threads).build_global().unwrap();
    let input: Box<dyn BufRead> = if args.len() > 1 {
        Box::new(std::io::BufReader::new(std::fs::File::open(&args[1]).unwrap()))
    } else {
        Box::new(std::io::BufReader::new(std::io::stdin()))
    };
    let stdout = std::io::stdout();
    let mut so = std::io::BufWriter::new(stdout.lock());
    for line in input.lines() {
        let line = line.unwrap();
        let line = line.trim();
        if line.is_empty() || line.starts_with('%') {
            continue;
        }
        let (head, spec) = line.split_once('|').unwrap();
        let h: Vec<&str> = head.split_whitespace().collect();
        let k: usize = h[1].parse().unwrap();
        let mode: usize = h[2].parse().unwrap();
        let order: u64 = h[3].parse().unwrap();
        let mut world = WS::with_resources(brood::resources!(RA(11), RB(13)));
        let mut tok = 100u64;
        let mut ids = Vec::new();
        for item in spec.split_whitespace() {
            let (m, c) = item.split_once(':').unwrap();
            let mask: u32 = m.parse().unwrap();
            let count: usize = c.parse().unwrap();
            for _ in 0..count {
                let v = [tok + 1, tok + 2, tok + 3, tok + 4];
                tok += 10;
                ids.push(insert_mask(&mut world, mask, &v));
            }
            if count == 0 {
                // an empty archetype: insert and remove
                let id = insert_mask(&mut world, mask, &[1, 2, 3, 4]);
                world.remove(id);
            }
        }
        *IDS.lock().unwrap() = ids;
        let mut reference = world.clone();
        let shapes: Vec<String> = world
            .verif_dump()
            .archetypes
            .iter()
            .map(|a| (0..4).map(|b| if a.identifier_bytes[0] >> b & 1 == 1 { '1' } else { '0' }).collect::<String>())
            .collect();
        LOG.lock().unwrap().clear();
        rayon_shim::configure(mode, order);
        let r = std::panic::catch_unwind(std::panic::AssertUnwindSafe(|| run_sched(k, &mut world, &mut reference)));
        let events = rayon_shim::take();
        let mut out = String::new();
        let _ = writeln!(out, "run {} {} {} | {}", k, mode, order, spec.trim());
        let mut sh = shapes.clone();
        sh.sort();
        let _ = writeln!(out, "shapes {}", sh.join(" "));
        let mut ev = String::from("events");
        for e in &events {
            match e {
                Event::Fork(i, p, s) => { let _ = write!(ev, " F:{}:{}:{}", i, p, s); }
                Event::Begin(i, s) => { let _ = write!(ev, " B:{}:{}", i, s); }
                Event::End(i, s) => { let _ = write!(ev, " E:{}:{}", i, s); }
                Event::Join(i) => { let _ = write!(ev, " J:{}", i); }
                Event::Mark(t, p, s) => { let _ = write!(ev, " M:{}:{}:{}", t, p, s); }
            }
        }
        let _ = writeln!(out, "{}", ev);
        let mut log: Vec<(u32, usize, bool)> = LOG.lock().unwrap().clone();
        log.sort();
        log.dedup();
        let mut ac = String::from("access");
        for (t, a, wr) in &log {
            let _ = write!(ac, " {}:{:x}:{}", t, a, if *wr { 'w' } else { 'r' });
        }
        let _ = writeln!(out, "{}", ac);
        match r {
            Ok((accs, refaccs)) => {
                let _ = writeln!(out, "accs {:?} | {:?}", accs, refaccs);
                let _ = writeln!(out, "final {}", dump(&mut world));
                let _ = writeln!(out, "ref {}", dump(&mut reference));
            }
            Err(_) => {
                let _ = writeln!(out, "panic");
            }
        }
        // terminator: a block without it was cut short (the process was killed while writing)
        let _ = writeln!(out, "end");
        so.write_all(out.as_bytes()).unwrap();
    }
    so.flush().unwrap();
}
