(** Proofs for C14. *)
From Brood Require Import Base World Kinds Tables Sched Facts Access BaseFacts.

Lemma has_comp_in k l : has_comp k l = true <-> In k l.
Proof.
  unfold has_comp. rewrite existsb_exists. split.
  - intros (x & Hx & E). apply Nat.eqb_eq in E. subst. exact Hx.
  - intros H. exists k. split; [exact H|apply Nat.eqb_refl].
Qed.

Lemma nodupb_NoDup l : nodupb l = true -> NoDup l.
Proof.
  induction l as [|x t IH]; cbn; intros H; [constructor|].
  apply andb_true_iff in H as [H1 H2]. constructor; [|auto].
  intros Hin. apply has_comp_in in Hin. rewrite Hin in H1. discriminate.
Qed.

Lemma NoDup_nodupb l : NoDup l -> nodupb l = true.
Proof.
  induction 1 as [|x t Hn ND IH]; cbn; [reflexivity|]. rewrite IH, andb_true_r.
  apply negb_true_iff. destruct (has_comp x t) eqn:E; [|reflexivity]. apply has_comp_in in E. contradiction.
Qed.

Lemma kind_of_in_comp vs k c : NoDup (comps_of vs) -> In (VComp k c) vs -> kind_of c vs = Some k.
Proof.
  unfold kind_of. induction vs as [|v vs IH]; intros ND Hin; [contradiction|]. cbn [find].
  destruct v as [k' c'|].
  - cbn [comps_of flat_map app] in ND. inversion ND as [|? ? Hn ND']; subst.
    destruct Hin as [E|Hin].
    + inversion E; subst. rewrite Nat.eqb_refl. reflexivity.
    + destruct (Nat.eqb c c') eqn:E.
      * apply Nat.eqb_eq in E. subst c'. exfalso. apply Hn. unfold comps_of. apply in_flat_map.
        exists (VComp k c). split; [exact Hin|left; reflexivity].
      * apply IH; assumption.
  - cbn [comps_of flat_map app] in ND. destruct Hin as [E|Hin]; [discriminate|]. apply IH; assumption.
Qed.

(** the regenerated Merge table has an entry for two present kinds only if neither is mutable *)
Lemma merge_present_immutable k1 k2 : merge_table (Some k1) (Some k2) <> None ->
  is_mut_kind k1 = false /\ is_mut_kind k2 = false.
Proof. destruct k1, k2; cbn; intros H; try (split; reflexivity); exfalso; apply H; reflexivity. Qed.

Lemma in_comps_of vs k c : In (VComp k c) vs -> In c (comps_of vs).
Proof. intros H. unfold comps_of. apply in_flat_map. exists (VComp k c). split; [exact H|left; reflexivity]. Qed.

Theorem accepts_sound p : accepts p = true -> ~ K14 p -> Sound p.
Proof.
  destruct p as [n vs es|nres req| | |api send sync|api m1 m2| | |]; cbn [accepts Sound K14]; intros H HK; try exact I; try discriminate.
  - apply andb_true_iff in H as [H Hd]. apply andb_true_iff in H as [Hv He].
    change fact_entry_views_disjoint_bound_everywhere with true in Hd.
    change fact_disjoint_takes_out_exactly_the_mutable_views with true in Hd. cbv iota beta delta [andb] in Hd.
    unfold contains_views in Hv, He.
    apply andb_true_iff in Hv as [NDv Bv]. apply andb_true_iff in He as [NDe Be].
    apply nodupb_NoDup in NDv. apply nodupb_NoDup in NDe.
    rewrite forallb_forall in Bv, Be.
    split.
    { intros c Hc. apply in_app_or in Hc as [Hc|Hc]; [apply Nat.ltb_lt, Bv|apply Nat.ltb_lt, Be]; exact Hc. }
    assert (Himm : forall c k1 k2, In (VComp k1 c) vs -> In (VComp k2 c) es ->
                   is_mut_kind k1 = false /\ is_mut_kind k2 = false).
    { intros c k1 k2 H1 H2. unfold disjoint_views in Hd. rewrite forallb_forall in Hd.
      assert (Hc : c < n) by (apply Nat.ltb_lt, Bv; eapply in_comps_of; exact H1).
      specialize (Hd c ltac:(apply in_seq; lia)).
      rewrite (kind_of_in_comp _ _ _ NDv H1), (kind_of_in_comp _ _ _ NDe H2) in Hd.
      apply merge_present_immutable. destruct (merge_table (Some k1) (Some k2)); [discriminate|discriminate]. }
    split; [exact NDv|]. split; [exact NDe|exact Himm].
  - apply andb_true_iff in H as [ND B]. split; [apply nodupb_NoDup; exact ND|].
    rewrite forallb_forall in B. intros r Hr. apply Nat.ltb_lt, B. exact Hr.
  - unfold thread_ok in H. destruct api as [| | | |par|par w|par w].
    + change fact_world_send_needs_components_send with true in H. exact H.
    + change fact_world_sync_needs_components_sync with true in H. exact H.
    + change (fact_iter_send_needs_views_send && fact_entries_send_needs_views_send && fact_parview_ref_needs_sync && fact_parviews_need_send) with true in H. exact H.
    + change (fact_iter_send_needs_views_send && fact_entries_send_needs_views_send && fact_parview_mut_needs_send && fact_parviews_need_send) with true in H. exact H.
    + destruct par; [change fact_task_parsystem_self_send with true in H|change fact_task_system_self_send with true in H]; exact H.
    + assert (B : task_bound par w = true) by (destruct par, w; reflexivity). rewrite B in H. exact H.
    + assert (B : task_bound par w = true) by (destruct par, w; reflexivity). rewrite B in H. exact H.
  - destruct api; cbn [borrows_receiver] in H.
    + change fact_world_entry_query_borrows_receiver with true in H. discriminate.
    + exfalso. apply HK. exact I.
    + change fact_world_query_borrows_receiver with true in H. discriminate.
    + change fact_view_resources_borrows_receiver with true in H. discriminate.
    + change fact_get_mut_borrows_receiver with true in H. discriminate.
Qed.

(** the conflict-free neighbours are accepted: two views of any kinds on two different components,
    a view and an entry view on different components, two shared views of one component across
    views and entry views *)
Theorem accepts_neighbours : forall n k1 k2 c1 c2, c1 < n -> c2 < n -> c1 <> c2 ->
  accepts (CQuery n [VComp k1 c1; VComp k2 c2] []) = true /\
  accepts (CQuery n [VComp k1 c1] [VComp k2 c2]) = true /\
  (is_mut_kind k1 = false -> is_mut_kind k2 = false -> accepts (CQuery n [VComp k1 c1] [VComp k2 c1]) = true).
Proof.
  intros n k1 k2 c1 c2 H1 H2 Hne.
  assert (E12 : Nat.eqb c1 c2 = false) by (apply Nat.eqb_neq; exact Hne).
  assert (E21 : Nat.eqb c2 c1 = false) by (apply Nat.eqb_neq; congruence).
  assert (L1 : Nat.ltb c1 n = true) by (apply Nat.ltb_lt; exact H1).
  assert (L2 : Nat.ltb c2 n = true) by (apply Nat.ltb_lt; exact H2).
  assert (D : forall vs es, (forall c, c < n -> kind_of c vs = None \/ kind_of c es = None \/
                 exists a b, kind_of c vs = Some a /\ kind_of c es = Some b /\ is_mut_kind a = false /\ is_mut_kind b = false) ->
              disjoint_views n vs es = true).
  { intros vs es H. unfold disjoint_views. apply forallb_forall. intros c Hc. apply in_seq in Hc.
    destruct (H c ltac:(lia)) as [E|[E|(a & b & Ea & Eb & Ma & Mb)]].
    - rewrite E. destruct (kind_of c es) as [[]|]; reflexivity.
    - rewrite E. destruct (kind_of c vs) as [[]|]; reflexivity.
    - rewrite Ea, Eb. destruct a, b; cbn in *; try discriminate; reflexivity. }
  split; [|split].
  - cbn [accepts]. unfold contains_views. cbn [comps_of flat_map app nodupb has_comp existsb forallb].
    rewrite E12, L1, L2. cbn. apply D. intros c _. right. left. reflexivity.
  - cbn [accepts]. unfold contains_views. cbn [comps_of flat_map app nodupb has_comp existsb forallb].
    rewrite L1, L2. cbn. apply D. intros c _. unfold kind_of. cbn [find].
    destruct (Nat.eqb c c1) eqn:Ec1; [|left; reflexivity].
    apply Nat.eqb_eq in Ec1. subst c. rewrite E12. right. left. reflexivity.
  - intros M1 M2. cbn [accepts]. unfold contains_views. cbn [comps_of flat_map app nodupb has_comp existsb forallb].
    rewrite L1. cbn. apply D. intros c _. unfold kind_of. cbn [find].
    destruct (Nat.eqb c c1) eqn:Ec1; [|left; reflexivity].
    right. right. exists k1, k2. auto.
Qed.
