(** C06 — Serialize then deserialize reproduces the world exactly.
    Property theorems only; proofs are in Proofs/SerdeL.v, Proofs/CloneEq.v.
    This file states the round trip over the serialized *content*
    ([sworld]: archetypes with identifiers and values, allocator length and
    free list with generations, resources), which is what both encodings carry. *)
From Brood Require Import Base World Multi Spec BaseFacts Inv CloneEq SerdeL.

(** Every reachable world serializes, and deserializing gives back the same
    archetypes, allocator, length and resources (only the type-id cache is
    empty), which is a valid world that compares equal to the original. *)
Theorem C06_roundtrip : forall w, Inv w ->
  exists s w', ser_world w = Some s /\ de_world (w_n w) s = inr w' /\
    w' = mkWorld (w_n w) (w_archs w) [] (w_slots w) (w_free w) (w_len w) (w_res w) /\
    Inv w' /\ world_eqb w w' = true /\ feq (absf w) (absf w').
Proof.
  intros w HI. destruct (ser_world w) as [s|] eqn:E.
  2:{ exfalso. exact (ser_world_safe HI E). }
  pose proof (de_ser_roundtrip HI E) as R.
  exists s. eexists. split; [reflexivity|]. split; [exact R|]. split; [reflexivity|].
  pose proof (de_world_inv _ _ R) as HI'.
  split; [exact HI'|].
  pose proof (world_eqb_tid w [] HI) as Heq.
  split; [exact Heq|].
  exact (proj1 (world_eqb_sound _ _ HI HI' Heq)).
Qed.
Check (C06_roundtrip : forall w, Inv w ->
  exists s w', ser_world w = Some s /\ de_world (w_n w) s = inr w' /\
    w' = mkWorld (w_n w) (w_archs w) [] (w_slots w) (w_free w) (w_len w) (w_res w) /\
    Inv w' /\ world_eqb w w' = true /\ feq (absf w) (absf w')).
Print Assumptions C06_roundtrip.

(** A world that was itself deserialized (from any accepted content) still serializes. *)
Theorem C06_again : forall n s w, de_world n s = inr w -> ser_world w <> None.
Proof. intros n s w E. apply ser_world_safe. exact (de_world_inv _ _ E). Qed.
Check (C06_again : forall n s w, de_world n s = inr w -> ser_world w <> None).
Print Assumptions C06_again.

(** Non-vacuity: a world with a freed and a reused slot round-trips. *)
Example C06_example :
  match run (empty_world 2 [7%N])
            [Insert [(0, 5%N)]; Insert [(1, 6%N); (0, 9%N)]; Remove (0, 0%N); Insert [(1, 8%N)];
             Remove (1, 0%N)] with
  | Some w => match ser_world w with
              | Some s => match de_world 2 s with
                          | inr w' => world_eqb w w' = true /\ w_free w' = [1] /\ w_len w' = 1
                          | inl _ => False
                          end
              | None => False
              end
  | None => False
  end.
Proof. vm_compute. auto. Qed.
