#!/usr/bin/env python3
"""Prints the markdown table of /verif/seeded/*/meta.json for DESIGN.md §12."""
import json
import os
import re

VERIF = os.path.dirname(os.path.dirname(os.path.abspath(__file__)))
rows = []
for d in sorted(os.listdir(os.path.join(VERIF, "seeded"))):
    mp = os.path.join(VERIF, "seeded", d, "meta.json")
    if not os.path.exists(mp):
        continue
    m = json.load(open(mp))
    readme = os.path.join(VERIF, "seeded", d, "README.md")
    what = ""
    if os.path.exists(readme):
        txt = open(readme).read()
        mm = re.search(r"(?im)^\**\s*(?:change|the change|what the change is)\**\s*[:\-]?\s*(.+)$", txt)
        if mm:
            what = mm.group(1).strip()
        else:
            paras = [p.strip() for p in txt.split("\n\n") if p.strip() and not p.strip().startswith("#")]
            what = paras[0] if paras else ""
    what = m.get("summary") or re.sub(r"\s+", " ", what)[:170]
    needs = m.get("needs_to_manifest", "")
    own = m["checks"].get(m["property"], {})
    v = own.get("violation_lines") or []
    how = "failing input" if v and "no-failing" not in v[0] else ("no-failing-input-found" if v else "MISSED by own check")
    rows.append("| %s | %s | %s | %s | %s | %s |" % (d, m["property"], what.replace("|", "/"), needs.replace("|", "/"), how, ", ".join(m.get("caught_by", [])) or "—"))
print("| seeded change | breaks | what it is | needs, to manifest | own check reports | all checks that raise |")
print("|---|---|---|---|---|---|")
print("\n".join(rows))
