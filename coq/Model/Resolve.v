(** How an identifier is resolved to a row ([entity/allocator/mod.rs] Allocator::get / is_active, and the four
    places that resolve one: World::contains, World::entry, World::remove, query-time Entries::entry).
    Whether the slot's generation is compared with the identifier's, and whether every site goes through the
    allocator's accessors, is read off the source.  Definitions only. *)
From Brood Require Export World.
From Brood Require Export Facts.

(** the slot's location, generation compared or not *)
Definition resolve_gen (checks_generation : bool) (w : world) (e : eid) : option (shape * nat) :=
  match nth_error (w_slots w) (fst e) with
  | Some s => if checks_generation then (if N.eqb (s_gen s) (snd e) then s_loc s else None) else s_loc s
  | None => None
  end.

(** what the code's resolution sites compute *)
Definition resolve_src (w : world) (e : eid) : option (shape * nat) :=
  resolve_gen (fact_alloc_get_checks_generation && fact_alloc_is_active_checks_generation && fact_resolution_sites_use_allocator) w e.
