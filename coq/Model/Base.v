(** Base definitions shared by every layer of the model.
    Definitions only: proofs live under Proofs/ so that the model still
    extracts and runs when a proof breaks. *)
From Coq Require Export List Arith NArith Bool Lia.
Export ListNotations.

Set Implicit Arguments.

(** * Option monad (None = the distinguished UB outcome) *)
Definition obind {A B} (o : option A) (f : A -> option B) : option B :=
  match o with Some a => f a | None => None end.
Notation "x <- e ;; k" := (obind e (fun x => k))
  (at level 61, e at next level, right associativity).
Notation "' p <- e ;; k" := (obind e (fun x => match x with p => k end))
  (at level 61, p pattern, e at next level, right associativity).

(** * Lists with pointwise update *)
Fixpoint upd {A} (i : nat) (f : A -> A) (l : list A) : list A :=
  match l, i with
  | [], _ => []
  | x :: t, 0 => f x :: t
  | x :: t, S i' => x :: upd i' f t
  end.

(** [Vec::swap_remove]: the last element takes the place of element [i]. *)
Definition swap_remove {A} (i : nat) (l : list A) : list A :=
  match nth_error l (length l - 1) with
  | None => l
  | Some z =>
      if Nat.eqb i (length l - 1) then removelast l
      else upd i (fun _ => z) (removelast l)
  end.

Definition last_opt {A} (l : list A) : option A := nth_error l (length l - 1).

Fixpoint insert_at {A} (i : nat) (x : A) (l : list A) : list A :=
  match i, l with
  | 0, _ => x :: l
  | S i', [] => [x]
  | S i', y :: t => y :: insert_at i' x t
  end.

Fixpoint remove_at {A} (i : nat) (l : list A) : list A :=
  match i, l with
  | _, [] => []
  | 0, _ :: t => t
  | S i', y :: t => y :: remove_at i' t
  end.

(** * Shapes: one bit per registry component, bit k = "has component k" *)
Definition shape := list bool.

Fixpoint shape_eqb (a b : shape) : bool :=
  match a, b with
  | [], [] => true
  | x :: a', y :: b' => Bool.eqb x y && shape_eqb a' b'
  | _, _ => false
  end.

Definition count_true (s : shape) : nat := length (filter (fun b => b) s).

(** Number of set bits strictly below position [k]: the column that holds
    component [k] in an archetype of shape [s]. *)
Definition rank (k : nat) (s : shape) : nat := count_true (firstn k s).

Definition get_bit (k : nat) (s : shape) : bool := nth k s false.

Definition set_bit (k : nat) (b : bool) (s : shape) : shape := upd k (fun _ => b) s.

Definition mem_shape (s : shape) (l : list shape) : bool := existsb (shape_eqb s) l.

(** * Identifiers and values *)
Definition eid := (nat * N)%type.
Definition val := N.

Definition eid_eqb (a b : eid) : bool := Nat.eqb (fst a) (fst b) && N.eqb (snd a) (snd b).

(** Generations are [u64] with [wrapping_add]. *)
Definition gen_modulus : N := 18446744073709551616%N.
Definition gen_next (g : N) : N := ((g + 1) mod gen_modulus)%N.

(** Identifier bytes of a shape: bit k of the registry is bit (k mod 8) of byte (k / 8). *)
Definition bytes_of_shape (sh : shape) : list N :=
  map (fun j => fold_right (fun i acc => (if nth (8 * j + i) sh false then N.shiftl 1 (N.of_nat i) else 0) + acc)%N 0%N (seq 0 8))
      (seq 0 ((length sh + 7) / 8)).
