//! Shared pieces of the verification harness: instrumented component and
//! resource types with a process-global ledger.
pub mod ledger;
pub mod alloc_audit;

#[global_allocator]
static GLOBAL: alloc_audit::Audit = alloc_audit::Audit;
pub mod comps;

use brood::entity;

pub fn id_parts(id: entity::Identifier) -> (usize, u64) {
    let v = serde_json::to_value(id).unwrap();
    (
        v["index"].as_u64().unwrap() as usize,
        v["generation"].as_u64().unwrap(),
    )
}

pub fn mk_id(index: usize, generation: u64) -> entity::Identifier {
    serde_json::from_str(&format!(
        "{{\"index\":{},\"generation\":{}}}",
        index, generation
    ))
    .unwrap()
}
