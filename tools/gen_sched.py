#!/usr/bin/env python3
"""Generates the schedule family: harness/src/gen_sched.rs (one module per
schedule, one System/ParSystem struct per task) and build/sched_family.json
(the same task declarations for the model driver).  The family is a function
of (count, family seed) only, so it is stable across runs."""
import json
import os
import sys

sys.path.insert(0, os.path.join(os.path.dirname(os.path.abspath(__file__)), "..", "lib"))
from common import SplitMix  # noqa: E402

NC = 4      # components S0..S3
NR = 2      # resources RA, RB
RES = ["RA", "RB"]
KINDS = ["r", "m", "or", "om"]


def ty(kind, comp, lt="'a "):
    c = "S%d" % comp
    return {"r": "&%s%s" % (lt, c), "m": "&%smut %s" % (lt, c), "or": "Option<&%s%s>" % (lt, c),
            "om": "Option<&%smut %s>" % (lt, c)}[kind]


def gen_filter(rng, depth=0):
    r = rng.below(10)
    if r < 5 or depth >= 2:
        return ["none"] if r < 3 else ["has", rng.below(NC)]
    if r < 7:
        return ["not", ["has", rng.below(NC)]]
    if r < 9:
        return ["and", gen_filter(rng, depth + 1), gen_filter(rng, depth + 1)]
    return ["or", gen_filter(rng, depth + 1), gen_filter(rng, depth + 1)]


def filter_ty(f):
    if f[0] == "none":
        return "filter::None"
    if f[0] == "has":
        return "filter::Has<S%d>" % f[1]
    if f[0] == "not":
        return "filter::Not<%s>" % filter_ty(f[1])
    if f[0] == "and":
        return "filter::And<%s, %s>" % (filter_ty(f[1]), filter_ty(f[2]))
    return "filter::Or<%s, %s>" % (filter_ty(f[1]), filter_ty(f[2]))


def gen_task(rng):
    comps = list(range(NC))
    views = []
    nv = rng.choice([0, 1, 1, 2, 2, 3])
    pool = comps[:]
    for _ in range(nv):
        c = pool.pop(rng.below(len(pool)))
        k = rng.weighted([("r", 4), ("m", 5), ("or", 2), ("om", 2)])
        views.append([k, c])
    if rng.chance(1, 4):
        views.insert(rng.below(len(views) + 1), ["id", -1])
    entry = []
    if rng.chance(2, 5):
        vkind = {c: k for k, c in views if k != "id"}
        ne = rng.choice([1, 1, 2])
        pool = comps[:]
        for _ in range(ne):
            if not pool:
                break
            c = pool.pop(rng.below(len(pool)))
            if c in vkind:
                if vkind[c] in ("m", "om"):
                    continue
                k = rng.choice(["r", "or"])
            else:
                k = rng.weighted([("r", 3), ("m", 5), ("or", 1), ("om", 2)])
            entry.append([k, c])
    res = []
    for i in range(NR):
        r = rng.below(5)
        if r == 0:
            res.append([True, i])
        elif r == 1:
            res.append([False, i])
    if rng.chance(1, 2):
        res.reverse()
    return {"views": views, "filter": gen_filter(rng), "entry": entry, "res": res, "par": rng.chance(1, 4)}


def hand_written():
    """Schedules aimed at known corners (F4 witness, three stages, entry views, resources only)."""
    def t(views, filt=None, entry=None, res=None, par=False):
        return {"views": views, "filter": filt or ["none"], "entry": entry or [], "res": res or [], "par": par}
    return [
        # F4: two tasks of one stage on the same archetype, next-stage task conflicts with the second
        [t([["m", 0]]), t([["m", 1]]), t([["m", 1]])],
        [t([["m", 1]]), t([["m", 0]]), t([["m", 1]])],
        # dynamic optimisation: static conflict on S0, disjoint archetypes via filters
        [t([["m", 0], ["m", 1]]), t([["m", 0], ["m", 2]])],
        [t([["m", 0]], ["has", 1]), t([["m", 0]], ["not", ["has", 1]]), t([["r", 0]])],
        # three stages
        [t([["m", 0]]), t([["m", 0]]), t([["m", 0]])],
        [t([["m", 0], ["r", 1]]), t([["r", 0], ["m", 1]]), t([["m", 2]]), t([["r", 2], ["m", 3]])],
        # entry views reach other archetypes
        [t([["m", 0]], entry=[["m", 1]]), t([["m", 1]]), t([["r", 0]], entry=[["r", 1]])],
        [t([["r", 0]], entry=[["m", 2]]), t([["om", 2]], ["has", 3]), t([["m", 3]])],
        # resources only / mixed
        [t([], res=[[True, 0]]), t([], res=[[True, 0]]), t([], res=[[False, 0], [True, 1]])],
        [t([["m", 0]], res=[[False, 0]]), t([["m", 1]], res=[[False, 0]]), t([["m", 2]], res=[[True, 0]])],
        # all readers
        [t([["r", 0]]), t([["r", 0], ["or", 1]]), t([["or", 0]]), t([["id", -1], ["r", 0]])],
        # par systems
        [t([["m", 0]], par=True), t([["m", 1]], par=True), t([["m", 0], ["r", 1]], par=True)],
        # resource-only conflicts where the resource holder is not the last task of its stage
        [t([["m", 0]], res=[[True, 0]]), t([["m", 1]]), t([["m", 2]], res=[[True, 0]])],
        [t([["m", 0]], res=[[False, 0]]), t([["m", 1]], res=[[False, 0]]), t([["m", 3]]), t([["m", 2]], res=[[True, 0]])],
        [t([["r", 0]], res=[[True, 1]]), t([["r", 0]]), t([["r", 0]], res=[[False, 1]]), t([["r", 0]], res=[[True, 0]])],
        # optional views: writer through Option<&mut> followed by a reader, and the reverse
        [t([["om", 0]]), t([["r", 0], ["m", 2]])],
        [t([["r", 0]]), t([["om", 0]]), t([["or", 0]])],
        # the same component viewed optionally in views and entry views (merged claim stays shared)
        [t([["or", 0]], entry=[["or", 0]]), t([["r", 0]]), t([["or", 0]], entry=[["or", 0]])],
        # identifier views next to readers and a disjoint writer
        [t([["r", 0]]), t([["id", -1], ["r", 0]]), t([["id", -1], ["m", 1]])],
        # single task, empty views
        [t([])],
        [t([["id", -1]]), t([["m", 3]], ["or", ["has", 0], ["has", 1]])],
        # an entry view of every kind reaching archetypes the task's own query does not match, next to a
        # task of the following stage that conflicts only through that entry view
        [t([["r", 0]], entry=[["r", 1]]), t([["m", 1]])],
        [t([["r", 0]], entry=[["or", 1]]), t([["m", 1]])],
        [t([["r", 0]], entry=[["m", 1]]), t([["r", 1]])],
        [t([["r", 0]], entry=[["om", 1]]), t([["r", 1]])],
        [t([["m", 1]]), t([["r", 0]], entry=[["r", 1]])],
        [t([["r", 1]]), t([["r", 0]], entry=[["om", 1]])],
        [t([["r", 0]], ["not", ["has", 1]], entry=[["r", 1]]), t([["m", 1]]), t([["r", 2]])],
        [t([["m", 2]], ["not", ["has", 1]], entry=[["m", 1]]), t([["or", 1]]), t([["r", 0]])],
        # the same through a ParSystem (its own Stager impl): the entry views must be part of what the stage remembers
        [t([["r", 0]], entry=[["m", 1]], par=True), t([["m", 1]])],
        [t([["r", 0]], entry=[["r", 1]], par=True), t([["m", 1]]), t([["r", 1]], par=True)],
        [t([["m", 1]]), t([["r", 0]], entry=[["om", 1]], par=True)],
        [t([["r", 0]], entry=[["or", 1]], par=True), t([["r", 2]]), t([["m", 1]], par=True)],
        # a ParSystem in the middle of a stage (its own Stager impl): what the stage remembers of the tasks BEFORE it —
        # resources and components — must survive it, and its own claims must be remembered for the tasks after it
        [t([["m", 0]], res=[[True, 0]]), t([["m", 1]], par=True), t([["m", 2]], res=[[False, 0]])],
        [t([["m", 0]], res=[[True, 1]]), t([["r", 1]], par=True), t([["m", 2]], res=[[True, 1]])],
        [t([["m", 0]]), t([["m", 1]], par=True), t([["r", 0]])],
        [t([["m", 0]], par=True), t([["m", 1]]), t([["m", 0]])],
        [t([["m", 0]], par=True), t([["r", 0]])],
        # an identifier among the entry views reaches no component: it must not keep a run-time-disjoint task waiting
        [t([["m", 0]], ["has", 1], entry=[["id", -1]]), t([["m", 0]], ["not", ["has", 1]])],
        [t([["m", 0]], ["has", 1], entry=[["id", -1], ["r", 2]]), t([["m", 0]], ["not", ["has", 1]]), t([["r", 3]])],
    ]


def family(count, seed=20260926):
    rng = SplitMix(seed)
    scheds = hand_written()
    while len(scheds) < count:
        nt = rng.choice([2, 3, 3, 4, 4, 5])
        scheds.append([gen_task(rng) for _ in range(nt)])
    return scheds[:count]


def views_ty(vs):
    if not vs:
        return "Views!()"
    return "Views!(%s)" % ", ".join("entity::Identifier" if k == "id" else ty(k, c) for k, c in vs)


def body_for(var, kind, tid, par):
    acc = "acc.fetch_add(mix(%s), Ordering::Relaxed);"
    if kind == "id":
        return acc % "1"
    rd = "log(%d, (&*%s) as *const _ as usize, false); " % (tid, var) + acc % ("%s.0" % var)
    wr = ("log(%d, (&*%s) as *const _ as usize, true); %s.0 = %s.0.wrapping_mul(3).wrapping_add(%d);"
          % (tid, var, var, var, tid + 1))
    if kind == "r":
        return rd
    if kind == "m":
        return wr
    inner = rd if kind == "or" else wr
    return "match %s { Some(%s) => { %s } None => { %s } }" % (var, var, inner, acc % "7")


def emit_chunk(scheds, base, out_rs):
    o = []
    w = o.append
    w("// @generated by tools/gen_sched.py — do not edit.")
    w("#![allow(unused_variables, unused_mut, unused_imports, non_snake_case, clippy::all)]")
    w("use brood_verif_sched::sched_support::*;")
    w("use brood::{entity, query::{filter, result, Result, Views}, registry::ContainsViews, system::{schedule, schedule::task, System, ParSystem}, Query};")
    w("use rayon::iter::ParallelIterator;")
    w("use std::sync::atomic::{AtomicU64, Ordering};")
    w("")
    for si, sched in enumerate(scheds):
        si += base
        w("pub mod s%d {" % si)
        w("    use super::*;")
        for ti, t in enumerate(sched):
            tid = ti
            vs, ent, res = t["views"], t["entry"], t["res"]
            res_ty = "Views!(%s)" % ", ".join(("&'a mut %s" if m else "&'a %s") % RES[i] for m, i in res) if res else "Views!()"
            w("    pub struct T%d(pub AtomicU64);" % ti)
            trait = "ParSystem" if t["par"] else "System"
            w("    impl %s for T%d {" % (trait, ti))
            w("        type Views<'a> = %s;" % views_ty(vs))
            w("        type Filter = %s;" % filter_ty(t["filter"]))
            w("        type ResourceViews<'a> = %s;" % res_ty)
            w("        type EntryViews<'a> = %s;" % views_ty(ent))
            if t["par"]:
                w("        fn run<'a, R, S, I, E>(&mut self, query_result: Result<'a, R, S, I, Self::ResourceViews<'a>, Self::EntryViews<'a>, E>)")
                w("        where R: ContainsViews<'a, Self::EntryViews<'a>, E>, I: ParallelIterator<Item = Self::Views<'a>> {")
            else:
                w("        fn run<'a, R, S, I, E>(&mut self, query_result: Result<'a, R, S, I, Self::ResourceViews<'a>, Self::EntryViews<'a>, E>)")
                w("        where R: ContainsViews<'a, Self::EntryViews<'a>, E>, I: Iterator<Item = Self::Views<'a>> {")
            w("            begin(%d);" % tid)
            w("            let acc = &self.0;")
            w("            let Result { iter, resources, entries, .. } = query_result;")
            names = ["v%d" % i for i in range(len(vs))]
            pat = "result!(%s)" % ", ".join(names) if vs else "_"
            stmts = " ".join(body_for(nm, k, tid, t["par"]) for nm, (k, c) in zip(names, vs))
            stmts += " acc.fetch_add(mix(3), Ordering::Relaxed);"
            if t["par"]:
                w("            iter.for_each(|%s| { %s });" % (pat, stmts))
            else:
                w("            for %s in iter { %s }" % (pat, stmts))
            if res:
                rn = ["r%d" % i for i in range(len(res))]
                w("            let result!(%s) = resources;" % ", ".join(rn))
                for nm, (m, i) in zip(rn, res):
                    w("            " + body_for(nm, "m" if m else "r", tid, False))
            if ent:
                en = ["e%d" % i for i in range(len(ent))]
                w("            let mut entries = entries;")
                w("            for id in ids() {")
                w("                if let Some(mut entry) = entries.entry(id) {")
                w("                    if let Some(result!(%s)) = entry.query(Query::<%s>::new()) {" % (", ".join(en), views_ty(ent)))
                for nm, (k, c) in zip(en, ent):
                    w("                        " + body_for(nm, k, tid, False))
                w("                    }")
                w("                }")
                w("            }")
            w("            end(%d);" % tid)
            w("        }")
            w("    }")
        # runner
        w("    pub fn run(world: &mut WS, reference: &mut WS) -> (Vec<u64>, Vec<u64>) {")
        mk = ", ".join("task::%s(T%d(AtomicU64::new(0)))" % ("ParSystem" if t["par"] else "System", ti)
                       for ti, t in enumerate(sched))
        for ti, t in enumerate(sched):
            w("        let mut a%d = T%d(AtomicU64::new(0));" % (ti, ti))
        w("        let mut sched = schedule!(%s);" % ", ".join(
            "task::%s(T%d(AtomicU64::new(0)))" % ("ParSystem" if t["par"] else "System", ti) for ti, t in enumerate(sched)))
        w("        world.run_schedule(&mut sched);")
        w("        let accs = sched_accs_%d(&sched);" % len(sched))
        w("        set_reference_mode(true);")
        for ti, t in enumerate(sched):
            w("        reference.run_%ssystem(&mut a%d);" % ("par_" if t["par"] else "", ti))
        w("        set_reference_mode(false);")
        w("        (accs, vec![%s])" % ", ".join("a%d.0.load(Ordering::SeqCst)" % ti for ti in range(len(sched))))
        w("    }")
        # accessor for accumulators inside the schedule hlist
        w("    fn sched_accs_%d<S>(s: &S) -> Vec<u64> where S: Accs { s.accs() }" % len(sched))
        for ti, t in enumerate(sched):
            w("    impl Acc for T%d { fn acc(&self) -> u64 { self.0.load(Ordering::SeqCst) } }" % ti)
        w("}")
        w("")
    w("pub fn insert_mask(world: &mut WS, mask: u32, v: &[u64; 4]) -> entity::Identifier {")
    w("    use brood::entity as ent;")
    w("    match mask {")
    for m in range(16):
        cs = [k for k in range(4) if m >> k & 1]
        w("        %d => world.insert(ent!(%s))," % (m, ", ".join("S%d(v[%d])" % (k, k) for k in cs)))
    w("        _ => unreachable!(),")
    w("    }")
    w("}")
    w("pub fn run_sched(k: usize, world: &mut WS, reference: &mut WS) -> (Vec<u64>, Vec<u64>) {")
    w("    match k {")
    for si in range(len(scheds)):
        w("        %d => s%d::run(world, reference)," % (si + base, si + base))
    w("        _ => panic!(\"schedule {} is not in this binary\", k),")
    w("    }")
    w("}")
    w("include!(\"../sched_main.rs\");")
    text = "\n".join(o) + "\n"
    old = open(out_rs).read() if os.path.exists(out_rs) else None
    if old != text:
        with open(out_rs, "w") as f:
            f.write(text)


def emit(scheds, out_dir, out_json, chunk):
    """One binary per chunk of schedules: harness_sched/src/bin/sched_<k>.rs."""
    bindir = os.path.join(out_dir, "src", "bin")
    os.makedirs(bindir, exist_ok=True)
    want = set()
    for k in range(0, len(scheds), chunk):
        name = "sched_%d.rs" % (k // chunk)
        want.add(name)
        emit_chunk(scheds[k:k + chunk], k, os.path.join(bindir, name))
    for f in os.listdir(bindir):
        if f.startswith("sched_") and f.endswith(".rs") and f not in want:
            os.remove(os.path.join(bindir, f))
    os.makedirs(os.path.dirname(out_json), exist_ok=True)
    with open(out_json, "w") as f:
        json.dump({"chunk": chunk, "schedules": scheds}, f)


if __name__ == "__main__":
    count = int(sys.argv[1])
    chunk = int(sys.argv[4]) if len(sys.argv) > 4 else 3
    emit(family(count), sys.argv[2], sys.argv[3], chunk)
