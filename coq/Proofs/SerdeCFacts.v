(** Proofs for C11 (content level): whatever content the deserializer accepts is a valid world;
    the identifier padding check; round trip of identifier bytes for registries up to 16 components. *)
From Brood Require Import Base World Multi SerdeC BaseFacts Inv SerdeL.

Lemma decode_archs_ok n l as_ : decode_archs n l = inr as_ -> length as_ = length l.
Proof.
  revert as_. induction l as [|sa t IH]; intros as_ H; cbn in H.
  - inversion H; reflexivity.
  - destruct (decode_arch n sa); [discriminate|]. destruct (decode_archs n t) as [|r]; [discriminate|].
    inversion H; subst. cbn. f_equal. apply IH. reflexivity.
Qed.

(** Any content at all — identifiers listed twice, as free and as stored, out of range, missing,
    archetypes repeated, wrong lengths, padding bits — either is rejected or yields a world that
    satisfies the structural invariant (and so every theorem stated over [Inv]). *)
Theorem de_content_inv n archs len free res w : de_content n archs len free res = inr w -> Inv w.
Proof.
  unfold de_content. intros H.
  destruct (decode_archs n archs) as [|as_]; [discriminate|].
  destruct (de_world n (mkSWorld as_ len free res)) as [|w'] eqn:E; [discriminate|].
  inversion H; subst. eapply de_world_inv. exact E.
Qed.

(** * The padding check, on one byte (finite: 256 bytes x 7 shift amounts) *)
Definition last_byte_check (byte : N) (bit : nat) : bool := padding_reject byte (N.of_nat bit).
Definition last_byte_spec (byte : N) (bit : nat) : bool :=
  existsb (fun i => byte_bit byte i) (seq bit (8 - bit)).

Definition all_bytes : list N := map N.of_nat (seq 0 256).

Lemma last_byte_table :
  forallb (fun byte => forallb (fun bit => Bool.eqb (last_byte_check byte bit) (last_byte_spec byte bit)) (seq 1 7)) all_bytes = true.
Proof. vm_compute. reflexivity. Qed.

Lemma in_all_bytes b : (b < 256)%N -> In b all_bytes.
Proof.
  intros H. unfold all_bytes. apply in_map_iff. exists (N.to_nat b). split; [apply N2Nat.id|].
  apply in_seq. lia.
Qed.

Theorem padding_check_exact byte bit : (byte < 256)%N -> 1 <= bit < 8 ->
  (last_byte_check byte bit = true <-> exists i, bit <= i < 8 /\ byte_bit byte i = true).
Proof.
  intros Hb Hbit. pose proof last_byte_table as T. rewrite forallb_forall in T.
  specialize (T byte (in_all_bytes byte Hb)). rewrite forallb_forall in T.
  specialize (T bit ltac:(apply in_seq; lia)). apply Bool.eqb_prop in T. rewrite T.
  unfold last_byte_spec. rewrite existsb_exists. split.
  - intros (i & Hi & E). exists i. apply in_seq in Hi. split; [lia|exact E].
  - intros (i & Hi & E). exists i. split; [apply in_seq; lia|exact E].
Qed.

(** * Identifier bytes round trip, for every shape of at most 16 components (finite domain) *)
Fixpoint all_shapes (n : nat) : list shape :=
  match n with
  | 0 => [[]]
  | S k => flat_map (fun s => [false :: s; true :: s]) (all_shapes k)
  end.

Lemma in_all_shapes : forall sh, In sh (all_shapes (length sh)).
Proof.
  induction sh as [|b sh IH]; cbn; [left; reflexivity|].
  apply in_flat_map. exists sh. split; [exact IH|]. destruct b; cbn; auto.
Qed.

Definition ident_roundtrip_ok (sh : shape) : bool :=
  let n := length sh in
  let bytes := bytes_of_shape sh in
  shape_eqb (shape_of_bytes n bytes) sh && Nat.eqb (length bytes) ((n + 7) / 8)
  && forallb (fun b => N.ltb b 256) bytes && negb (padding_rejected n bytes) && padding_clear n bytes.

Lemma ident_roundtrip_table :
  forallb (fun n => forallb ident_roundtrip_ok (all_shapes n)) (seq 0 17) = true.
Proof. vm_compute. reflexivity. Qed.

Theorem ident_roundtrip sh : length sh <= 16 -> ident_roundtrip_ok sh = true.
Proof.
  intros H. pose proof ident_roundtrip_table as T. rewrite forallb_forall in T.
  specialize (T (length sh) ltac:(apply in_seq; lia)). rewrite forallb_forall in T.
  apply T. apply in_all_shapes.
Qed.

(** what the serializer writes for an archetype is accepted and decodes to that archetype *)
Theorem decode_encode_arch n a : length (a_shape a) = n -> n <= 16 ->
  (forall rw, In rw (a_rows a) -> length (snd rw) = count_true (a_shape a)) ->
  decode_arch n (encode_arch a) = inr a.
Proof.
  intros Hn Hle HR. pose proof (ident_roundtrip (a_shape a) ltac:(lia)) as T. unfold ident_roundtrip_ok in T.
  rewrite Hn in T. repeat (apply andb_true_iff in T; destruct T as [T ?]).
  unfold decode_arch, encode_arch. cbn [sa_bytes sa_len sa_rows].
  match goal with H : Nat.eqb _ _ = true |- _ => rewrite H end.
  match goal with H : forallb _ _ = true |- _ => rewrite H end.
  match goal with H : negb (padding_rejected _ _) = true |- _ => apply negb_true_iff in H; rewrite H end.
  cbn [negb]. cbv zeta. rewrite Nat.eqb_refl. cbn [negb].
  apply shape_eqb_eq in T. rewrite T.
  match goal with |- context [forallb ?f (a_rows a)] => assert (F : forallb f (a_rows a) = true) end.
  { apply forallb_forall. intros rw Hrw. apply Nat.eqb_eq. apply HR. exact Hrw. }
  rewrite F. cbn [negb]. destruct a; reflexivity.
Qed.
