#!/usr/bin/env python3
"""Emit harness/src/gen_r5.rs and harness/src/gen_r16.rs: everything in the
world-history driver that must name component or resource types at compile
time, behind one API (N, W, do_insert, do_extend, do_reserve, query_all,
by_comp, res_values, res_view_check, set_res, new_world).

R5  = (C0..C4): every one of the 32 shapes, two textual component orders each.
R16 = (C0..C15): a 2-byte identifier with LEN % 8 == 0; a palette of shapes
      (tools/gen_harness.PALETTE16) is instantiated for insert/extend/reserve;
      Entry::add/remove reach every other shape at run time."""
import itertools
import os
import sys

# R9 = (C0..C8): LEN % 8 == 1, the last component sits alone in the second identifier byte
PALETTE9 = [0x000, 0x001, 0x100, 0x101, 0x1FF, 0x0FF, 0x180, 0x081, 0x102, 0x155, 0x0AA, 0x110, 0x008, 0x1C0]
PALETTES = {9: PALETTE9}

PALETTE16 = [0x0000, 0x0001, 0x0081, 0x0180, 0x8001, 0xFFFF, 0x0300, 0x4102, 0x00FF, 0xFF00, 0x0008, 0x8208,
             0x0A0A, 0x0100, 0x8000, 0x0280, 0x1030, 0x0409]

# orders in which resources are requested through view_resources: (resource index, mutable?)
RES_ORDERS = []
for r in (1, 2, 3, 4):
    for perm in itertools.permutations(range(4), r):
        RES_ORDERS.append(perm)


def _idx(canon, req):
    canon = list(canon)
    out = []
    for r in req:
        out.append(canon.index(r))
        canon.remove(r)
    return out


def accepted_by_rustc(req, canon=None):
    """brood's resource `Expanded` impl shares the tail of the reshape index list with the recursion on the
    rest of the resource list, so only some request orders type-check (an API limitation observed on the
    real code, e.g. Views!(&RB, &RC, &RA) is rejected).  This predicts which ones do."""
    canon = sorted(req) if canon is None else canon
    if not canon:
        return True
    h = canon[0]
    inner_req = [r for r in req if r != h]
    inner_canon = canon[1:]
    if _idx(canon, req)[1:] != _idx(inner_canon, inner_req):
        return False
    return accepted_by_rustc(inner_req, inner_canon)


RES_ORDERS = [p for p in RES_ORDERS if accepted_by_rustc(list(p))]
RES_ORDERS = [p for i, p in enumerate(RES_ORDERS) if len(p) <= 2 or i % 2 == 0]
RNAMES = ["RA", "RB", "RC", "RD"]


def comps(n, mask):
    return [k for k in range(n) if mask >> k & 1]



# ------------------------------------------------------------------ query family (C03)

class _Rng:
    def __init__(self, seed):
        self.s = seed & 0xFFFFFFFFFFFFFFFF

    def next(self):
        self.s = (self.s + 0x9E3779B97F4A7C15) & 0xFFFFFFFFFFFFFFFF
        z = self.s
        z = ((z ^ (z >> 30)) * 0xBF58476D1CE4E5B9) & 0xFFFFFFFFFFFFFFFF
        z = ((z ^ (z >> 27)) * 0x94D049BB133111EB) & 0xFFFFFFFFFFFFFFFF
        return z ^ (z >> 31)

    def below(self, n):
        return self.next() % n if n > 0 else 0

    def choice(self, xs):
        return xs[self.below(len(xs))]


def _gen_filter(rng, comps, depth=0):
    r = rng.below(12)
    if r < 4 or depth >= 2:
        return ("n",) if r < 2 else ("h", rng.choice(comps))
    if r < 6:
        return ("!", _gen_filter(rng, comps, depth + 1))
    if r < 8:
        return ("&", _gen_filter(rng, comps, depth + 1), _gen_filter(rng, comps, depth + 1))
    if r < 10:
        return ("|", _gen_filter(rng, comps, depth + 1), _gen_filter(rng, comps, depth + 1))
    # views used as a filter
    k = rng.choice(["r", "m", "or", "om"])
    return ("v", [(k, rng.choice(comps))])


def query_family(n):
    """Deterministic family of (views, filter): views = list of (kind, comp) with kind in r/m/or/om/id."""
    rng = _Rng(0xC03 + n)
    focus = list(range(n)) if n <= 6 else [c for c in [0, 1, 3, 6, 7, 8, 9, 10, 12, 14, 15] if c < n]
    fam = [([], ("n",)), ([("id", -1)], ("n",)), ([("r", focus[0])], ("n",)),
           ([("om", focus[2]), ("id", -1), ("r", focus[0])], ("!", ("h", focus[1]))),
           ([("or", focus[1]), ("or", focus[2])], ("|", ("h", focus[0]), ("h", focus[3]))),
           ([("m", focus[-1]), ("r", focus[-2])], ("n",))]
    count = 40 if n <= 6 else 18
    while len(fam) < count:
        nv = rng.choice([0, 1, 1, 2, 2, 3, 3, 4])
        pool = focus[:]
        views = []
        for _ in range(nv):
            c = pool.pop(rng.below(len(pool)))
            views.append((rng.choice(["r", "m", "or", "om"]), c))
        if rng.below(3) == 0:
            views.insert(rng.below(len(views) + 1), ("id", -1))
        fam.append((views, _gen_filter(rng, focus)))
    return fam


SUB_OF = {"r": ["r", "or"], "m": ["r", "m", "or", "om"], "or": ["r", "or"], "om": ["r", "m", "or", "om"]}


def entries_family(n):
    """(declared entry views E, sub-views S of E, filter over the components of E)."""
    rng = _Rng(0xE17 + n)
    focus = list(range(n)) if n <= 6 else [c for c in [0, 1, 3, 6, 7, 8, 9, 10, 12, 14, 15] if c < n]
    fam = []
    count = 24 if n <= 6 else 10
    # directed: every (entry view kind, sub-view kind) on the LAST component of the registry alone (boundary of the
    # index arithmetic), and on the first one next to it
    last = n - 1
    for ek in ("r", "m", "or", "om"):
        for sk in SUB_OF[ek]:
            fam.append(([(ek, last)], [(sk, last)], ("n",)))
    fam.append(([("r", 0), ("r", last)], [("or", last), ("or", 0)], ("n",)))
    count += len(fam)
    while len(fam) < count:
        ne = rng.choice([1, 2, 2, 3, 3, 4])
        pool = focus[:]
        E = []
        for _ in range(min(ne, len(pool))):
            c = pool.pop(rng.below(len(pool)))
            E.append((rng.choice(["r", "m", "or", "om", "om"]), c))
        if rng.below(4) == 0:
            E.insert(rng.below(len(E) + 1), ("id", -1))
        comps = [c for k, c in E if k != "id"]
        S = []
        for k, c in E:
            if rng.below(3) == 0:
                continue
            S.append(("id", -1) if k == "id" else (rng.choice(SUB_OF[k]), c))
        if rng.below(2) == 0:
            S.reverse()
        F = _gen_filter(rng, comps) if comps else ("n",)
        if F[0] == "v" or any(x[0] == "v" for x in F[1:] if isinstance(x, tuple)):
            F = ("n",)
        fam.append((E, S, F))
    return fam


def filter_text(f):
    """serialisation read by the model driver"""
    if f[0] == "n":
        return "n"
    if f[0] == "h":
        return "h%d" % f[1]
    if f[0] == "!":
        return "!" + filter_text(f[1])
    if f[0] in "&|":
        return "%s(%s,%s)" % (f[0], filter_text(f[1]), filter_text(f[2]))
    return "v[%s]" % views_text(f[1])


def views_text(vs):
    return ";".join("id" if k == "id" else "%s%d" % (k, c) for k, c in vs) or "-"


def _view_ty(k, c, lt=""):
    if k == "id":
        return "entity::Identifier"
    t = "C%d" % c
    return {"r": "&%s%s" % (lt, t), "m": "&%smut %s" % (lt, t), "or": "Option<&%s%s>" % (lt, t),
            "om": "Option<&%smut %s>" % (lt, t)}[k]


def _views_ty(vs, lt=""):
    return "Views!(%s)" % ", ".join(_view_ty(k, c, lt) for k, c in vs)


def _filter_ty(f):
    if f[0] == "n":
        return "filter::None"
    if f[0] == "h":
        return "filter::Has<C%d>" % f[1]
    if f[0] == "!":
        return "filter::Not<%s>" % _filter_ty(f[1])
    if f[0] == "&":
        return "filter::And<%s, %s>" % (_filter_ty(f[1]), _filter_ty(f[2]))
    if f[0] == "|":
        return "filter::Or<%s, %s>" % (_filter_ty(f[1]), _filter_ty(f[2]))
    (k, c), = f[1]
    return _view_ty(k, c, "'static ")


def _fmt_item(name, k):
    if k == "id":
        return "{ let p = brood_verif_harness::id_parts(%s); format!(\"{}:{}\", p.0, p.1) }" % name
    if k in ("r", "m"):
        return "format!(\"v{}\", %s.tok())" % name
    return "match &%s { Some(x) => format!(\"s{}\", x.tok()), None => String::from(\"n\") }" % name


def emit_queries(w, n):
    fam = query_family(n)
    w("pub const NQ: usize = %d;" % len(fam))
    w("")
    w("fn hint_flag(hints: &[(usize, Option<usize>)], total: usize) -> Option<String> {")
    w("    for (j, (lo, hi)) in hints.iter().enumerate() {")
    w("        let rem = total - j.min(total);")
    w("        if *lo > rem || hi.map_or(false, |h| h < rem) { return Some(format!(\"size_hint({},{:?})-before-next-{}-with-{}-left\", lo, hi, j, rem)); }")
    w("    }")
    w("    None")
    w("}")
    w("")
    w("/// Query k of the family: every result row in iteration order, and a flag if size_hint ever failed to bracket what was left.")
    w("/// mode 0: next() until None, size_hint recorded before every call; mode 1: for_each on a fresh iterator (fold);")
    w("/// mode 2: one next(), then for_each on the rest; mode 3: two next(), then the rest through by_ref().fold.")
    w("pub fn run_query(w: &mut W, k: usize, mode: usize) -> (Vec<String>, Option<String>) {")
    w("    let mut rows = Vec::new();")
    w("    let mut hints = Vec::new();")
    w("    match k {")
    for qi, (vs, f) in enumerate(fam):
        names = ["x%d" % i for i in range(len(vs))]
        pat = "result!(%s)" % ", ".join(names) if vs else "_"
        items = ", ".join(_fmt_item(nm, k) for nm, (k, c) in zip(names, vs))
        w("        %d => {" % qi)
        push = "rows.push(vec![%s].join(\",\"))" % items if vs else "rows.push(String::new())"
        w("            let mut it = w.query(Query::<%s, %s>::new()).iter;" % (_views_ty(vs), _filter_ty(f)))
        w("            if mode == 0 {")
        w("                loop {")
        w("                    hints.push(it.size_hint());")
        w("                    match it.next() {")
        w("                        Some(%s) => %s," % (pat, push))
        w("                        None => break,")
        w("                    }")
        w("                }")
        w("            } else {")
        w("                for _ in 0..(mode - 1) {")
        w("                    if let Some(%s) = it.next() { %s; }" % (pat, push))
        w("                }")
        w("                let rest = it.size_hint();")
        w("                let before = rows.len();")
        w("                if mode == 3 { it.by_ref().fold((), |(), %s| { %s; }); } else { it.for_each(|%s| { %s; }); }" % (pat, push, pat, push))
        w("                let got = rows.len() - before;")
        w("                if rest.0 > got || rest.1.map_or(false, |h| h < got) { hints.clear(); return (rows, Some(format!(\"size_hint({},{:?})-but-fold-yielded-{}\", rest.0, rest.1, got))); }")
        w("            }")
        w("        }")
    w("        _ => panic!(\"query {} is not in the family\", k),")
    w("    }")
    w("    let flag = hint_flag(&hints, rows.len());")
    w("    (rows, flag)")
    w("}")
    w("")
    w("/// The same query through World::entry(id).query(..).")
    w("pub fn run_entry_query(w: &mut W, id: entity::Identifier, k: usize) -> Option<Option<String>> {")
    w("    let mut e = w.entry(id)?;")
    w("    Some(match k {")
    for qi, (vs, f) in enumerate(fam):
        names = ["x%d" % i for i in range(len(vs))]
        pat = "result!(%s)" % ", ".join(names) if vs else "_"
        items = ", ".join(_fmt_item(nm, k) for nm, (k, c) in zip(names, vs))
        body = "vec![%s].join(\",\")" % items if vs else "String::new()"
        w("        %d => e.query(Query::<%s, %s>::new()).map(|%s| %s)," % (qi, _views_ty(vs), _filter_ty(f), pat, body))
    w("        _ => panic!(\"query {} is not in the family\", k),")
    w("    })")
    w("}")
    w("")
    # ---- parallel counterparts (C09)
    ZST = (1, 9)
    w("/// Query k through par_query: rows as collected from the parallel iterator, and a flag if two items of the")
    w("/// iteration gave mutable access to the same address (zero-sized components excluded).")
    w("pub fn run_par_query(w: &mut W, k: usize) -> (Vec<String>, Option<String>) {")
    w("    use rayon::iter::ParallelIterator;")
    w("    let items: Vec<(String, Vec<usize>)> = match k {")
    for qi, (vs, f) in enumerate(fam):
        names = ["x%d" % i for i in range(len(vs))]
        pat = "result!(%s)" % ", ".join(names) if vs else "_"
        items = ", ".join(_fmt_item(nm, k) for nm, (k, c) in zip(names, vs))
        row = "vec![%s].join(\",\")" % items if vs else "String::new()"
        addrs = []
        for nm, (k, c) in zip(names, vs):
            if c in ZST:
                continue
            if k == "m":
                addrs.append("a.push(&*%s as *const _ as usize);" % nm)
            elif k == "om":
                addrs.append("if let Some(y) = &%s { a.push(&**y as *const _ as usize); }" % nm)
        w("        %d => w.par_query(Query::<%s, %s>::new()).iter.map(|%s| { let mut a: Vec<usize> = Vec::new(); %s (%s, a) }).collect(),"
          % (qi, _views_ty(vs), _filter_ty(f), pat, " ".join(addrs), row))
    w("        _ => panic!(\"query {} is not in the family\", k),")
    w("    };")
    w("    let mut all: Vec<usize> = items.iter().flat_map(|x| x.1.iter().copied()).collect();")
    w("    let n = all.len();")
    w("    all.sort();")
    w("    all.dedup();")
    w("    let flag = if all.len() != n { Some(format!(\"alias:{}-mutable-items-{}-distinct-addresses\", n, all.len())) } else { None };")
    w("    (items.into_iter().map(|x| x.0).collect(), flag)")
    w("}")
    w("")
    w("/// The mutable query of run_query_write through par_query(..).iter.for_each.")
    w("pub fn run_par_query_write(w: &mut W, k: usize, delta: u64) -> usize {")
    w("    use rayon::iter::ParallelIterator;")
    w("    let n = std::sync::atomic::AtomicUsize::new(0);")
    w("    match k {")
    for qi, (vs, f) in enumerate(fam):
        names = ["x%d" % i for i in range(len(vs))]
        pat = "result!(%s)" % ", ".join(names) if vs else "_"
        stm = []
        for nm, (k, c) in zip(names, vs):
            if k == "m":
                stm.append("{ let t = %s.tok(); *%s = C%d::new(t.wrapping_add(delta)); n.fetch_add(1, std::sync::atomic::Ordering::Relaxed); }" % (nm, nm, c))
            elif k == "om":
                stm.append("if let Some(y) = %s { let t = y.tok(); *y = C%d::new(t.wrapping_add(delta)); n.fetch_add(1, std::sync::atomic::Ordering::Relaxed); }" % (nm, c))
        if not stm:
            w("        %d => {}" % qi)
            continue
        w("        %d => { w.par_query(Query::<%s, %s>::new()).iter.for_each(|%s| { %s }); }"
          % (qi, _views_ty(vs), _filter_ty(f), pat, " ".join(stm)))
    w("        _ => panic!(\"query {} is not in the family\", k),")
    w("    }")
    w("    n.into_inner()")
    w("}")
    w("")
    efam = entries_family(n)
    w("pub const NE: usize = %d;" % len(efam))
    w("/// Query-time Entries: a query declaring entry views E, then entries.entry(id).query(sub-views S, filter F).")
    w("pub fn run_entries_query(w: &mut W, id: entity::Identifier, k: usize) -> Option<Option<String>> {")
    w("    match k {")
    for qi, (E, S, F) in enumerate(efam):
        names = ["x%d" % i for i in range(len(S))]
        pat = "result!(%s)" % ", ".join(names) if S else "_"
        items = ", ".join(_fmt_item(nm, k) for nm, (k, c) in zip(names, S))
        body = "vec![%s].join(\",\")" % items if S else "String::new()"
        w("        %d => {" % qi)
        w("            let mut res = w.query(Query::<Views!(), filter::None, Views!(), %s>::new());" % _views_ty(E))
        w("            let mut e = res.entries.entry(id)?;")
        w("            Some(e.query(Query::<%s, %s>::new()).map(|%s| %s))" % (_views_ty(S), _filter_ty(F), pat, body))
        w("        }")
    w("        _ => panic!(\"entries query {} is not in the family\", k),")
    w("    }")
    w("}")
    w("")
    w("/// Query k again, overwriting every component reached through a mutable view with `new(old + delta)`.")
    w("pub fn run_query_write(w: &mut W, k: usize, delta: u64) -> usize {")
    w("    let mut n = 0usize;")
    w("    match k {")
    for qi, (vs, f) in enumerate(fam):
        names = ["x%d" % i for i in range(len(vs))]
        pat = "result!(%s)" % ", ".join(names) if vs else "_"
        stm = []
        for nm, (k, c) in zip(names, vs):
            if k == "m":
                stm.append("{ let t = %s.tok(); *%s = C%d::new(t.wrapping_add(delta)); n += 1; }" % (nm, nm, c))
            elif k == "om":
                stm.append("if let Some(y) = %s { let t = y.tok(); *y = C%d::new(t.wrapping_add(delta)); n += 1; }" % (nm, c))
        if not stm:
            w("        %d => {}" % qi)
            continue
        w("        %d => { for %s in w.query(Query::<%s, %s>::new()).iter { %s } }"
          % (qi, pat, _views_ty(vs), _filter_ty(f), " ".join(stm)))
    w("        _ => panic!(\"query {} is not in the family\", k),")
    w("    }")
    w("    n")
    w("}")


def emit(n, masks, path, modname):
    out = []
    w = out.append
    w("// @generated by tools/gen_harness.py — do not edit.")
    w("#![allow(unused_variables, unused_mut, clippy::all)]")
    w("use brood_verif_harness::comps::*;")
    w("use brood::{entities, entity, entities::Batch, query::{filter, result, Views}, Entity, Query};")
    w("")
    w("pub const N: usize = %d;" % n)
    w("pub type R = brood::Registry!(%s);" % ", ".join("C%d" % k for k in range(n)))
    w("pub type W = brood::World<R, Res4>;")
    w("")
    w("pub fn new_world(a: u64, b: u64, c: u64, d: u64) -> W {")
    w("    W::with_resources(brood::resources!(RA::new(a), RB::new(b), RC::new(c), RD::new(d)))")
    w("}")
    w("")
    w("pub fn do_insert(w: &mut W, mask: u32, desc: bool, v: &[u64]) -> entity::Identifier {")
    w("    match (mask, desc) {")
    for m in masks:
        for desc in (False, True):
            cs = comps(n, m)
            if desc and len(cs) > 6:
                continue
            if desc:
                cs = cs[::-1]
            args = ", ".join("C%d::new(v[%d])" % (k, k) for k in cs)
            w("        (%d, %s) => w.insert(entity!(%s))," % (m, str(desc).lower(), args))
    w("        _ => panic!(\"shape {} is not instantiated\", mask),")
    w("    }")
    w("}")
    w("")
    w("pub fn do_extend(w: &mut W, mask: u32, desc: bool, rows: usize, cols: &[Vec<u64>]) -> Vec<entity::Identifier> {")
    w("    match (mask, desc) {")
    for m in masks:
        for desc in (False, True):
            cs = comps(n, m)
            if desc and len(cs) > 6:
                continue
            if desc:
                cs = cs[::-1]
            if not cs:
                w("        (%d, %s) => w.extend(entities!((); rows))," % (m, str(desc).lower()))
                continue
            h = "entities::Null"
            for k in cs[::-1]:
                h = "(cols[%d].iter().map(|&t| C%d::new(t)).collect::<Vec<_>>(), %s)" % (k, k, h)
            w("        (%d, %s) => w.extend(Batch::new(%s))," % (m, str(desc).lower(), h))
    w("        _ => panic!(\"shape {} is not instantiated\", mask),")
    w("    }")
    w("}")
    w("")
    w("pub fn do_reserve(w: &mut W, mask: u32, desc: bool, k: usize) {")
    w("    match (mask, desc) {")
    for m in masks:
        for desc in (False, True):
            cs = comps(n, m)
            if desc and len(cs) > 6:
                continue
            if desc:
                cs = cs[::-1]
            tys = ", ".join("C%d" % k for k in cs)
            w("        (%d, %s) => w.reserve::<Entity!(%s), _>(k)," % (m, str(desc).lower(), tys))
    w("        _ => panic!(\"shape {} is not instantiated\", mask),")
    w("    }")
    w("}")
    w("")
    # query_all: identifier + Option<&Ck> for every k
    w("/// Every stored entity through the public query API: (index, generation), shape bits, values of present components.")
    w("pub fn query_all(w: &mut W) -> Vec<((usize, u64), String, Vec<u64>)> {")
    if n <= 6:
        w("    let mut out = Vec::new();")
        names = ", ".join("c%d" % k for k in range(n))
        views = ", ".join("Option<&C%d>" % k for k in range(n))
        w("    for result!(id, %s) in w.query(Query::<Views!(entity::Identifier, %s), filter::None>::new()).iter {" % (names, views))
        w("        let mut bits = String::new();")
        w("        let mut v = Vec::new();")
        for k in range(n):
            w("        match c%d { Some(x) => { bits.push('1'); v.push(x.tok()); } None => bits.push('0') }" % k)
        w("        out.push((brood_verif_harness::id_parts(id), bits, v));")
        w("    }")
        w("    out")
    else:
        # a %d-view query costs minutes of trait resolution: several narrow queries, joined on the identifier
        w("    use std::collections::BTreeMap;")
        w("    let mut rows: BTreeMap<(usize, u64), Vec<Option<u64>>> = BTreeMap::new();")
        w("    let mut order: Vec<(usize, u64)> = Vec::new();")
        w("    let mut dup: Vec<(usize, u64)> = Vec::new();")
        for g in range(0, n, 4):
            ks = list(range(g, min(n, g + 4)))
            names = ", ".join("c%d" % k for k in ks)
            views = ", ".join("Option<&C%d>" % k for k in ks)
            w("    {")
            w("        let mut seen = std::collections::BTreeSet::new();")
            w("        for result!(id, %s) in w.query(Query::<Views!(entity::Identifier, %s), filter::None>::new()).iter {" % (names, views))
            w("            let idp = brood_verif_harness::id_parts(id);")
            w("            if !seen.insert(idp) { dup.push(idp); }")
            if g == 0:
                w("            order.push(idp);")
            w("            let e = rows.entry(idp).or_insert_with(|| vec![None; %d]);" % n)
            for k in ks:
                w("            e[%d] = c%d.map(|x| x.tok());" % (k, k))
            w("        }")
            w("    }")
        w("    let mut out = Vec::new();")
        w("    for idp in order.into_iter().chain(dup.into_iter()) {")
        w("        let r = &rows[&idp];")
        w("        let bits: String = r.iter().map(|x| if x.is_some() { '1' } else { '0' }).collect();")
        w("        out.push((idp, bits, r.iter().filter_map(|x| *x).collect()));")
        w("    }")
        w("    out")
    w("}")
    w("")
    w("/// Entry::add (\"ead\"), Entry::remove (\"erm\") or a write through `&mut C` obtained from Entry::query (\"wrt\").")
    w("pub fn by_comp(w: &mut W, op: &str, id: entity::Identifier, c: usize, val: u64) -> bool {")
    w("    macro_rules! go {")
    w("        ($c:ident) => {")
    w("            match op {")
    w("                \"ead\" => match w.entry(id) { Some(mut e) => { e.add($c::new(val)); true } None => false },")
    w("                \"erm\" => match w.entry(id) { Some(mut e) => { e.remove::<$c, _>(); true } None => false },")
    w("                _ => match w.entry(id) {")
    w("                    Some(mut e) => match e.query(Query::<Views!(&mut $c)>::new()) {")
    w("                        Some(result!(x)) => { *x = $c::new(val); true }")
    w("                        None => false,")
    w("                    },")
    w("                    None => false,")
    w("                },")
    w("            }")
    w("        };")
    w("    }")
    w("    match c {")
    for k in range(n):
        w("        %d => go!(C%d)," % (k, k))
    w("        _ => panic!(\"component {} out of range\", c),")
    w("    }")
    w("}")
    w("")
    w("/// One Entry kept across two calls: remove::<C>() under catch_unwind (the detached value's Drop may panic),")
    w("/// then add(C2) through the SAME entry.  Returns None without an entry, else whether the removal panicked.")
    w("pub fn entry_remove_then_add(w: &mut W, id: entity::Identifier, c: usize, c2: usize, val: u64) -> Option<bool> {")
    w("    let mut e = w.entry(id)?;")
    w("    let panicked = match c {")
    for k in range(n):
        w("        %d => std::panic::catch_unwind(std::panic::AssertUnwindSafe(|| { e.remove::<C%d, _>(); })).is_err()," % (k, k))
    w("        _ => panic!(\"component {} out of range\", c),")
    w("    };")
    w("    match c2 {")
    for k in range(n):
        w("        %d => { e.add(C%d::new(val)); }" % (k, k))
    w("        _ => panic!(\"component {} out of range\", c2),")
    w("    }")
    w("    Some(panicked)")
    w("}")
    w("")
    w("/// Two operations through ONE `Entry`: `add(c1)` and then `add(c2)` (or `remove::<c2>()`): the handle must follow the")
    w("/// entity into its new archetype.")
    w("pub fn entry_add_then(w: &mut W, id: entity::Identifier, c1: usize, v1: u64, c2: usize, v2: u64, rm: bool) -> Option<()> {")
    w("    let mut e = w.entry(id)?;")
    w("    match c1 {")
    for k in range(n):
        w("        %d => { e.add(C%d::new(v1)); }" % (k, k))
    w("        _ => panic!(\"component {} out of range\", c1),")
    w("    }")
    w("    match (c2, rm) {")
    for k in range(n):
        w("        (%d, false) => { e.add(C%d::new(v2)); }" % (k, k))
        w("        (%d, true) => { e.remove::<C%d, _>(); }" % (k, k))
    w("        _ => panic!(\"component {} out of range\", c2),")
    w("    }")
    w("    Some(())")
    w("}")
    w("")
    w("pub fn res_values(w: &W) -> [u64; 4] {")
    w("    [w.get::<RA, _>().tok(), w.get::<RB, _>().tok(), w.get::<RC, _>().tok(), w.get::<RD, _>().tok()]")
    w("}")
    w("")
    w("/// Requests resource views in %d different subsets/orders/mutabilities and compares each with `get`." % len(RES_ORDERS))
    w("pub fn res_view_check(w: &mut W) -> Option<String> {")
    w("    let want = res_values(w);")
    for oi, perm in enumerate(RES_ORDERS):
        kinds = [((oi + j) % 2 == 1) for j in range(len(perm))] if len(perm) <= 2 else [oi % 2 == 1] * len(perm)
        tys = ", ".join(("&mut %s" if m else "&%s") % RNAMES[i] for i, m in zip(perm, kinds))
        vs = ", ".join("v%d" % j for j in range(len(perm)))
        w("    {")
        w("        let result!(%s) = w.view_resources::<Views!(%s), _>();" % (vs, tys))
        got = ", ".join("v%d.tok()" % j for j in range(len(perm)))
        exp = ", ".join("want[%d]" % i for i in perm)
        w("        if [%s] != [%s] { return Some(format!(\"order%s got {:?}\", [%s])); }" % (got, exp, "".join(map(str, perm)), got))
        w("    }")
    w("    None")
    w("}")
    w("")
    w("/// Overwrite resource i through get_mut (via 0), a single mutable view (via 1), or a two-resource view with i second (via 2).")
    w("pub fn set_res(w: &mut W, i: usize, v: u64, via: usize) {")
    w("    match (i, via) {")
    for i in range(4):
        other = RNAMES[(i + 1) % 4]
        w("        (%d, 0) => *w.get_mut::<%s, _>() = %s::new(v)," % (i, RNAMES[i], RNAMES[i]))
        w("        (%d, 1) => { let result!(r) = w.view_resources::<Views!(&mut %s), _>(); *r = %s::new(v); }" % (i, RNAMES[i], RNAMES[i]))
        w("        (%d, _) => { let result!(_o, r) = w.view_resources::<Views!(&%s, &mut %s), _>(); *r = %s::new(v); }"
          % (i, other, RNAMES[i], RNAMES[i]))
    w("        _ => panic!(\"resource {} out of range\", i),")
    w("    }")
    w("}")
    w("")
    emit_queries(w, n)
    text = "\n".join(out) + "\n"
    old = open(path).read() if os.path.exists(path) else None
    if old != text:
        open(path, "w").write(text)


if __name__ == "__main__":
    d = sys.argv[1]
    emit(5, list(range(32)), os.path.join(d, "gen_r5.rs"), "gen_r5")
    emit(16, PALETTE16, os.path.join(d, "gen_r16.rs"), "gen_r16")
    emit(9, PALETTE9, os.path.join(d, "gen_r9.rs"), "gen_r9")
