(** [World::len] across operations that can be interrupted by a panic ([world/mod.rs] clear, extend;
    [archetypes/mod.rs] clear): C13 asks that len() equal the number of stored entities at every moment,
    hence also in the state a caught panic leaves behind.

    [World::clear] clears the archetypes one after the other; a panic of a component's Drop while
    archetype [k] is being cleared leaves that archetype empty (its length is reset before the drops:
    [fact_clear_sets_length_first]) and the later ones untouched.  Whether the world's count is taken down
    archetype by archetype ([fact_clear_subtracts_len_per_archetype]) or set to 0 at the very end (before
    the repair of F13) is read off the source.

    [World::extend]: storing the batch can panic before anything is stored.  Whether the batch is counted
    after it has been stored ([fact_extend_counts_after_storing]) or before (F16) is read off the source.
    Definitions only. *)
From Brood Require Export Base.
From Brood Require Export Facts.

Definition total (ns : list nat) : nat := fold_right Nat.add 0 ns.

(** sizes of the archetypes in table order, the count the world keeps, the archetype a panic happens in *)
Definition clear_len_gen (per_arch : bool) (ns : list nat) (len : nat) (fault : option nat) : list nat * nat :=
  match fault with
  | None => (map (fun _ => 0) ns, if per_arch then len - total ns else 0)
  | Some k =>
      (map (fun _ => 0) (firstn (S k) ns) ++ skipn (S k) ns,
       if per_arch then len - total (firstn (S k) ns) else len)
  end.
Definition clear_len (ns : list nat) (len : nat) (fault : option nat) : list nat * nat :=
  clear_len_gen fact_clear_subtracts_len_per_archetype ns len fault.

(** a batch of [n] entities; [panics]: storing it panics (nothing is stored).  Returns (stored, len) *)
Definition extend_len_gen (after : bool) (len n : nat) (panics : bool) : nat * nat :=
  if panics then (0, if after then len else len + n) else (n, len + n).
Definition extend_len (len n : nat) (panics : bool) : nat * nat :=
  extend_len_gen fact_extend_counts_after_storing len n panics.
