//! Shared pieces of the verification harness: instrumented component and
//! resource types with a process-global ledger.
pub mod ledger;
pub mod comps;
pub mod gen_r5;
