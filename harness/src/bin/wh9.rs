//! World-history driver over the 9-component registry R9 (2-byte identifiers, LEN % 8 == 1).
use brood::entity;
#[path = "../gen_r9.rs"]
mod gen;
use gen::*;
include!("../wh_main.rs");
