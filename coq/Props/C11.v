(** C11 — Deserializing untrusted input yields an error or a fully valid world.
    Property theorems only; proofs are in Proofs/SerdeCFacts.v and Proofs/SerdeL.v.
    The model works on the serialized *content* (identifier bytes, declared
    lengths, rows, allocator length, free list, resources): [de_content]
    (Model/SerdeC.v, Model/Multi.v) mirrors the checks of the deserializer in the
    order the visitors make them.  Token-level malformation (wrong token kinds,
    truncated streams) is what serde itself rejects and is exercised on the real
    code only (PARTIAL, see DESIGN.md).  The cleanup of a failed row-wise table
    is modelled at the cell level (Model/DeRows.v): whatever row fails, at
    whatever cell, with or without surplus tokens, every value created is
    dropped exactly once — with the two repairs of finding F9 read off the
    source (Gen/Facts.v) and each shown necessary; likewise for a column-wise
    table (Model/DeCols.v; finding F14: an error of the deserializer after a
    column was read). *)
From Coq Require Import Permutation.
From Brood Require Import Base World Multi SerdeC BaseFacts Inv StepInv SerdeL SerdeCFacts DeRows DeRowsFacts DeCols DeColsFacts.

(** For ALL content — identifiers listed twice, listed as free and as stored,
    out of range or missing, archetypes repeated, wrong declared lengths, rows of
    the wrong width, padding bits set, extra or missing identifier bytes — the
    result is an error or a world satisfying the structural invariant: every
    identifier resolves to exactly one entity, lengths agree, and every theorem
    stated over [Inv] (C01 C02 C03 C04 C06 C10 C13 C16) applies to it. *)
Theorem C11_valid_or_error : forall n archs len free res,
  match de_content n archs len free res with
  | inr w => Inv w
  | inl _ => True
  end.
Proof.
  intros n archs len free res. destruct (de_content n archs len free res) as [e|w] eqn:E; [exact I|].
  eapply de_content_inv. exact E.
Qed.
Check (C11_valid_or_error : forall n archs len free res,
  match de_content n archs len free res with
  | inr w => Inv w
  | inl _ => True
  end).
Print Assumptions C11_valid_or_error.

(** ... and such a world never misbehaves later: no history from it gets stuck
    on an unchecked access, and the invariant is kept. *)
Theorem C11_never_misbehaves : forall n archs len free res w ops,
  de_content n archs len free res = inr w -> run w ops <> None.
Proof.
  intros n archs len free res w ops E. apply run_safe. eapply de_content_inv. exact E.
Qed.
Check (C11_never_misbehaves : forall n archs len free res w ops,
  de_content n archs len free res = inr w -> run w ops <> None).
Print Assumptions C11_never_misbehaves.

(** The identifier padding check as the code writes it ([byte & (255 << bit) != 0] in u8
    arithmetic) fires exactly when a bit at a position >= LEN % 8 of the last byte is set. *)
Theorem C11_padding_check : forall byte bit, (byte < 256)%N -> 1 <= bit < 8 ->
  (last_byte_check byte bit = true <-> exists i, bit <= i < 8 /\ byte_bit byte i = true).
Proof. exact padding_check_exact. Qed.
Check (C11_padding_check : forall byte bit, (byte < 256)%N -> 1 <= bit < 8 ->
  (last_byte_check byte bit = true <-> exists i, bit <= i < 8 /\ byte_bit byte i = true)).
Print Assumptions C11_padding_check.

(** What the serializer writes for an archetype is accepted and decodes to that
    archetype (registries of up to 16 components: a finite check, bound stated). *)
Theorem C11_decode_encode : forall n a, length (a_shape a) = n -> n <= 16 ->
  (forall rw, In rw (a_rows a) -> length (snd rw) = count_true (a_shape a)) ->
  decode_arch n (encode_arch a) = inr a.
Proof. exact decode_encode_arch. Qed.
Check (C11_decode_encode : forall n a, length (a_shape a) = n -> n <= 16 ->
  (forall rw, In rw (a_rows a) -> length (snd rw) = count_true (a_shape a)) ->
  decode_arch n (encode_arch a) = inr a).
Print Assumptions C11_decode_encode.

(** Non-vacuity: an identifier stored in two archetypes, an identifier both free
    and stored, a padding bit, a missing slot are all rejected; valid content is accepted. *)
Example C11_example :
  let a1 := mkSArch [1%N] 1 [((0, 0%N), [5%N])] in
  let a2 := mkSArch [3%N] 1 [((0, 0%N), [6%N; 7%N])] in
  let a3 := mkSArch [3%N] 1 [((1, 0%N), [6%N; 7%N])] in
  (exists e, de_content 2 [a1; a2] 2 [] [] = inl e) /\
  (exists e, de_content 2 [a1; a3] 2 [(1, 0%N)] [] = inl e) /\
  (exists e, de_content 2 [mkSArch [5%N] 0 []] 0 [] [] = inl e) /\
  (exists e, de_content 2 [a1; a3] 3 [] [] = inl e) /\
  (exists w, de_content 2 [a1; a3] 3 [(2, 4%N)] [] = inr w).
Proof. vm_compute. repeat split; eexists; reflexivity. Qed.


(** Row-wise (human-readable) table, any number of columns, any declared length, any rows — short,
    long, ill-typed at any cell, too few rows: a failure drops exactly the values it created, a
    success drops nothing and stores exactly the values it created, [len] per column. *)
Theorem C11_failed_table_drops_what_it_created : forall ncols len rows,
  match de_table_src ncols len rows with
  | (None, evs) => Permutation (made evs) (gone evs)
  | (Some cols', evs) => gone evs = [] /\ Permutation (made evs) (concat cols') /\ Forall (fun c => length c = len) cols'
  end.
Proof. exact de_table_src_conserves. Qed.
Check (C11_failed_table_drops_what_it_created : forall ncols len rows,
  match de_table_src ncols len rows with
  | (None, evs) => Permutation (made evs) (gone evs)
  | (Some cols', evs) => gone evs = [] /\ Permutation (made evs) (concat cols') /\ Forall (fun c => length c = len) cols'
  end).
Print Assumptions C11_failed_table_drops_what_it_created.

(** finding F9 as it was before the repair: without either of the two, a value is created and never dropped *)
Theorem C11_F9_without_the_repair :
  (let '(res, evs) := de_table false true 2 1 [[Some 1%N; None]] in res = None /\ made evs = [1%N] /\ gone evs = []) /\
  (let '(res, evs) := de_table true false 2 1 [[Some 1%N; Some 2%N; Some 3%N]] in res = None /\ made evs = [1%N; 2%N] /\ gone evs = []).
Proof. exact (conj no_pop_leaks no_flag_leaks). Qed.
Print Assumptions C11_F9_without_the_repair.

Example C11_table_example : de_table_src 2 2 [[Some 1%N; Some 2%N]; [Some 3%N; None]]
  = (None, [Made 1%N; Made 2%N; Made 3%N; Gone 3%N; Gone 1%N; Gone 2%N]).
Proof. vm_compute. reflexivity. Qed.

(** Column-wise (compact) table, any number of columns, any declared length, any columns — short, long
    (the deserializer then fails AFTER the column's visitor has returned), ill-typed at any element, too
    few columns: a failure drops exactly the values it created, a success drops nothing and stores exactly
    the values it created, [len] per column.  This is finding F14 REPAIRED: the visitor hands the column
    back as an owned [Vec], which is read off the source ([fact_de_column_returns_owned_vec]). *)
Theorem C11_failed_column_table_drops_what_it_created : forall ncols len cols,
  match de_ctable_src ncols len cols with
  | (None, evs) => Permutation (made evs) (gone evs)
  | (Some res, evs) => gone evs = [] /\ Permutation (made evs) (concat res) /\ Forall (fun c => length c = len) res
  end.
Proof. exact de_ctable_src_conserves. Qed.
Check (C11_failed_column_table_drops_what_it_created : forall ncols len cols,
  match de_ctable_src ncols len cols with
  | (None, evs) => Permutation (made evs) (gone evs)
  | (Some res, evs) => gone evs = [] /\ Permutation (made evs) (concat res) /\ Forall (fun c => length c = len) res
  end).
Print Assumptions C11_failed_column_table_drops_what_it_created.

(** finding F14 as it was before the repair: raw parts handed back through the deserializer, a trailing element *)
Theorem C11_F14_without_the_repair :
  let '(res, evs) := de_ctable false 1 2 [[Some 1%N; Some 2%N; Some 3%N]] in
  res = None /\ made evs = [1%N; 2%N] /\ gone evs = [].
Proof. exact raw_parts_leak. Qed.
Print Assumptions C11_F14_without_the_repair.

Example C11_column_table_example : de_ctable_src 2 2 [[Some 1%N; Some 3%N]; [Some 2%N; None]]
  = (None, [Made 1%N; Made 3%N; Made 2%N; Gone 2%N; Gone 1%N; Gone 3%N]).
Proof. vm_compute. reflexivity. Qed.
