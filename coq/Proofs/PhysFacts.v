(** Proofs for C05/C17 at the cell level. *)
From Brood Require Import Base World Multi Phys BaseFacts.

(** every column holds live values in its first [pa_len] cells *)
Definition col_clean (len : nat) (col : list cell) : Prop :=
  forall r, r < len -> exists v, nth_error col r = Some (Owned v).
Definition Clean (a : parch) : Prop :=
  length (pa_cols a) = count_true (pa_shape a) /\ forall col, In col (pa_cols a) -> col_clean (pa_len a) col.

Lemma drop_cell_owned c v : drop_cell c (Owned v) = PDropped c v.
Proof. reflexivity. Qed.

(** * Dropping cells *)
Lemma drop_cells_clean : forall c cells f,
  (forall x, In x cells -> exists v, x = Owned v) ->
  double_drops (fst (fst (drop_cells c cells f))) = [].
Proof.
  induction cells as [|x t IH]; intros f H; cbn [drop_cells]; [reflexivity|].
  destruct (tick f) as [f' panics]. specialize (IH f' (fun y Hy => H y (or_intror Hy))).
  destruct (drop_cells c t f') as [[evs f''] p]. cbn [fst] in *.
  destruct (H x (or_introl eq_refl)) as [v ->]. cbn. exact IH.
Qed.

Lemma nth_error_firstn_lt A : forall (l : list A) n r, r < n -> nth_error (firstn n l) r = nth_error l r.
Proof.
  induction l as [|x t IH]; intros [|n] [|r] H; cbn; try reflexivity; try lia. apply IH. lia.
Qed.

Lemma firstn_clean len col : col_clean len col -> forall x, In x (firstn len col) -> exists v, x = Owned v.
Proof.
  intros H x Hx. apply In_nth_error in Hx as [r Hr].
  assert (Hlt : r < length (firstn len col)) by (apply nth_error_Some; congruence).
  rewrite firstn_length in Hlt.
  rewrite nth_error_firstn_lt in Hr by lia.
  destruct (H r ltac:(lia)) as [v Hv]. exists v. congruence.
Qed.

(** * Dropping a clean archetype never drops twice, whatever callback panics *)
Lemma free_cols_clean : forall comps len cols f,
  (forall col, In col cols -> col_clean len col) ->
  double_drops (fst (free_cols comps len cols f)) = [].
Proof.
  induction comps as [|c comps IH]; intros len cols f H; cbn [free_cols]; [reflexivity|].
  destruct cols as [|col cols']; [reflexivity|].
  pose proof (drop_cells_clean c (firstn len col) f (firstn_clean len col (H col (or_introl eq_refl)))) as D.
  destruct (drop_cells c (firstn len col) f) as [[evs f'] panicked]. cbn [fst] in D.
  destruct panicked; cbn [fst]; [exact D|].
  specialize (IH len cols' f' (fun x Hx => H x (or_intror Hx))).
  destruct (free_cols comps len cols' f') as [evs' p]. cbn [fst] in *.
  unfold double_drops in *. rewrite flat_map_app, D, IH. reflexivity.
Qed.

Theorem drop_clean_no_double a f : Clean a -> double_drops (fst (p_drop_arch a f)) = [].
Proof. intros [_ H]. unfold p_drop_arch. apply free_cols_clean. exact H. Qed.

(** * Overwriting a component (Entry::add on a present component, writes through &mut):
      clean before => clean after, even when the old value's Drop panics *)
Lemma upd_in A (i : nat) (f : A -> A) l x : In x (upd i f l) -> In x l \/ exists y, nth_error l i = Some y /\ x = f y.
Proof.
  revert i. induction l as [|a t IH]; intros [|i] H; cbn in *; try contradiction.
  - destruct H as [<-|H]; [right; exists a; auto|left; right; exact H].
  - destruct H as [<-|H]; [left; left; reflexivity|].
    destruct (IH i H) as [H'|(y & E & ->)]; [left; right; exact H'|right; exists y; auto].
Qed.

Theorem set_keeps_clean a r c v f a' evs p : Clean a -> p_set a r c v f = Some (a', evs, p) ->
  Clean a' /\ double_drops evs = [].
Proof.
  intros [HL HC] H. unfold p_set in H.
  destruct (nth_error (pa_cols a) (rank c (pa_shape a))) as [col|] eqn:Ec; [|discriminate].
  destruct (nth_error col r) as [old|] eqn:Eo; [|discriminate].
  destruct (Nat.ltb r (pa_len a)) eqn:Er; [|discriminate]. apply Nat.ltb_lt in Er.
  destruct (tick f) as [f' panics]. inversion H; subst a' evs p. clear H.
  assert (Hcol : col_clean (pa_len a) col) by (apply HC; eapply nth_error_In; exact Ec).
  split.
  - split; cbn [pa_cols pa_shape pa_len]; [rewrite upd_length; exact HL|].
    intros x Hx. apply upd_in in Hx as [Hx|(y & Ey & ->)]; [apply HC; exact Hx|].
    rewrite Ec in Ey. inversion Ey; subst y. intros r' Hr'.
    rewrite nth_error_upd. destruct (Nat.eqb r' r) eqn:E.
    + apply Nat.eqb_eq in E. rewrite E, Eo. cbn. eauto.
    + apply Hcol. exact Hr'.
  - destruct (Hcol r Er) as [v0 Hv0]. rewrite Eo in Hv0. inversion Hv0; subst old. reflexivity.
Qed.

(** * Removing a row without a fault keeps the store clean *)
Lemma col_swap_remove_clean i len col x col' : col_clean len col -> col_swap_remove i len col = Some (x, col') ->
  (exists v, x = Owned v) /\ col_clean (len - 1) col'.
Proof.
  intros HC H. unfold col_swap_remove in H.
  destruct (nth_error col i) as [xi|] eqn:Ei; [|discriminate].
  destruct (nth_error col (len - 1)) as [lastc|] eqn:El; [|discriminate].
  destruct (Nat.ltb i len) eqn:Hlt; [|discriminate]. apply Nat.ltb_lt in Hlt.
  inversion H; subst x col'. clear H.
  split; [destruct (HC i Hlt) as [v Hv]; exists v; congruence|].
  intros r Hr. rewrite nth_error_upd.
  assert (E1 : Nat.eqb r (len - 1) = false) by (apply Nat.eqb_neq; lia). rewrite E1.
  destruct (Nat.eqb i (len - 1)) eqn:E2.
  - apply HC. lia.
  - rewrite nth_error_upd. destruct (Nat.eqb r i) eqn:E3.
    + apply Nat.eqb_eq in E3. rewrite E3, Ei. cbn. destruct (HC (len - 1) ltac:(lia)) as [v Hv]. exists v. congruence.
    + apply HC. lia.
Qed.

Lemma remove_cols_clean : forall comps i len cols r evs p,
  (forall col, In col cols -> col_clean len col) ->
  remove_cols comps i len cols None = Some (r, evs, p) ->
  p = false /\ length r = length cols /\ (forall col, In col r -> col_clean (len - 1) col) /\ double_drops evs = [].
Proof.
  induction comps as [|c comps IH]; intros i len cols r evs p HC H; cbn [remove_cols] in H.
  - destruct cols; [|discriminate]. inversion H; subst. repeat split; auto. intros col [].
  - destruct cols as [|col cols']; [discriminate|].
    destruct (col_swap_remove i len col) as [[x col']|] eqn:Es; [|discriminate]. cbn [tick] in H.
    destruct (remove_cols comps i len cols' None) as [[[r' evs'] p']|] eqn:Er; [|discriminate].
    inversion H; subst r evs p. clear H.
    destruct (col_swap_remove_clean i len col x col' (HC col (or_introl eq_refl)) Es) as [[v ->] Hc'].
    destruct (IH i len cols' r' evs' p' (fun y Hy => HC y (or_intror Hy)) Er) as (-> & L & HR & DD).
    repeat split; cbn; auto.
    intros y [<-|Hy]; auto.
Qed.

(** the row leaves every column before any Drop runs *)
Lemma take_cols_clean : forall comps i len cols r taken,
  (forall col, In col cols -> col_clean len col) ->
  take_cols comps i len cols = Some (r, taken) ->
  length r = length cols /\ (forall col, In col r -> col_clean (len - 1) col) /\
  (forall c x, In (c, x) taken -> exists v, x = Owned v).
Proof.
  induction comps as [|c comps IH]; intros i len cols r taken HC H; cbn [take_cols] in H.
  - destruct cols; [|discriminate]. inversion H; subst.
    split; [reflexivity|]. split; [intros col []|intros c x []].
  - destruct cols as [|col cols']; [discriminate|].
    destruct (col_swap_remove i len col) as [[x col']|] eqn:Es; [|discriminate].
    destruct (take_cols comps i len cols') as [[r' taken']|] eqn:Er; [|discriminate].
    inversion H; subst r taken. clear H.
    destruct (col_swap_remove_clean i len col x col' (HC col (or_introl eq_refl)) Es) as [[v ->] Hc'].
    destruct (IH i len cols' r' taken' (fun y Hy => HC y (or_intror Hy)) Er) as (L & HR & HT).
    repeat split; cbn; auto.
    + intros y [<-|Hy]; auto.
    + intros c0 x0 [E|Hin]; [inversion E; subst; eauto|eapply HT; exact Hin].
Qed.

Lemma drop_taken_clean : forall taken f,
  (forall c x, In (c, x) taken -> exists v, x = Owned v) ->
  double_drops (fst (drop_taken taken f)) = [].
Proof.
  induction taken as [|[c x] t IH]; intros f H; cbn [drop_taken]; [reflexivity|].
  destruct (tick f) as [f' panics]. specialize (IH f' (fun c0 x0 Hy => H c0 x0 (or_intror Hy))).
  destruct (drop_taken t f') as [evs p]. cbn [fst] in *.
  destruct (H c x (or_introl eq_refl)) as [v ->]. cbn. exact IH.
Qed.

Lemma drop_taken_nofault : forall taken, snd (drop_taken taken None) = false.
Proof.
  induction taken as [|[c x] t IH]; cbn [drop_taken tick]; [reflexivity|].
  destruct (drop_taken t None) as [evs p]. cbn [snd] in *. exact IH.
Qed.

Lemma remove_cols_deferred_clean : forall comps i len cols f r evs p,
  (forall col, In col cols -> col_clean len col) ->
  remove_cols_deferred comps i len cols f = Some (r, evs, p) ->
  length r = length cols /\ (forall col, In col r -> col_clean (len - 1) col) /\ double_drops evs = [].
Proof.
  intros comps i len cols f r evs p HC H. unfold remove_cols_deferred in H.
  destruct (take_cols comps i len cols) as [[r' taken]|] eqn:E; [|discriminate].
  destruct (take_cols_clean _ _ _ _ _ _ HC E) as (L & HR & HT).
  pose proof (drop_taken_clean (rev taken) f (fun c x Hin => HT c x (proj2 (in_rev taken (c, x)) Hin))) as D.
  destruct (drop_taken (rev taken) f) as [evs' p']. inversion H; subst. cbn [fst] in D. auto.
Qed.

(** * Removing a row: with the drops deferred and the length decremented first (the source says so:
      [fact_remove_defers_drops], [fact_remove_decrements_length_first]) the archetype is clean and one row
      shorter whatever Drop panics, and nothing is dropped twice then or when the world is dropped. *)
Theorem remove_fault_safe : forall a i f f' a' evs p, Clean a ->
  p_remove_row_gen true true a i f = Some (a', evs, p) ->
  Clean a' /\ pa_len a' = pa_len a - 1 /\ double_drops evs = [] /\ double_drops (fst (p_drop_arch a' f')) = [].
Proof.
  intros a i f f' a' evs p [HL HC] H. unfold p_remove_row_gen in H.
  destruct (remove_cols_deferred (bits_on (pa_shape a)) i (pa_len a) (pa_cols a) f) as [[[cols evs'] unw]|] eqn:E; [|discriminate].
  destruct (remove_cols_deferred_clean _ _ _ _ _ _ _ _ HC E) as (L & HR & DD).
  inversion H; subst a' evs p. clear H. rewrite andb_false_r. cbn [pa_len pa_cols pa_shape].
  assert (HC' : Clean (mkPArch (pa_shape a) cols (pa_len a - 1))).
  { split; cbn [pa_cols pa_shape pa_len]; [rewrite L; exact HL|exact HR]. }
  split; [exact HC'|]. split; [reflexivity|]. split; [exact DD|]. exact (drop_clean_no_double _ f' HC').
Qed.

Lemma fact_remove_deferred : fact_remove_defers_drops = true.
Proof. reflexivity. Qed.
Lemma fact_remove_len_first : fact_remove_decrements_length_first = true.
Proof. reflexivity. Qed.

Theorem remove_fault_safe_src : forall a i f f' a' evs p, Clean a ->
  p_remove_row a i f = Some (a', evs, p) ->
  Clean a' /\ pa_len a' = pa_len a - 1 /\ double_drops evs = [] /\ double_drops (fst (p_drop_arch a' f')) = [].
Proof.
  intros a i f f' a' evs p HC H. unfold p_remove_row in H. rewrite fact_remove_deferred, fact_remove_len_first in H.
  exact (remove_fault_safe a i f f' a' evs p HC H).
Qed.

(** without a fault the removal does not unwind *)
Theorem remove_row_clean a i a' evs p : Clean a -> p_remove_row a i None = Some (a', evs, p) ->
  p = false /\ Clean a' /\ pa_len a' = pa_len a - 1 /\ double_drops evs = [].
Proof.
  intros HC H. destruct (remove_fault_safe_src a i None None a' evs p HC H) as (C' & L & D & _).
  split; [|auto].
  unfold p_remove_row, p_remove_row_gen in H. rewrite fact_remove_deferred in H.
  unfold remove_cols_deferred in H.
  destruct (take_cols (bits_on (pa_shape a)) i (pa_len a) (pa_cols a)) as [[r taken]|]; [|discriminate].
  pose proof (drop_taken_nofault (rev taken)) as N.
  destruct (drop_taken (rev taken) None) as [evs' p']. cbn [snd] in N. inversion H; subst. reflexivity.
Qed.

(** * Clearing without a fault *)
Lemma drop_cells_nofault : forall c cells, snd (drop_cells c cells None) = false /\ snd (fst (drop_cells c cells None)) = None.
Proof.
  induction cells as [|x t IH]; cbn [drop_cells tick]; [auto|].
  destruct (drop_cells c t None) as [[evs f''] p]. cbn [fst snd] in *. destruct IH as [-> ->]. auto.
Qed.

Lemma clear_cols_events_clean : forall comps len cols f, (forall col, In col cols -> col_clean len col) ->
  double_drops (snd (fst (clear_cols comps len cols f))) = [].
Proof.
  induction comps as [|c comps IH]; intros len cols f HC'; cbn [clear_cols]; [reflexivity|].
  destruct cols as [|col cols']; [reflexivity|].
  pose proof (drop_cells_clean c (firstn len col) f (firstn_clean len col (HC' col (or_introl eq_refl)))) as D.
  destruct (drop_cells c (firstn len col) f) as [[evs0 f'] panicked]. cbn [fst snd] in *.
  destruct panicked; [exact D|].
  pose proof (IH len cols' f' (fun y Hy => HC' y (or_intror Hy))) as D'.
  destruct (clear_cols comps len cols' f') as [[r evs1] p1]. cbn [fst snd] in *.
  unfold double_drops in *. rewrite flat_map_app, D, D'. reflexivity.
Qed.

Lemma clear_cols_nofault : forall comps len cols, snd (clear_cols comps len cols None) = false.
Proof.
  induction comps as [|c comps IH]; intros len cols; cbn [clear_cols]; [reflexivity|].
  destruct cols as [|col cols']; [reflexivity|].
  destruct (drop_cells_nofault c (firstn len col)) as [P F].
  destruct (drop_cells c (firstn len col) None) as [[evs0 f'] panicked]. cbn [fst snd] in *. subst panicked f'.
  specialize (IH len cols'). destruct (clear_cols comps len cols' None) as [[r evs1] p1]. cbn [fst snd] in *. exact IH.
Qed.

Lemma clear_cols_length : forall comps len cols f, length (fst (fst (clear_cols comps len cols f))) = length cols.
Proof.
  induction comps as [|c comps IH]; intros len cols f; cbn [clear_cols]; [reflexivity|].
  destruct cols as [|col cols']; [reflexivity|].
  destruct (drop_cells c (firstn len col) f) as [[evs0 f'] panicked]. destruct panicked; [reflexivity|].
  specialize (IH len cols' f'). destruct (clear_cols comps len cols' f') as [[r evs1] p1]. cbn [fst snd length] in *. rewrite IH. reflexivity.
Qed.

Theorem clear_clean : forall a a' evs p, Clean a -> p_clear a None = (a', evs, p) ->
  p = false /\ pa_len a' = 0 /\ double_drops evs = [].
Proof.
  intros a a' evs p [HL HC] H. unfold p_clear, p_clear_gen in H.
  pose proof (clear_cols_nofault (bits_on (pa_shape a)) (pa_len a) (pa_cols a)) as P.
  pose proof (clear_cols_events_clean (bits_on (pa_shape a)) (pa_len a) (pa_cols a) None HC) as D.
  destruct (clear_cols (bits_on (pa_shape a)) (pa_len a) (pa_cols a) None) as [[cols evs0] unw]. cbn [fst snd] in *.
  subst unw. inversion H; subst. cbn. auto.
Qed.

(** with the length set first, a panic in any Drop during clear leaves an empty archetype: nothing is
    dropped twice, then or when the world is dropped (with or without a further panic) *)
Theorem clear_fault_safe : forall a f f', Clean a ->
  let '(a', evs, _) := p_clear_gen true a f in
  pa_len a' = 0 /\ double_drops evs = [] /\ double_drops (fst (p_drop_arch a' f')) = [].
Proof.
  intros a f f' [HL HC]. unfold p_clear_gen.
  pose proof (clear_cols_events_clean (bits_on (pa_shape a)) (pa_len a) (pa_cols a) f HC) as D.
  pose proof (clear_cols_length (bits_on (pa_shape a)) (pa_len a) (pa_cols a) f) as L.
  destruct (clear_cols (bits_on (pa_shape a)) (pa_len a) (pa_cols a) f) as [[cols evs0] unw]. cbn [fst snd] in *.
  rewrite andb_false_r. split; [reflexivity|]. split; [exact D|].
  apply drop_clean_no_double. split; cbn [pa_cols pa_shape pa_len]; [rewrite L; exact HL|].
  intros col _ r Hr. lia.
Qed.

Lemma fact_clear_first : fact_clear_sets_length_first = true.
Proof. reflexivity. Qed.

Theorem clear_fault_safe_src : forall a f f', Clean a ->
  let '(a', evs, _) := p_clear a f in
  pa_len a' = 0 /\ double_drops evs = [] /\ double_drops (fst (p_drop_arch a' f')) = [].
Proof. intros a f f' H. unfold p_clear. rewrite fact_clear_first. exact (clear_fault_safe a f f' H). Qed.

(** * The archetype of the logical layer is clean *)
Lemma parch_of_clean a spare : (forall rw, In rw (a_rows a) -> length (snd rw) = count_true (a_shape a)) ->
  Clean (parch_of a spare).
Proof.
  intros HR. unfold parch_of, Clean. cbn [pa_cols pa_shape pa_len]. split; [rewrite map_length, seq_length; reflexivity|].
  intros col Hc. apply in_map_iff in Hc as (j & <- & Hj). intros r Hr.
  unfold col_of. rewrite nth_error_app1 by (rewrite map_length; exact Hr).
  destruct (nth_error (a_rows a) r) as [rw|] eqn:E.
  - erewrite map_nth_error by exact E. eexists. reflexivity.
  - apply nth_error_None in E. lia.
Qed.

(** * The failing classes (findings F8a, F8b), with witnesses *)
Definition w_arch : parch := mkPArch [true; true] [[Owned 11; Owned 21; Owned 31]%N; [Owned 12; Owned 22; Owned 32]%N] 3.

(** as it was before the repair of F8a (values dropped column by column, length written last): a panic in
    the Drop of the first column's value during remove: the moved last cell is dropped twice at world drop *)
Lemma remove_fault_double_drop :
  match p_remove_row_gen false false w_arch 0 (Some 0) with
  | Some (a', _, unwound) => unwound = true /\ double_drops (fst (p_drop_arch a' None)) = [(0, 31%N)]
  | None => False
  end.
Proof. vm_compute. auto. Qed.

(** each of the two changes is needed: deferring the drops alone leaves the old length over shortened columns *)
Lemma remove_deferred_alone_double_drop :
  match p_remove_row_gen true false w_arch 0 (Some 0) with
  | Some (a', _, unwound) => unwound = true /\ double_drops (fst (p_drop_arch a' None)) <> []
  | None => False
  end.
Proof. vm_compute. split; [reflexivity|discriminate]. Qed.

(** ... and decrementing the length first alone loses the last row of the columns not reached yet *)
Lemma remove_len_first_alone_leaves_unclean :
  match p_remove_row_gen false true w_arch 0 (Some 0) with
  | Some (a', _, unwound) => unwound = true /\ nth_error (pa_cols a') 1 = Some [Owned 12; Owned 22; Owned 32]%N /\ pa_len a' = 2
  | None => False
  end.
Proof. vm_compute. auto. Qed.

(** a panic in a Drop during clear: the emptied column is dropped again at world drop *)
Lemma clear_fault_double_drop :
  let '(a', _, unwound) := p_clear_gen false w_arch (Some 1) in
  unwound = true /\ double_drops (fst (p_drop_arch a' None)) = [(0, 11%N); (0, 21%N); (0, 31%N)].
Proof. vm_compute. auto. Qed.
