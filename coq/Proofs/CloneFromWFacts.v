(** Proofs about [World::clone_from] under a panic (C17, C13; finding F11). *)
From Brood Require Import Base BaseFacts CloneFromW.

Lemma nth_error_nil A i : nth_error (@nil A) i = None.
Proof. destruct i; reflexivity. Qed.

Lemma row_of_emptied (archs : list (list nat)) slots a r : row_of (mkPW (map (fun _ => []) archs) slots) a r = None.
Proof.
  unfold row_of. cbn [pw_archs]. destruct (nth_error (map (fun _ : list nat => @nil nat) archs) a) as [rows|] eqn:E; [|reflexivity].
  apply nth_error_In, in_map_iff in E as (x & <- & _). apply nth_error_nil.
Qed.

(** * Old identifiers forgotten first, archetypes emptied on unwind: whatever archetype the panic
      happens in, the world the caller gets back is consistent (it is empty); without a panic it is the source *)
Theorem clone_from_world_safe dst src fault : WInv src -> WInv (pw_clone_from_gen true true dst src fault).
Proof.
  intros HS. destruct fault as [k|]; [|exact HS]. unfold pw_clone_from_gen. split.
  - intros i a r H. cbn [pw_slots] in H. rewrite nth_error_nil in H. discriminate.
  - intros a r i H. rewrite row_of_emptied in H. discriminate.
Qed.

Lemma world_facts : fact_world_clone_from_forgets_identifiers_first = true /\ fact_world_clone_from_clears_on_unwind = true.
Proof. split; reflexivity. Qed.

Theorem clone_from_world_safe_src dst src fault : WInv src -> WInv (pw_clone_from dst src fault).
Proof. unfold pw_clone_from. destruct world_facts as [-> ->]. apply clone_from_world_safe. Qed.

(** * Each of the two is needed *)
Definition w_dst : pworld := mkPW [[0; 1; 2]; [3]] [Some (0, 0); Some (0, 1); Some (0, 2); Some (1, 0)].
Definition w_src : pworld := mkPW [[0]; [1]] [Some (0, 0); Some (1, 0)].

Lemma w_dst_inv : WInv w_dst.
Proof.
  split.
  - intros i a r H. destruct i as [|[|[|[|i]]]]; cbn in H; try (inversion H; subst; reflexivity).
    rewrite nth_error_nil in H. discriminate.
  - intros a r i H. unfold row_of in H. destruct a as [|[|a]]; cbn in H.
    + destruct r as [|[|[|r]]]; cbn in H; try (inversion H; subst; reflexivity). rewrite nth_error_nil in H. discriminate.
    + destruct r as [|r]; cbn in H; [inversion H; subst; reflexivity|]. rewrite nth_error_nil in H. discriminate.
    + rewrite nth_error_nil in H. discriminate.
Qed.

Lemma w_src_inv : WInv w_src.
Proof.
  split.
  - intros i a r H. destruct i as [|[|i]]; cbn in H; try (inversion H; subst; reflexivity).
    rewrite nth_error_nil in H. discriminate.
  - intros a r i H. unfold row_of in H. destruct a as [|[|a]]; cbn in H.
    + destruct r as [|r]; cbn in H; [inversion H; subst; reflexivity|]. rewrite nth_error_nil in H. discriminate.
    + destruct r as [|r]; cbn in H; [inversion H; subst; reflexivity|]. rewrite nth_error_nil in H. discriminate.
    + rewrite nth_error_nil in H. discriminate.
Qed.

(** the old allocator kept (before F11): identifier 2 is accepted and points at a row that no longer exists *)
Lemma stale_allocator_resolves_nowhere :
  let w := pw_clone_from_gen false true w_dst w_src (Some 1) in
  nth_error (pw_slots w) 2 = Some (Some (0, 2)) /\ row_of w 0 2 = None.
Proof. vm_compute. auto. Qed.

(** no emptying on unwind (the first, incomplete repair of F11): a row is stored under an identifier the
    allocator does not know; [World::clear] would release it with an unchecked index *)
Lemma unknown_rows_stay :
  let w := pw_clone_from_gen true false w_dst w_src (Some 1) in
  row_of w 0 0 = Some 0 /\ nth_error (pw_slots w) 0 = None.
Proof. vm_compute. auto. Qed.

(** * [World::remove]: with the identifier released first the state after a panicking Drop is the state
      after a completed removal *)
Lemma remove_fact : fact_remove_frees_identifier_first = true.
Proof. reflexivity. Qed.

Theorem remove_state_independent_of_panic w i a r panics : pw_remove w i a r panics = pw_remove w i a r false.
Proof. unfold pw_remove. rewrite remove_fact. reflexivity. Qed.

(** releasing first or last is the same removal when nothing panics *)
Example remove_orders_agree : pw_remove_gen true w_dst 0 0 0 false = pw_remove_gen false w_dst 0 0 0 false /\
  winv_b (pw_remove_gen true w_dst 0 0 0 false) = true /\ winv_b (pw_remove_gen true w_dst 0 0 0 true) = true.
Proof. vm_compute. auto. Qed.

(** released last (before the repair), a panic leaves identifier 0 accepted at a row that now holds identifier 2 *)
Lemma remove_released_last_dangles :
  let w := pw_remove_gen false w_dst 0 0 0 true in
  nth_error (pw_slots w) 0 = Some (Some (0, 0)) /\ row_of w 0 0 = Some 2 /\ winv_b w = false.
Proof. vm_compute. auto. Qed.

(** * [Entry::remove]: with the drop last the state after a panicking Drop is the state after a completed move *)
Lemma entry_remove_fact : fact_entry_remove_drops_last = true.
Proof. reflexivity. Qed.

Theorem entry_remove_state_independent_of_panic w i a r b panics :
  pw_entry_remove w i a r b panics = pw_entry_remove w i a r b false.
Proof. unfold pw_entry_remove. rewrite entry_remove_fact. reflexivity. Qed.

Example entry_remove_moves : winv_b (pw_entry_remove_gen true w_dst 0 0 0 1 true) = true /\
  pw_entry_remove_gen true w_dst 0 0 0 1 true = mkPW [[2; 1]; [3; 0]] [Some (1, 1); Some (0, 1); Some (0, 0); Some (1, 0)].
Proof. vm_compute. auto. Qed.

(** dropped before the location update (a change seeded in round 4): identifier 0 still points at row 0 of its
    old archetype, which now holds identifier 2; its own row is reachable through no identifier *)
Lemma entry_remove_dropped_early_dangles :
  let w := pw_entry_remove_gen false w_dst 0 0 0 1 true in
  nth_error (pw_slots w) 0 = Some (Some (0, 0)) /\ row_of w 0 0 = Some 2 /\ row_of w 1 1 = Some 0 /\ winv_b w = false.
Proof. vm_compute. auto. Qed.

(** * The removal itself keeps the index consistent — for every consistent world, so together with
      [remove_state_independent_of_panic]: whatever Drop panics during [World::remove], the world the caller
      gets back satisfies [WInv] *)
Lemma row_of_upd_arch archs slots a rows' a' r' :
  row_of (mkPW (upd a (fun _ => rows') archs) slots) a' r' =
  if Nat.eqb a' a then match nth_error archs a with Some _ => nth_error rows' r' | None => None end
  else row_of (mkPW archs slots) a' r'.
Proof.
  unfold row_of. cbn [pw_archs]. rewrite nth_error_upd.
  destruct (Nat.eqb_spec a' a) as [->|Hne]; [|reflexivity].
  destruct (nth_error archs a); reflexivity.
Qed.

Theorem remove_keeps_WInv w i a r : WInv w -> nth_error (pw_slots w) i = Some (Some (a, r)) ->
  WInv (pw_remove_rows (pw_free w i) a r).
Proof.
  intros [H1 H2] Hi. destruct w as [archs slots]. cbn [pw_slots pw_archs] in *.
  pose proof (H1 i a r Hi) as Hrow. unfold row_of in Hrow. cbn [pw_archs] in Hrow.
  destruct (nth_error archs a) as [rows|] eqn:Ea; [|discriminate].
  assert (Hr : r < length rows) by (apply nth_error_Some; congruence).
  set (n := length rows - 1).
  destruct (nth_error rows n) as [z|] eqn:Ez; [|apply nth_error_None in Ez; unfold n in Ez; lia].
  (* uniqueness inside the archetype, from the slot table being a function *)
  assert (Uq : forall x y j, nth_error rows x = Some j -> nth_error rows y = Some j -> x = y).
  { intros x y j Hx Hy.
    assert (A1 : nth_error slots j = Some (Some (a, x))) by (apply H2; unfold row_of; cbn [pw_archs]; rewrite Ea; exact Hx).
    assert (A2 : nth_error slots j = Some (Some (a, y))) by (apply H2; unfold row_of; cbn [pw_archs]; rewrite Ea; exact Hy).
    congruence. }
  assert (Hz : nth_error slots z = Some (Some (a, n))) by (apply H2; unfold row_of; cbn [pw_archs]; rewrite Ea; exact Ez).
  unfold pw_remove_rows, pw_free. cbn [pw_archs pw_slots]. rewrite Ea. fold n. rewrite Ez.
  assert (SR : forall r', nth_error (swap_remove r rows) r' =
               if Nat.ltb r' n then (if Nat.eqb r' r then Some z else nth_error rows r') else None).
  { intros r'. rewrite (@nth_error_swap_remove _ r r' rows Hr). fold n. rewrite Ez. reflexivity. }
  destruct (Nat.ltb_spec r n) as [Hlt|Hge].
  - (* a row is moved into the hole: z <> i *)
    assert (Hzi : z <> i) by (intros ->; assert (n = r) by (eapply Uq; eauto); lia).
    split.
    + intros j a' r' Hj. cbn [pw_slots] in Hj. rewrite row_of_upd_arch, Ea.
      rewrite nth_error_upd in Hj. destruct (Nat.eqb_spec j z) as [->|Hjz].
      * rewrite nth_error_upd_other in Hj by exact Hzi. rewrite Hz in Hj. cbn in Hj. inversion Hj; subst a' r'.
        rewrite Nat.eqb_refl, SR. destruct (Nat.ltb_spec r n); [|lia]. rewrite Nat.eqb_refl. reflexivity.
      * rewrite nth_error_upd in Hj. destruct (Nat.eqb_spec j i) as [->|Hji].
        -- rewrite Hi in Hj. cbn in Hj. discriminate.
        -- pose proof (H1 j a' r' Hj) as Hw. destruct (Nat.eqb_spec a' a) as [->|Hne]; [|exact Hw].
           unfold row_of in Hw. cbn [pw_archs] in Hw. rewrite Ea in Hw. rewrite SR.
           assert (r' <> r) by (intros ->; congruence).
           assert (r' <> n) by (intros ->; congruence).
           assert (r' < length rows) by (apply nth_error_Some; congruence).
           destruct (Nat.ltb_spec r' n); [|unfold n in *; lia].
           destruct (Nat.eqb_spec r' r); [contradiction|exact Hw].
    + intros a' r' j Hj. cbn [pw_slots]. rewrite row_of_upd_arch, Ea in Hj.
      destruct (Nat.eqb_spec a' a) as [->|Hne].
      * rewrite SR in Hj. destruct (Nat.ltb_spec r' n) as [Hr'|]; [|discriminate].
        destruct (Nat.eqb_spec r' r) as [->|Hrr].
        -- inversion Hj; subst j. rewrite nth_error_upd_same, nth_error_upd_other by exact Hzi. rewrite Hz. reflexivity.
        -- assert (j <> i) by (intros ->; apply Hrr; eapply Uq; eauto).
           assert (j <> z) by (intros ->; assert (r' = n) by (eapply Uq; eauto); lia).
           rewrite !nth_error_upd_other by assumption.
           apply H2. unfold row_of. cbn [pw_archs]. rewrite Ea. exact Hj.
      * pose proof (H2 a' r' j Hj) as Hs.
        assert (j <> i) by (intros ->; rewrite Hi in Hs; inversion Hs; congruence).
        assert (j <> z) by (intros ->; rewrite Hz in Hs; inversion Hs; congruence).
        rewrite !nth_error_upd_other by assumption. exact Hs.
  - (* the last row is removed: z = i *)
    assert (Hrn : r = n) by (unfold n in *; lia). subst r.
    assert (Hzi : z = i) by congruence. subst z.
    split.
    + intros j a' r' Hj. cbn [pw_slots] in Hj. rewrite row_of_upd_arch, Ea.
      rewrite nth_error_upd in Hj. destruct (Nat.eqb_spec j i) as [->|Hji].
      * rewrite Hi in Hj. cbn in Hj. discriminate.
      * pose proof (H1 j a' r' Hj) as Hw. destruct (Nat.eqb_spec a' a) as [->|Hne]; [|exact Hw].
        unfold row_of in Hw. cbn [pw_archs] in Hw. rewrite Ea in Hw. rewrite SR.
        assert (r' <> n) by (intros ->; congruence).
        assert (r' < length rows) by (apply nth_error_Some; congruence).
        destruct (Nat.ltb_spec r' n); [|unfold n in *; lia].
        destruct (Nat.eqb_spec r' n); [contradiction|exact Hw].
    + intros a' r' j Hj. cbn [pw_slots]. rewrite row_of_upd_arch, Ea in Hj.
      destruct (Nat.eqb_spec a' a) as [->|Hne].
      * rewrite SR in Hj. destruct (Nat.ltb_spec r' n) as [Hr'|]; [|discriminate].
        destruct (Nat.eqb_spec r' n) as [->|Hrr]; [lia|].
        assert (j <> i) by (intros ->; apply Hrr; eapply Uq; eauto).
        rewrite nth_error_upd_other by assumption.
        apply H2. unfold row_of. cbn [pw_archs]. rewrite Ea. exact Hj.
      * pose proof (H2 a' r' j Hj) as Hs.
        assert (j <> i) by (intros ->; rewrite Hi in Hs; inversion Hs; congruence).
        rewrite nth_error_upd_other by assumption. exact Hs.
Qed.

Theorem remove_under_panic_keeps_WInv w i a r panics : WInv w -> nth_error (pw_slots w) i = Some (Some (a, r)) ->
  WInv (pw_remove w i a r panics).
Proof.
  intros HW Hi. unfold pw_remove, pw_remove_gen. rewrite remove_fact. exact (remove_keeps_WInv w i a r HW Hi).
Qed.

(** * Pushing a row (insert; the second half of a shape change) keeps the index consistent *)
Definition pw_push (w : pworld) (i b : nat) : pworld :=
  match nth_error (pw_archs w) b with
  | None => w
  | Some rows => mkPW (upd b (fun _ => rows ++ [i]) (pw_archs w)) (upd i (fun _ => Some (b, length rows)) (pw_slots w))
  end.

Theorem push_keeps_WInv w i b : WInv w -> nth_error (pw_slots w) i = Some None -> WInv (pw_push w i b).
Proof.
  intros [H1 H2] Hi. destruct w as [archs slots]. cbn [pw_slots pw_archs] in *. unfold pw_push. cbn [pw_archs pw_slots].
  destruct (nth_error archs b) as [rows|] eqn:Eb; [|split; assumption].
  assert (Hfree : forall a r, row_of (mkPW archs slots) a r <> Some i).
  { intros a r Hr. apply H2 in Hr. congruence. }
  split.
  - intros j a' r' Hj. cbn [pw_slots] in Hj. rewrite row_of_upd_arch, Eb. rewrite nth_error_upd in Hj.
    destruct (Nat.eqb_spec j i) as [->|Hji].
    + rewrite Hi in Hj. cbn in Hj. inversion Hj; subst a' r'. rewrite Nat.eqb_refl. apply nth_error_app_last.
    + pose proof (H1 j a' r' Hj) as Hw. destruct (Nat.eqb_spec a' b) as [->|Hne]; [|exact Hw].
      unfold row_of in Hw. cbn [pw_archs] in Hw. rewrite Eb in Hw.
      rewrite nth_error_app1; [exact Hw|apply nth_error_Some; congruence].
  - intros a' r' j Hj. cbn [pw_slots]. rewrite row_of_upd_arch, Eb in Hj.
    destruct (Nat.eqb_spec a' b) as [->|Hne].
    + destruct (Nat.lt_ge_cases r' (length rows)) as [Hlt|Hge].
      * rewrite nth_error_app1 in Hj by exact Hlt.
        assert (Hs : nth_error slots j = Some (Some (b, r'))) by (apply H2; unfold row_of; cbn [pw_archs]; rewrite Eb; exact Hj).
        assert (j <> i) by (intros ->; congruence).
        rewrite nth_error_upd_other by assumption. exact Hs.
      * rewrite nth_error_app2 in Hj by exact Hge.
        destruct (r' - length rows) as [|k] eqn:Ek; cbn in Hj; [|destruct k; discriminate].
        inversion Hj; subst j. assert (r' = length rows) by lia. subst r'.
        rewrite nth_error_upd_same, Hi. reflexivity.
    + pose proof (H2 a' r' j Hj) as Hs.
      assert (j <> i) by (intros ->; congruence).
      rewrite nth_error_upd_other by assumption. exact Hs.
Qed.

(** after the removal (with the slot released) the identifier is inactive: the two halves compose *)
Lemma removed_slot_inactive w i a r : WInv w -> nth_error (pw_slots w) i = Some (Some (a, r)) ->
  nth_error (pw_slots (pw_remove_rows (pw_free w i) a r)) i = Some None.
Proof.
  intros [H1 H2] Hi. destruct w as [archs slots]. cbn [pw_slots pw_archs] in *.
  pose proof (H1 i a r Hi) as Hrow. unfold row_of in Hrow. cbn [pw_archs] in Hrow.
  destruct (nth_error archs a) as [rows|] eqn:Ea; [|discriminate].
  unfold pw_remove_rows, pw_free. cbn [pw_archs pw_slots]. rewrite Ea.
  assert (Hr : r < length rows) by (apply nth_error_Some; congruence).
  destruct (nth_error rows (length rows - 1)) as [z|] eqn:Ez; cbn [pw_slots].
  - destruct (Nat.ltb_spec r (length rows - 1)) as [Hlt|Hge].
    + assert (z <> i).
      { intros ->.
        assert (A1 : nth_error slots i = Some (Some (a, length rows - 1))) by (apply H2; unfold row_of; cbn [pw_archs]; rewrite Ea; exact Ez).
        rewrite Hi in A1. inversion A1. lia. }
      rewrite nth_error_upd_other by congruence. rewrite nth_error_upd_same, Hi. reflexivity.
    + rewrite nth_error_upd_same, Hi. reflexivity.
  - rewrite nth_error_upd_same, Hi. reflexivity.
Qed.

(** a shape change as the two halves: remove the row (the slot inactive in between), push it elsewhere *)
Theorem move_keeps_WInv w i a r b : WInv w -> nth_error (pw_slots w) i = Some (Some (a, r)) ->
  WInv (pw_push (pw_remove_rows (pw_free w i) a r) i b).
Proof.
  intros HW Hi. apply push_keeps_WInv; [exact (remove_keeps_WInv w i a r HW Hi)|exact (removed_slot_inactive w i a r HW Hi)].
Qed.

Lemma list_ext_nth_error {A} : forall (l m : list A), (forall k, nth_error l k = nth_error m k) -> l = m.
Proof.
  induction l as [|x l IH]; intros [|y m] H.
  - reflexivity.
  - specialize (H 0). discriminate.
  - specialize (H 0). discriminate.
  - pose proof (H 0) as H0. cbn in H0. inversion H0; subst. f_equal. apply IH. intros k. exact (H (S k)).
Qed.

(** [pw_move_row] (the moves in the order the code makes them: the slot is overwritten at the end, never
    released in between) is that composition, the target archetype being there (it is created before the push) *)
Lemma move_row_is_composition w i a r b : WInv w -> nth_error (pw_slots w) i = Some (Some (a, r)) ->
  b < length (pw_archs w) ->
  pw_move_row w i a r b = pw_push (pw_remove_rows (pw_free w i) a r) i b.
Proof.
  intros [H1 H2] Hi Hb. destruct w as [archs slots]. cbn [pw_slots pw_archs] in *.
  pose proof (H1 i a r Hi) as Hrow. unfold row_of in Hrow. cbn [pw_archs] in Hrow.
  destruct (nth_error archs a) as [rows|] eqn:Ea; [|discriminate].
  unfold pw_move_row, pw_push, pw_remove_rows, pw_free. cbn [pw_archs pw_slots]. rewrite Ea.
  cbn [pw_archs pw_slots].
  destruct (nth_error (upd a (fun _ => swap_remove r rows) archs) b) as [rowsb|] eqn:Eb; cbn [pw_archs pw_slots].
  2:{ apply nth_error_None in Eb. rewrite upd_length in Eb. lia. }
  f_equal. apply list_ext_nth_error. intros k. rewrite !nth_error_upd.
  destruct (nth_error rows (length rows - 1)) as [z|]; [destruct (Nat.ltb r (length rows - 1))|];
    rewrite ?nth_error_upd;
    destruct (Nat.eqb_spec k i) as [->|Hk]; rewrite ?Hi;
    try destruct (Nat.eqb_spec i z); try destruct (Nat.eqb_spec k z); subst;
    rewrite ?nth_error_upd, ?Nat.eqb_refl, ?Hi; cbn;
    try (destruct (Nat.eqb_spec k i); [contradiction|]); try reflexivity.
Qed.

Theorem move_row_keeps_WInv w i a r b : WInv w -> nth_error (pw_slots w) i = Some (Some (a, r)) ->
  b < length (pw_archs w) -> WInv (pw_move_row w i a r b).
Proof.
  intros HW Hi Hb. rewrite (move_row_is_composition w i a r b HW Hi Hb). exact (move_keeps_WInv w i a r b HW Hi).
Qed.

Theorem entry_remove_under_panic_keeps_WInv w i a r b panics : WInv w ->
  nth_error (pw_slots w) i = Some (Some (a, r)) -> b < length (pw_archs w) ->
  WInv (pw_entry_remove w i a r b panics).
Proof.
  intros HW Hi Hb. unfold pw_entry_remove, pw_entry_remove_gen. rewrite entry_remove_fact.
  exact (move_row_keeps_WInv w i a r b HW Hi Hb).
Qed.
