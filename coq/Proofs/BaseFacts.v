(** Pointwise characterisations of the list primitives of Base.v. *)
From Brood Require Import Base.

Set Implicit Arguments.

Lemma upd_length A (i : nat) (f : A -> A) l : length (upd i f l) = length l.
Proof. revert i; induction l as [|x t IH]; intros [|i]; cbn; auto. Qed.

Lemma nth_error_upd A (i j : nat) (f : A -> A) l :
  nth_error (upd i f l) j =
  if Nat.eqb j i then option_map f (nth_error l j) else nth_error l j.
Proof.
  revert i j; induction l as [|x t IH]; intros i j.
  - destruct i, j; cbn; try reflexivity; destruct (Nat.eqb _ _); reflexivity.
  - destruct i as [|i], j as [|j]; cbn; try reflexivity. apply IH.
Qed.

Lemma nth_error_upd_same A (i : nat) (f : A -> A) l :
  nth_error (upd i f l) i = option_map f (nth_error l i).
Proof. rewrite nth_error_upd, Nat.eqb_refl; reflexivity. Qed.

Lemma nth_error_upd_other A (i j : nat) (f : A -> A) l :
  j <> i -> nth_error (upd i f l) j = nth_error l j.
Proof. intros H; rewrite nth_error_upd. apply Nat.eqb_neq in H; rewrite H; reflexivity. Qed.

Lemma upd_oob A (i : nat) (f : A -> A) l : length l <= i -> upd i f l = l.
Proof.
  revert i; induction l as [|x t IH]; intros [|i] H; cbn in *; auto; try lia.
  f_equal; apply IH; lia.
Qed.

Lemma nth_error_app_last A (l : list A) x : nth_error (l ++ [x]) (length l) = Some x.
Proof. rewrite nth_error_app2, Nat.sub_diag by lia; reflexivity. Qed.

Lemma nth_error_snoc A (l : list A) x j :
  nth_error (l ++ [x]) j =
  if Nat.ltb j (length l) then nth_error l j
  else if Nat.eqb j (length l) then Some x else None.
Proof.
  destruct (Nat.ltb_spec j (length l)).
  - apply nth_error_app1; auto.
  - destruct (Nat.eqb_spec j (length l)) as [->|Hn].
    + apply nth_error_app_last.
    + apply nth_error_None; rewrite app_length; cbn; lia.
Qed.

Lemma removelast_length A (l : list A) : length (removelast l) = length l - 1.
Proof.
  induction l as [|x t IH]; cbn; auto.
  destruct t; cbn in *; auto. rewrite IH; lia.
Qed.

Lemma nth_error_removelast A (l : list A) j :
  nth_error (removelast l) j = if Nat.ltb j (length l - 1) then nth_error l j else None.
Proof.
  revert j; induction l as [|x t IH]; intros j.
  - cbn. destruct j; reflexivity.
  - destruct t as [|y t'].
    + cbn. destruct j; reflexivity.
    + change (removelast (x :: y :: t')) with (x :: removelast (y :: t')).
      destruct j as [|j].
      * cbn. reflexivity.
      * cbn [nth_error]. rewrite IH. cbn [length].
        replace (S (S (length t')) - 1) with (S (S (length t') - 1)) by lia.
        destruct (Nat.ltb_spec j (S (length t') - 1)), (Nat.ltb_spec (S j) (S (S (length t') - 1)));
          try lia; reflexivity.
Qed.

Lemma swap_remove_length A (i : nat) (l : list A) :
  i < length l -> length (swap_remove i l) = length l - 1.
Proof.
  intros H. unfold swap_remove.
  destruct (nth_error l (length l - 1)) eqn:E.
  - destruct (Nat.eqb i (length l - 1)).
    + apply removelast_length.
    + rewrite upd_length; apply removelast_length.
  - apply nth_error_None in E; lia.
Qed.

(** The defining property of [Vec::swap_remove]. *)
Lemma nth_error_swap_remove A (i j : nat) (l : list A) :
  i < length l ->
  nth_error (swap_remove i l) j =
  if Nat.ltb j (length l - 1)
  then (if Nat.eqb j i then nth_error l (length l - 1) else nth_error l j)
  else None.
Proof.
  intros H. unfold swap_remove.
  destruct (nth_error l (length l - 1)) as [z|] eqn:E.
  2:{ apply nth_error_None in E; lia. }
  destruct (Nat.eqb_spec i (length l - 1)) as [->|Hne].
  - rewrite nth_error_removelast.
    destruct (Nat.ltb_spec j (length l - 1)); auto.
    destruct (Nat.eqb_spec j (length l - 1)); auto; lia.
  - rewrite nth_error_upd, nth_error_removelast.
    destruct (Nat.ltb_spec j (length l - 1)).
    + destruct (Nat.eqb_spec j i) as [->|]; auto;
      try (destruct (nth_error l i) eqn:E2; auto; apply nth_error_None in E2; lia).
    + destruct (Nat.eqb_spec j i); auto; lia.
Qed.

Lemma last_opt_some A (l : list A) : l <> [] -> exists z, last_opt l = Some z.
Proof.
  intros H. unfold last_opt.
  destruct (nth_error l (length l - 1)) eqn:E; eauto.
  apply nth_error_None in E. destruct l; [congruence | cbn in *; lia].
Qed.

Lemma shape_eqb_eq (a b : shape) : shape_eqb a b = true <-> a = b.
Proof.
  revert b; induction a as [|x a IH]; intros [|y b]; cbn; split; intros H; auto; try discriminate.
  - apply andb_true_iff in H as [H1 H2]. apply Bool.eqb_prop in H1. apply IH in H2. congruence.
  - inversion H; subst. rewrite Bool.eqb_reflx. cbn. apply IH; reflexivity.
Qed.

Lemma shape_eqb_refl a : shape_eqb a a = true.
Proof. apply shape_eqb_eq; reflexivity. Qed.

Lemma shape_eqb_neq (a b : shape) : shape_eqb a b = false <-> a <> b.
Proof.
  split; intros H.
  - intros ->. rewrite shape_eqb_refl in H; discriminate.
  - destruct (shape_eqb a b) eqn:E; auto. apply shape_eqb_eq in E; contradiction.
Qed.

Lemma shape_eqb_sym a b : shape_eqb a b = shape_eqb b a.
Proof.
  destruct (shape_eqb a b) eqn:E.
  - apply shape_eqb_eq in E; subst; symmetry; apply shape_eqb_refl.
  - symmetry; apply shape_eqb_neq. apply shape_eqb_neq in E; congruence.
Qed.

Lemma shape_eq_dec (a b : shape) : {a = b} + {a <> b}.
Proof. apply list_eq_dec, Bool.bool_dec. Qed.

Lemma mem_shape_In s l : mem_shape s l = true <-> In s l.
Proof.
  unfold mem_shape. rewrite existsb_exists. split.
  - intros [x [H1 H2]]. apply shape_eqb_eq in H2; subst; auto.
  - intros H; exists s; split; auto. apply shape_eqb_refl.
Qed.

Lemma set_bit_length k b s : length (set_bit k b s) = length s.
Proof. apply upd_length. Qed.

Lemma get_bit_set_bit k j b s :
  k < length s -> get_bit j (set_bit k b s) = if Nat.eqb j k then b else get_bit j s.
Proof.
  intros H. unfold get_bit, set_bit.
  destruct (Nat.eqb_spec j k) as [->|Hn].
  - erewrite nth_error_nth; [reflexivity|].
    rewrite nth_error_upd_same.
    destruct (nth_error s k) eqn:E; cbn; auto. apply nth_error_None in E; lia.
  - destruct (nth_error s j) eqn:E.
    + erewrite nth_error_nth by (rewrite nth_error_upd_other; eauto).
      erewrite nth_error_nth by eauto. reflexivity.
    + rewrite !nth_overflow; auto.
      * apply nth_error_None in E; auto.
      * rewrite upd_length. apply nth_error_None in E; auto.
Qed.

Lemma eid_eqb_eq (a b : eid) : eid_eqb a b = true <-> a = b.
Proof.
  destruct a as [i g], b as [j h]; unfold eid_eqb; cbn.
  rewrite andb_true_iff, Nat.eqb_eq, N.eqb_eq. split.
  - intros [-> ->]; reflexivity.
  - intros H; inversion H; auto.
Qed.
