(** The order in which [clear] visits the archetypes no longer depends on the order of the archetype table
    (C06, C10; finding F6): sorting by identifier bytes gives the same list for every permutation of the
    table. *)
From Brood Require Import Base World BaseFacts SerdeC SerdeCFacts BytesRoundtrip.
From Coq Require Import Permutation.

Lemma bytes_leb_total : forall a b, bytes_leb a b = true \/ bytes_leb b a = true.
Proof.
  induction a as [|x a IH]; intros [|y b]; cbn; auto.
  destruct (N.ltb_spec x y), (N.ltb_spec y x); auto; try lia.
Qed.

Lemma bytes_leb_trans : forall a b c, bytes_leb a b = true -> bytes_leb b c = true -> bytes_leb a c = true.
Proof.
  induction a as [|x a IH]; intros [|y b] [|z c] H1 H2; cbn in *; try reflexivity; try discriminate.
  destruct (N.ltb_spec x y), (N.ltb_spec y x), (N.ltb_spec y z), (N.ltb_spec z y), (N.ltb_spec x z), (N.ltb_spec z x);
    try reflexivity; try discriminate; try lia.
  eapply IH; eassumption.
Qed.

Lemma bytes_leb_antisym : forall a b, bytes_leb a b = true -> bytes_leb b a = true -> a = b.
Proof.
  induction a as [|x a IH]; intros [|y b] H1 H2; cbn in *; try reflexivity; try discriminate.
  destruct (N.ltb_spec x y), (N.ltb_spec y x); try discriminate; try lia.
  assert (x = y) by lia. subst. f_equal. apply IH; assumption.
Qed.

Definition sle (a b : shape) : bool := bytes_leb (bytes_of_shape a) (bytes_of_shape b).

Lemma insert_shape_unfold sh h t :
  insert_shape sh (h :: t) = if sle sh h then sh :: h :: t else h :: insert_shape sh t.
Proof. reflexivity. Qed.

(** two insertions commute, provided the two shapes are equal whenever each is below the other *)
Lemma insert_comm a b : (sle a b = true -> sle b a = true -> a = b) -> forall l,
  insert_shape a (insert_shape b l) = insert_shape b (insert_shape a l).
Proof.
  intros Hab. assert (Tab : sle a b = true \/ sle b a = true) by apply bytes_leb_total.
  induction l as [|h t IH].
  - cbn [insert_shape]. fold (sle a b) (sle b a).
    destruct (sle a b) eqn:E1, (sle b a) eqn:E2; try reflexivity.
    + rewrite (Hab eq_refl eq_refl). reflexivity.
    + destruct Tab; discriminate.
  - rewrite !insert_shape_unfold.
    destruct (sle b h) eqn:Ebh, (sle a h) eqn:Eah; rewrite !insert_shape_unfold, ?Ebh, ?Eah.
    + (* both go in front of h *)
      destruct (sle a b) eqn:E1, (sle b a) eqn:E2; try reflexivity.
      * rewrite (Hab eq_refl eq_refl). reflexivity.
      * destruct Tab; discriminate.
    + (* b in front of h, a after h: then b <= h < a, so a is not below b *)
      assert (E : sle a b = false).
      { destruct (sle a b) eqn:E; [|reflexivity].
        unfold sle in *. rewrite (bytes_leb_trans _ _ _ E Ebh) in Eah. discriminate. }
      rewrite E. reflexivity.
    + assert (E : sle b a = false).
      { destruct (sle b a) eqn:E; [|reflexivity].
        unfold sle in *. rewrite (bytes_leb_trans _ _ _ E Eah) in Ebh. discriminate. }
      rewrite E. reflexivity.
    + rewrite IH. reflexivity.
Qed.

Theorem sort_shapes_perm : forall v1 v2, Permutation v1 v2 ->
  (forall a b, In a v1 -> In b v1 -> sle a b = true -> sle b a = true -> a = b) ->
  sort_shapes v1 = sort_shapes v2.
Proof.
  intros v1 v2 P. induction P as [|x l l' P IH|x y l|l l' l'' P1 IH1 P2 IH2]; intros H.
  - reflexivity.
  - cbn [sort_shapes fold_right]. fold (sort_shapes l) (sort_shapes l'). rewrite IH; [reflexivity|].
    intros a b Ha Hb. apply H; right; assumption.
  - cbn [sort_shapes fold_right]. fold (sort_shapes l). apply insert_comm.
    apply H; [left; reflexivity|right; left; reflexivity].
  - rewrite IH1 by exact H. apply IH2.
    intros a b Ha Hb. apply H; eapply Permutation_in; try eassumption; apply Permutation_sym; exact P1.
Qed.


(** shapes of one registry are determined by their bytes ([shape_of_bytes_of_shape], every registry size) *)
Theorem clear_order_table_independent n v1 v2 : Permutation v1 v2 ->
  (forall sh, In sh v1 -> length sh = n) -> sort_shapes v1 = sort_shapes v2.
Proof.
  intros P HL. apply sort_shapes_perm; [exact P|].
  intros a b Ha Hb H1 H2. unfold sle in *.
  pose proof (bytes_leb_antisym _ _ H1 H2) as E.
  rewrite <- (shape_of_bytes_of_shape a), <- (shape_of_bytes_of_shape b).
  rewrite (HL a Ha), (HL b Hb), E. reflexivity.
Qed.

Lemma fact_sorted : fact_clear_visits_in_identifier_order = true.
Proof. reflexivity. Qed.

(** [World::clear] as the model performs it does not depend on the order of the archetype table any more *)
Theorem clear_independent_of_table_order w v1 v2 : Permutation v1 v2 ->
  (forall sh, In sh v1 -> length sh = w_n w) -> step w (Clear v1) = step w (Clear v2).
Proof.
  intros P HL. cbn [step]. unfold clear_order. rewrite fact_sorted.
  rewrite (clear_order_table_independent (w_n w) v1 v2 P HL). reflexivity.
Qed.

(** before the repair of F6 (the table order used as it comes) two orders of the same two archetypes free the
    identifiers in different orders *)
Example table_order_mattered :
  let w := {| w_n := 2; w_archs := [mkArch [true; false] [((0, 0%N), [7%N])]; mkArch [false; true] [((1, 0%N), [8%N])]];
              w_tid := []; w_slots := [mkSlot 0 (Some ([true; false], 0)); mkSlot 0 (Some ([false; true], 0))];
              w_free := []; w_len := 2; w_res := [] |} in
  match do_clear w [[true; false]; [false; true]], do_clear w [[false; true]; [true; false]] with
  | Some (w1, _, _), Some (w2, _, _) => w_free w1 = [0; 1] /\ w_free w2 = [1; 0]
  | _, _ => False
  end.
Proof. vm_compute. auto. Qed.
