(** C13 — Identifier index and storage stay in one-to-one correspondence.
    Property theorems only; proofs are in Proofs/. *)
From Brood Require Import Base World BaseFacts Inv.

Theorem C13_init : forall n res, Inv (empty_world n res).
Proof. exact empty_world_inv. Qed.
Check (C13_init : forall n res, Inv (empty_world n res)).
Print Assumptions C13_init.
