(** C02: identifiers are never confused.

    Identifiers returned by insert/extend differ from every identifier issued
    before in the world's lifetime; a removed identifier never resolves again,
    even after its slot has been reused.  Generations wrap in the model, so
    the theorems carry an explicit head-room hypothesis ([Room]). *)
From Brood Require Import Base World Spec BaseFacts Inv StepInvAlloc StepInvRows StepInv.

Definition out_ids (r : out) : list eid := match r with OId e => [e] | OIds l => l | _ => [] end.
(* history invariant: every identifier ever issued has an existing slot whose current generation is not below it *)
Definition Hist (w : world) (issued : list eid) : Prop :=
  forall i g, In (i, g) issued -> exists s, nth_error (w_slots w) i = Some s /\ (g <= s_gen s)%N.
(* head-room: every slot can still be re-activated k more times without wrapping *)
Definition Room (w : world) (k : N) : Prop :=
  forall s, In s (w_slots w) -> (s_gen s + k < gen_modulus)%N.
(* run a history, collecting the identifiers issued, oldest last *)
Fixpoint run_issued (w : world) (ops : list op) (issued : list eid) : option (world * list eid) :=
  match ops with
  | [] => Some (w, issued)
  | o :: t => match step w o with
              | Some (w1, r, _) => run_issued w1 t (out_ids r ++ issued)
              | None => None
              end
  end.

(** * Generations *)

Lemma gen_modulus_pos : (0 < gen_modulus)%N.
Proof. reflexivity. Qed.

Lemma gen_next_nowrap x : (x + 1 < gen_modulus)%N -> gen_next x = (x + 1)%N.
Proof. intros H. unfold gen_next. apply N.mod_small. exact H. Qed.

Local Opaque gen_modulus.

Lemma Room_nonempty_bound w k : w_slots w <> [] -> Room w k -> (k < gen_modulus)%N.
Proof.
  unfold Room. destruct (w_slots w) as [|s0 t]; [congruence|].
  intros _ H. specialize (H s0 (or_introl eq_refl)). lia.
Qed.

Lemma Room_nth w k i s : Room w k -> nth_error (w_slots w) i = Some s -> (s_gen s + k < gen_modulus)%N.
Proof. intros HR Hs. apply HR. eapply nth_error_In; eauto. Qed.

(** * Pointwise relations between slot vectors *)

Definition prel (R : slot -> slot -> Prop) (sl sl' : list slot) : Prop :=
  forall i, match nth_error sl i, nth_error sl' i with
            | Some s, Some s' => R s s'
            | None, None => True
            | _, _ => False
            end.

Lemma prel_refl (R : slot -> slot -> Prop) sl : (forall s, R s s) -> prel R sl sl.
Proof. intros HR i. destruct (nth_error sl i); auto. Qed.

Lemma prel_trans (R : slot -> slot -> Prop) a b c :
  (forall x y z, R x y -> R y z -> R x z) -> prel R a b -> prel R b c -> prel R a c.
Proof.
  intros HT H1 H2 i. specialize (H1 i). specialize (H2 i).
  destruct (nth_error a i), (nth_error b i), (nth_error c i); try tauto; eauto.
Qed.

Lemma prel_impl (R R' : slot -> slot -> Prop) a b :
  (forall x y, R x y -> R' x y) -> prel R a b -> prel R' a b.
Proof.
  intros HI H i. specialize (H i).
  destruct (nth_error a i), (nth_error b i); auto.
Qed.

Lemma prel_upd (R : slot -> slot -> Prop) i f sl :
  (forall s, R s s) -> (forall s, nth_error sl i = Some s -> R s (f s)) ->
  prel R sl (upd i f sl).
Proof.
  intros HR Hf j. rewrite nth_error_upd. destruct (Nat.eqb_spec j i) as [->|Hne].
  - destruct (nth_error sl i) as [s|] eqn:E; cbn [option_map]; auto.
  - destruct (nth_error sl j); auto.
Qed.

(** same generation, same activity *)
Definition Rsa (s s' : slot) : Prop :=
  s_gen s' = s_gen s /\ (s_loc s = None <-> s_loc s' = None).
(** same generation, inactive stays inactive *)
Definition Rgs (s s' : slot) : Prop :=
  s_gen s' = s_gen s /\ (s_loc s = None -> s_loc s' = None).

Lemma Rsa_refl s : Rsa s s.
Proof. split; [reflexivity|tauto]. Qed.

Lemma Rsa_trans x y z : Rsa x y -> Rsa y z -> Rsa x z.
Proof. intros [H1 H2] [H3 H4]. split; [congruence|tauto]. Qed.

Lemma Rgs_refl s : Rgs s s.
Proof. split; [reflexivity|tauto]. Qed.

Lemma Rgs_trans x y z : Rgs x y -> Rgs y z -> Rgs x z.
Proof. intros [H1 H2] [H3 H4]. split; [congruence|tauto]. Qed.

Lemma Rsa_Rgs x y : Rsa x y -> Rgs x y.
Proof. intros [H1 H2]. split; [exact H1|tauto]. Qed.

Lemma prel_sa_gs a b : prel Rsa a b -> prel Rgs a b.
Proof. apply prel_impl. exact Rsa_Rgs. Qed.

(** * The slot primitives *)

Lemma set_loc_index_sa i r sl sl' : set_loc_index i r sl = Some sl' -> prel Rsa sl sl'.
Proof.
  unfold set_loc_index.
  destruct (nth_error sl i) as [s|] eqn:E; cbn [obind]; [|discriminate].
  destruct (s_loc s) as [[sh r0]|] eqn:El; [|discriminate].
  intros H; inversion H; subst sl'; clear H.
  apply prel_upd; [exact Rsa_refl|].
  intros s0 Hs0. rewrite E in Hs0. inversion Hs0; subst s0.
  split; cbn [s_gen s_loc]; [reflexivity|]. rewrite El. split; discriminate.
Qed.

Lemma take_row_sa sh r archs sl archs1 sl1 rw :
  take_row sh r archs sl = Some (archs1, sl1, rw) -> prel Rsa sl sl1.
Proof.
  unfold take_row.
  destruct (find_arch sh archs) as [a|]; cbn [obind]; [|discriminate].
  destruct (nth_error (a_rows a) r) as [rw0|]; cbn [obind]; [|discriminate].
  destruct (last_opt (a_rows a)) as [lastrow|]; cbn [obind]; [|discriminate].
  destruct (Nat.ltb r (length (a_rows a) - 1)).
  - destruct (set_loc_index (fst (fst lastrow)) r sl) as [sl2|] eqn:E; cbn [obind]; [|discriminate].
    intros H; inversion H; subst. eapply set_loc_index_sa; eauto.
  - cbn [obind]. intros H; inversion H; subst. apply prel_refl. exact Rsa_refl.
Qed.

Lemma free_slot_eq i sl fr sl2 fr2 :
  free_slot i sl fr = Some (sl2, fr2) ->
  exists s, nth_error sl i = Some s /\ sl2 = upd i deact sl.
Proof.
  unfold free_slot. destruct (nth_error sl i) as [s|] eqn:E; cbn [obind]; [|discriminate].
  intros H; inversion H; subst. exists s. split; reflexivity.
Qed.

Lemma prel_gs_deact i sl : prel Rgs sl (upd i deact sl).
Proof.
  apply prel_upd; [exact Rgs_refl|]. intros s _. split; reflexivity.
Qed.

Lemma free_slot_gs i sl fr sl2 fr2 : free_slot i sl fr = Some (sl2, fr2) -> prel Rgs sl sl2.
Proof. intros H. apply free_slot_eq in H as (s & _ & ->). apply prel_gs_deact. Qed.

Lemma free_all_gs : forall ids sl fr sl' fr',
  free_all ids sl fr = Some (sl', fr') -> prel Rgs sl sl'.
Proof.
  induction ids as [|i t IH]; intros sl fr sl' fr' H; cbn [free_all] in H.
  - inversion H; subst. apply prel_refl. exact Rgs_refl.
  - destruct (free_slot i sl fr) as [[s1 f1]|] eqn:E; cbn [obind] in H; [|discriminate].
    eapply prel_trans; [exact Rgs_trans| |].
    + eapply free_slot_gs; eauto.
    + eapply IH; eauto.
Qed.

Lemma clear_arch_gs sh archs sl fr evs archs' sl' fr' evs' :
  clear_arch sh (archs, sl, fr, evs) = Some (archs', sl', fr', evs') -> prel Rgs sl sl'.
Proof.
  unfold clear_arch. destruct (find_arch sh archs) as [a|].
  - destruct (free_all _ sl fr) as [[s1 f1]|] eqn:E; cbn [obind]; [|discriminate].
    intros H; inversion H; subst. eapply free_all_gs; eauto.
  - intros H; inversion H; subst. apply prel_refl. exact Rgs_refl.
Qed.

Lemma clear_archs_gs : forall order archs sl fr evs archs' sl' fr' evs',
  clear_archs order (archs, sl, fr, evs) = Some (archs', sl', fr', evs') -> prel Rgs sl sl'.
Proof.
  induction order as [|sh t IH]; intros archs sl fr evs archs' sl' fr' evs' H;
    cbn [clear_archs] in H.
  - inversion H; subst. apply prel_refl. exact Rgs_refl.
  - destruct (clear_arch sh (archs, sl, fr, evs)) as [[[[a1 s1] f1] e1]|] eqn:E;
      cbn [obind] in H; [|discriminate].
    eapply prel_trans; [exact Rgs_trans| |].
    + eapply clear_arch_gs; eauto.
    + eapply IH; eauto.
Qed.

Lemma move_row_sa sh' id vals archs sl archs2 sl2 :
  (exists s, nth_error sl (fst id) = Some s /\ s_loc s <> None) ->
  move_row sh' id vals archs sl = Some (archs2, sl2) -> prel Rsa sl sl2.
Proof.
  intros (s & Hs & Hact). unfold move_row. cbv zeta.
  destruct (find_arch sh' (ensure_arch sh' archs)) as [a'|]; cbn [obind]; [|discriminate].
  unfold set_loc. rewrite Hs. cbn [obind].
  intros H; inversion H; subst.
  apply prel_upd; [exact Rsa_refl|].
  intros s0 Hs0. rewrite Hs in Hs0. inversion Hs0; subst s0.
  split; cbn [s_gen s_loc]; [reflexivity|]. split; [contradiction|discriminate].
Qed.

(** * Operations that do not allocate: generations are kept, inactive stays inactive *)

Lemma do_remove_slots w e w' r evs :
  do_remove w e = Some (w', r, evs) ->
  r = ONone /\
  ((w' = w /\ get_loc w e = None) \/
   exists loc sl1 s1, get_loc w e = Some loc /\ prel Rsa (w_slots w) sl1 /\
     nth_error sl1 (fst e) = Some s1 /\ w_slots w' = upd (fst e) deact sl1).
Proof.
  unfold do_remove. destruct (get_loc w e) as [[sh r0]|] eqn:G.
  2:{ intros H; inversion H; subst. split; auto. }
  destruct (take_row sh r0 (w_archs w) (w_slots w)) as [[[archs1 sl1] rw]|] eqn:Et;
    cbn [obind]; [|discriminate].
  destruct (free_slot (fst e) sl1 (w_free w)) as [[sl2 fr2]|] eqn:Ef; cbn [obind]; [|discriminate].
  intros H; inversion H; subst. split; [reflexivity|]. right.
  apply free_slot_eq in Ef as (s1 & Hs1 & ->).
  exists (sh, r0), sl1, s1.
  split; [reflexivity|]. split; [eapply take_row_sa; eauto|]. split; [exact Hs1|reflexivity].
Qed.

Lemma do_remove_gs w e w' r evs :
  do_remove w e = Some (w', r, evs) -> prel Rgs (w_slots w) (w_slots w') /\ out_ids r = [].
Proof.
  intros H. apply do_remove_slots in H as [-> [[-> _]|(loc & sl1 & s1 & _ & Hsa & _ & Hw')]].
  - split; [|reflexivity]. apply prel_refl. exact Rgs_refl.
  - split; [|reflexivity]. rewrite Hw'.
    eapply prel_trans; [exact Rgs_trans| |apply prel_gs_deact].
    apply prel_sa_gs. exact Hsa.
Qed.

Lemma do_clear_gs w visit w' r evs :
  do_clear w visit = Some (w', r, evs) -> prel Rgs (w_slots w) (w_slots w') /\ out_ids r = [].
Proof.
  unfold do_clear.
  destruct (clear_archs (visit ++ map a_shape (w_archs w)) (w_archs w, w_slots w, w_free w, []))
    as [[[[a1 s1] f1] e1]|] eqn:E; cbn [obind]; [|discriminate].
  intros H; inversion H; subst. split; [|reflexivity].
  cbn [with_store w_slots]. eapply clear_archs_gs; eauto.
Qed.

Lemma do_write_slots w e c v w' r evs :
  do_write w e c v = Some (w', r, evs) -> w_slots w' = w_slots w /\ out_ids r = [].
Proof.
  unfold do_write. destruct (negb (Nat.ltb c (w_n w))).
  { intros H; inversion H; subst; auto. }
  destruct (get_loc w e) as [[sh r0]|].
  2:{ intros H; inversion H; subst; auto. }
  destruct (get_bit c sh).
  2:{ intros H; inversion H; subst; auto. }
  destruct (set_value sh r0 c v (w_archs w)) as [[archs1 old]|]; cbn [obind]; [|discriminate].
  intros H; inversion H; subst; auto.
Qed.

Lemma do_reserve_slots w comps w' r evs :
  do_reserve w comps = Some (w', r, evs) -> w_slots w' = w_slots w /\ out_ids r = [].
Proof.
  unfold do_reserve. destruct (negb (wf_comps (w_n w) comps)).
  { intros H; inversion H; subst; auto. }
  destruct (ensure_for_entity _ _ _) as [[archs1 tid1]|]; cbn [obind]; [|discriminate].
  intros H; inversion H; subst; auto.
Qed.

Lemma do_shrink_slots w w' r evs :
  do_shrink w = Some (w', r, evs) -> w_slots w' = w_slots w /\ out_ids r = [].
Proof. unfold do_shrink. intros H; inversion H; subst; auto. Qed.

Lemma do_res_set_slots w i v w' r evs :
  do_res_set w i v = Some (w', r, evs) -> w_slots w' = w_slots w /\ out_ids r = [].
Proof.
  unfold do_res_set. destruct (nth_error (w_res w) i); intros H; inversion H; subst; auto.
Qed.

Lemma same_slots_sa (sl sl' : list slot) : sl' = sl -> prel Rsa sl sl'.
Proof. intros ->. apply prel_refl. exact Rsa_refl. Qed.

Lemma take_move_sa w i g sh r0 sh' (f : list val -> list val) archs2 slots2 :
  Inv w ->
  nth_error (w_slots w) i = Some (mkSlot g (Some (sh, r0))) ->
  forall archs1 slots1 vals,
  take_row sh r0 (w_archs w) (w_slots w) = Some (archs1, slots1, ((i, g), vals)) ->
  InvExcept i g (with_store w archs1 (w_tid w) slots1 (w_free w) (w_len w)) ->
  move_row sh' (i, g) (f vals) archs1 slots1 = Some (archs2, slots2) ->
  prel Rsa (w_slots w) slots2.
Proof.
  intros HI G archs1 slots1 vals Htr HE Hmv.
  eapply prel_trans; [exact Rsa_trans| |].
  - eapply take_row_sa; eauto.
  - eapply move_row_sa; [|exact Hmv]. cbn [fst].
    destruct (ie_slot HE) as [loc Hs]. cbn [with_store w_slots] in Hs.
    eexists; split; [exact Hs|]. cbn [s_loc]. discriminate.
Qed.

Lemma do_entry_add_sa w e c v w' r evs :
  Inv w -> do_entry_add w e c v = Some (w', r, evs) ->
  prel Rsa (w_slots w) (w_slots w') /\ out_ids r = [].
Proof.
  intros HI. unfold do_entry_add. destruct (negb (Nat.ltb c (w_n w))).
  { intros H; inversion H; subst. split; [apply same_slots_sa|]; reflexivity. }
  destruct e as [i g].
  destruct (get_loc w (i, g)) as [[sh r0]|] eqn:G.
  2:{ intros H; inversion H; subst. split; [apply same_slots_sa|]; reflexivity. }
  apply get_loc_slot in G. cbn [fst snd] in G.
  destruct (get_bit c sh).
  - destruct (set_value sh r0 c v (w_archs w)) as [[archs1 old]|]; cbn [obind]; [|discriminate].
    intros H; inversion H; subst. split; [apply same_slots_sa|]; reflexivity.
  - destruct (take_row_spec w i g sh r0 HI G) as (archs1 & slots1 & vals & Htr & Hvl & Hshl & HE).
    rewrite Htr. cbn [obind fst snd].
    destruct (move_row (set_bit c true sh) (i, g)
                (insert_at (rank c (set_bit c true sh)) v vals) archs1 slots1)
      as [[archs2 slots2]|] eqn:Em; cbn [obind]; [|discriminate].
    intros H; inversion H; subst. split; [|reflexivity]. cbn [with_store w_slots].
    eapply (take_move_sa w i g sh r0 _ (fun vals => insert_at _ v vals)); eauto.
Qed.

Lemma do_entry_remove_sa w e c w' r evs :
  Inv w -> do_entry_remove w e c = Some (w', r, evs) ->
  prel Rsa (w_slots w) (w_slots w') /\ out_ids r = [].
Proof.
  intros HI. unfold do_entry_remove. destruct (negb (Nat.ltb c (w_n w))).
  { intros H; inversion H; subst. split; [apply same_slots_sa|]; reflexivity. }
  destruct e as [i g].
  destruct (get_loc w (i, g)) as [[sh r0]|] eqn:G.
  2:{ intros H; inversion H; subst. split; [apply same_slots_sa|]; reflexivity. }
  apply get_loc_slot in G. cbn [fst snd] in G.
  destruct (get_bit c sh).
  2:{ intros H; inversion H; subst. split; [apply same_slots_sa|]; reflexivity. }
  destruct (take_row_spec w i g sh r0 HI G) as (archs1 & slots1 & vals & Htr & Hvl & Hshl & HE).
  rewrite Htr. cbn [obind fst snd].
  destruct (nth_error vals (rank c sh)) as [old|]; cbn [obind]; [|discriminate].
  destruct (move_row (set_bit c false sh) (i, g) (remove_at (rank c sh) vals) archs1 slots1)
    as [[archs2 slots2]|] eqn:Em; cbn [obind]; [|discriminate].
  intros H; inversion H; subst. split; [|reflexivity]. cbn [with_store w_slots].
  eapply (take_move_sa w i g sh r0 _ (fun vals => remove_at _ vals)); eauto.
Qed.

(** * The allocator: generations of the identifiers handed out *)

Lemma alloc_batch_idx sh count : forall start slots free slots' free' ids,
  alloc_batch sh start count slots free = Some (slots', free', ids) ->
  forall id, In id ids -> In (fst id) free \/ length slots <= fst id.
Proof.
  induction count as [|c IH]; intros start slots free slots' free' ids H id Hid.
  - cbn [alloc_batch] in H. inversion H; subst. destruct Hid.
  - destruct free as [|i fr]; cbn [alloc_batch] in H.
    + remember (S c) as n eqn:En in H. inversion H; subst slots' free' ids.
      apply in_map_iff in Hid as (k & <- & _). cbn [fst]. right. lia.
    + destruct (nth_error slots i) as [s|] eqn:Es; cbn [obind] in H; [|discriminate].
      destruct (alloc_batch sh (S start) c _ fr) as [[[sl fr1] ids1]|] eqn:E;
        cbn [obind] in H; [|discriminate].
      inversion H; subst. destruct Hid as [<-|Hid].
      * left; left; reflexivity.
      * destruct (IH _ _ _ _ _ _ E id Hid) as [Hin|Hge].
        -- left; right; exact Hin.
        -- right. rewrite upd_length in Hge. exact Hge.
Qed.

(** A re-activated slot gets [gen_next] of its old generation; a new slot starts at 0. *)
Lemma alloc_batch_gen sh count : forall start slots free slots' free' ids,
  NoDup free ->
  alloc_batch sh start count slots free = Some (slots', free', ids) ->
  forall i g, In (i, g) ids ->
    match nth_error slots i with
    | Some s => g = gen_next (s_gen s)
    | None => g = 0%N
    end.
Proof.
  induction count as [|c IH]; intros start slots free slots' free' ids ND H i0 g Hid.
  - cbn [alloc_batch] in H. inversion H; subst. destruct Hid.
  - destruct free as [|i fr]; cbn [alloc_batch] in H.
    + remember (S c) as n eqn:En in H. inversion H; subst slots' free' ids.
      apply in_map_iff in Hid as (k & Hk & _). inversion Hk; subst i0 g.
      rewrite (proj2 (nth_error_None slots (length slots + k))) by lia. reflexivity.
    + destruct (nth_error slots i) as [s|] eqn:Es; cbn [obind] in H; [|discriminate].
      destruct (alloc_batch sh (S start) c _ fr) as [[[sl fr1] ids1]|] eqn:E;
        cbn [obind] in H; [|discriminate].
      inversion H; subst. inversion ND as [|? ? Hnin ND']; subst.
      destruct Hid as [Hid|Hid].
      * inversion Hid; subst. rewrite Es. reflexivity.
      * pose proof (IH _ _ _ _ _ _ ND' E i0 g Hid) as Hg.
        assert (Hne : i0 <> i).
        { intros ->.
          destruct (alloc_batch_idx _ _ _ _ _ _ _ _ E (i, g) Hid) as [Hin|Hge]; cbn [fst] in *.
          - contradiction.
          - rewrite upd_length in Hge.
            assert (i < length slots) by (apply nth_error_Some; congruence). lia. }
        rewrite nth_error_upd_other in Hg by exact Hne. exact Hg.
Qed.

(** Everything the later proofs need to know about one batch allocation. *)
Definition StepRel (sl sl' : list slot) (ids : list eid) : Prop :=
  NoDup (map fst ids) /\
  (forall i g, In (i, g) ids ->
     (exists loc, nth_error sl' i = Some (mkSlot g (Some loc))) /\
     match nth_error sl i with
     | Some s => s_loc s = None /\ g = gen_next (s_gen s)
     | None => g = 0%N
     end) /\
  (forall j, ~ In j (map fst ids) ->
     match nth_error sl j, nth_error sl' j with
     | Some s, Some s' => Rgs s s'
     | None, None => True
     | _, _ => False
     end).

Lemma alloc_batch_rel sh count start slots free slots' free' ids :
  FreeOK slots free ->
  alloc_batch sh start count slots free = Some (slots', free', ids) ->
  NoDup (map fst ids) /\
  (forall i g, In (i, g) ids ->
     (exists loc, nth_error slots' i = Some (mkSlot g (Some loc))) /\
     match nth_error slots i with
     | Some s => s_loc s = None /\ g = gen_next (s_gen s)
     | None => g = 0%N
     end) /\
  (forall j, ~ In j (map fst ids) -> nth_error slots' j = nth_error slots j).
Proof.
  intros HF H.
  destruct (alloc_batch_spec sh count start slots free HF) as (sl & fr & ids' & Hal & Hsp).
  rewrite H in Hal. inversion Hal; subst sl fr ids'. clear Hal.
  destruct Hsp as [L ND NEW FR OTH FOK].
  split; [exact ND|]. split; [|exact OTH].
  intros i g Hid. split.
  - apply In_nth_error in Hid as [k Hk]. specialize (NEW k (i, g) Hk). cbn [fst snd] in NEW. eauto.
  - pose proof (alloc_batch_gen sh count start slots free slots' free' ids (proj1 HF) H i g Hid)
      as Hg.
    destruct (nth_error slots i) as [s|] eqn:Es; [|exact Hg]. split; [|exact Hg].
    apply (FR (i, g) s Hid). exact Es.
Qed.

Lemma prel_gs_StepRel sl sl' : prel Rgs sl sl' -> StepRel sl sl' [].
Proof.
  intros H. split; [constructor|]. split; [intros i g []|]. intros j _. exact (H j).
Qed.

Definition is_alloc (o : op) : bool :=
  match o with Insert _ | Extend _ _ => true | _ => false end.

Lemma step_alloc w o w' r evs :
  step w o = Some (w', r, evs) -> is_alloc o = true ->
  (w_slots w' = w_slots w /\ out_ids r = []) \/
  exists sh start count,
    alloc_batch sh start count (w_slots w) (w_free w) = Some (w_slots w', w_free w', out_ids r).
Proof.
  intros H Ha. destruct o; try discriminate; cbn [step] in H.
  - unfold do_insert in H.
    destruct (negb (wf_comps (w_n w) (map fst ent))); [inversion H; subst; left; auto|].
    destruct (ensure_for_entity _ _ _) as [[archs1 tid1]|]; cbn [obind] in H; [|discriminate].
    destruct (find_arch _ archs1) as [a|]; cbn [obind] in H; [|discriminate].
    destruct (alloc_one _ _ _) as [[[slots1 free1] id]|] eqn:Ea; cbn [obind] in H; [|discriminate].
    inversion H; subst. right. do 2 eexists. exists 1.
    rewrite alloc_one_batch, Ea. reflexivity.
  - unfold do_extend in H.
    destruct (negb _); [inversion H; subst; left; auto|].
    destruct (ensure_for_entity _ _ _) as [[archs1 tid1]|]; cbn [obind] in H; [|discriminate].
    destruct (find_arch _ archs1) as [a|]; cbn [obind] in H; [|discriminate].
    destruct (alloc_batch _ _ _ _ _) as [[[slots1 free1] ids]|] eqn:Ea; cbn [obind] in H;
      [|discriminate].
    inversion H; subst. right. do 3 eexists. exact Ea.
Qed.

(** Allocating operations: precise form (untouched slots are identical). *)
Lemma step_alloc_rel w o w' r evs :
  Inv w -> step w o = Some (w', r, evs) -> is_alloc o = true ->
  NoDup (map fst (out_ids r)) /\
  (forall i g, In (i, g) (out_ids r) ->
     (exists loc, nth_error (w_slots w') i = Some (mkSlot g (Some loc))) /\
     match nth_error (w_slots w) i with
     | Some s => s_loc s = None /\ g = gen_next (s_gen s)
     | None => g = 0%N
     end) /\
  (forall j, ~ In j (map fst (out_ids r)) -> nth_error (w_slots w') j = nth_error (w_slots w) j).
Proof.
  intros HI H Ha.
  destruct (step_alloc w o w' r evs H Ha) as [[Hs Ho]|(sh & start & count & Hal)].
  - rewrite Ho, Hs. split; [constructor|]. split; [intros i g []|]. reflexivity.
  - eapply alloc_batch_rel; [|exact Hal]. apply Inv_FreeOK. exact HI.
Qed.

(** Every operation. *)
Lemma step_rel w o w' r evs :
  Inv w -> step w o = Some (w', r, evs) -> StepRel (w_slots w) (w_slots w') (out_ids r).
Proof.
  intros HI H. destruct (is_alloc o) eqn:Ea.
  - destruct (step_alloc_rel w o w' r evs HI H Ea) as (ND & NEW & OTH).
    split; [exact ND|]. split; [exact NEW|].
    intros j Hj. rewrite (OTH j Hj). destruct (nth_error (w_slots w) j); auto. exact (Rgs_refl s).
  - assert (Hgs : prel Rgs (w_slots w) (w_slots w') /\ out_ids r = []).
    { destruct o; try discriminate; cbn [step] in H.
      - eapply do_remove_gs; eauto.
      - eapply do_clear_gs; eauto.
      - destruct (do_entry_add_sa w e c v w' r evs HI H) as [H1 H2].
        split; [apply prel_sa_gs; exact H1|exact H2].
      - destruct (do_entry_remove_sa w e c w' r evs HI H) as [H1 H2].
        split; [apply prel_sa_gs; exact H1|exact H2].
      - destruct (do_write_slots w e c v w' r evs H) as [H1 H2].
        split; [apply prel_sa_gs, same_slots_sa; exact H1|exact H2].
      - destruct (do_reserve_slots w comps w' r evs H) as [H1 H2].
        split; [apply prel_sa_gs, same_slots_sa; exact H1|exact H2].
      - destruct (do_shrink_slots w w' r evs H) as [H1 H2].
        split; [apply prel_sa_gs, same_slots_sa; exact H1|exact H2].
      - destruct (do_res_set_slots w i v w' r evs H) as [H1 H2].
        split; [apply prel_sa_gs, same_slots_sa; exact H1|exact H2]. }
    destruct Hgs as [Hgs ->]. apply prel_gs_StepRel. exact Hgs.
Qed.

(** * Generations only move forward, one re-activation per slot and step *)

Definition Rstep (a b : option slot) : Prop :=
  match a, b with
  | Some s, Some s' =>
      (s_gen s' = s_gen s /\ (s_loc s = None -> s_loc s' = None)) \/
      (s_loc s = None /\ s_loc s' <> None /\ s_gen s' = gen_next (s_gen s))
  | None, Some s' => s_gen s' = 0%N
  | None, None => True
  | Some _, None => False
  end.

Lemma step_gen_raw w o w' r evs :
  Inv w -> step w o = Some (w', r, evs) ->
  forall i, Rstep (nth_error (w_slots w) i) (nth_error (w_slots w') i).
Proof.
  intros HI H i. destruct (step_rel w o w' r evs HI H) as (ND & NEW & OTH).
  destruct (in_dec Nat.eq_dec i (map fst (out_ids r))) as [Hin|Hnin].
  - apply in_map_iff in Hin as ([i' g] & Hfst & Hid). cbn [fst] in Hfst. subst i'.
    destruct (NEW i g Hid) as [[loc Hl] Hm]. rewrite Hl.
    destruct (nth_error (w_slots w) i) as [s|]; cbn [Rstep s_gen s_loc].
    + destruct Hm as [Hn Hg]. right. split; [exact Hn|]. split; [discriminate|exact Hg].
    + exact Hm.
  - specialize (OTH i Hnin). unfold Rstep.
    destruct (nth_error (w_slots w) i) as [s|], (nth_error (w_slots w') i) as [s'|];
      try contradiction; auto.
Qed.

(** The form of hint 1: under head-room for one re-activation, every old slot
    survives and its generation is unchanged or exactly one larger; a slot that
    was inactive and is active afterwards has been re-activated (bumped). *)
Lemma step_gen_mono w o w' r evs :
  Inv w -> Room w 1 -> step w o = Some (w', r, evs) ->
  forall i s, nth_error (w_slots w) i = Some s ->
  exists s', nth_error (w_slots w') i = Some s' /\
    ((s_gen s' = s_gen s /\ (s_loc s = None -> s_loc s' = None)) \/
     (s_loc s = None /\ s_loc s' <> None /\ s_gen s' = (s_gen s + 1)%N)).
Proof.
  intros HI HR H i s Hs. pose proof (step_gen_raw w o w' r evs HI H i) as GM.
  rewrite Hs in GM. destruct (nth_error (w_slots w') i) as [s'|]; [|contradiction].
  exists s'. split; [reflexivity|]. cbn [Rstep] in GM.
  destruct GM as [GM|(H1 & H2 & H3)]; [left; exact GM|right].
  split; [exact H1|]. split; [exact H2|].
  rewrite H3. apply gen_next_nowrap. exact (Room_nth w 1 i s HR Hs).
Qed.

Lemma Room_weaken w k k' : (k' <= k)%N -> Room w k -> Room w k'.
Proof. intros Hle HR s Hs. specialize (HR s Hs). lia. Qed.

(** * Freshness of one step *)

(** The general form: the last conjunct needs [k < gen_modulus] when the world
    has no slot at all (then [Room w (k + 1)] is vacuous). *)
Theorem step_fresh_strong : forall w o w' r evs issued k,
  Inv w -> Hist w issued -> Room w (k + 1) -> step w o = Some (w', r, evs) ->
  NoDup (out_ids r) /\ (forall e, In e (out_ids r) -> ~ In e issued) /\
  Hist w' (out_ids r ++ issued) /\
  (w_slots w <> [] \/ (k < gen_modulus)%N -> Room w' k).
Proof.
  intros w o w' r evs issued k HI HH HR H.
  destruct (step_rel w o w' r evs HI H) as (ND & NEW & OTH).
  assert (HR1 : Room w 1) by (apply (Room_weaken w (k + 1) 1); [lia|exact HR]).
  pose proof (step_gen_mono w o w' r evs HI HR1 H) as GM.
  split; [|split; [|split]].
  - apply (NoDup_map_inv fst). exact ND.
  - intros [i g] Hin Hiss.
    destruct (HH i g Hiss) as (s & Hs & Hle).
    destruct (NEW i g Hin) as [_ Hm]. rewrite Hs in Hm. destruct Hm as [_ Hg].
    pose proof (Room_nth w (k + 1) i s HR Hs) as Hroom.
    rewrite gen_next_nowrap in Hg by lia. lia.
  - intros i g Hin. apply in_app_or in Hin as [Hin|Hin].
    + destruct (NEW i g Hin) as [[loc Hl] _]. eexists. split; [exact Hl|].
      cbn [s_gen]. lia.
    + destruct (HH i g Hin) as (s & Hs & Hle).
      destruct (GM i s Hs) as (s' & Hs' & [[Hg _]|(_ & _ & Hg)]);
        exists s'; (split; [exact Hs'|]); rewrite Hg; lia.
  - intros Hk s' Hin. apply In_nth_error in Hin as [i Hi].
    destruct (nth_error (w_slots w) i) as [s|] eqn:Es.
    + pose proof (Room_nth w (k + 1) i s HR Es) as Hroom.
      destruct (GM i s Es) as (s'' & Hs'' & Hc). rewrite Hi in Hs''. inversion Hs''; subst s''.
      destruct Hc as [[Hg _]|(_ & _ & Hg)]; rewrite Hg; lia.
    + pose proof (step_gen_raw w o w' r evs HI H i) as GR. rewrite Es, Hi in GR.
      cbn [Rstep] in GR. rewrite GR.
      assert (Hkb : (k < gen_modulus)%N).
      { destruct Hk as [Hne|Hk]; [|exact Hk].
        pose proof (Room_nonempty_bound w (k + 1) Hne HR). lia. }
      lia.
Qed.

(** [step_fresh] exactly as first stated (without [k < gen_modulus]) is false:
    from a world without slots [Room] is vacuous, [insert] creates slot 0 with
    generation 0, and [Room w' k] fails for [k = gen_modulus]. *)
Lemma step_fresh_unbounded_k_false :
  ~ (forall w o w' r evs issued k,
      Inv w -> Hist w issued -> Room w (k + 1) -> step w o = Some (w', r, evs) ->
      NoDup (out_ids r) /\ (forall e, In e (out_ids r) -> ~ In e issued) /\
      Hist w' (out_ids r ++ issued) /\ Room w' k).
Proof.
  intros F.
  set (w1 := mkWorld 0 [mkArch [] [((0, 0%N), [])]] [[]] [mkSlot 0 (Some ([], 0))] [] 1 []).
  assert (E : step (empty_world 0 []) (Insert []) = Some (w1, OId (0, 0%N), [])) by reflexivity.
  destruct (F (empty_world 0 []) (Insert []) w1 (OId (0, 0%N)) [] [] gen_modulus
              (empty_world_inv 0 [])) as (_ & _ & _ & HR).
  - intros i g [].
  - intros s [].
  - exact E.
  - specialize (HR (mkSlot 0 (Some ([], 0))) (or_introl eq_refl)). cbn [s_gen] in HR. lia.
Qed.

(* one step: new identifiers are pairwise distinct and never issued before; the history
   invariant and head-room carry on.
   CHANGED w.r.t. the first statement: the extra hypothesis [k_below_modulus]. *)
Theorem step_fresh : forall w o w' r evs issued k,
  Inv w -> Hist w issued -> Room w (k + 1) -> step w o = Some (w', r, evs) ->
  forall k_below_modulus : (k < gen_modulus)%N,
  NoDup (out_ids r) /\ (forall e, In e (out_ids r) -> ~ In e issued) /\
  Hist w' (out_ids r ++ issued) /\ Room w' k.
Proof.
  intros w o w' r evs issued k HI HH HR H Hk.
  destruct (step_fresh_strong w o w' r evs issued k HI HH HR H) as (H1 & H2 & H3 & H4).
  split; [exact H1|]. split; [exact H2|]. split; [exact H3|]. apply H4. right. exact Hk.
Qed.

(** ... and the first statement verbatim holds for every world that has a slot. *)
Theorem step_fresh_nonempty : forall w o w' r evs issued k,
  w_slots w <> [] ->
  Inv w -> Hist w issued -> Room w (k + 1) -> step w o = Some (w', r, evs) ->
  NoDup (out_ids r) /\ (forall e, In e (out_ids r) -> ~ In e issued) /\
  Hist w' (out_ids r ++ issued) /\ Room w' k.
Proof.
  intros w o w' r evs issued k Hne HI HH HR H.
  destruct (step_fresh_strong w o w' r evs issued k HI HH HR H) as (H1 & H2 & H3 & H4).
  split; [exact H1|]. split; [exact H2|]. split; [exact H3|]. apply H4. left. exact Hne.
Qed.

(** * Whole histories *)

Lemma of_nat_length_cons (o : op) (t : list op) :
  N.of_nat (length (o :: t)) = (N.of_nat (length t) + 1)%N.
Proof. cbn [length]. rewrite Nat2N.inj_succ. lia. Qed.

(* ... from any valid world (e.g. a deserialized one) with enough head-room.
   CHANGED w.r.t. the first statement: the extra hypothesis [ops_below_modulus]
   (implied by [Room] as soon as [w0] has a slot, see the corollary below). *)
Theorem run_issued_nodup_from : forall w0 ops w issued0 issued,
  Inv w0 -> Hist w0 issued0 -> NoDup issued0 -> Room w0 (N.of_nat (length ops)) ->
  forall ops_below_modulus : (N.of_nat (length ops) < gen_modulus)%N,
  run_issued w0 ops issued0 = Some (w, issued) -> NoDup issued.
Proof.
  intros w0 ops. revert w0.
  induction ops as [|o t IH]; intros w0 w issued0 issued HI HH ND HR HB H; cbn [run_issued] in H.
  - inversion H; subst. exact ND.
  - destruct (step w0 o) as [[[w1 r] evs]|] eqn:E; [|discriminate].
    rewrite of_nat_length_cons in HR, HB.
    assert (HB' : (N.of_nat (length t) < gen_modulus)%N) by lia.
    destruct (step_fresh w0 o w1 r evs issued0 (N.of_nat (length t)) HI HH HR E HB')
      as (N1 & N2 & H1 & R1).
    apply (IH w1 w (out_ids r ++ issued0) issued); auto.
    + eapply step_inv; eauto.
    + apply NoDup_app_intro; [exact N1|exact ND|intros x Hx1 Hx2; exact (N2 x Hx1 Hx2)].
Qed.

(** The first statement verbatim, for every start world that has a slot. *)
Corollary run_issued_nodup_from_nonempty : forall w0 ops w issued0 issued,
  w_slots w0 <> [] ->
  Inv w0 -> Hist w0 issued0 -> NoDup issued0 -> Room w0 (N.of_nat (length ops)) ->
  run_issued w0 ops issued0 = Some (w, issued) -> NoDup issued.
Proof.
  intros w0 ops w issued0 issued Hne HI HH ND HR H.
  eapply run_issued_nodup_from; eauto.
  eapply Room_nonempty_bound; eauto.
Qed.

(* whole histories from a new world: all issued identifiers are pairwise distinct *)
Theorem run_issued_nodup : forall n res ops w issued,
  (N.of_nat (length ops) < gen_modulus)%N ->
  run_issued (empty_world n res) ops [] = Some (w, issued) -> NoDup issued.
Proof.
  intros n res ops w issued HB H.
  apply (run_issued_nodup_from (empty_world n res) ops w [] issued); auto.
  - apply empty_world_inv.
  - intros i g [].
  - constructor.
  - intros s [].
Qed.

(** * Dead stays dead *)

(* dead stays dead: an issued identifier that does not resolve now never resolves later *)
Theorem step_dead : forall w o w' r evs issued e,
  Inv w -> Hist w issued -> Room w 1 -> In e issued -> is_active w e = false ->
  step w o = Some (w', r, evs) -> is_active w' e = false.
Proof.
  intros w o w' r evs issued [i g] HI HH HR Hin Hdead H.
  destruct (HH i g Hin) as (s & Hs & Hle).
  destruct (step_gen_mono w o w' r evs HI HR H i s Hs) as (s' & Hs' & Hc).
  pose proof (Room_nth w 1 i s HR Hs) as Hroom.
  unfold is_active in *. cbn [fst snd] in *. rewrite Hs in Hdead. rewrite Hs'.
  destruct Hc as [[Hg Hn]|(_ & _ & Hg)].
  - destruct (s_loc s) as [loc|].
    + destruct (s_loc s'); [|reflexivity]. rewrite Hg. exact Hdead.
    + rewrite (Hn eq_refl). reflexivity.
  - destruct (s_loc s'); [|reflexivity]. apply N.eqb_neq. lia.
Qed.

(** * Removal *)

Lemma get_loc_none_inactive w e : get_loc w e = None <-> is_active w e = false.
Proof.
  unfold get_loc, is_active.
  destruct (nth_error (w_slots w) (fst e)) as [s|]; [|tauto].
  destruct (s_loc s) as [loc|]; destruct (N.eqb (s_gen s) (snd e)); split; intros H;
    try reflexivity; discriminate.
Qed.

(* removing a dead identifier is a no-op *)
Theorem remove_dead_noop : forall w e, is_active w e = false -> step w (Remove e) = Some (w, ONone, []).
Proof.
  intros w e H. apply get_loc_none_inactive in H. cbn [step]. unfold do_remove. rewrite H.
  reflexivity.
Qed.

(* removal kills: after Remove e (or Clear) the identifier does not resolve *)
Theorem remove_kills : forall w e w' r evs, Inv w -> step w (Remove e) = Some (w', r, evs) -> is_active w' e = false.
Proof.
  intros w e w' r evs HI H. cbn [step] in H.
  apply do_remove_slots in H as [_ [[-> G]|(loc & sl1 & s1 & _ & _ & Hs1 & Hw')]].
  - apply get_loc_none_inactive. exact G.
  - unfold is_active. rewrite Hw', nth_error_upd_same, Hs1. reflexivity.
Qed.

Lemma total_rows_ge archs a : In a archs -> length (a_rows a) <= total_rows archs.
Proof.
  induction archs as [|b t IH]; intros H; [destruct H|].
  rewrite total_rows_cons. destruct H as [->|H]; [lia|]. specialize (IH H). lia.
Qed.

Theorem clear_kills : forall w visit w' r evs e, Inv w -> step w (Clear visit) = Some (w', r, evs) -> is_active w' e = false.
Proof.
  intros w visit w' r evs e HI H. cbn [step] in H.
  pose proof (do_clear_inv w (clear_order visit) w' r evs HI H) as HI'.
  assert (Hlen : w_len w' = 0).
  { unfold do_clear in H.
    destruct (clear_archs _ _) as [[[[a1 s1] f1] e1]|]; cbn [obind] in H; [|discriminate].
    inversion H; subst. reflexivity. }
  unfold is_active.
  destruct (nth_error (w_slots w') (fst e)) as [[g0 [[sh r0]|]]|] eqn:Es; cbn [s_loc s_gen];
    try reflexivity.
  exfalso.
  destruct (@inv_fwd _ HI' _ _ _ _ Es) as (a & vals & Ha & Hr).
  pose proof (total_rows_ge (w_archs w') a (find_arch_In _ _ Ha)) as Hge.
  assert (r0 < length (a_rows a)) by (apply nth_error_Some; congruence).
  rewrite <- (inv_len HI'), Hlen in Hge. lia.
Qed.

(** * Stability *)

Lemma is_active_sa w w' e :
  prel Rsa (w_slots w) (w_slots w') -> is_active w' e = is_active w e.
Proof.
  intros H. unfold is_active. specialize (H (fst e)).
  destruct (nth_error (w_slots w) (fst e)) as [s|], (nth_error (w_slots w') (fst e)) as [s'|];
    try contradiction; auto.
  destruct H as [Hg [Hl1 Hl2]]. rewrite Hg.
  destruct (s_loc s), (s_loc s'); auto.
  - specialize (Hl2 eq_refl). discriminate.
  - specialize (Hl1 eq_refl). discriminate.
Qed.

Lemma is_active_same_slots w w' e : w_slots w' = w_slots w -> is_active w' e = is_active w e.
Proof. intros H. unfold is_active. rewrite H. reflexivity. Qed.

Lemma is_active_slot w e :
  is_active w e = true ->
  exists loc, nth_error (w_slots w) (fst e) = Some (mkSlot (snd e) (Some loc)).
Proof.
  unfold is_active. destruct (nth_error (w_slots w) (fst e)) as [[g0 [loc|]]|];
    cbn [s_loc s_gen]; try discriminate.
  intros H. apply N.eqb_eq in H. subst g0. eauto.
Qed.

(* stability: an operation that is not aimed at e (and is not Clear) keeps e live if it was live *)
Theorem step_stable : forall w o w' r evs e,
  Inv w -> is_active w e = true -> step w o = Some (w', r, evs) ->
  (match o with Remove e' => e' <> e | Clear _ => False | _ => True end) ->
  is_active w' e = true.
Proof.
  intros w o w' r evs e HI Hact H Ho.
  destruct (is_active_slot w e Hact) as [loc Hs].
  assert (Halloc : is_alloc o = true -> is_active w' e = true).
  { intros Ha. destruct (step_alloc_rel w o w' r evs HI H Ha) as (ND & NEW & OTH).
    rewrite <- Hact. unfold is_active. rewrite OTH; [reflexivity|].
    intros Hin. apply in_map_iff in Hin as ([i' g'] & Hfst & Hid). cbn [fst] in Hfst. subst i'.
    destruct (NEW _ _ Hid) as [_ Hm]. rewrite Hs in Hm. destruct Hm as [Hm _].
    cbn [s_loc] in Hm. discriminate. }
  destruct o; cbn [step] in H; try (apply Halloc; reflexivity); clear Halloc.
  - (* Remove e0, e0 <> e *)
    apply do_remove_slots in H as [_ [[-> _]|(loc0 & sl1 & s1 & G & Hsa & Hs1 & Hw')]];
      [exact Hact|].
    destruct loc0 as [sh0 r0]. apply get_loc_slot in G.
    assert (Hne : fst e <> fst e0).
    { intros Heq. rewrite <- Heq, Hs in G. inversion G.
      apply Ho. destruct e, e0; cbn [fst snd] in *; congruence. }
    rewrite <- Hact. unfold is_active. rewrite Hw', nth_error_upd_other by exact Hne.
    specialize (Hsa (fst e)). rewrite Hs in Hsa. rewrite Hs.
    destruct (nth_error sl1 (fst e)) as [s'|]; [|contradiction].
    destruct Hsa as [Hg [_ Hl]]. cbn [s_gen s_loc] in *. rewrite Hg.
    destruct (s_loc s'); [reflexivity|]. specialize (Hl eq_refl). discriminate.
  - contradiction.
  - rewrite <- Hact. apply is_active_sa. eapply do_entry_add_sa; eauto.
  - rewrite <- Hact. apply is_active_sa. eapply do_entry_remove_sa; eauto.
  - rewrite <- Hact. apply is_active_same_slots. eapply do_write_slots; eauto.
  - rewrite <- Hact. apply is_active_same_slots. eapply do_reserve_slots; eauto.
  - rewrite <- Hact. apply is_active_same_slots. eapply do_shrink_slots; eauto.
  - rewrite <- Hact. apply is_active_same_slots. eapply do_res_set_slots; eauto.
Qed.

(** * The first statement of [run_issued_nodup_from] (without the bound on the
      history length) is false

    Start from the world without slots, where [Room] is vacuous whatever the
    length of the history.  Insert, remove, and insert again, [2^64] times in
    total: slot 0 is re-activated [2^64] times, its generation wraps to 0 and
    the identifier [(0, 0)] is handed out a second time. *)

(** slot 0 inactive with generation [g] / active with generation [g] *)
Definition WI (g : N) : world := mkWorld 0 [mkArch [] []] [[]] [mkSlot g None] [0] 0 [].
Definition WA (g : N) : world :=
  mkWorld 0 [mkArch [] [((0, g), [])]] [[]] [mkSlot g (Some ([], 0))] [] 1 [].

Fixpoint cycles (n : nat) (g : N) : list op :=
  match n with
  | 0 => []
  | S n' => Insert [] :: Remove (0, (g + 1)%N) :: cycles n' (g + 1)%N
  end.

Lemma step_WI g : step (WI g) (Insert []) = Some (WA (gen_next g), OId (0, gen_next g), []).
Proof. reflexivity. Qed.

Lemma step_WA g : step (WA g) (Remove (0, g)) = Some (WI g, ONone, []).
Proof.
  unfold step, do_remove, get_loc, WA. cbn [w_slots fst snd nth_error s_gen s_loc].
  rewrite N.eqb_refl. reflexivity.
Qed.

Lemma run_issued_app : forall a b w iss,
  run_issued w (a ++ b) iss =
  match run_issued w a iss with
  | Some (w1, iss1) => run_issued w1 b iss1
  | None => None
  end.
Proof.
  induction a as [|o t IH]; intros b w iss; cbn [app run_issued]; [reflexivity|].
  destruct (step w o) as [[[w1 r] evs]|]; [apply IH|reflexivity].
Qed.

Lemma run_cycles : forall n g iss,
  (g + N.of_nat n < gen_modulus)%N ->
  exists l, run_issued (WI g) (cycles n g) iss = Some (WI (g + N.of_nat n)%N, l ++ iss).
Proof.
  induction n as [|n IH]; intros g iss Hb.
  - exists []. cbn [cycles run_issued app]. change (N.of_nat 0) with 0%N. rewrite N.add_0_r.
    reflexivity.
  - rewrite Nat2N.inj_succ in Hb.
    cbn [cycles run_issued]. rewrite step_WI. rewrite gen_next_nowrap by lia.
    cbn [out_ids]. rewrite step_WA. cbn [out_ids app].
    destruct (IH (g + 1)%N ((0, (g + 1)%N) :: iss)) as [l Hl]; [lia|].
    exists (l ++ [(0, (g + 1)%N)]). refine (eq_trans Hl _). rewrite <- app_assoc. cbn [app].
    rewrite Nat2N.inj_succ. do 3 f_equal. lia.
Qed.

Definition unbounded_statement : Prop :=
  forall w0 ops w issued0 issued,
      Inv w0 -> Hist w0 issued0 -> NoDup issued0 -> Room w0 (N.of_nat (length ops)) ->
      run_issued w0 ops issued0 = Some (w, issued) -> NoDup issued.

Lemma unbounded_false_aux : forall n, N.of_nat n = (gen_modulus - 1)%N -> ~ unbounded_statement.
Proof.
  intros n Hn F.
  pose proof gen_modulus_pos as Hpos.
  destruct (run_cycles n 0%N [(0, 0%N)]) as [l Hl]; [lia|].
  assert (Hwrap : gen_next (0 + N.of_nat n) = 0%N).
  { unfold gen_next. rewrite Hn. replace (0 + (gen_modulus - 1) + 1)%N with gen_modulus by lia.
    apply N.mod_same. lia. }
  set (ops := Insert [] :: Remove (0, 0%N) :: cycles n 0%N ++ [Insert []]).
  assert (E : run_issued (empty_world 0 []) ops [] =
              Some (WA 0%N, (0, 0%N) :: l ++ [(0, 0%N)])).
  { unfold ops. cbn [run_issued].
    change (step (empty_world 0 []) (Insert [])) with (Some (WA 0%N, OId (0, 0%N), @nil event)).
    cbn [out_ids app]. rewrite step_WA. cbn [out_ids app].
    rewrite run_issued_app.
    match goal with
    | |- match ?x with _ => _ end = _ =>
        replace x with (Some (WI (0 + N.of_nat n)%N, l ++ [(0, 0%N)])) by (symmetry; exact Hl)
    end.
    cbn [run_issued]. rewrite step_WI, Hwrap. reflexivity. }
  assert (ND : NoDup ((0, 0%N) :: l ++ [(0, 0%N)])).
  { apply (F (empty_world 0 []) ops (WA 0%N) [] _ (empty_world_inv 0 [])); [| | |exact E].
    - intros i g [].
    - constructor.
    - intros s []. }
  inversion ND as [|? ? Hnin _]; subst. apply Hnin. apply in_or_app. right. left. reflexivity.
Qed.

Lemma run_issued_nodup_from_unbounded_false : ~ unbounded_statement.
Proof. exact (unbounded_false_aux (N.to_nat (gen_modulus - 1)) (N2Nat.id _)). Qed.
