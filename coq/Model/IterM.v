(** The result iterator of [World::query] ([query/result/iter.rs]): the to_come archetypes and the
    per-archetype iterator currently being drained.  [next] drains the current archetype first and
    then looks for the next matching one; [fold] (what [for_each], [count], [sum], [last], [extend]
    end up in) folds what is left of the current archetype and then the to_come ones.  Whether the
    partially drained current iterator is folded first is read off the source.  Definitions only. *)
From Brood Require Export Base.
From Brood Require Export Facts.

Section Iter.
  Variable item : Type.

  (** an archetype still to be visited: does it pass [And<Views, Filter>], and its results *)
  Definition pending := (bool * list item)%type.
  Record iter := mkIter { it_cur : option (list item); it_rest : list pending }.

  Fixpoint advance (rest : list pending) : option item * iter :=
    match rest with
    | [] => (None, mkIter None [])
    | (m, rows) :: r =>
        if m then match rows with
                  | x :: t => (Some x, mkIter (Some t) r)
                  | [] => advance r
                  end
        else advance r
    end.

  Definition next (it : iter) : option item * iter :=
    match it_cur it with
    | Some l => match l with
                | x :: t => (Some x, mkIter (Some t) (it_rest it))
                | [] => advance (it_rest it)
                end
    | None => advance (it_rest it)
    end.

  Definition rest_items (rest : list pending) : list item :=
    flat_map (fun p : pending => if fst p then snd p else []) rest.

  (** [Iterator::fold]: the items it hands to the closure, in order *)
  Definition fold_items (cur_first : bool) (it : iter) : list item :=
    (if cur_first then match it_cur it with Some l => l | None => [] end else []) ++ rest_items (it_rest it).

  (** what is still to come *)
  Definition to_come (it : iter) : list item :=
    match it_cur it with Some l => l | None => [] end ++ rest_items (it_rest it).

  (** [n] calls of [next], collecting what they return, then the iterator *)
  Fixpoint nexts (n : nat) (it : iter) : list item * iter :=
    match n with
    | 0 => ([], it)
    | S n' => match next it with
              | (Some x, it') => let '(xs, it'') := nexts n' it' in (x :: xs, it'')
              | (None, it') => ([], it')
              end
    end.

  Definition fold_src (it : iter) : list item := fold_items fact_iter_fold_folds_current_first it.
End Iter.

(** the iterator [World::query] hands out: nothing drained yet, every archetype of the table pending *)
From Brood Require Export Query.

Definition pending_of (vs : list view) (f : qfilter) (a : arch) : option (pending (list qitem)) :=
  if filter_eval (query_filter vs f) (a_shape a)
  then match mapM (view_row (a_shape a) vs) (a_rows a) with Some rs => Some (true, rs) | None => None end
  else Some (false, []).

Definition iter_of_world (w : world) (vs : list view) (f : qfilter) : option (iter (list qitem)) :=
  match mapM (pending_of vs f) (w_archs w) with
  | Some ps => Some (@mkIter (list qitem) None ps)
  | None => None
  end.
