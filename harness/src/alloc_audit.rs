//! Auditing global allocator (C05, C17).
//!
//! Every allocation is recorded with its layout.  A block allocated on the main
//! thread while a library operation is running (`scope != 0`) is a *library
//! block*: its release is checked against the layout it was created with, it is
//! poisoned and kept in quarantine until the end of the case (so that a stale
//! pointer reads poison instead of recycled memory, and a second release is
//! recognised instead of corrupting the process), and it must be gone when every
//! world of the case has been dropped.
use std::alloc::{GlobalAlloc, Layout, System};
use std::cell::Cell;
use std::collections::HashMap;
use std::sync::atomic::{AtomicU64, Ordering};
use std::sync::Mutex;

pub const POISON: u8 = 0xDD;
pub const POISON_U64: u64 = 0xDDDD_DDDD_DDDD_DDDD;

#[derive(Clone, Copy, Default)]
struct Block {
    size: usize,
    align: usize,
    library: bool,
}

#[derive(Default)]
struct Table {
    live: HashMap<usize, Block>,
    /// released library blocks, still mapped: address -> block
    quarantine: HashMap<usize, Block>,
    problems: Vec<String>,
    lib_allocs: u64,
    lib_frees: u64,
    lib_reallocs: u64,
}

static TABLE: Mutex<Option<Table>> = Mutex::new(None);
/// 0: harness code is running; otherwise: inside a library operation.
static SCOPE: AtomicU64 = AtomicU64::new(0);
static MAIN_THREAD: AtomicU64 = AtomicU64::new(0);

thread_local! {
    static BUSY: Cell<bool> = const { Cell::new(false) };
    static TID: Cell<u64> = const { Cell::new(0) };
}
static NEXT_TID: AtomicU64 = AtomicU64::new(1);

fn tid() -> u64 {
    TID.with(|t| {
        if t.get() == 0 {
            t.set(NEXT_TID.fetch_add(1, Ordering::Relaxed));
        }
        t.get()
    })
}

fn with<R>(f: impl FnOnce(&mut Table) -> R) -> Option<R> {
    // Re-entrancy (the table itself allocates) and thread teardown are bypassed.
    let entered = BUSY.try_with(|b| {
        if b.get() {
            false
        } else {
            b.set(true);
            true
        }
    });
    if entered != Ok(true) {
        return None;
    }
    let r = {
        let mut g = match TABLE.lock() {
            Ok(g) => g,
            Err(p) => p.into_inner(),
        };
        if g.is_none() {
            *g = Some(Table::default());
        }
        f(g.as_mut().unwrap())
    };
    let _ = BUSY.try_with(|b| b.set(false));
    Some(r)
}

pub struct Audit;

unsafe impl GlobalAlloc for Audit {
    unsafe fn alloc(&self, layout: Layout) -> *mut u8 {
        let p = System.alloc(layout);
        if !p.is_null() {
            let library = SCOPE.load(Ordering::Relaxed) != 0 && tid() == MAIN_THREAD.load(Ordering::Relaxed);
            with(|t| {
                if library {
                    t.lib_allocs += 1;
                }
                t.live.insert(p as usize, Block { size: layout.size(), align: layout.align(), library });
            });
        }
        p
    }

    unsafe fn dealloc(&self, p: *mut u8, layout: Layout) {
        let verdict = with(|t| match t.live.remove(&(p as usize)) {
            Some(b) => {
                if b.size != layout.size() || b.align != layout.align() {
                    t.problems.push(format!(
                        "dealloc-layout-mismatch allocated(size={},align={}) released(size={},align={})",
                        b.size,
                        b.align,
                        layout.size(),
                        layout.align()
                    ));
                }
                if b.library {
                    t.lib_frees += 1;
                    t.quarantine.insert(p as usize, b);
                    Some((true, b))
                } else {
                    Some((false, b))
                }
            }
            None => {
                if t.quarantine.contains_key(&(p as usize)) {
                    t.problems.push(format!("double-free size={} align={}", layout.size(), layout.align()));
                    None
                } else {
                    // allocated while the table was bypassed (re-entrancy): not ours to judge
                    Some((false, Block { size: layout.size(), align: layout.align(), library: false }))
                }
            }
        });
        match verdict {
            Some(Some((true, b))) => {
                // poison and keep mapped until the end of the case
                std::ptr::write_bytes(p, POISON, b.size);
            }
            Some(Some((false, b))) => System.dealloc(p, Layout::from_size_align_unchecked(b.size, b.align)),
            Some(None) => {}
            None => System.dealloc(p, layout),
        }
    }

    unsafe fn realloc(&self, p: *mut u8, layout: Layout, new_size: usize) -> *mut u8 {
        let known = with(|t| t.live.get(&(p as usize)).copied()).flatten();
        match known {
            Some(b) if b.library => {
                if b.size != layout.size() || b.align != layout.align() {
                    with(|t| {
                        t.problems.push(format!(
                            "realloc-layout-mismatch allocated(size={},align={}) passed(size={},align={})",
                            b.size,
                            b.align,
                            layout.size(),
                            layout.align()
                        ))
                    });
                }
                // a library block never moves in place: new block, copy, old block to quarantine
                let new_layout = Layout::from_size_align_unchecked(new_size, b.align);
                let q = self.alloc(new_layout);
                if !q.is_null() {
                    std::ptr::copy_nonoverlapping(p, q, b.size.min(new_size));
                    with(|t| t.lib_reallocs += 1);
                    self.dealloc(p, Layout::from_size_align_unchecked(b.size, b.align));
                }
                q
            }
            _ => {
                let q = System.realloc(p, layout, new_size);
                if !q.is_null() {
                    with(|t| {
                        if let Some(b) = t.live.remove(&(p as usize)) {
                            t.live.insert(q as usize, Block { size: new_size, align: b.align, library: b.library });
                        }
                    });
                }
                q
            }
        }
    }
}

/// Call once from `main` before anything else of interest.
pub fn init_main_thread() {
    MAIN_THREAD.store(tid(), Ordering::SeqCst);
}

/// Marks the dynamic extent of one library operation.
pub struct Scope(u64);

pub fn enter(scope: u64) -> Scope {
    Scope(SCOPE.swap(scope.max(1), Ordering::SeqCst))
}

impl Drop for Scope {
    fn drop(&mut self) {
        SCOPE.store(self.0, Ordering::SeqCst);
    }
}

/// Problems recorded since the last call.
pub fn take_problems() -> Vec<String> {
    with(|t| std::mem::take(&mut t.problems)).unwrap_or_default()
}

/// End of a case, after every world has been dropped: library blocks still
/// live are leaks.  Empties the quarantine.  Returns (leaked blocks as
/// (size, align), library allocations, frees, reallocs).
pub fn end_of_case() -> (Vec<(usize, usize)>, u64, u64, u64) {
    let (leaks, q, a, f, r) = with(|t| {
        let mut leaks: Vec<(usize, usize)> = t.live.values().filter(|b| b.library).map(|b| (b.size, b.align)).collect();
        leaks.sort();
        // forget them: they stay allocated for the rest of the process
        t.live.retain(|_, b| !b.library);
        let q: Vec<(usize, Block)> = t.quarantine.drain().collect();
        let r = (leaks, q, t.lib_allocs, t.lib_frees, t.lib_reallocs);
        t.lib_allocs = 0;
        t.lib_frees = 0;
        t.lib_reallocs = 0;
        r
    })
    .unwrap_or_default();
    for (p, b) in q {
        unsafe { System.dealloc(p as *mut u8, Layout::from_size_align_unchecked(b.size, b.align)) };
    }
    (leaks, a, f, r)
}
