(** Proofs for C05 at the allocation level: one column under push / reserve / shrink_to_fit / free,
    for every answer of the growth oracle. *)
From Brood Require Import Base Facts Heap BaseFacts.

(** * The block table *)
Lemma hfind_in a l b : hfind a l = Some b -> In (a, b) l.
Proof.
  induction l as [|[a' b'] t IH]; cbn; [discriminate|].
  destruct (Nat.eqb a' a) eqn:E; intros H.
  - apply Nat.eqb_eq in E. inversion H; subst. left. reflexivity.
  - right. apply IH. exact H.
Qed.

Lemma hfind_none_notin a l : hfind a l = None -> ~ In a (map fst l).
Proof.
  induction l as [|[a' b'] t IH]; cbn; [tauto|].
  destruct (Nat.eqb a' a) eqn:E; [discriminate|]. apply Nat.eqb_neq in E.
  intros H [X|X]; [congruence|]. exact (IH H X).
Qed.

Lemma hfind_hset_same a b l : hfind a l <> None -> hfind a (hset a b l) = Some b.
Proof.
  induction l as [|[a' b'] t IH]; cbn; [congruence|].
  destruct (Nat.eqb a' a) eqn:E; cbn; rewrite E; [reflexivity|exact IH].
Qed.

Lemma hfind_hset_other a a2 b l : a2 <> a -> hfind a2 (hset a b l) = hfind a2 l.
Proof.
  intros Hne. induction l as [|[a' b'] t IH]; cbn; [reflexivity|].
  destruct (Nat.eqb a' a) eqn:E; cbn.
  - apply Nat.eqb_eq in E. subst a'. assert (E2 : Nat.eqb a a2 = false) by (apply Nat.eqb_neq; congruence).
    rewrite E2. reflexivity.
  - destruct (Nat.eqb a' a2); [reflexivity|exact IH].
Qed.

Lemma hset_keys a b l : map fst (hset a b l) = map fst l.
Proof.
  induction l as [|[a' b'] t IH]; cbn; [reflexivity|]. destruct (Nat.eqb a' a) eqn:E; cbn; [|rewrite IH; reflexivity].
  reflexivity.
Qed.

Lemma hfind_hremove_other a a2 l : a2 <> a -> hfind a2 (hremove a l) = hfind a2 l.
Proof.
  intros Hne. induction l as [|[a' b'] t IH]; cbn; [reflexivity|].
  destruct (Nat.eqb a' a) eqn:E; cbn.
  - apply Nat.eqb_eq in E. subst a'. assert (E2 : Nat.eqb a a2 = false) by (apply Nat.eqb_neq; congruence).
    rewrite E2. reflexivity.
  - destruct (Nat.eqb a' a2); [reflexivity|exact IH].
Qed.

Lemma hremove_keys_incl a l x : In x (map fst (hremove a l)) -> In x (map fst l).
Proof.
  induction l as [|[a' b'] t IH]; cbn; [tauto|]. destruct (Nat.eqb a' a); cbn; [tauto|]. intros [H|H]; auto.
Qed.

Lemma hremove_nodup a l : NoDup (map fst l) -> NoDup (map fst (hremove a l)).
Proof.
  induction l as [|[a' b'] t IH]; cbn; intros ND; [constructor|]. inversion ND as [|? ? Hn ND']; subst.
  destruct (Nat.eqb a' a); cbn; [exact ND'|]. constructor; [|auto]. intros X. apply Hn. eapply hremove_keys_incl. exact X.
Qed.

Lemma hremove_gone a l : NoDup (map fst l) -> hfind a (hremove a l) = None.
Proof.
  induction l as [|[a' b'] t IH]; cbn; intros ND; [reflexivity|]. inversion ND as [|? ? Hn ND']; subst.
  destruct (Nat.eqb a' a) eqn:E; cbn.
  - apply Nat.eqb_eq in E. subst a'. destruct (hfind a t) eqn:F; [|reflexivity].
    exfalso. apply Hn. apply hfind_in in F. apply in_map_iff. exists (a, b). auto.
  - rewrite E. auto.
Qed.

Lemma in_hset a b l x y : In (x, y) (hset a b l) -> (x = a /\ y = b) \/ In (x, y) l.
Proof.
  induction l as [|[a' b'] t IH]; cbn; [tauto|]. destruct (Nat.eqb a' a) eqn:E; cbn.
  - apply Nat.eqb_eq in E. subst a'. intros [H|H]; [inversion H; auto|auto].
  - intros [H|H]; [auto|]. destruct (IH H); auto.
Qed.

Lemma in_hremove a l x y : In (x, y) (hremove a l) -> In (x, y) l.
Proof.
  induction l as [|[a' b'] t IH]; cbn; [tauto|]. destruct (Nat.eqb a' a); cbn; [auto|]. intros [H|H]; auto.
Qed.

(** * Frame: what another column sees *)
Definition same_elsewhere (a : nat) (h h' : heap) : Prop :=
  (forall a2, a2 <> a -> a2 < hp_next h -> hfind a2 (hp_blocks h') = hfind a2 (hp_blocks h)) /\ hp_next h <= hp_next h'.

Lemma rebuild_frame h h' zst elem r len a :
  same_elsewhere a h h' -> (allocated zst r = true -> fst r <> a /\ fst r < hp_next h) ->
  rebuild h' zst elem r len = rebuild h zst elem r len.
Proof.
  intros [F _] Hr. unfold rebuild. destruct zst; [reflexivity|].
  destruct (Nat.eqb (snd r) 0) eqn:E; [reflexivity|].
  destruct (Hr ltac:(unfold allocated; rewrite E; reflexivity)) as [Hne Hlt]. rewrite (F (fst r) Hne Hlt). reflexivity.
Qed.

(** * Release *)
Lemma hdealloc_ok h zst elem r len : heap_wf h -> col_ok h zst elem r len ->
  exists h', hdealloc h zst elem r = Some h' /\ heap_wf h' /\ same_elsewhere (fst r) h h' /\
             (allocated zst r = true -> hfind (fst r) (hp_blocks h') = None).
Proof.
  intros [ND WF] [HR Hlt]. unfold hdealloc. destruct (allocated zst r) eqn:EA.
  - unfold allocated in EA. apply andb_true_iff in EA as [Ez Ec]. apply negb_true_iff in Ez, Ec. subst zst.
    unfold rebuild in HR. rewrite Ec in HR.
    destruct (hfind (fst r) (hp_blocks h)) as [b|] eqn:F; [|congruence].
    destruct (Nat.eqb (bk_elem b) elem && Nat.eqb (bk_cap b) (snd r) && Nat.leb len (snd r) && _) eqn:C; [|congruence].
    apply andb_true_iff in C as [C _]. apply andb_true_iff in C as [C _]. rewrite C.
    eexists. split; [reflexivity|]. split.
    + split; cbn [hp_blocks hp_next]; [apply hremove_nodup; exact ND|]. intros a b0 Hin. apply in_hremove in Hin. apply WF. exact Hin.
    + split.
      * split; cbn [hp_blocks hp_next]; [|lia]. intros a2 Hne _. apply hfind_hremove_other. exact Hne.
      * intros _. cbn [hp_blocks]. apply hremove_gone. exact ND.
  - eexists. split; [reflexivity|]. split; [split; assumption|]. split; [split; [reflexivity|lia]|discriminate].
Qed.

Theorem col_free_ok h zst elem r len : heap_wf h -> col_ok h zst elem r len ->
  exists h', col_free h zst elem r len = Some h' /\ heap_wf h' /\ same_elsewhere (fst r) h h' /\
             (allocated zst r = true -> hfind (fst r) (hp_blocks h') = None).
Proof.
  intros WF CO. unfold col_free. destruct CO as [HR Hlt].
  destruct (rebuild h zst elem r len) eqn:E; [|congruence].
  apply hdealloc_ok with (len := len); [exact WF|]. split; [congruence|exact Hlt].
Qed.

(** * Rebuilding *)
Definition inits (n : nat) (cells : list (option val)) : Prop :=
  forallb (fun c => match c with Some _ => true | None => false end) (firstn n cells) = true.

Lemma rebuild_inv h elem r len cells : rebuild h false elem r len = Some cells -> snd r <> 0 ->
  exists b, hfind (fst r) (hp_blocks h) = Some b /\ bk_elem b = elem /\ bk_cap b = snd r /\ len <= snd r /\
            cells = bk_cells b /\ inits len (bk_cells b).
Proof.
  unfold rebuild. intros H Hc. assert (E : Nat.eqb (snd r) 0 = false) by (apply Nat.eqb_neq; exact Hc). rewrite E in H.
  destruct (hfind (fst r) (hp_blocks h)) as [b|]; [|discriminate].
  destruct (Nat.eqb (bk_elem b) elem && Nat.eqb (bk_cap b) (snd r) && Nat.leb len (snd r) && _) eqn:C; [|discriminate].
  apply andb_true_iff in C as [C C4]. apply andb_true_iff in C as [C C3]. apply andb_true_iff in C as [C1 C2].
  apply Nat.eqb_eq in C1, C2. apply Nat.leb_le in C3. inversion H; subst cells.
  exists b. repeat split; auto.
Qed.

Lemma rebuild_intro h elem a cap len b : hfind a (hp_blocks h) = Some b -> bk_elem b = elem -> bk_cap b = cap -> cap <> 0 ->
  len <= cap -> inits len (bk_cells b) -> rebuild h false elem (a, cap) len = Some (bk_cells b).
Proof.
  intros F E1 E2 Hc L I. unfold rebuild. cbn [fst snd].
  assert (E : Nat.eqb cap 0 = false) by (apply Nat.eqb_neq; exact Hc). rewrite E, F.
  subst. rewrite !Nat.eqb_refl. apply Nat.leb_le in L. rewrite L. unfold inits in I. rewrite I. reflexivity.
Qed.

Lemma inits_firstn_app n cells k : n <= length cells -> inits n cells -> inits n (firstn n cells ++ repeat None k).
Proof.
  intros L I. unfold inits in *. rewrite firstn_app, firstn_firstn, Nat.min_id, firstn_length, (Nat.min_l _ _ L), Nat.sub_diag.
  cbn [firstn]. rewrite app_nil_r. exact I.
Qed.

Lemma inits_upd_S n cells x : n < length cells -> inits n cells -> inits (S n) (upd n (fun _ => Some x) cells).
Proof.
  unfold inits. revert n. induction cells as [|c t IH]; intros n L I; cbn in L; [lia|].
  destruct n as [|n]; cbn [upd firstn forallb].
  - reflexivity.
  - cbn [firstn forallb] in I. apply andb_true_iff in I as [I1 I2]. rewrite I1. cbn [andb]. apply IH; [lia|exact I2].
Qed.

Lemma inits_le n m cells : m <= n -> inits n cells -> inits m cells.
Proof.
  unfold inits. revert n m. induction cells as [|c t IH]; intros n m L I; [destruct m; reflexivity|].
  destruct m as [|m]; [reflexivity|]. destruct n as [|n]; [lia|]. cbn [firstn forallb] in *.
  apply andb_true_iff in I as [I1 I2]. rewrite I1. cbn [andb]. apply (IH n m); [lia|exact I2].
Qed.

(** * Growing / shrinking a column to exactly [ncap] cells *)
Lemma hresize_ok h zst elem r len ncap : heap_wf h -> col_ok h zst elem r len -> len <= ncap ->
  exists h' r', hresize h zst elem r len ncap = Some (h', r') /\ heap_wf h' /\ col_ok h' zst elem r' len /\
    same_elsewhere (fst r) h h' /\ (zst = false -> snd r' = ncap) /\
    (allocated zst r' = true -> hp_next h <= fst r').
Proof.
  intros WF [HR Hlt] Hn. unfold hresize.
  destruct (rebuild h zst elem r len) as [cells|] eqn:ER; [|congruence].
  destruct zst.
  { exists h, r. split; [reflexivity|]. split; [exact WF|]. split; [split; [rewrite ER; discriminate|discriminate]|].
    split; [split; [reflexivity|lia]|]. split; [discriminate|discriminate]. }
  destruct (Nat.eqb ncap 0) eqn:En.
  { apply Nat.eqb_eq in En. subst ncap. assert (len = 0) by lia. subst len.
    destruct (hdealloc_ok h false elem r 0 WF) as (h' & E & WF' & SE & _); [split; [congruence|exact Hlt]|].
    rewrite E. exists h', (0, 0). split; [reflexivity|]. split; [exact WF'|]. split.
    - split; [unfold rebuild; cbn; discriminate|cbn; discriminate].
    - split; [exact SE|]. split; [reflexivity|cbn; discriminate]. }
  apply Nat.eqb_neq in En.
  set (a := hp_next h).
  set (nb := mkBlock elem ncap (firstn len cells ++ repeat None (ncap - len))).
  set (h2 := mkHeap ((a, nb) :: hp_blocks h) (S a)).
  change (fst (hgrow h elem ncap len cells)) with h2. change (snd (hgrow h elem ncap len cells)) with a.
  destruct WF as [ND WFb].
  assert (Hfresh : ~ In a (map fst (hp_blocks h))).
  { intros X. apply in_map_iff in X as ([a' b'] & Ea & Hin). cbn in Ea. subst a'. destruct (WFb a b' Hin) as [L _]. unfold a in L. lia. }
  assert (Hcells : len <= length cells /\ inits len cells /\ (snd r <> 0 -> length cells = snd r)).
  { destruct (Nat.eq_dec (snd r) 0) as [E0|E0].
    - unfold rebuild in ER. rewrite E0 in ER. cbn in ER. destruct (Nat.eqb len 0) eqn:El; [|discriminate].
      apply Nat.eqb_eq in El. subst len. inversion ER; subst cells.
      split; [cbn; lia|]. split; [reflexivity|]. intros X. congruence.
    - destruct (rebuild_inv h elem r len cells ER E0) as (b & F & E1 & E2 & L & -> & I).
      destruct (WFb _ _ (hfind_in _ _ _ F)) as [_ Lc].
      split; [lia|]. split; [exact I|]. intros _. congruence. }
  destruct Hcells as (Lc & Ic & Lcap).
  assert (WF2 : heap_wf h2).
  { split; cbn [hp_blocks hp_next h2].
    - cbn. constructor; [exact Hfresh|exact ND].
    - intros x y [Hin|Hin].
      + inversion Hin; subst x y. split; [unfold a; lia|]. cbn [nb bk_cells bk_cap].
        rewrite app_length, firstn_length, repeat_length, (Nat.min_l _ _ Lc). lia.
      + destruct (WFb x y Hin). split; [unfold a in *; lia|assumption]. }
  assert (SE2 : same_elsewhere a h h2).
  { split; cbn [hp_blocks hp_next h2]; [|unfold a; lia]. intros a2 Hne _.
    cbn [hfind].
    assert (E : Nat.eqb a a2 = false) by (apply Nat.eqb_neq; congruence). rewrite E. reflexivity. }
  assert (CO2 : col_ok h2 false elem r len).
  { split.
    - rewrite (rebuild_frame h h2 false elem r len a SE2); [rewrite ER; discriminate|].
      intros EA. split; [specialize (Hlt EA); unfold a; lia|exact (Hlt EA)].
    - intros EA. specialize (Hlt EA). cbn [hp_next h2]. unfold a. lia. }
  destruct (hdealloc_ok h2 false elem r len WF2 CO2) as (h3 & E3 & WF3 & SE3 & G3).
  rewrite E3. exists h3, (a, ncap). split; [reflexivity|]. split; [exact WF3|].
  assert (Fa2 : hfind a (hp_blocks h2) = Some nb).
  { cbn [hp_blocks h2 hfind]. rewrite Nat.eqb_refl. reflexivity. }
  assert (Fa3 : hfind a (hp_blocks h3) = Some nb).
  { destruct (allocated false r) eqn:EA.
    - destruct SE3 as [F3 _]. rewrite F3; [exact Fa2| |cbn [hp_next h2]; lia].
      specialize (Hlt eq_refl). unfold a. lia.
    - unfold hdealloc in E3. rewrite EA in E3. inversion E3; subst h3. exact Fa2. }
  split.
  { split.
    - rewrite (rebuild_intro h3 elem a ncap len nb Fa3 eq_refl eq_refl En Hn); [discriminate|].
      cbn [nb bk_cells]. apply inits_firstn_app; assumption.
    - intros _. cbn [fst]. destruct SE3 as [_ L3]. cbn [hp_next h2] in L3. lia. }
  split.
  { destruct SE2 as [F2 L2]. destruct SE3 as [F3 L3]. split; [|lia].
    intros a2 Hne Hlt2. rewrite F3; [|exact Hne|cbn [hp_next h2]; lia]. apply F2; [unfold a; lia|exact Hlt2]. }
  split; [reflexivity|]. intros _. cbn [fst]. unfold a. lia.
Qed.

(** * Writing one more element into spare capacity *)
Lemma hwrite_ok h elem r len x b : heap_wf h -> col_ok h false elem r len -> len < snd r ->
  hfind (fst r) (hp_blocks h) = Some b ->
  let h' := mkHeap (hset (fst r) (mkBlock elem (bk_cap b) (upd len (fun _ => Some x) (bk_cells b))) (hp_blocks h)) (hp_next h) in
  heap_wf h' /\ col_ok h' false elem r (S len) /\ same_elsewhere (fst r) h h'.
Proof.
  intros [ND WFb] [HR Hlt] Hl F h'.
  assert (Hc : snd r <> 0) by lia.
  destruct (rebuild h false elem r len) as [cells|] eqn:ER; [|congruence].
  destruct (rebuild_inv h elem r len cells ER Hc) as (b' & F' & E1 & E2 & L & -> & I).
  rewrite F in F'. inversion F'; subst b'. clear F'.
  destruct (WFb _ _ (hfind_in _ _ _ F)) as [La Lc].
  split; [|split].
  - split; cbn [hp_blocks hp_next h'].
    + rewrite hset_keys. exact ND.
    + intros a0 b0 Hin. apply in_hset in Hin as [[-> ->]|Hin].
      * split; [exact La|]. cbn [bk_cells bk_cap]. rewrite upd_length. exact Lc.
      * apply WFb. exact Hin.
  - split.
    + assert (Fh : hfind (fst r) (hp_blocks h') = Some (mkBlock elem (bk_cap b) (upd len (fun _ => Some x) (bk_cells b)))).
      { cbn [hp_blocks h']. apply hfind_hset_same. congruence. }
      destruct r as [ra rc]. cbn [fst snd] in *.
      rewrite (rebuild_intro h' elem ra rc (S len) _ Fh eq_refl); [discriminate| | | |].
      * cbn [bk_cap]. exact E2.
      * exact Hc.
      * lia.
      * cbn [bk_cells]. apply inits_upd_S; [lia|exact I].
    + intros EA. cbn [hp_next h']. exact (Hlt EA).
  - split; cbn [hp_blocks hp_next h']; [|lia]. intros a2 Hne _. apply hfind_hset_other. exact Hne.
Qed.

Lemma same_elsewhere_trans a h1 h2 h3 : same_elsewhere a h1 h2 -> same_elsewhere a h2 h3 -> same_elsewhere a h1 h3.
Proof.
  intros [F1 L1] [F2 L2]. split; [|lia]. intros a2 Hne Hlt. rewrite F2; [apply F1; assumption|exact Hne|lia].
Qed.

(** a weaker frame that forgets which single old address was touched: everything below the old
    [hp_next] other than the column's own old block is unchanged *)
Definition frame (r : raw) (h h' : heap) : Prop := same_elsewhere (fst r) h h'.

(** * The three capacity-changing calls, with the write-back the source performs *)
Theorem col_reserve_ok h zst elem r len add want : heap_wf h -> col_ok h zst elem r len ->
  exists h' r', col_reserve true h zst elem r len add want = Some (h', r') /\ heap_wf h' /\ col_ok h' zst elem r' len /\
    frame r h h' /\ (zst = false -> len + add <= snd r') /\
    (allocated zst r' = true -> fst r' = fst r \/ hp_next h <= fst r').
Proof.
  intros WF CO. unfold col_reserve. destruct CO as [HR Hlt].
  destruct (rebuild h zst elem r len) as [cells|] eqn:ER; [|congruence].
  assert (CO : col_ok h zst elem r len) by (split; [congruence|exact Hlt]).
  destruct zst.
  { exists h, r. split; [reflexivity|]. split; [exact WF|]. split; [exact CO|]. split; [split; [reflexivity|lia]|].
    split; [discriminate|]. intros _. left. reflexivity. }
  destruct (Nat.leb (len + add) (snd r)) eqn:E.
  { apply Nat.leb_le in E. exists h, r. split; [reflexivity|]. split; [exact WF|]. split; [exact CO|].
    split; [split; [reflexivity|lia]|]. split; [intros _; exact E|]. intros _. left. reflexivity. }
  destruct (hresize_ok h false elem r len (Nat.max want (len + add)) WF CO ltac:(lia)) as (h1 & r1 & E1 & WF1 & CO1 & SE1 & C1 & N1).
  rewrite E1. exists h1, r1. cbn [stored]. split; [reflexivity|]. split; [exact WF1|]. split; [exact CO1|]. split; [exact SE1|].
  split; [intros _; rewrite (C1 eq_refl); lia|]. intros EA. right. exact (N1 EA).
Qed.

Theorem col_shrink_ok h zst elem r len : heap_wf h -> col_ok h zst elem r len ->
  exists h' r', col_shrink true h zst elem r len = Some (h', r') /\ heap_wf h' /\ col_ok h' zst elem r' len /\
    frame r h h' /\ (zst = false -> snd r' = len) /\
    (allocated zst r' = true -> fst r' = fst r \/ hp_next h <= fst r').
Proof.
  intros WF CO. unfold col_shrink. destruct CO as [HR Hlt].
  destruct (rebuild h zst elem r len) as [cells|] eqn:ER; [|congruence].
  assert (CO : col_ok h zst elem r len) by (split; [congruence|exact Hlt]).
  destruct zst.
  { exists h, r. split; [reflexivity|]. split; [exact WF|]. split; [exact CO|]. split; [split; [reflexivity|lia]|].
    split; [discriminate|]. intros _. left. reflexivity. }
  destruct (Nat.eqb (snd r) len) eqn:E.
  { apply Nat.eqb_eq in E. exists h, r. split; [reflexivity|]. split; [exact WF|]. split; [exact CO|].
    split; [split; [reflexivity|lia]|]. split; [intros _; exact E|]. intros _. left. reflexivity. }
  destruct (hresize_ok h false elem r len len WF CO ltac:(lia)) as (h1 & r1 & E1 & WF1 & CO1 & SE1 & C1 & N1).
  rewrite E1. exists h1, r1. cbn [stored]. split; [reflexivity|]. split; [exact WF1|]. split; [exact CO1|]. split; [exact SE1|].
  split; [intros _; exact (C1 eq_refl)|]. intros EA. right. exact (N1 EA).
Qed.

Theorem col_push_ok h zst elem r len x want : heap_wf h -> col_ok h zst elem r len ->
  exists h' r', col_push true h zst elem r len x want = Some (h', r') /\ heap_wf h' /\ col_ok h' zst elem r' (S len) /\
    frame r h h' /\ (allocated zst r' = true -> fst r' = fst r \/ hp_next h <= fst r').
Proof.
  intros WF CO. unfold col_push. destruct CO as [HR Hlt].
  destruct (rebuild h zst elem r len) as [cells|] eqn:ER; [|congruence].
  assert (CO : col_ok h zst elem r len) by (split; [congruence|exact Hlt]).
  destruct zst.
  { exists h, r. split; [reflexivity|]. split; [exact WF|]. split; [split; [cbn; discriminate|discriminate]|].
    split; [split; [reflexivity|lia]|]. intros _. left. reflexivity. }
  destruct (Nat.ltb len (snd r)) eqn:E.
  { apply Nat.ltb_lt in E. assert (Hc : snd r <> 0) by lia.
    destruct (rebuild_inv h elem r len cells ER Hc) as (b & F & _).
    rewrite F. destruct (hwrite_ok h elem r len x b WF CO E F) as (W1 & W2 & W3).
    eexists _, r. split; [reflexivity|]. split; [exact W1|]. split; [exact W2|]. split; [exact W3|]. intros _. left. reflexivity. }
  apply Nat.ltb_ge in E.
  destruct (hresize_ok h false elem r len (Nat.max want (S len)) WF CO ltac:(lia)) as (h1 & r1 & E1 & WF1 & CO1 & SE1 & C1 & N1).
  rewrite E1. specialize (C1 eq_refl).
  assert (Hc1 : snd r1 <> 0) by lia.
  destruct CO1 as [HR1 Hlt1]. destruct (rebuild h1 false elem r1 len) as [cells1|] eqn:ER1; [|congruence].
  destruct (rebuild_inv h1 elem r1 len cells1 ER1 Hc1) as (b & F & _).
  rewrite F.
  assert (CO1 : col_ok h1 false elem r1 len) by (split; [congruence|exact Hlt1]).
  destruct (hwrite_ok h1 elem r1 len x b WF1 CO1 ltac:(lia) F) as (W1 & W2 & W3).
  assert (EA1 : allocated false r1 = true).
  { unfold allocated. cbn [negb andb]. apply negb_true_iff. apply Nat.eqb_neq. exact Hc1. }
  specialize (N1 EA1).
  eexists _, r1. cbn [stored]. split; [reflexivity|]. split; [exact W1|]. split; [exact W2|]. split.
  - (* the write touched the fresh block only, which is above the old [hp_next] *)
    destruct SE1 as [F1 L1]. destruct W3 as [F3 L3]. split; [|lia].
    intros a2 Hne Hl2. rewrite F3; [apply F1; assumption|lia|lia].
  - intros _. right. exact N1.
Qed.

(** * The frame when the column owns no block (dangling pointer, any address) *)
Lemma hresize_unalloc h zst elem r len ncap h' r' : allocated zst r = false ->
  hresize h zst elem r len ncap = Some (h', r') ->
  forall a2, a2 < hp_next h -> hfind a2 (hp_blocks h') = hfind a2 (hp_blocks h).
Proof.
  intros EA. unfold hresize. destruct (rebuild h zst elem r len) as [cells|]; [|discriminate].
  destruct zst; [intros H; inversion H; reflexivity|].
  unfold hdealloc. rewrite EA.
  destruct (Nat.eqb ncap 0); intros H; inversion H; subst; [reflexivity|].
  intros a2 Hl. cbn [hgrow fst hp_blocks hfind].
  assert (E : Nat.eqb (hp_next h) a2 = false) by (apply Nat.eqb_neq; lia). rewrite E. reflexivity.
Qed.

Definition framed (zst : bool) (r : raw) (h h' : heap) : Prop :=
  (forall a2, a2 < hp_next h -> (allocated zst r = true -> a2 <> fst r) ->
              hfind a2 (hp_blocks h') = hfind a2 (hp_blocks h)) /\ hp_next h <= hp_next h'.

Lemma framed_intro zst r h h' : frame r h h' ->
  (allocated zst r = false -> forall a2, a2 < hp_next h -> hfind a2 (hp_blocks h') = hfind a2 (hp_blocks h)) ->
  framed zst r h h'.
Proof.
  intros [F L] U. split; [|exact L]. intros a2 Hl Hne. destruct (allocated zst r) eqn:EA.
  - apply F; [apply Hne; reflexivity|exact Hl].
  - apply U; [reflexivity|exact Hl].
Qed.

Lemma col_reserve_unalloc wb h zst elem r len add want h' r' : allocated zst r = false ->
  col_reserve wb h zst elem r len add want = Some (h', r') ->
  forall a2, a2 < hp_next h -> hfind a2 (hp_blocks h') = hfind a2 (hp_blocks h).
Proof.
  intros EA. unfold col_reserve. destruct (rebuild h zst elem r len); [|discriminate].
  destruct zst; [intros H; inversion H; reflexivity|].
  destruct (Nat.leb (len + add) (snd r)); [intros H; inversion H; reflexivity|].
  destruct (hresize h false elem r len (Nat.max want (len + add))) as [[h1 r1]|] eqn:E; [|discriminate].
  intros H; inversion H; subst. eapply hresize_unalloc; eassumption.
Qed.

Lemma col_shrink_unalloc wb h zst elem r len h' r' : allocated zst r = false ->
  col_shrink wb h zst elem r len = Some (h', r') ->
  forall a2, a2 < hp_next h -> hfind a2 (hp_blocks h') = hfind a2 (hp_blocks h).
Proof.
  intros EA. unfold col_shrink. destruct (rebuild h zst elem r len); [|discriminate].
  destruct zst; [intros H; inversion H; reflexivity|].
  destruct (Nat.eqb (snd r) len); [intros H; inversion H; reflexivity|].
  destruct (hresize h false elem r len len) as [[h1 r1]|] eqn:E; [|discriminate].
  intros H; inversion H; subst. eapply hresize_unalloc; eassumption.
Qed.

Lemma hresize_unalloc_addr h elem r len ncap h' r' : allocated false r = false -> ncap <> 0 ->
  hresize h false elem r len ncap = Some (h', r') -> fst r' = hp_next h.
Proof.
  intros EA Hn. unfold hresize. destruct (rebuild h false elem r len) as [cells|]; [|discriminate].
  apply Nat.eqb_neq in Hn. rewrite Hn. unfold hdealloc. rewrite EA. intros H; inversion H. reflexivity.
Qed.

Lemma col_push_unalloc wb h zst elem r len x want h' r' : allocated zst r = false ->
  col_push wb h zst elem r len x want = Some (h', r') ->
  forall a2, a2 < hp_next h -> hfind a2 (hp_blocks h') = hfind a2 (hp_blocks h).
Proof.
  intros EA. unfold col_push. destruct (rebuild h zst elem r len); [|discriminate].
  destruct zst; [intros H; inversion H; reflexivity|].
  assert (E0 : snd r = 0).
  { unfold allocated in EA. cbn [negb andb] in EA. apply negb_false_iff in EA. apply Nat.eqb_eq in EA. exact EA. }
  rewrite E0. cbn [Nat.ltb Nat.leb].
  destruct (hresize h false elem r len (Nat.max want (S len))) as [[h1 r1]|] eqn:E; [|discriminate].
  destruct (hfind (fst r1) (hp_blocks h1)) as [b|]; [|discriminate].
  intros H; inversion H; subst. intros a2 Hl. cbn [hp_blocks].
  pose proof (hresize_unalloc_addr h elem r len (Nat.max want (S len)) h1 r1 EA ltac:(lia) E) as Ea.
  rewrite hfind_hset_other by lia. eapply hresize_unalloc; eassumption.
Qed.

(** * Which blocks exist afterwards: the column's own new block, or an old block of somebody else *)
Definition blocks_post (zst : bool) (r r' : raw) (h h' : heap) : Prop :=
  forall a2, hfind a2 (hp_blocks h') <> None ->
    (allocated zst r' = true /\ a2 = fst r') \/
    (hfind a2 (hp_blocks h) <> None /\ ~ (allocated zst r = true /\ a2 = fst r)).

Lemma hfind_hset_some a b l a2 : hfind a2 (hset a b l) <> None -> hfind a2 l <> None.
Proof.
  induction l as [|[a' b'] t IH]; cbn [hset hfind]; [auto|].
  destruct (Nat.eqb a' a) eqn:E; cbn [hfind]; destruct (Nat.eqb a' a2) eqn:E2; try discriminate; auto.
Qed.

Lemma hdealloc_blocks h zst elem r h' : NoDup (map fst (hp_blocks h)) -> hdealloc h zst elem r = Some h' ->
  forall a2, hfind a2 (hp_blocks h') <> None ->
    hfind a2 (hp_blocks h) <> None /\ ~ (allocated zst r = true /\ a2 = fst r).
Proof.
  intros ND. unfold hdealloc. destruct (allocated zst r) eqn:EA.
  - destruct (hfind (fst r) (hp_blocks h)) as [b|]; [|discriminate].
    destruct (Nat.eqb (bk_elem b) elem && Nat.eqb (bk_cap b) (snd r)); [|discriminate].
    intros H; inversion H; subst h'. cbn [hp_blocks]. intros a2 Hf.
    destruct (Nat.eq_dec a2 (fst r)) as [->|Hne].
    + rewrite (hremove_gone _ _ ND) in Hf. congruence.
    + rewrite (hfind_hremove_other _ _ _ Hne) in Hf. split; [exact Hf|]. intros [_ X]. congruence.
  - intros H; inversion H; subst h'. intros a2 Hf. split; [exact Hf|]. intros [X _]. discriminate.
Qed.

Lemma hresize_blocks h zst elem r len ncap h' r' : heap_wf h -> hresize h zst elem r len ncap = Some (h', r') ->
  blocks_post zst r r' h h'.
Proof.
  intros [ND WFb]. unfold hresize. destruct (rebuild h zst elem r len) as [cells|]; [|discriminate].
  destruct zst.
  { intros H; inversion H; subst. intros a2 Hf. right. split; [exact Hf|]. intros [X _]. discriminate. }
  destruct (Nat.eqb ncap 0) eqn:En.
  { destruct (hdealloc h false elem r) as [h1|] eqn:E; [|discriminate]. intros H; inversion H; subst.
    intros a2 Hf. right. eapply hdealloc_blocks; eassumption. }
  destruct (hdealloc (fst (hgrow h elem ncap len cells)) false elem r) as [h3|] eqn:E; [|discriminate].
  intros H; inversion H; subst. intros a2 Hf. cbn [hgrow fst snd] in *.
  assert (ND2 : NoDup (map fst ((hp_next h, mkBlock elem ncap (firstn len cells ++ repeat None (ncap - len))) :: hp_blocks h))).
  { cbn. constructor; [|exact ND]. intros X. apply in_map_iff in X as ([a' b'] & Ea & Hin). cbn in Ea. subst a'.
    destruct (WFb _ _ Hin). lia. }
  destruct (hdealloc_blocks (mkHeap _ _) _ _ _ _ ND2 E a2 Hf) as [Hf2 Hn]. cbn [hp_blocks hfind] in Hf2.
  destruct (Nat.eqb (hp_next h) a2) eqn:Ea.
  - left. apply Nat.eqb_eq in Ea. split; [|auto]. unfold allocated. cbn [negb andb snd]. rewrite En. reflexivity.
  - right. split; [exact Hf2|exact Hn].
Qed.

Lemma col_reserve_blocks h zst elem r len add want h' r' : heap_wf h ->
  col_reserve true h zst elem r len add want = Some (h', r') -> blocks_post zst r r' h h'.
Proof.
  intros WF. unfold col_reserve. destruct (rebuild h zst elem r len); [|discriminate].
  assert (Id : blocks_post zst r r h h).
  { intros a2 Hf. destruct (allocated zst r) eqn:EA; [|right; split; [exact Hf|intros [X _]; discriminate]].
    destruct (Nat.eq_dec a2 (fst r)); [left; auto|right; split; [exact Hf|intros [_ X]; congruence]]. }
  destruct zst; [intros H; inversion H; subst; exact Id|].
  destruct (Nat.leb (len + add) (snd r)); [intros H; inversion H; subst; exact Id|].
  destruct (hresize h false elem r len (Nat.max want (len + add))) as [[h1 r1]|] eqn:E; [|discriminate].
  intros H; inversion H; subst. cbn [stored]. eapply hresize_blocks; eassumption.
Qed.

Lemma col_shrink_blocks h zst elem r len h' r' : heap_wf h ->
  col_shrink true h zst elem r len = Some (h', r') -> blocks_post zst r r' h h'.
Proof.
  intros WF. unfold col_shrink. destruct (rebuild h zst elem r len); [|discriminate].
  assert (Id : blocks_post zst r r h h).
  { intros a2 Hf. destruct (allocated zst r) eqn:EA; [|right; split; [exact Hf|intros [X _]; discriminate]].
    destruct (Nat.eq_dec a2 (fst r)); [left; auto|right; split; [exact Hf|intros [_ X]; congruence]]. }
  destruct zst; [intros H; inversion H; subst; exact Id|].
  destruct (Nat.eqb (snd r) len); [intros H; inversion H; subst; exact Id|].
  destruct (hresize h false elem r len len) as [[h1 r1]|] eqn:E; [|discriminate].
  intros H; inversion H; subst. cbn [stored]. eapply hresize_blocks; eassumption.
Qed.

Lemma col_push_blocks h zst elem r len x want h' r' : heap_wf h ->
  col_push true h zst elem r len x want = Some (h', r') -> blocks_post zst r r' h h'.
Proof.
  intros WF. unfold col_push. destruct (rebuild h zst elem r len); [|discriminate].
  assert (Id : blocks_post zst r r h h).
  { intros a2 Hf. destruct (allocated zst r) eqn:EA; [|right; split; [exact Hf|intros [X _]; discriminate]].
    destruct (Nat.eq_dec a2 (fst r)); [left; auto|right; split; [exact Hf|intros [_ X]; congruence]]. }
  destruct zst; [intros H; inversion H; subst; exact Id|].
  destruct (Nat.ltb len (snd r)).
  { destruct (hfind (fst r) (hp_blocks h)) as [b|]; [|discriminate]. intros H; inversion H; subst.
    intros a2 Hf. cbn [hp_blocks] in Hf. apply hfind_hset_some in Hf. exact (Id a2 Hf). }
  destruct (hresize h false elem r len (Nat.max want (S len))) as [[h1 r1]|] eqn:E; [|discriminate].
  destruct (hfind (fst r1) (hp_blocks h1)) as [b|]; [|discriminate].
  intros H; inversion H; subst. cbn [stored]. intros a2 Hf. cbn [hp_blocks] in Hf. apply hfind_hset_some in Hf.
  exact (hresize_blocks _ _ _ _ _ _ _ _ WF E a2 Hf).
Qed.
